"""Generators of strategy-run universes shared by the driver-level properties."""
import itertools

from common import rng
from explore import content, small_layouts
from runner import TestRaised

JS_SNIPPETS = [
    b"function foo(a) {}\nfoo(3)\n",
    b"x.y.z = 1;\nq.y.z = 2;\n",
    b"function f(a,b) {\n return a.c + b.c;\n}\nf(1, 2);\n",
    b"{\n\n}\nfoo.bar();\n",
    b"function foo(a) {\n  x = a;\n}\np = foo(1)\nq = foo(2)\nr = foo(3)\n",
    b"a.b.c = 1;\na.b.d = 2;\ne.b.c = 3;\n",
    # an accepted substitution removes the word a later (stale) work item is about: that candidate IS the current best
    b"x.c\na.b.c\n",
]
BRACE_SNIPPETS = [b"{\n\n}\n", b"a\n{\n \n}\nb\n", b"x{\n}y\n{\n}\n",
                  # removing both brace lines and removing the collapsed line give the same file; CRC-32 twins as atoms
                  b"a\na\n{\n}\n", b"plumless\nbuckeroo\n{\n}\n"]

EXCS = [TestRaised, RuntimeError, KeyboardInterrupt, SystemExit, OSError, GeneratorExit]


def lines_tc(data, before=b"", after=b""):
    parts = data.splitlines(keepends=True)
    return (before, parts, [True] * len(parts), after)


def marker_matrix(explore, quick, others=("minimize-around", "minimize-balanced", "minimize-collapse-brace")):
    """marker files: what stands in front of the DDBEGIN line x the line terminator used THROUGHOUT the file (so also on
    the last line before the DDEND line) x a terminator at the very end or none, all five splitters"""
    heads = [b"", b"\xef\xbb\xbf", b"\xff\xfe lead\xe9", b"head "]
    terms = [b"\n", b"\r\n", b"\r", b"\xc2\x85"]
    k1d = 0
    for head in heads:
        for term in terms:
            for last in (term, b""):
                data = head + term.join([b"// DDBEGIN", b"l1 = 'a';", b"KEEP", b"// DDEND", b"tail"]) + last
                for atom in ("line", "char", "symbol", "jsstr", "attrs"):
                    k1d += 1
                    if quick and k1d % 3 and not (atom == "char" and last):
                        continue
                    explore("minimize", {}, None, file0=data, atom=atom, load=True, stream="marker-matrix-" + atom,
                            max_runs=5 if quick else 40)
                    if not quick or k1d % 5 == 0:
                        for strategy in others:
                            explore(strategy, {}, None, file0=data, atom=atom, load=True, stream="marker-matrix-" + atom,
                                    max_runs=3 if quick else 20)


def driver_universe(ex, ck, aborts=False, budget=None):
    """Exercise Lithium.run over all strategies.  aborts=True adds an exception at every test
    index (C02)."""
    quick = ck.tier == "quick"
    r = rng("driver-universe")
    n_small = 3 if quick else 4
    cfgs = [{}, {"repeat": "always"}, {"repeat": "never"}, {"min": 2}, {"max": 1},
            {"first": True, "repeat": "always"}]
    wraps = [(b"", b""), (b"DDBEGIN\n", b"DDEND\n")]

    def explore(strategy, cfg, tc, file0=None, max_runs=400, **kw):
        runs = ex.dfs(strategy, cfg, tc, file0=file0, max_runs=max_runs, **kw)
        if aborts:
            # abort at every test index of every explored verdict sequence (longest runs first)
            seen = set()
            for run in sorted(runs, key=lambda x: -x.tests)[: (6 if quick else 40)]:
                v = "".join(a for _, _, a in run.seen)
                ks = range(1, len(v) + 1) if not quick else sorted({1, 2, 3, len(v)} & set(range(1, len(v) + 1)))
                for k in ks:
                    vv = v[: k - 1] + "R"
                    if vv in seen:
                        continue
                    seen.add(vv)
                    exc = EXCS[(k + len(v)) % len(EXCS)]
                    kw2 = dict(kw)
                    kw2["stream"] = "abort-" + kw.get("stream", "run")
                    ex.one(strategy, cfg, tc, content(tc) if file0 is None else file0, vv,
                           exc_class=exc, **kw2)

    others = ["minimize-around", "minimize-balanced", "minimize-collapse-brace",
              "replace-properties-by-globals", "replace-arguments-by-globals"]
    # 1. minimize (concrete model), every layout, option grid
    for wrap in wraps:
        for tc in small_layouts(n_small, wrap=wrap):
            for cfg in (cfgs if len(tc[1]) == n_small and wrap == wraps[0] else cfgs[:1]):
                explore("minimize", cfg, tc, stream="minimize")
    # 1b. variable-length atoms: different deletions give byte-identical files with different atom boundaries
    for tc in small_layouts(n_small + 1, alphabet=(b"a", b"b", b"ab"), with_nonred=False):
        if len(tc[1]) >= 3:
            explore("minimize", {}, tc, stream="minimize-varlen", max_runs=60 if quick else 400)
    # 1c. files LOADED by the real loaders (the run starts from what load() made of the bytes on disk): every line
    #     terminator style, byte-order mark, bytes that are not UTF-8, with and without markers, all five splitters
    loaded = [b"one\r\ntwo\r\nkeep\r\n", b"a\rb\rc", b"\xef\xbb\xbfx\ny\n", b"p\xff\nq\xc3\n\xa9r\n",
              b"h\r\n// DDBEGIN\r\nl1\r\nl2\rl3\n// DDEND\r\nt\r", b"u\xc2\x85v\xe2\x80\xa8w\x0cx\n",
              b"x = 'a\\r\\n' + \"b\";\r\n", b'<a b="c"\r\n d=e>\r\n',
              # no delimiter / terminator at the very end
              b"var a = 1;\nvar b = 2;\ncrash(a)",
              # braces with blanks inside and between JS strings / attribute values (collapse-brace re-splits the file)
              b'"a{  }b" "c"\n', b"x = '{ }' + {\n\n} + \"{\n}\";\n"]
    for i, data in enumerate(loaded):
        for atom in ("line", "char", "symbol", "jsstr", "attrs"):
            if quick and (i + len(atom)) % 2 and i not in (1, 4, 8) and not (i in (9, 10) and atom in ("jsstr", "attrs")):
                continue
            explore("minimize", {}, None, file0=data, atom=atom, load=True, stream="loaded-" + atom,
                    max_runs=12 if quick else 120)
            # every other strategy on the loaded file too (strategy x atom type x markers), a few verdict sequences each
            if i in (0, 4, 7, 9, 10) or not quick:
                for strategy in others[:3]:
                    explore(strategy, {}, None, file0=data, atom=atom, load=True, stream="loaded-" + atom,
                            replay=False, max_runs=4 if quick else 40)
                for strategy in others[3:]:
                    explore(strategy, {}, None, file0=data, atom=atom, load=True, stream="loaded-" + atom,
                            replay=strategy != "replace-properties-by-globals", max_runs=3 if quick else 30, cap=200)
    marker_matrix(explore, quick, others[:3])
    # 2. the other strategies drive the model DRIVER through their recorded proposals
    brace_alpha = (b"{\n", b"}\n", b"x\n", b"(\n")
    for strategy in others[:2]:
        for tc in small_layouts(n_small + 1, alphabet=brace_alpha[:3], with_nonred=False):
            if len(tc[1]) < 3:
                continue
            explore(strategy, {}, tc, stream=strategy, replay=True, max_runs=60 if quick else 400)
        for tc in small_layouts(n_small, alphabet=brace_alpha[:2]):
            explore(strategy, {"repeat": "always"}, tc, stream=strategy, replay=True,
                    max_runs=40 if quick else 300)
    for tc in small_layouts(4, alphabet=(b"{\n", b"}\n"), with_nonred=False):
        explore("minimize-balanced", {"move": True}, tc, stream="move", replay=False,   # concrete: Model/PairsMove.v
                max_runs=40 if quick else 300)
    # the move with atoms between the brackets (a moved chunk changes places with its neighbours): every verdict sequence
    for parts in ([b"{\n", b"a\n", b"b\n", b"}\n"], [b"(\n", b"x\n", b"y\n", b"z\n", b")\n"], [b"p\n", b"(\n", b"m\n", b")\n"]):
        tcm = (b"", parts, [True] * len(parts), b"")
        for cfg in ({"move": True}, {"move": True, "max": 1, "repeat": "never"}, {"move": True, "repeat": "always"}):
            explore("minimize-balanced", cfg, tcm, stream="move", replay=False, max_runs=140 if quick else 1500)
    for data in BRACE_SNIPPETS:
        for wrap in wraps:
            explore("minimize-collapse-brace", {}, lines_tc(data, *wrap),
                    file0=wrap[0] + data + wrap[1], stream="collapse", replay=True,
                    max_runs=90 if quick else 900)
    for data in JS_SNIPPETS:
        for strategy in others[3:]:
            explore(strategy, {}, lines_tc(data), stream=strategy, replay=strategy != "replace-properties-by-globals",
                    max_runs=(150 if data.count(b"foo(") >= 3 else 60) if quick else 800, cap=300)
    # 2b. deterministic "accept the original and exactly one other file" tests, for every file seen in a
    #     reject-everything run (size-preserving candidates of the move option can restore the original)
    fam = [("minimize-balanced", {"move": True}, [b"{\n", b"a\n", b"}\n", b"b\n", b"b\n"]),
           ("minimize-balanced", {"move": True}, [b"(\n", b"x\n", b")\n", b"y\n"]),
           ("minimize-collapse-brace", {}, [b"{\n", b"\n", b"}\n"]),
           ("minimize", {}, [b"plumless\n", b"buckeroo\n", b"x\n"])]
    for strategy, cfg, parts in fam:
        tc = (b"", parts, [True] * len(parts), b"")
        orig = content(tc)
        base = ex.one(strategy, cfg, tc, orig, "Y", stream="family-base", replay=strategy != "minimize")
        seen = []
        for _, d, _ in base.seen[1:]:
            if d not in seen:
                seen.append(d)
        for c in seen[: (12 if quick else 60)]:
            ex.one(strategy, cfg, tc, orig, (lambda k, data, c=c: "Y" if data in (orig, c) else "N"),
                   stream="family-one-accept", replay=strategy != "minimize")
    # 3. check-only
    for tc in small_layouts(2):
        for v in ("Y", "N"):
            ex.one("check-only", {}, tc, content(tc), v, stream="check-only")
            ex.one("check-only", {}, tc, content(tc), v, stream="check-only-auto-tmp", auto_tmp=True)
    # 3b. no directory chosen in advance: Lithium.run creates ./tmp1 itself (hooks, numbering, copies as before)
    for tc in small_layouts(3, with_nonred=False):
        explore("minimize", {}, tc, stream="minimize-auto-tmp", max_runs=30 if quick else 300, auto_tmp=True)
    # 3c. the test (or the program it starts) CHANGES the testcase file while it runs - appends to it, empties it, deletes
    #     it: what Lithium keeps, logs and restores is the candidate it wrote, never what the test left behind
    for mode in ("append", "truncate", "delete"):
        for strategy, tcs_ in (("minimize", list(small_layouts(3, with_nonred=False))[-2:]),
                               ("minimize-around", [lines_tc(b"(\nx\n)\ny\n")]), ("minimize-balanced", [lines_tc(b"{\na\n}\nb\n")]),
                               ("minimize-collapse-brace", [lines_tc(b"{\n\n}\nz\n")])):
            for tc in tcs_:
                explore(strategy, {}, tc, stream="test-changes-file", replay=strategy not in ("minimize", "minimize-collapse-brace"),
                        max_runs=12 if quick else 120, scribble=mode)
    # 4. seeded random verdicts on larger inputs
    for i in range(30 if quick else 300):
        n = r.randint(5, 40)
        parts = [bytes([97 + r.randrange(3)]) + b"\n" for _ in range(n)]
        flags = [r.random() < 0.85 for _ in range(n)]
        tc = (b"", parts, flags, b"")
        bias = r.choice([0.1, 0.5, 0.9])
        v = "Y" + "".join("Y" if r.random() < bias else "N" for _ in range(600))
        cfg = r.choice(cfgs)
        strategy = r.choice(["minimize", "minimize", "minimize-around", "minimize-balanced"])
        ex.one(strategy, cfg, tc, content(tc), v, stream="random", replay=strategy != "minimize")
        if aborts:
            k = r.randint(1, 30)
            ex.one(strategy, cfg, tc, content(tc), v[:k] + "R", stream="random-abort",
                   exc_class=r.choice(EXCS), replay=strategy != "minimize")


def session_universe(ck, oracle, quick=True, strategies=("minimize", "minimize-around", "minimize-balanced")):
    """consecutive runs on ONE Lithium / testcase / strategy object; `oracle(ck, ctx, run)` is applied to
    every step with ctx describing that step alone"""
    from runner import impl_session
    r = rng("sessions")
    files = [b"// h DDBEGIN\na\nb\nc\nd\n// DDEND f\ntail\n", b"one\ntwo\nthree\nfour\n", b"w\nx\ny\nz\n",
             b"x\n(\n)\n", b"(\nx\n)\n", b"{\na\n}\nb\nb\n", b"a\nb\nc\nd\n"]
    plans = []
    for s1 in ("check-only",) + tuple(strategies):
        for s2 in ("check-only",) + tuple(strategies):
            for v1, v2 in (("Y", "N"), ("YNNY" * 5, "N"), ("Y", "Y" + "NY" * 20), ("N", "Y" * 50),
                           ("YYNR", "YNY" * 10), ("YNNNNNNNNNNNNNNN", "YNNNNNNNNNNNNNNNNNN"),
                           ("YYNY" * 3, "YYR"), ("Y" * 8, "YNR"), ("YNYN" * 4, "YR")):
                plans.append((s1, s2, v1, v2))
    r.shuffle(plans)
    for s1, s2, v1, v2 in plans[: (90 if quick else 900)]:
        f1, f2 = r.choice(files), r.choice(files)
        steps = [{"strategy": s1, "cfg": {}, "atom": "line", "file0": f1, "verdict": v1},
                 {"strategy": s2, "cfg": {}, "atom": "line", "file0": f2, "verdict": v2}]
        runs = impl_session(steps)
        # the temp dir is a log: the numbered files of an earlier run are still there, unchanged, after a later one
        prev = {n: b for n, b, _ in runs[0].temp if n != "original"}
        now = {n: b for n, b, _ in runs[1].temp}
        lost = [n for n, b in prev.items() if now.get(n) != b]
        if lost and "Hang" not in (runs[0].exc, runs[1].exc):
            from explore import replay_doc
            ck.violation(f"second run on the same Lithium object ({s1} then {s2}) overwrote / removed intermediate "
                         f"files of the first run in the shared temp dir: {sorted(lost)}",
                         {"session": [s1, s2, v1, v2, f1.hex(), f2.hex()], "first_run_files": sorted(prev),
                          "second_run_files": sorted(now)})
        offset = 0
        for step, run in zip(steps, runs):
            ck.count("session")
            ck.nontrivial(("session", s1, s2, v1[:4], v2[:4], f1, f2))
            ctx = {"strategy": step["strategy"], "cfg": {}, "tc": run.loaded, "file0": step["file0"],
                   "verdicts": step["verdict"], "clock": [], "atom": "line", "exc_class": "TestRaised", "load": True,
                   "session": [s1, s2, v1, v2, f1.hex(), f2.hex()], "offset": offset}
            oracle(ck, ctx, run)
            offset += sum(1 for _, _, a_ in run.seen if a_ in "YN")     # a test that raised consumed no number
    # the testcase file cannot be OPENED for writing for a while (busy / permission), then works again
    for k in (1, 2, 3):
        for times in (1, 3, 5):
            for exc_name in ("PermissionError", "BlockingIOError"):
                for v in ("YNY" * 10, "YYNY" * 5):
                    f0 = b"// DDBEGIN\nl1\nl2\nl3\nl4\nl5\n// DDEND\n"
                    run = impl_session([{"strategy": "minimize", "cfg": {}, "atom": "line", "file0": f0, "verdict": v,
                                         "open_fault": (k, times, exc_name)}])[0]
                    if run.fault_last:
                        ck.count("open-fault-on-last-write(skipped)")
                        continue
                    ck.count("open-fault")
                    ck.nontrivial(("open-fault", k, times, exc_name, v))
                    ctx = {"strategy": "minimize", "cfg": {}, "tc": run.loaded, "file0": f0, "verdicts": v, "clock": [],
                           "atom": "line", "exc_class": "TestRaised", "load": True, "open_fault": [k, times, exc_name]}
                    oracle(ck, ctx, run)
    # a transient write fault while a candidate is being written: the run fails, the last accepted version is restored
    for k in (1, 2, 3):
        for v in ("YNY" * 10, "YYY", "YNNN"):
            runs = impl_session([{"strategy": "minimize", "cfg": {}, "atom": "line",
                                  "file0": b"// DDBEGIN\nl1\nl2\nl3\nl4\nl5\n// DDEND\n", "verdict": v, "write_fault": k}])
            run = runs[0]
            if run.fault_last:
                ck.count("write-fault-on-last-write(skipped)")
                continue
            ck.count("write-fault")
            ck.nontrivial(("write-fault", k, v))
            ctx = {"strategy": "minimize", "cfg": {}, "tc": run.loaded, "file0": b"// DDBEGIN\nl1\nl2\nl3\nl4\nl5\n// DDEND\n",
                   "verdicts": v, "clock": [], "atom": "line", "exc_class": "TestRaised", "load": True,
                   "write_fault": k}
            oracle(ck, ctx, run)


def reuse_universe(ex, ck, strategies=("minimize", "minimize-around", "minimize-balanced", "minimize-collapse-brace")):
    """the SAME strategy object reduces one file and then another (a library user keeping `lithium.strategy`, a second
    pass): the second run is compared - traces against the model of a fresh strategy, and every oracle of the caller -
    as if the object were new.  Warm-up files smaller / larger than the file of the run, option grid with --min/--max"""
    quick = ck.tier == "quick"
    warm = [(b"a\n", "Y"), (b"a\nb\nc\n", "YN" * 20), (b"{\n}\n" * 20, "Y" + "NY" * 100), (b"x\n" * 70, "Y" * 200)]
    files = [b"".join(b"%d\n" % i for i in range(20)), b"{ a\n(\nx\n)\n} b\ny\n{\n\n}\n", b"a\nb\n"]     # (distinct atoms: block positions are unambiguous)
    cfgs = [{}, {"min": 4}, {"min": 2, "max": 8}, {"repeat": "always"}, {"max": 4, "repeat": "never"}]
    for strategy in strategies:
        for wi, (wdata, wv) in enumerate(warm):
            for fi, data in enumerate(files):
                for ci, cfg in enumerate(cfgs):
                    if quick and (wi + fi + ci + len(strategy)) % 3:
                        continue
                    for v in ("Y" * 400, "Y" + "NY" * 200, "Y" + "N" * 400):
                        ex.one(strategy, cfg, None, data, v, load=True, stream="same-strategy-object",
                               replay=strategy in ("minimize-around", "minimize-balanced"), warmup=(wdata, wv), cap=1500)
