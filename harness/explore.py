"""Shared exploration of strategy runs: small universes with exhaustive DFS over verdict
sequences, seeded random larger cases, model/implementation trace diff, direct oracles."""
import itertools
import math

from common import Check, enc_bools, enc_parts, hx, rng, run_model
from runner import TestRaised, dfs_verdicts, impl_run, model_line

CHUNK_STRATS = ("minimize", "minimize-around", "minimize-balanced")


def content(tc):
    return tc[0] + b"".join(tc[1]) + tc[3]


def tc_len(tc):
    return sum(1 for r in tc[2] if r)


def small_layouts(max_atoms, alphabet=(b"a\n", b"b\n"), with_nonred=True, wrap=(b"", b"")):
    """every (parts, flags) with up to max_atoms parts over the atom alphabet"""
    for n in range(0, max_atoms + 1):
        for parts in itertools.product(alphabet, repeat=n):
            flagsets = itertools.product([True, False], repeat=n) if with_nonred else [(True,) * n]
            for flags in flagsets:
                yield (wrap[0], list(parts), list(flags), wrap[1])


def c09_bound(n):
    if n <= 0:
        return 1
    lg = 0 if n <= 1 else math.ceil(math.log2(n))
    return (n + 1) * (n + lg + 2) + 1


def is_subred(tc0, data):
    """data == before + (parts with some REDUCIBLE parts deleted) + after ?"""
    before, parts, red, after = tc0
    if not (data.startswith(before) and data.endswith(after)
            and len(data) >= len(before) + len(after)):
        return False
    body = data[len(before):len(data) - len(after)] if after else data[len(before):]
    # greedy pass first (exact whenever it succeeds; linear): keep a part if it is next in the body, else drop it
    i, ok = 0, True
    for p, r in zip(parts, red):
        if body.startswith(p, i):
            i += len(p)
        elif not r:
            ok = False
            break
    if ok and i == len(body):
        return True
    pos = {0}
    for p, r in zip(parts, red):
        nxt = set()
        for i in pos:
            if body.startswith(p, i):
                nxt.add(i + len(p))
            if r:
                nxt.add(i)
        pos = nxt
        if not pos:
            return False
    return len(body) in pos


class Explorer:
    def __init__(self, ck: Check, oracles=()):
        self.ck = ck
        self.oracles = list(oracles)
        self.lines, self.impl, self.meta = [], [], []
        self.max_tests_seen = {}

    def one(self, strategy, cfg, tc, file0, verdicts, clock=(), exc_class=TestRaised,
            atom="line", stream="run", load=False, extra="", model=True, cap=5000,
            replay=False, auto_tmp=False, hooks=("init", "cleanup"), log_level=None, **run_kw):
        run = impl_run(strategy, cfg, tc, file0, verdicts, clock=clock, exc_class=exc_class,
                       atom=atom, load=load, cap=cap, auto_tmp=auto_tmp, hooks=hooks, log_level=log_level, **run_kw)
        run.hooks = tuple(hooks)
        ctx = {"strategy": strategy, "cfg": cfg, "tc": tc if not load else run.loaded,
               "file0": file0, "verdicts": verdicts, "clock": list(clock), "atom": atom,
               "exc_class": exc_class.__name__, "load": load}
        for k_, v_ in run_kw.items():
            if v_ is not None:
                ctx[k_] = v_ if not isinstance(v_, tuple) else [x.hex() if isinstance(x, bytes) else x for x in v_]
        self.ck.count(stream)
        key = (strategy, tuple(sorted(cfg.items())), hx(file0), enc_parts(ctx["tc"][1]),
               enc_bools(ctx["tc"][2]), verdicts if isinstance(verdicts, str) else "fn",
               tuple(clock), atom)
        if run.tests > 1:
            self.ck.nontrivial(key)
        if strategy == "minimize-collapse-brace" and not replay and not extra:
            extra = atom + " "
        if run.exc == "Hang":
            self.ck.violation(f"{strategy} did not finish within the watchdog budget (spinning without running a "
                              f"test, or hung) after {run.tests} tests", replay_doc(ctx, run))
            self.hangs = getattr(self, "hangs", 0) + 1
            if self.hangs >= 3:
                # every further hanging run costs a full watchdog period: stop exploring, the verdict is already clear
                raise RuntimeError("three runs hung: exploration stopped (the violations found so far are reported)")
        # (a big run that ended with an exception of the code under test: the direct oracles have it; the extracted model
        # would replay the whole remaining run against default answers, which is quadratic in the number of atoms)
        if model and run.exc not in ("CapHit", "Hang") and not (run.exc not in (None, "test") and tc_len(ctx["tc"]) > 300):
            used = "".join(a for _, _, a in run.seen)
            self.lines.append(model_line(strategy, cfg, ctx["tc"], file0, used, clock, extra=extra,
                                         steps=run.steps if replay else None))
            self.impl.append(run.trace)
            self.meta.append((stream, ctx))
        for orc in self.oracles:
            orc(self.ck, ctx, run)
        return run

    def dfs(self, strategy, cfg, tc, file0=None, max_runs=3000, **kw):
        file0 = content(tc) if file0 is None else file0
        runs = []

        def go(prefix):
            r = self.one(strategy, cfg, tc, file0, prefix, **kw)
            runs.append(r)
            return r.tests

        n = 0
        for _ in dfs_verdicts(go, max_runs=max_runs):
            n += 1
        return runs

    def diff(self):
        model = run_model(self.lines)
        for line, m, i, (stream, ctx) in zip(self.lines, model, self.impl, self.meta):
            if m != i:
                self.ck.mismatch(stream, {"line": line, "ctx": {k: (v if not isinstance(v, (bytes, tuple))
                                                                  else repr(v)) for k, v in ctx.items()}},
                                 m, i)
        if self.lines:
            self.ck.sample({"case": self.lines[len(self.lines) // 2],
                            "trace": self.impl[len(self.lines) // 2]})
        self.ck.cov["traces_validated_against_impl"] = len(self.lines)
        return model


def replay_doc(ctx, run, **more):
    d = {"strategy": ctx["strategy"], "cfg": ctx["cfg"], "atom": ctx["atom"],
         "before": ctx["tc"][0].hex(), "parts": [p.hex() for p in ctx["tc"][1]],
         "reducible": ctx["tc"][2], "after": ctx["tc"][3].hex(), "file0": ctx["file0"].hex(),
         "verdicts": ctx["verdicts"] if isinstance(ctx["verdicts"], str) else
         "".join(a for _, _, a in run.seen),
         "clock": ctx["clock"], "exc_class": ctx["exc_class"], "load": ctx["load"],
         "impl_trace": run.trace}
    d.update(more)
    return d


# ------------------------------------------------------------------ direct oracles
def last_accepted(ctx, run):
    last = ctx["file0"]
    for _, data, a in run.seen:
        if a == "Y":
            last = data
    return last


def oracle_c01(ck, ctx, run):
    if getattr(run, "stale", None):
        k, got, exp = run.stale[0]
        ck.violation(f"{ctx['strategy']}: test {k} did not see the candidate proposed for it: the file had {got} bytes, the "
                     f"candidate has {exp} (a verdict about another file than the one that may be kept)",
                     replay_doc(ctx, run, test=k))
        return
    if run.exc is not None:
        return
    want = last_accepted(ctx, run)
    if run.final != want:
        ck.violation(f"final file {run.final!r} is not the last accepted version {want!r} "
                     f"({ctx['strategy']}, verdicts {''.join(a for _, _, a in run.seen)})",
                     replay_doc(ctx, run, want=want.hex(), got=run.final.hex()))


def oracle_c02(ck, ctx, run):
    if run.exc is None or run.exc == "CapHit":
        return
    want = last_accepted(ctx, run)
    ev = run.events
    ti = [i for i, e in enumerate(ev) if e.startswith("T ")]
    hk = getattr(run, "hooks", ("init", "cleanup"))
    ok_hooks = (ev.count("I") == (1 if "init" in hk else 0) and ev.count("X") == (1 if "cleanup" in hk else 0)
                and (not ti or (("init" not in hk or ev.index("I") < ti[0]) and ("cleanup" not in hk or ev.index("X") > ti[-1]))))
    if run.final != want or not ok_hooks:
        ck.violation(f"after an abort ({run.exc}) file={run.final!r} want={want!r} hooks_ok={ok_hooks}",
                     replay_doc(ctx, run, want=want.hex(), got=run.final.hex()))
    # kill half: the temp dir at the moment of the last test
    inter = [(int(n.split("-")[0]), b) for n, b, _ in run.temp if n.endswith("-interesting")]
    best = max(inter)[1] if inter else dict((n, b) for n, b, _ in run.temp).get("original")
    if best != want:
        ck.violation(f"temp dir's newest interesting copy {best!r} differs from the last accepted "
                     f"version {want!r} at the abort point",
                     replay_doc(ctx, run, want=want.hex()))


def oracle_c11(ck, ctx, run):
    if run.exc is None and ctx["strategy"] != "check-only" and tc_len(ctx["tc"]) == 0 and (
            run.seen or run.rc != 0 or run.writes):
        ck.violation(f"nothing to reduce (no reducible atom) but {run.tests} test(s) ran, status {run.rc}, "
                     f"{run.writes} write(s); expected no test and status 0", replay_doc(ctx, run))
        return
    if run.exc not in (None, "test", "CapHit", "Hang") and not any(a == "R" for _, _, a in run.seen):
        # the run ended with an exception although no test raised: there is no exit status at all
        # known finding: the experimental move trips its own `assert ... chunk_mid_start ...` right after a move was accepted
        acc = [d for _, d, a in run.seen if a == "Y"]
        moved = len(acc) >= 2 and acc[-1] != acc[-2] and sorted(acc[-1].splitlines(True)) == sorted(acc[-2].splitlines(True))
        key = "move-assertion-error" if (ctx["strategy"] == "minimize-balanced" and ctx["cfg"].get("move")
                                         and run.exc == "AssertionError" and moved and run.seen[-1][2] == "Y") else None
        ck.violation(f"{ctx['strategy']}: the run ended with {run.exc} instead of an exit status (tests={run.tests}, "
                     f"a later candidate accepted = {any(a == 'Y' for _, _, a in run.seen[1:])})", replay_doc(ctx, run), key=key)
        return
    if run.exc is not None or not run.seen:
        if run.exc is None and not run.seen and ctx["strategy"] != "check-only":
            # nothing to reduce: no test, rc 0
            if run.rc != 0 or run.writes:
                ck.violation("nothing to reduce but rc/writes wrong", replay_doc(ctx, run))
        return
    first = run.seen[0][2]
    later_yes = any(a == "Y" for _, _, a in run.seen[1:])
    if ctx["strategy"] == "check-only":
        if run.tests != 1 or run.writes or (run.rc == 0) != (first == "Y"):
            ck.violation(f"check-only: tests={run.tests} writes={run.writes} rc={run.rc} first={first}",
                         replay_doc(ctx, run), key="check-only-writes" if run.writes and run.tests == 1
                         and (run.rc == 0) == (first == "Y") else None)
        return
    if first == "N":
        if run.tests != 1 or run.writes or run.rc == 0:
            ck.violation(f"rejected original: tests={run.tests} writes={run.writes} rc={run.rc}",
                         replay_doc(ctx, run))
    else:
        if (run.rc == 0) != later_yes:
            ck.violation(f"exit status {run.rc} but a later candidate accepted = {later_yes}",
                         replay_doc(ctx, run))


def oracle_c12(ck, ctx, run):
    if ctx["strategy"] == "check-only" or run.exc == "CapHit":
        return
    want = {"original": content(ctx["tc"])}
    for k, data, a in run.seen:
        if a in "YN":
            want[f"{k}-{'interesting' if a == 'Y' else 'boring'}"] = data
    got = {n: b for n, b, _ in run.temp}
    prefixes_ok = all(e.split()[2] == e.split()[1] for e in run.events if e.startswith("T "))
    if got != want or not prefixes_ok or run.test_count != run.tests:
        ck.violation(f"temp dir is not the log of the tests: got {sorted(got)} want {sorted(want)} "
                     f"prefixes_ok={prefixes_ok} test_count={run.test_count}/{run.tests}",
                     replay_doc(ctx, run))
    datas = [d for _, d, _ in run.seen]
    later = datas[1:]
    if len(set(later)) != len(later):
        ck.violation("two tests of one run saw byte-identical files", replay_doc(ctx, run))
    elif datas and later.count(datas[0]) > 1:
        ck.violation("the original was presented more than twice", replay_doc(ctx, run))


def oracle_c04(ck, ctx, run):
    if ctx["strategy"] not in CHUNK_STRATS or ctx["cfg"].get("move"):
        return
    if ctx["load"] and content(ctx["tc"]) != ctx["file0"]:
        ck.violation(f"the loaded testcase {content(ctx['tc'])!r} is not the original file {ctx['file0']!r}: every "
                     f"candidate is built from altered bytes", replay_doc(ctx, run))
        return
    for k, data, a in run.seen:
        if not is_subred(ctx["tc"], data):
            ck.violation(f"test {k} saw {data!r}, which is not the original with reducible atoms deleted",
                         replay_doc(ctx, run, test=k))
            return
    if run.exc is None and not is_subred(ctx["tc"], run.final) and run.seen:
        ck.violation(f"final file {run.final!r} is not the original with reducible atoms deleted",
                     replay_doc(ctx, run))


def oracle_c09(ck, ctx, run):
    n = tc_len(ctx["tc"])
    if ctx["strategy"] in ("minimize", "minimize-around", "minimize-balanced",
                           "minimize-collapse-brace") and not ctx["cfg"].get("move"):
        b = c09_bound(n)
        if run.tests > b or run.exc not in (None, "test", "Hang"):
            ck.violation(f"{ctx['strategy']} ran {run.tests} tests on n={n} atoms (bound {b}), exc={run.exc}",
                         replay_doc(ctx, run, bound=b))


# ------------------------------------------------------------------ C14 / C03 oracles
def spec_rm_tc(tc, lo, hi):
    parts, red, r = [], [], 0
    for p, f in zip(tc[1], tc[2]):
        if f:
            if not lo <= r < hi:
                parts.append(p)
                red.append(True)
            r += 1
        else:
            parts.append(p)
            red.append(False)
    return (tc[0], parts, red, tc[3])


def find_block(best, prop):
    """(s, e) such that prop == best with reducible ranks [s,e) deleted, else None"""
    n = tc_len(best)
    k = n - tc_len(prop)
    if k <= 0 or len(prop[1]) != len(best[1]) - k:
        return None
    for s in range(0, n - k + 1):
        if spec_rm_tc(best, s, s + k)[1:3] == (prop[1], prop[2]):
            return (s, s + k)
    return None


def is_pow2(x):
    return x >= 1 and x & (x - 1) == 0


def lpo2st(n):
    r = 1 << max(n.bit_length() - 1, 0)
    if r == n and n > 1:
        r >>= 1
    return r


def proposals_with_outcome(ctx, run):
    """replay the recorded proposals: yields (best_before, proposal, outcome) with outcome in
    'Y','N','S'(kipped),'R'"""
    tried = set()
    best = ctx["tc"]
    answers = [a for _, _, a in run.seen][1:]
    ai = 0
    out = []
    for kind, v in run.steps:
        if kind != "P":
            continue
        c = content(v)
        if c in tried:
            out.append((best, v, "S"))
            continue
        tried.add(c)
        if ai >= len(answers):
            break
        a = answers[ai]
        ai += 1
        out.append((best, v, a))
        if a == "Y":
            best = v
    return out


def oracle_c14_deadline(ck, ctx, run):
    """minimize, minimize-around, minimize-balanced: once a clock reading lies beyond start + limit no test is
    started; a limit that is set (0 included) is never ignored"""
    cfg = ctx["cfg"]
    if cfg.get("limit") is None or not run.seen or run.seen[0][2] != "Y" or run.timeline is None:
        return
    ks = [v for kind, v in run.timeline if kind == "K"]
    tests = [v for kind, v in run.timeline if kind != "K"]
    if not ks:
        if len(tests) > 1:
            ck.violation(f"{ctx['strategy']} with a time limit of {cfg['limit']} s never looked at the clock but ran "
                         f"{len(tests) - 1} candidate test(s): the limit is not in force",
                         replay_doc(ctx, run, cfg=cfg))
        return
    deadline = ks[0] + cfg["limit"]
    expired, first = False, True
    for kind, v in run.timeline:
        if kind == "K":
            if first:
                first = False
                continue
            if v > deadline:
                expired = True
        elif expired:
            ck.violation(f"{ctx['strategy']}: test {v} started after a clock reading beyond the deadline {deadline}",
                         replay_doc(ctx, run, cfg=cfg))
            return


def oracle_c14(ck, ctx, run):
    oracle_c14_deadline(ck, ctx, run)
    if ctx["strategy"] != "minimize" or not run.seen or run.seen[0][2] != "Y":
        return
    cfg = ctx["cfg"]
    cmin, cmax, rep = cfg.get("min", 1), cfg.get("max", 2 ** 30), cfg.get("repeat", "last")
    n0 = tc_len(ctx["tc"])
    eff_max = min(cmax, lpo2st(n0))
    min_chunk = min(eff_max, max(cmin, 1))
    props = proposals_with_outcome(ctx, run)
    prev_size, prev_e, sweep_size, sweep_removed, last_sweep = None, None, None, False, None

    def bad(msg):
        ck.violation(f"minimize options not honoured: {msg}", replay_doc(ctx, run, cfg=cfg))

    for best, prop, outcome in props:
        blk = find_block(best, prop)
        ln = tc_len(best)
        if blk is None:
            return bad(f"candidate is not the current best minus one contiguous block")
        s, e = blk
        size = e - s
        remainder = (s == 0 and e == ln)
        if not remainder and not is_pow2(size):
            return bad(f"block [{s},{e}) of {ln} has size {size}, not a power of two")
        if size > eff_max and not (remainder and False):
            return bad(f"block size {size} exceeds the effective maximum {eff_max}")
        if prev_size is not None and not remainder and size > prev_size:
            return bad(f"block size grew from {prev_size} to {size}")
        if cmin <= cmax and size < cmin and ln > cmin:
            return bad(f"block size {size} below --min {cmin} while {ln} atoms remain")
        new_sweep = prev_e is None or e > prev_e
        if new_sweep:
            if sweep_size is not None and not remainder and size == sweep_size:
                if not sweep_removed:
                    return bad(f"size {size} swept again although the previous sweep removed nothing")
                if rep == "never":
                    return bad("repeat=never but a size was swept again")
                if rep == "last" and size > min_chunk:
                    return bad(f"repeat=last but size {size} (smallest is {min_chunk}) was swept again")
            sweep_removed = bool(cfg.get("first")) if prev_e is None else False
            sweep_size = size if not remainder else sweep_size
        if outcome == "Y":
            sweep_removed = True
        if not remainder:
            prev_size = size
        prev_e = e if outcome != "Y" else s


def make_oracle_c03(f_of):
    """1-minimality for a deterministic test f (f_of(ctx) -> callable(bytes)->bool)"""
    def orc(ck, ctx, run):
        if (ctx["strategy"] != "minimize" or run.exc is not None or not run.seen
                or run.seen[0][2] != "Y"):
            return
        cfg = ctx["cfg"]
        if cfg.get("min", 1) != 1 or cfg.get("repeat", "last") == "never" or cfg.get("limit") is not None:
            return
        f = f_of(ctx, run)
        if f is None:
            return
        final = run.last if run.last is not None else ctx["tc"]
        if content(final) != run.final:
            ck.violation("final file is not the last accepted testcase", replay_doc(ctx, run))
            return
        n = tc_len(final)
        for i in range(n):
            c = content(spec_rm_tc(final, i, i + 1))
            if f(c) is not False:
                ck.violation(f"not 1-minimal: deleting atom {i} of the final file gives {c!r}, which the "
                             f"(deterministic) test accepts", replay_doc(ctx, run, atom_index=i))
                return
    return orc


def table_f(ctx, run):
    """the deterministic test induced by the verdict sequence of a run: files never asked are
    uninteresting"""
    table = {}
    for _, data, a in run.seen:
        if table.setdefault(data, a == "Y") != (a == "Y"):
            return None  # not a deterministic test
    return lambda c: table.get(c)  # None = never asked: some deterministic test accepts it


# ------------------------------------------------------------------ C13 oracles
def rm_atoms(tc, idxs):
    """delete the reducible atoms with the given ranks"""
    parts, red, r = [], [], 0
    for p, f in zip(tc[1], tc[2]):
        if f:
            if r not in idxs:
                parts.append(p)
                red.append(True)
            r += 1
        else:
            parts.append(p)
            red.append(False)
    return (tc[0], parts, red, tc[3])


def bracket_diff(p):
    return (p.count(b"{") - p.count(b"}"), p.count(b"[") - p.count(b"]"), p.count(b"(") - p.count(b")"))


def partner(parts, i):
    n = bracket_diff(parts[i])
    if n == (0, 0, 0):
        return None
    for j in range(i + 1, len(parts)):
        d = bracket_diff(parts[j])
        n = tuple(a + b for a, b in zip(n, d))
        if min(n) < 0:
            return None
        if n == (0, 0, 0):
            return j
    return None


def make_oracle_c13(f_of):
    def orc(ck, ctx, run):
        st = ctx["strategy"]
        if st not in ("minimize-around", "minimize-balanced") or run.exc is not None or not run.seen \
                or run.seen[0][2] != "Y":
            return
        cfg = ctx["cfg"]
        if cfg.get("min", 1) != 1 or cfg.get("repeat", "last") == "never":
            return
        if cfg.get("limit") is not None:
            # a limit that was never exceeded by any reading of the (scripted) clock changes nothing
            ks = [v for kind, v in (getattr(run, "timeline", None) or []) if kind == "K"]
            if any(v > ks[0] + cfg["limit"] for v in ks[1:]):
                return
        f = f_of(ctx, run)
        if f is None:
            return
        final = run.last if run.last is not None else ctx["tc"]
        n = tc_len(final)
        if st == "minimize-around":
            for i in range(1, n - 1):
                c = content(rm_atoms(final, {i - 1, i + 1}))
                if f(c) is not False:
                    ck.violation(f"minimize-around stopped although deleting the neighbours of atom {i} "
                                 f"({c!r}) is not known to be rejected", replay_doc(ctx, run, atom_index=i))
                    return
        else:
            if not all(final[2]) or n < 2:
                return
            for i in range(n):
                if bracket_diff(final[1][i]) == (0, 0, 0):
                    c = content(rm_atoms(final, {i}))
                    what = f"balanced atom {i}"
                else:
                    j = partner(final[1], i)
                    if j is None:
                        continue
                    c = content(rm_atoms(final, {i, j}))
                    what = f"atom {i} with its partner {j}"
                if f(c) is not False:
                    ck.violation(f"minimize-balanced stopped although deleting {what} ({c!r}) is not known "
                                 f"to be rejected", replay_doc(ctx, run, atom_index=i))
                    return
    return orc


# ------------------------------------------------------------------ C05 oracle
def make_oracle_c05():
    from props.c08 import reference as marker_reference

    def orc(ck, ctx, run):
        ref = marker_reference(ctx["file0"])
        if ref is None or not ref[0]:
            return
        P, region, S = ref
        files = [(f"test {k}", d) for k, d, _ in run.seen]
        if run.exc is None:
            files.append(("final file", run.final))
        for what, d in files:
            bad = None
            if not d.startswith(P):
                bad = "does not begin with the original bytes through the DDBEGIN line"
            elif not d.endswith(S) or len(d) < len(P) + len(S):
                bad = "does not end with the original bytes from the DDEND line on"
            elif ctx["atom"] == "char" and region and d[len(d) - len(S) - 1:len(d) - len(S)] != region[-1:]:
                bad = "char mode: the byte before the DDEND line changed"
            if bad:
                key = None
                if ctx["strategy"] == "minimize-collapse-brace" and ctx["atom"] != "line":
                    key = "collapse-reload-not-line"
                ck.violation(f"{ctx['strategy']}/{ctx['atom']}: {what} {d!r} {bad} (P={P!r}, S={S!r})",
                             replay_doc(ctx, run, what=what), key=key)
                return
    return orc


def oracle_session(ck, ctx, run):
    """per step of a session (objects re-used across runs) and for write faults: the file ends as the last
    accepted version of THAT run; a rejected original / check-only run writes nothing"""
    if run.exc in ("CapHit", "Hang"):
        return
    want = last_accepted(ctx, run)
    if run.final != want:
        ck.violation(f"{ctx['strategy']} on a re-used object / after a fault: final file {run.final!r} is not the last "
                     f"accepted version {want!r} (exc={run.exc})", replay_doc(ctx, run, session=ctx.get("session"),
                                                                            write_fault=ctx.get("write_fault")))
        return
    if run.exc is None and run.seen:
        first = run.seen[0][2]
        if (first == "N" or ctx["strategy"] == "check-only") and run.writes:
            ck.violation(f"{ctx['strategy']} on a re-used object: {run.writes} write(s) to the testcase file although "
                         f"the original was rejected / check-only", replay_doc(ctx, run, session=ctx.get("session")))
            return
    if run.exc is not None:
        inter = [(int(n.split("-")[0]), b) for n, b, _ in run.temp if n.endswith("-interesting")]
        if inter and any(a == "Y" for _, _, a in run.seen) and max(inter)[1] != want:
            ck.violation(f"after an abort on a re-used object the highest-numbered interesting copy {max(inter)[1]!r} "
                         f"is not the last accepted version {want!r}", replay_doc(ctx, run, session=ctx.get("session")))
