"""Real `python -m lithium` child processes (whole program: main(), process_args, run) with a scripted test
module that logs what it saw, can answer from a verdict string, and can SIGKILL the process at a given test."""
import json
import os
import shutil
import subprocess
import sys
import tempfile

from runner import SCRATCH_ROOT

TEST_MODULE = r'''
import json, os, signal
HERE = os.path.dirname(os.path.abspath(__file__))
CFG = json.load(open(os.path.join(HERE, "cfg.json")))
STATE = {"k": 0}
def _log(rec):
    with open(os.path.join(HERE, "log.jsonl"), "a") as f:
        f.write(json.dumps(rec) + "\n")
        f.flush()
        os.fsync(f.fileno())
def init(args):
    _log({"ev": "init"})
def cleanup(args):
    _log({"ev": "cleanup"})
def interesting(args, prefix):
    STATE["k"] += 1
    k = STATE["k"]
    data = open(args[-1], "rb").read()
    v = CFG["verdicts"]
    ans = v[k - 1] if k <= len(v) else "N"
    _log({"ev": "test", "k": k, "data": data.hex(), "ans": ans, "prefix": prefix, "args": args})
    if ans == "K":
        os.kill(os.getpid(), signal.SIGKILL)
    if ans == "R":
        raise RuntimeError("scripted failure at test %d" % k)
    return ans == "Y"
'''


def run_lithium(data, verdicts, options=(), timeout=120, filename="t.txt"):
    """returns dict(rc, log (list of records), final (bytes), temp {name: bytes}, stdout)"""
    src = os.path.join(os.environ.get("VERIF_REPO", "/repo"), "src")
    work = tempfile.mkdtemp(prefix="lvp-", dir=SCRATCH_ROOT)
    try:
        with open(os.path.join(work, "scripted.py"), "w") as f:
            f.write(TEST_MODULE)
        with open(os.path.join(work, "cfg.json"), "w") as f:
            json.dump({"verdicts": verdicts}, f)
        path = os.path.join(work, filename)
        with open(path, "wb") as f:
            f.write(data)
        os.mkdir(os.path.join(work, "td"))      # for runs that pass --tempdir td
        env = dict(os.environ, PYTHONPATH=src, PYTHONHASHSEED="0")
        p = subprocess.run(["timeout", "-s", "KILL", str(timeout), sys.executable, "-m", "lithium"]
                           + list(options) + ["scripted.py", path],
                           cwd=work, env=env, capture_output=True, check=False)
        log = []
        lp = os.path.join(work, "log.jsonl")
        if os.path.exists(lp):
            log = [json.loads(x) for x in open(lp) if x.strip()]
        temp = {}
        for d in sorted(os.listdir(work)):
            full = os.path.join(work, d)
            if d.startswith("tmp") and os.path.isdir(full):
                for fn in os.listdir(full):
                    temp[os.path.splitext(fn)[0]] = open(os.path.join(full, fn), "rb").read()
        return {"rc": p.returncode, "log": log, "final": open(path, "rb").read(), "temp": temp,
                "stderr": p.stderr[-400:].decode("utf-8", "replace"),
                "listing": sorted(os.listdir(work))}
    finally:
        shutil.rmtree(work, ignore_errors=True)
