"""Render case lines of the model driver protocol as Coq terms, for the extraction cross-check."""
import os
import re
import subprocess

from common import COQ, QFLAGS, VERIF, dec_bools, dec_parts, unhx


def lb(b):
    return "[" + "; ".join(str(x) for x in b) + "]%N"


def lparts(ps):
    return "[" + "; ".join(lb(p) for p in ps) + "]"


def lbools(bs):
    return "[" + "; ".join("true" if x else "false" for x in bs) + "]"


def ltc(b, p, r, a):
    return (f"{{| tc_before := {lb(unhx(b))}; tc_parts := {lparts(dec_parts(p))}; "
            f"tc_red := {lbools(dec_bools(r))}; tc_after := {lb(unhx(a))} |}}")


def z(s):
    return f"({int(s)})%Z"


def zopt(s):
    return "None" if s == "N" else f"(Some {z(s)})"


def render(case, out):
    """(case line, model driver output) -> Coq boolean expression, or None if not supported"""
    t = case.split()
    o = out.split()
    if t[0] == "rmslice" and len(t) == 7:
        lhs = f"rmslice {ltc(*t[1:5])} {z(t[5])} {z(t[6])}"
        if o[0] == "ok":
            return f"res_eqb tcase_eqb ({lhs}) (Ok {ltc(*o[1:5])})"
        return f"res_eqb tcase_eqb ({lhs}) (Err {o[1]})"
    if t[0] == "xlat" and len(t) == 7:
        lhs = f"slice_xlat {ltc(*t[1:5])} {zopt(t[5])} {zopt(t[6])}"
        if o[0] == "ok":
            return f"res_eqb zpair_eqb ({lhs}) (Ok ({z(o[1])}, {z(o[2])}))"
        return f"res_eqb zpair_eqb ({lhs}) (Err {o[1]})"
    if t[0] == "load" and len(t) == 3 and ":" not in t[1]:
        fn = {"line": "load_line", "char": "load_char", "jsstr": "load_jsstr", "attrs": "load_attrs",
              "symbol": "(load_symbol DEFAULT_CUT_BEFORE DEFAULT_CUT_AFTER)"}[t[1]]
        lhs = f"{fn} {lb(unhx(t[2]))}"
        if o[0] == "ok":
            return f"res_eqb tcase_eqb ({lhs}) (Ok {ltc(*o[1:5])})"
        return f"res_eqb tcase_eqb ({lhs}) (Err {o[1]})"
    if t[0] == "classify" and len(t) == 3:
        st = o[0]
        return (f"status_eqb (classify {'true' if t[1] == 'T' else 'false'} {z(t[2])}) {st}")
    if t[0] == "ctd" and len(t) == 3:
        fs = "[" + "; ".join(z(x) for x in t[1].split(",")) + "]" if t[1] != "-" else "[]"
        if t[2] == "-":
            fault = "(fun _ => None)"
        else:
            i, e = t[2].split(":")
            fault = f"(fun j => if Z.eqb j {z(i)} then Some {e} else None)"
        if o[0] == "dir":
            want = f"(Some {z(o[1][3:])}, None)"
        elif o[0] == "err":
            want = f"(None, Some {o[1]})"
        else:
            return None
        return f"ctd_eqb (create_temp_dir 100 {fault} {fs}) {want}"
    if t[0] == "collapse" and len(t) == 2 and o[0] == "ok":
        return f"bytes_eqb (collapse {lb(unhx(t[1]))}) {lb(unhx(o[1]))}"
    return None


HEADER = """From Coq Require Import ZArith NArith List Bool.
From Lithium Require Import PyBase TcRecord Util Testcase PyLines Markers Splitters SplitJs SplitAttrs
  StatusTypes Status TempDir Collapse XCheck.
Import ListNotations.
Definition results : list bool := [
"""


def xcheck(ck, cases, outs, sample=120, tag=None):
    """Evaluate a sample of (case, model output) pairs inside Coq and compare (extraction + driver
    cross-check). Records a mismatch on the check if Coq disagrees with the extracted model."""
    import hashlib
    pairs = []
    step = max(1, len(cases) // sample)
    for c, o in list(zip(cases, outs))[::step]:
        if len(c) > 6000:
            continue
        e = render(c, o)
        if e is not None:
            pairs.append((c, o, e))
    if not pairs:
        return 0
    d = os.path.join(VERIF, "build", "xcheck")
    os.makedirs(d, exist_ok=True)
    name = f"Xc_{tag or ck.pid}"
    path = os.path.join(d, name + ".v")
    with open(path, "w") as f:
        f.write(HEADER + ";\n".join("  " + e for _, _, e in pairs) + "\n].\n"
                "Eval vm_compute in results.\n")
    r = subprocess.run(["coqc"] + QFLAGS + ["-Q", d, "XCheck", path], cwd=COQ, capture_output=True, text=True,
                       timeout=900, check=False)
    vals = re.findall(r"\b(true|false)\b", r.stdout.split("=", 1)[1] if "=" in r.stdout else "")
    if r.returncode != 0 or len(vals) != len(pairs):
        ck.mismatch("extraction-crosscheck", {"file": path}, r.stdout[-300:], r.stderr[-300:])
        return 0
    for (c, o, _), v in zip(pairs, vals):
        if v != "true":
            ck.mismatch("extraction-crosscheck", c, "vm_compute disagrees", o)
    ck.cov["extraction_crosscheck_cases"] = ck.cov.get("extraction_crosscheck_cases", 0) + len(pairs)
    return len(pairs)
