"""Run the real Testcase classes' load()/dump() on byte strings (in memory through a shim for
`open`, and through real files for a sample) and render the result like the model driver."""
import io
import itertools
import os
import tempfile

from common import enc_bools, enc_parts, hx
from runner import ATOMS, SCRATCH_ROOT


class _Mem:
    def __init__(self):
        self.files = {}

    def open(self, path, mode="r", *a, **kw):
        path = str(path)
        if "b" not in mode:
            raise AssertionError("text-mode open of the testcase: " + mode)
        if "r" in mode:
            return io.BytesIO(self.files[path])
        mem = self

        class W(io.BytesIO):
            def close(self):
                mem.files[path] = self.getvalue()
                super().close()
        return W()


MEM = _Mem()


def make(atom, cut_before=None, cut_after=None):
    import lithium.testcases as tcs
    t = getattr(tcs, ATOMS[atom])()
    if atom == "symbol" and cut_before is not None:
        t.set_cut_chars(cut_before, cut_after)
    return t


def impl_load(atom, data, cut_before=None, cut_after=None, real_file=False):
    """returns (line, testcase or None, dumped bytes or None)"""
    import lithium.testcases as tcs
    from lithium.util import LithiumError
    try:
        t = make(atom, cut_before, cut_after)
    except Exception as e:  # pylint: disable=broad-except
        return "err config-" + type(e).__name__, None, None
    if real_file:
        d = tempfile.mkdtemp(prefix="lv-", dir=SCRATCH_ROOT)
        path = os.path.join(d, "t.txt")
        with open(path, "wb") as f:
            f.write(data)
        try:
            try:
                t.load(path)
            except LithiumError:
                return "err LithiumError", None, None
            except Exception as e:  # pylint: disable=broad-except
                return "err " + type(e).__name__, None, None
            t.dump()
            with open(path, "rb") as f:
                out = f.read()
        finally:
            import shutil
            shutil.rmtree(d, ignore_errors=True)
    else:
        MEM.files["/mem/t.txt"] = data
        tcs.open = MEM.open
        try:
            try:
                t.load("/mem/t.txt")
            except LithiumError:
                return "err LithiumError", None, None
            except Exception as e:  # pylint: disable=broad-except
                return "err " + type(e).__name__, None, None
            try:
                t.dump()
                out = MEM.files["/mem/t.txt"]
            except Exception as e:  # pylint: disable=broad-except
                out = b"<dump raised %s>" % type(e).__name__.encode()
        finally:
            del tcs.open
    line = f"ok {hx(t.before)} {enc_parts(t.parts)} {enc_bools(t.reducible)} {hx(t.after)}"
    return line, t, out


def model_load_line(atom, data, cut_before=None, cut_after=None):
    a = atom if cut_before is None else f"{atom}:{hx(cut_before)}:{hx(cut_after)}"
    return f"load {a} {hx(data)}"


def strings_upto(alphabet, maxlen, minlen=0):
    for n in range(minlen, maxlen + 1):
        for tup in itertools.product(alphabet, repeat=n):
            yield b"".join(tup)


LINE_ALPHABET = [b"\n", b"\r", b"\x0b", b"\x0c", b"\x1c", b"\x85", b"\xc2", b"\xe2", b"\x80",
                 b"\xa8", b"\xff", b"D", b"x", b"DDBEGIN", b"DDEND", b"\xef\xbb\xbf"]
LINE_ALPHABET_SMALL = [b"\n", b"\r", b"\x85", b"\xc2", b"x", b"DDBEGIN", b"DDEND", b"\xe2\x80\xa9"]
BOM = b"\xef\xbb\xbf"
SYMBOL_ALPHABET = [b"]", b"}", b":", b"?", b"=", b";", b"{", b"[", b"\n", b"a", b"\r"]
JS_ALPHABET = [b"'", b'"', b"\\", b"x", b"u", b"{", b"}", b"0", b"a", b"\n"]
ATTR_ALPHABET = [b"<", b">", b"=", b" ", b"\n", b"a", b"-", b":", b'"', b"'", b"/"]


def oracle_roundtrip(ck, atom, data, line, t, out, extra=None):
    """C06 direct oracle on the implementation"""
    if t is None:
        return
    bad = None
    if out != data:
        bad = f"load+dump changed the file: {data!r} -> {out!r}"
    elif any(len(p) == 0 for p in t.parts):
        bad = f"empty atom in {t.parts!r}"
    elif len(t.parts) != len(t.reducible):
        bad = f"{len(t.parts)} parts but {len(t.reducible)} flags"
    elif t.before + b"".join(t.parts) + t.after != data:
        bad = "before + atoms + after != file"
    if bad:
        key = None
        if atom == "char" and b"DDBEGIN" in data and out != data:
            key = "char-ddend-newline"
        ck.violation(f"[{atom}] {bad}", {"atom": atom, "data": data.hex(), "got": line,
                                         "dumped": None if out is None else out.hex(),
                                         **(extra or {})}, key=key)
