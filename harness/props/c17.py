"""C17 - command line: test arguments are isolated; the test name resolves predictably."""
import itertools
import json
import os
import shutil
import subprocess
import sys
import tempfile
from concurrent.futures import ThreadPoolExecutor

from common import Check, rng, run_model
from runner import SCRATCH_ROOT

RULE = ("tie X through the real Lithium.process_args / rel_or_abs_import in fresh child processes: every "
        "prefix of <= 2 (thorough 3) Lithium options from the full option list in both spellings "
        "(--opt value, --opt=value) x every suffix of <= 2 (3) tokens from {-c, -j, --strategy=check-only, "
        "--min, 4, --testcase, x, --char, file} x three ways of naming the test (path, module in the "
        "current directory, built-in) x shadowing names; compared with the model: strategy class, atom "
        "class, minimize_* fields, temp dir, condition args, file loaded, origin of the imported module, "
        "sys.path before/after. non-trivial = at least one Lithium option or option-like test argument; "
        "distinct = distinct command line")

CHILD = r'''
import json, os, sys, logging
sys.path.insert(0, %(src)r)
logging.disable(logging.CRITICAL)
os.chdir(sys.argv[1])
from lithium.reducer import Lithium
cases = json.load(open(sys.argv[2]))
out = []
for argv in cases:
    extra_path = []
    if argv and argv[0].startswith("@path="):
        extra_path = [os.path.join(sys.argv[1], p) for p in argv[0][6:].split(",") if p]
        argv = argv[1:]
    first_path = []
    if argv and argv[0].startswith("@path0="):      # directories in FRONT of everything (sys.path[0]: the script's directory,
        first_path = [os.path.join(sys.argv[1], p) for p in argv[0][7:].split(",") if p]     # or the cwd under `python -m`)
        argv = argv[1:]
    saved_path = list(sys.path)
    sys.path[1:1] = extra_path
    sys.path[0:0] = first_path
    before = list(sys.path)
    l = Lithium()
    res = {}
    try:
        devnull = open(os.devnull, "w")
        old = sys.stderr, sys.stdout
        sys.stderr = sys.stdout = devnull
        try:
            l.process_args(list(argv))
        finally:
            sys.stderr, sys.stdout = old
        s = l.strategy
        res = {"ok": True, "strategy": s.name, "atom": type(l.testcase).__name__,
               "min": getattr(s, "minimize_min", None), "max": getattr(s, "minimize_max", None),
               "repeat": getattr(s, "minimize_repeat", None),
               "first": getattr(s, "minimize_repeat_first_round", None),
               "limit": getattr(s, "stop_after_time", None),
               "move": getattr(s, "use_experimental_move", None),
               "tempdir": None if l.temp_dir is None else str(l.temp_dir),
               "cargs": l.condition_args, "file": os.path.basename(l.testcase.filename),
               "script": os.path.relpath(getattr(l.condition_script, "__file__", "?"), sys.argv[1])
                         if not getattr(l.condition_script, "__file__", "?").startswith(%(src)r)
                         else "builtin:" + l.condition_script.__name__,
               "marker": getattr(l.condition_script, "MARKER", None)}
    except SystemExit as e:
        res = {"ok": False, "exit": e.code}
    except BaseException as e:
        res = {"ok": False, "exc": type(e).__name__, "msg": str(e)[:100]}
    res["syspath_same"] = (list(sys.path) == before)
    sys.path[:] = saved_path
    out.append(res)
    # forget test modules imported from the scratch directory
    for k in [k for k, m in sys.modules.items() if getattr(m, "MARKER", None)]:
        del sys.modules[k]
print(json.dumps(out))
'''

VALUE_OPTS = {"--strategy": ["minimize-around", "check-only", "minimize", "minimize-balanced", "minimize-collapse-brace"], "--testcase": ["other.txt"],
              "--tempdir": ["td"], "--min": ["2"], "--max": ["4"], "--repeat": ["always", "never"],
              "--chunk-size": ["2"], "--max-run-time": ["5"]}
FLAGS = ["-c", "--char", "-l", "-j", "-s", "--attrs", "-v", "--repeat-first-round"]
SUFFIX_TOKENS = ["-c", "-j", "--strategy=check-only", "--min", "--", "4", "--testcase", "x", "--char", "t.txt",
                 # words a response-file feature (argparse fromfile_prefix_chars) would expand or refuse
                 "@flags.rsp", "@nofile", "@"]

STRATS = {"minimize": "Minimize", "minimize-around": "MinimizeSurroundingPairs", "check-only": "CheckOnly",
          "minimize-balanced": "MinimizeBalancedPairs", "minimize-collapse-brace": "CollapseEmptyBraces",
          "replace-properties-by-globals": "ReplacePropertiesByGlobals", "replace-arguments-by-globals": "ReplaceArgumentsByGlobals"}
ATOMS = {"-c": "TestcaseChar", "--char": "TestcaseChar", "-l": "TestcaseLine", "-j": "TestcaseJsStr",
         "-s": "TestcaseSymbol", "--attrs": "TestcaseAttrs"}


ABBR_OPTS = {"--strat": "--strategy", "--st": "--strategy", "--strateg": "--strategy", "--testc": "--testcase",
             "--tempd": "--tempdir", "--cha": "--char", "--chunk": "--chunk-size", "--max-run": "--max-run-time"}


def expected(pre_items, name, rest):
    """documented meaning: options before the name take effect, the rest is the test's"""
    cfg = {"strategy": "minimize", "atom": "TestcaseLine", "min": 1, "max": 2 ** 30, "repeat": "last",
           "first": False, "limit": None, "tempdir": None, "testcase": None}
    ABBR = ABBR_OPTS
    pre_items = [((ABBR.get(it[0], it[0]),) + tuple(it[1:])) if not isinstance(it, str) else it for it in pre_items]
    import re as _re
    flat = []
    for it in pre_items:        # a cluster of value-less short flags (-vc) means its members (-v -c)
        if not isinstance(it, str) and len(it) == 1 and _re.fullmatch(r"-[A-Za-z]{2,}", it[0]):
            flat += [("-" + ch,) for ch in it[0][1:]]
        else:
            flat.append(it)
    pre_items = flat
    for it in pre_items:
        if it[0] in ATOMS:
            cfg["atom"] = ATOMS[it[0]]
        elif it[0] == "--strategy":
            cfg["strategy"] = it[1]
        elif it[0] == "--testcase":
            cfg["testcase"] = it[1]
        elif it[0] == "--tempdir":
            cfg["tempdir"] = it[1]
        elif it[0] == "--min":
            cfg["min"] = int(it[1])
        elif it[0] == "--max":
            cfg["max"] = int(it[1])
        elif it[0] == "--repeat":
            cfg["repeat"] = it[1]
        elif it[0] == "--chunk-size":
            cfg["chunk"] = int(it[1])
        elif it[0] == "--max-run-time":
            cfg["limit"] = int(it[1])
        elif it[0] == "--repeat-first-round":
            cfg["first"] = True
    if "chunk" in cfg:
        cfg["min"] = cfg["max"] = cfg["chunk"]
        cfg["repeat"] = "never"
    if cfg["strategy"] == "check-only":
        for k in ("min", "max", "repeat", "first", "limit"):
            cfg[k] = None
    cfg["cargs"] = list(rest)
    cfg["file"] = cfg["testcase"] or (rest[-1] if rest else name)
    return cfg


def run(ck: Check):
    quick = ck.tier == "quick"
    r = rng("c17")
    work = tempfile.mkdtemp(prefix="lv-", dir=SCRATCH_ROOT)
    src = os.path.join(os.environ.get("VERIF_REPO", "/repo"), "src")
    try:
        # scratch directory: test modules with a MARKER, testcase files
        os.mkdir(os.path.join(work, "d"))
        os.mkdir(os.path.join(work, "other"))
        for rel, marker in (("yes.py", "cwd-yes"), ("d/yes.py", "d-yes"), ("other/yes.py", "other-yes"), ("d/test.py", "d-test"),
                            ("d/json.py", "d-json"), ("d/mytest.py", "d-mytest"), ("crashes.py", "cwd-crashes"),
                            ("outputs2.py", "cwd-outputs2"), ("d/is_happy.py", "d-is_happy"), ("check_p.py", "cwd-check_p"),
                            ("d/ppy.py", "d-ppy")):
            with open(os.path.join(work, rel), "w") as f:
                f.write(f"MARKER = {marker!r}\ndef interesting(a, p):\n    return True\n")
        for rel, body in (("d/broken.py", "def interesting(a, p)\n    return True\n"), ("d/raises.py", "raise RuntimeError('at import')\n"),
                          ("boom.py", "x = 1 // 0\n"), ("d/exits.py", "import sys\nsys.exit(3)\n")):
            with open(os.path.join(work, rel), "w") as f:
                f.write(body)
        with open(os.path.join(work, "flags.rsp"), "w") as f:
            f.write("--char\n--strategy=check-only\n--min=4\n")
        for fn in ("t.txt", "other.txt", "x", "4", "yes.py.txt"):
            with open(os.path.join(work, fn), "w") as f:
                f.write("a\nb\n")
        os.mkdir(os.path.join(work, "td"))
        # --- command lines
        items = [(f,) for f in FLAGS]
        for o, vs in VALUE_OPTS.items():
            for v in vs:
                items.append((o, v, "sep"))
                items.append((o, v, "eq"))
        cmds = []
        maxpre = 2 if quick else 3
        for n in range(0, maxpre + 1):
            combos = list(itertools.product(items, repeat=n))
            if n >= 2:
                r.shuffle(combos)
                combos = combos[: (250 if quick else 3000)]
            for pre in combos:
                # drop combinations argparse itself refuses (mutually exclusive atoms; options of another strategy)
                if sum(1 for it in pre if it[0] in ATOMS) > 1:
                    continue
                strat = [it[1] for it in pre if it[0] == "--strategy"]
                if strat and strat[-1] == "check-only" and any(
                        it[0] in ("--min", "--max", "--repeat", "--chunk-size", "--max-run-time",
                                  "--repeat-first-round") for it in pre):
                    continue
                if len(strat) > 1:
                    continue
                suffixes = [()] + [(s,) for s in SUFFIX_TOKENS[:5] + SUFFIX_TOKENS[10:]]
                if n <= 1:
                    suffixes += [tuple(x) for x in itertools.product(SUFFIX_TOKENS, repeat=2)][:: (3 if quick else 1)]
                for suf in suffixes:
                    cmds.append((pre, "yes.py", tuple(suf) + ("t.txt",)))
        r.shuffle(cmds)
        cmds = cmds[: (700 if quick else 6000)]
        # --chunk-size with --min / --max / --repeat in EVERY order and both spellings (the shortcut wins wherever it
        # stands), and equal --min/--max with each repeat mode (not a shortcut for anything)
        chunk = [("--chunk-size", "2", "sep"), ("--chunk-size", "4", "eq")]
        others = [("--min", "4", "sep"), ("--max", "8", "eq"), ("--repeat", "always", "sep"), ("--repeat", "last", "eq"),
                  ("--min", "1", "eq"), ("--max", "1", "sep")]
        for c in chunk:
            for o in others:
                cmds.append(((c, o), "yes.py", ("t.txt",)))
                cmds.append(((o, c), "yes.py", ("t.txt",)))
            for o1, o2 in itertools.permutations(others[:4], 2):
                if o1[0] != o2[0]:
                    for pre in ((c, o1, o2), (o1, c, o2), (o1, o2, c)):
                        cmds.append((pre, "yes.py", ("t.txt",)))
        for v in ("1", "2", "8"):
            for rep in ("always", "last", "never"):
                cmds.append(((("--min", v, "sep"), ("--max", v, "sep"), ("--repeat", rep, "sep")), "yes.py", ("t.txt",)))
                cmds.append(((("--repeat", rep, "eq"), ("--max", v, "eq"), ("--min", v, "eq")), "yes.py", ("-c", "t.txt")))
        # unambiguous abbreviations of Lithium's own options mean the full option (argparse default), for the early
        # look at --strategy / the atom flag as well as for the real parser
        for ab, full, val in (("--strat", "--strategy", "check-only"), ("--st", "--strategy", "minimize-around"),
                              ("--strateg", "--strategy", "check-only"), ("--testc", "--testcase", "other.txt"),
                              ("--tempd", "--tempdir", "td"), ("--cha", "--char", None), ("--chunk", "--chunk-size", "2"),
                              ("--max-run", "--max-run-time", "5")):
            for form in ("sep", "eq"):
                if val is None:
                    cmds.append((((ab,),), "yes.py", ("t.txt",)))
                else:
                    cmds.append((((ab, val, form),), "yes.py", ("t.txt",)))
        for strat in ("minimize", "minimize-around", "minimize-balanced", "minimize-collapse-brace",
                      "replace-properties-by-globals", "replace-arguments-by-globals"):
            cmds.append(((("--strategy", strat, "eq"), ("--min", "2", "sep"), ("--max", "4", "sep"), ("--repeat", "always", "sep")),
                         "yes.py", ("--min", "8", "--max=16", "--repeat", "never", "-c", "t.txt")))
            cmds.append(((("--repeat-first-round",), ("--max", "8", "eq"), ("--strategy", strat, "sep")), "yes.py", ("t.txt",)))
        # how many words follow the test name: none at all (possible with --testcase: the test takes no arguments), one,
        # two, three - for each way of naming the test and with other options around
        for form in ("sep", "eq"):
            for more in ((), (("-c",),), (("--strategy", "check-only", "eq"),), (("--min", "2", "sep"), ("--char",))):
                for nm in ("yes.py", "d/yes.py", "yes", os.path.join(work, "d", "yes.py")):
                    for rest_ in ((), ("t.txt",), ("-x", "t.txt"), ("a", "--min", "4")):
                        cmds.append(((("--testcase", "other.txt", form),) + more, nm, rest_))
                        cmds.append((more + (("--testcase", "other.txt", form),), nm, rest_))
        # every value-less short flag the parser of THIS tree knows (read from --help), clustered with each atom flag in
        # both orders (-vc, -cv): a cluster means its members, for the early look at the atom type and the strategy too
        try:
            helptext = subprocess.run([sys.executable, "-m", "lithium", "--help"], capture_output=True, text=True, timeout=60,
                                      env=dict(os.environ, PYTHONPATH=src), check=False).stdout
        except Exception:  # pylint: disable=broad-except
            helptext = ""
        import re as _re
        shorts = sorted(set(_re.findall(r"^\s+(-[A-Za-z])(?:, --[\w-]+)?(?:\s{2,}|$)", helptext, _re.M)) - {"-h", "-a", "-c", "-j", "-l", "-s"})
        ck.cov["valueless_short_flags"] = shorts
        for fl in shorts:
            for at in ("-c", "-l", "-j", "-s"):
                if fl == at:
                    continue
                for cl in (fl + at[1], at + fl[1]):
                    cmds.append((((cl,),), "yes.py", ("t.txt",)))
                    cmds.append((((cl,), ("--strategy", "check-only", "eq")), "yes.py", ("-x", "t.txt")))
                    cmds.append(((("--strategy", "minimize-around", "sep"), (cl,)), "d/yes.py", ("t.txt",)))
        for v in ("0", "1"):
            cmds.append(((("--max-run-time", v, "sep"),), "yes.py", ("t.txt",)))
            cmds.append(((("--strategy", "minimize-around", "eq"), ("--max-run-time", v, "eq")), "yes.py", ("t.txt",)))
        # naming the test
        naming = [((), "d/yes.py", ("t.txt",), "d/yes.py"), ((), "yes", ("t.txt",), "yes.py"),
                  ((), "yes.py", ("t.txt",), "yes.py"), ((), "outputs", ("-s", "a", "true", "t.txt"), "builtin:lithium.interestingness.outputs"),
                  ((), "d/mytest.py", ("t.txt",), "d/mytest.py"), ((), "d/test.py", ("t.txt",), "d/test.py"),
                  ((), "d/json.py", ("t.txt",), "d/json.py"), ((), "crashes", ("true", "t.txt"), "crashes.py"),
                  ((), "outputs2", ("t.txt",), "outputs2.py"), ((), "nosuchtest", ("t.txt",), "ImportError"),
                  ((), os.path.join(work, "d", "yes.py"), ("t.txt",), "d/yes.py"),
                  ((), "d/is_happy.py", ("t.txt",), "d/is_happy.py"), ((), "check_p.py", ("t.txt",), "check_p.py"),
                  ((), "check_p", ("t.txt",), "check_p.py"), ((), "d/ppy.py", ("t.txt",), "d/ppy.py"),
                  # the test's directory is already on sys.path, after a directory holding a same-named module
                  (("@path=other,d",), "d/yes.py", ("t.txt",), "d/yes.py"),
                  (("@path=d",), "d/mytest.py", ("t.txt",), "d/mytest.py"),
                  (("@path=other,.",), "yes", ("t.txt",), "yes.py"),
                  (("@path=d",), "yes.py", ("t.txt",), "yes.py"),
                  # the import of the test itself fails - with anything: the error comes out, sys.path is as it was
                  ((), "d/broken.py", ("t.txt",), "SyntaxError"), ((), "d/raises.py", ("t.txt",), "RuntimeError"),
                  ((), "boom", ("t.txt",), "ZeroDivisionError"), ((), "boom.py", ("t.txt",), "ZeroDivisionError"),
                  ((), "d/exits.py", ("t.txt",), 3), (("@path=other",), "d/raises.py", ("t.txt",), "RuntimeError"),
                  # a same-named module in the directory at the very FRONT of sys.path (where `python -m lithium` has the
                  # current directory and a script has its own): the path given still names the test
                  (("@path0=other",), "d/yes.py", ("t.txt",), "d/yes.py"), (("@path0=.",), "d/yes.py", ("t.txt",), "d/yes.py"),
                  (("@path0=other,.",), os.path.join(work, "d", "yes.py"), ("t.txt",), "d/yes.py"),
                  (("@path0=d",), "yes.py", ("t.txt",), "yes.py"), (("@path0=.",), "d/mytest.py", ("t.txt",), "d/mytest.py")]

        def argv_of(pre, name, rest):
            out = []
            for it in pre:
                if isinstance(it, str):
                    out.append(it)
                elif len(it) == 1:
                    out.append(it[0])
                elif it[2] == "sep":
                    out += [it[0], it[1]]
                else:
                    out.append(f"{it[0]}={it[1]}")
            return out + [name] + list(rest)

        # the file reduced is the LAST argument: when it does not exist the run is refused, whatever else is on the line
        naming += [((), "yes.py", ("t.txt", "missing.txt"), "FileNotFoundError"), ((), "yes.py", ("x", "4", "no-such-file"), "FileNotFoundError"),
                   ((), "yes.py", ("other.txt", "td"), "IsADirectoryError")]
        all_cases = [(p, n, rest, None) for p, n, rest in cmds] + naming
        argvs = [argv_of(p, n, rest) for p, n, rest, _ in all_cases]
        chunks = [argvs[i::16] for i in range(16)]

        def run_chunk(i):
            if not chunks[i]:
                return []
            cf = os.path.join(work, f"cases{i}.json")
            with open(cf, "w") as f:
                json.dump(chunks[i], f)
            p = subprocess.run(["timeout", "-s", "KILL", "300", sys.executable, "-c", CHILD % {"src": src}, work, cf],
                               capture_output=True, text=True, check=False)
            try:
                return json.loads(p.stdout.strip().splitlines()[-1])
            except (ValueError, IndexError):
                return [{"ok": False, "exc": "child-crashed", "msg": p.stderr[-300:]}] * len(chunks[i])

        with ThreadPoolExecutor(16) as ex:
            outs = list(ex.map(run_chunk, range(16)))
        results = [None] * len(argvs)
        for i in range(16):
            results[i::16] = outs[i]
        cases, impl = [], []
        for (pre, name, rest, origin), argv, res in zip(all_cases, argvs, results):
            ck.count("cli" if origin is None else "naming")
            if pre or any(t.startswith("-") for t in rest):
                ck.nontrivial(tuple(argv))
            if origin is not None:
                got = res.get("script") if res.get("ok") else res.get("exc", res.get("exit"))
                if got == "ModuleNotFoundError":
                    got = "ImportError"  # a subclass: "an unknown name is an error"
                key = None
                if got != origin:
                    # the known finding: a path whose module name is already imported (json) resolves to THAT module
                    stem = os.path.splitext(os.path.basename(name))[0]
                    if (res.get("ok") and not res.get("marker") and "/" in name and stem in ("json", "re", "logging")
                            and os.path.splitext(os.path.basename(str(got)))[0] in (stem, "__init__")):
                        key = "import-shadowed-by-sys-modules"
                    ck.violation(f"test name {name!r} resolved to {got!r}, documented resolution {origin!r}",
                                 {"argv": argv, "got": res}, key=key)
                if not res.get("syspath_same"):
                    ck.violation(f"sys.path was not restored after resolving {name!r}", {"argv": argv, "got": res})
                continue
            want = expected(pre, name, rest)
            if not res.get("ok"):
                ck.violation(f"command line {argv} refused: {res}", {"argv": argv, "got": res})
                continue
            bad = []
            if STRATS.get(want["strategy"]) is None or res["strategy"] != want["strategy"]:
                bad.append(f"strategy {res['strategy']} (options say {want['strategy']})")
            if res["atom"] != want["atom"]:
                bad.append(f"atom type {res['atom']} (options say {want['atom']})")
            for k in ("min", "max", "repeat", "first", "limit"):
                if res["strategy"] == want["strategy"] and res[k] != want[k]:
                    bad.append(f"{k}={res[k]} (options say {want[k]})")
            if res["cargs"] != want["cargs"]:
                bad.append(f"test arguments {res['cargs']} (command line has {want['cargs']})")
            if res["file"] != want["file"]:
                bad.append(f"file {res['file']} (expected {want['file']})")
            if (res["tempdir"] or None) != want["tempdir"]:
                bad.append(f"tempdir {res['tempdir']} (expected {want['tempdir']})")
            if not res.get("syspath_same"):
                bad.append("sys.path changed")
            if bad:
                key = None
                ck.violation(f"command line {argv}: " + "; ".join(bad), {"argv": argv, "got": res, "want": want},
                             key=key)
            if any((it if isinstance(it, str) else it[0]) in ABBR_OPTS for it in pre):
                continue    # abbreviations are outside the model's token domain (full option names): oracle only
            if any(not isinstance(it, str) and len(it) == 1 and len(it[0]) > 2 and not it[0].startswith("--") for it in pre):
                continue    # clusters likewise
            cases.append("cli " + " ".join(hexs(a) for a in argv))
            impl.append(f"{res['strategy']} {res['atom']} {res['min']} {res['max']} {res['repeat']} "
                        f"{res['first']} {res['limit']} {res['tempdir']} {res['file']} | "
                        + " ".join(res["cargs"]))
        ck.sample({"argv": argvs[0], "result": results[0]})
    finally:
        shutil.rmtree(work, ignore_errors=True)
    ck.cov["model_cases"] = len(cases)
    model = run_model(cases)
    for c, m, i in zip(cases, model, impl):
        if m != i:
            ck.mismatch("cli", c, m, i)
    return ck.finish(level="proof", rule=RULE, assumptions=[
        "argparse and importlib themselves are modelled (as configured by Lithium, on the stated token domain: "
        "full option names, no abbreviations, no '--', no clustered short flags), not verified"])


def hexs(s):
    return s.encode().hex() or "."
