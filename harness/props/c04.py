"""C04 - chunk-removal strategies only ever delete reducible atoms."""
from common import Check, rng
from explore import Explorer, content, oracle_c04, small_layouts

RULE = ("tie X on complete traces + direct sub-deletion oracle on every file the scripted test "
        "saw: exhaustive DFS over verdict sequences for every (parts, flags) layout up to N atoms "
        "(2-letter alphabet, leading/trailing/adjacent non-reducible parts, before/after present), "
        "minimize / minimize-around / minimize-balanced x option grid; seeded random layouts of "
        "5-40 atoms. non-trivial = more than one test ran; distinct = distinct (strategy, options, "
        "layout, verdict sequence)")


def run(ck: Check):
    ex = Explorer(ck, oracles=[oracle_c04])
    quick = ck.tier == "quick"
    n = 3 if quick else 4
    cfgs = [{}, {"repeat": "always"}, {"repeat": "never"}, {"min": 2}, {"max": 2},
            {"first": True}]
    for tc in small_layouts(n, wrap=(b"<", b">")):
        for cfg in (cfgs if len(tc[1]) == n else cfgs[:2]):
            ex.dfs("minimize", cfg, tc, stream="minimize", max_runs=300)
    for strategy in ("minimize-around", "minimize-balanced"):
        for tc in small_layouts(n + 1, alphabet=(b"{\n", b"}\n", b"x\n")[: (2 if quick else 3)],
                                wrap=(b"<", b">")):
            if len(tc[1]) < 2:
                continue
            for cfg in cfgs[:2]:
                ex.dfs(strategy, cfg, tc, stream=strategy, max_runs=40 if quick else 300)
    # every testcase class (an override of rmslice/copy in a subclass must behave the same): loaded files
    loaded = {"jsstr": [b'f("ab", "cd", "K", "e", "gh");\n', b"x = 'a' + \"bc\";\n'\\x41\\u1234';\n", b'"a""b""c"',
                        # an opening quote that is never closed, with escaped quotes of the same kind after it
                        b'var t = "it\\"s broken;\n', b"'a\\'b 'c' d\\'e", b'"ok" + "x\\"y'],
              "attrs": [b'<a b="c" d e=f><g h=\'i\' j>\n', b"<x y z=1><w v u>",
                        # self-closing tags: the slash belongs to the tag, not to the attribute in front of it
                        b"<form id=f a=1>\n<input disabled/>\n<br/><i d />\n</form>\n", b'<a b/><c d="e"/><f g=h/>'],
              "symbol": [b"a;b;c{d}e;\n", b"f(x);g[1]=2;\n"], "char": [b"abcdef", b"DDBEGIN\nxyz\nDDEND\n"],
              "line": [b"DDBEGIN\na\nb\nc\nDDEND\n", b"a\r\nb\r\nc\r\n", b"x\ry\rz\x0b\xc2\x85w"]}
    from common import run_model
    from splitx import impl_load, model_load_line
    lcases, limpl = [], []
    for atom, datas in loaded.items():
        for data in datas:
            # which parts are reducible at all is the loader's decision: the loaded testcase must be the model's
            lcases.append(model_load_line(atom, data))
            limpl.append(impl_load(atom, data)[0])
            for strategy in ("minimize", "minimize-around", "minimize-balanced"):
                ex.dfs(strategy, {}, None, file0=data, atom=atom, load=True, stream=f"loaded-{atom}",
                       max_runs=40 if quick else 400)
                for bias in (0.3, 0.7):
                    rr = rng(f"c04-{atom}-{bias}")
                    v = "Y" + "".join("Y" if rr.random() < bias else "N" for _ in range(400))
                    ex.one(strategy, {"repeat": "always"}, None, data, v, atom=atom, load=True,
                           stream=f"loaded-{atom}")
    for c, m, i in zip(lcases, run_model(lcases), limpl):
        ck.count("loaded-vs-model")
        if m != i:
            ck.mismatch("load", c, m, i)
            ck.violation(f"the loader marks other parts reducible than its model: {c}: implementation {i[:200]} vs model "
                         f"{m[:200]} (protected text would be offered for deletion / atoms withheld)",
                         {"case": c, "impl": i, "model": m})
    r = rng("c04")
    for i in range(60 if quick else 600):
        k = r.randint(5, 40)
        parts = [bytes([r.choice(b"ab{}()[]x")]) + b"\n" for _ in range(k)]
        flags = [r.random() < r.choice([0.5, 0.9]) for _ in range(k)]
        tc = (b"B", parts, flags, b"A")
        bias = r.choice([0.1, 0.5, 0.9])
        v = "Y" + "".join("Y" if r.random() < bias else "N" for _ in range(800))
        strategy = r.choice(["minimize", "minimize-around", "minimize-balanced"])
        ex.one(strategy, r.choice(cfgs), tc, content(tc), v, stream="random")
    # "and the final file": also when the run is cut short by a transient fault while a candidate is being written
    # (the k-th write to the testcase path fails half-way, once) - what is left must not be a torn candidate
    from explore import is_subred, replay_doc
    from runner import impl_session
    for strategy in ("minimize", "minimize-around", "minimize-balanced"):
        for atom, data in (("line", b"// head\n// DDBEGIN\nl1\nl2\nl3\nl4\nl5\nl6\n// DDEND\n// tail\n"),
                           ("jsstr", b'f("abcdefgh", "ijkl");\n'), ("char", b"abcdefgh")):
            for k in (1, 2, 3, 4, 6):
                for v in ("YNY" * 10, "YYYYYYYY", "YNNYNNY", "YYNNYYNN"):
                    run_ = impl_session([{"strategy": strategy, "cfg": {}, "atom": atom, "file0": data, "verdict": v,
                                          "write_fault": k}])[0]
                    if run_.fault_last:
                        ck.count("write-fault-on-last-write(skipped)")
                        continue
                    ck.count("write-fault")
                    ck.nontrivial(("write-fault", strategy, atom, k, v))
                    ctx = {"strategy": strategy, "cfg": {}, "tc": run_.loaded, "file0": data, "verdicts": v, "clock": [],
                           "atom": atom, "exc_class": "TestRaised", "load": True, "write_fault": k}
                    if run_.exc not in ("Hang", "CapHit") and not is_subred(run_.loaded, run_.final):
                        ck.violation(f"{strategy}/{atom}: write number {k} to the testcase file failed half-way (once); "
                                     f"the run ended ({run_.exc}) leaving {run_.final!r}, which is not the original with "
                                     f"reducible atoms deleted", replay_doc(ctx, run_, write_fault=k))
    # option values that are not positive powers of two are refused at start-up (C14); should one ever be accepted, the
    # candidates it produces must still be sub-deletions (a negative chunk size makes rmslice duplicate the tail)
    from runner import Refused, impl_run
    for strategy in ("minimize", "minimize-around", "minimize-balanced"):
        for argv in (["--chunk-size", "-2"], ["--min", "-4"], ["--max", "-2"], ["--chunk-size=-1"], ["--max", "0"], ["--min=3"]):
            tcx = (b"<", [b"l%d\n" % i for i in range(8)], [True] * 8, b">")
            ck.count("odd-options")
            try:
                run_ = impl_run(strategy, {"argv": argv}, tcx, content(tcx), "Y" + "NY" * 200, cap=400)
            except Refused:
                continue
            ck.nontrivial(("odd-options", strategy, tuple(argv)))
            ctx = {"strategy": strategy, "cfg": {"argv": argv}, "tc": tcx, "file0": content(tcx), "verdicts": "YNY...",
                   "clock": [], "atom": "line", "exc_class": "TestRaised", "load": False}
            oracle_c04(ck, ctx, run_)
    # one Lithium / testcase / strategy object for two consecutive files (nothing of the first file may show up
    # in what the test sees of the second)
    from universe import marker_matrix, session_universe
    marker_matrix(lambda strategy, cfg, tc, **kw: ex.dfs(strategy, cfg, tc, **kw), quick, others=("minimize-around", "minimize-balanced"))
    session_universe(ck, oracle_c04, quick=quick)
    from envmatrix import run_matrix
    run_matrix(ck, ("C04",))
    from scale import big_frame_and_subdeletion
    big_frame_and_subdeletion(ck, frame=False, sub=True)
    ex.diff()
    return ck.finish(level="proof", rule=RULE, assumptions=[
        "minimize-around / minimize-balanced: see DESIGN.md for which of their theorems are proved"])
