"""C14 - chunk-size, repeat and time-limit options are honoured."""
import itertools

from common import Check, rng
from explore import Explorer, content, oracle_c14, small_layouts

RULE = ("tie X on complete traces of minimize + direct oracle on the recorded candidate blocks "
        "(contiguity, power-of-two sizes, monotone sizes, effective maximum, --min rule, repeat "
        "rule, deadline rule): option grid min,max in {1,2,4,8,2^30} x repeat x repeat-first-round "
        "x deadlines with scripted clock advances, atom counts 0-40, exhaustive DFS over verdict "
        "sequences for small inputs and seeded random verdicts beyond; util.py helpers and the "
        "command-line validation through Minimize.process_args. non-trivial = more than one "
        "test; distinct = distinct (options, input, verdicts, clock)")


def run(ck: Check):
    ex = Explorer(ck, oracles=[oracle_c14])
    quick = ck.tier == "quick"
    r = rng("c14")
    grid = []
    for mn, mx in itertools.product([1, 2, 4, 8], [1, 2, 4, 2 ** 30]):
        for rep in ("last", "always", "never"):
            grid.append({"min": mn, "max": mx, "repeat": rep})
    grid += [{"first": True, "repeat": "always"}, {"first": True}, {"min": 8, "max": 8, "repeat": "never"}]
    # exhaustive DFS on small inputs
    for n in range(1, (5 if quick else 6)):
        tc = (b"", [bytes([97 + i]) + b"\n" for i in range(n)], [True] * n, b"")
        for cfg in grid:
            if quick and n == 4 and (cfg["min"] if "min" in cfg else 1) > 2:
                continue
            ex.dfs("minimize", cfg, tc, stream="dfs", max_runs=120 if quick else 800)
    # random verdicts, larger inputs, non-reducible parts
    for i in range(150 if quick else 1500):
        n = r.randint(0, 40)
        parts = [bytes([97 + r.randrange(26)]) + bytes([48 + i % 10]) for i in range(n)]
        flags = [r.random() < 0.9 for _ in range(n)]
        tc = (b"", parts, flags, b"")
        bias = r.choice([0.05, 0.3, 0.7, 0.95])
        v = "Y" + "".join("Y" if r.random() < bias else "N" for _ in range(1500))
        ex.one("minimize", r.choice(grid), tc, content(tc), v, stream="random")
    # deadlines with a scripted clock
    for i in range(80 if quick else 800):
        n = r.randint(2, 24)
        tc = (b"", [bytes([97 + j]) for j in range(n)], [True] * n, b"")
        if i % 3:       # distinct atoms with brackets: pairs / partners are deleted together, each such test counts too
            tc = (b"", [(b"{ //%d\n", b"} //%d\n", b"x%d\n", b"( //%d\n", b") //%d\n")[(j * 7 + i) % 5] % j for j in range(n)], [True] * n, b"")
        limit = r.choice([0, 0, 1, 5, 10])
        t, clock = (100 if i % 2 else 100.25), []
        for _ in range(200):
            clock.append(t)
            t += r.choice([0, 0, 1, 1, limit, limit + 1]) if i % 2 else r.choice([0, 0.25, 0.5, 0.75, 1.25, limit - 0.25, limit + 0.5])
        cfg = dict(r.choice(grid))
        cfg["limit"] = limit
        v = "Y" + "".join(r.choice("YN") for _ in range(400))
        st = ("minimize", "minimize-around", "minimize-balanced")[i % 3]
        if st != "minimize":
            cfg.pop("first", None)
        ex.one(st, cfg, tc, content(tc), v, clock=clock, stream="deadline")
    cli_validation(ck)
    # the options are those GIVEN: a strategy object that has reduced a smaller / larger file before still honours
    # --min / --max / --repeat exactly as a new one
    from universe import reuse_universe
    reuse_universe(ex, ck, strategies=("minimize", "minimize-around", "minimize-balanced"))
    ex.diff()
    return ck.finish(level="proof", rule=RULE)


def cli_validation(ck):
    """min / max / chunk-size that are not powers of two are refused at start-up; a time limit of
    0 is a limit"""
    import argparse
    import contextlib
    import io
    from lithium.strategies import Minimize

    def parse(argv):
        s = Minimize()
        p = argparse.ArgumentParser()
        s.add_args(p)
        try:
            with contextlib.redirect_stderr(io.StringIO()):
                args = p.parse_args(argv)
                s.process_args(p, args)
        except SystemExit:
            return None
        return s

    def pow2(v):
        return v >= 1 and v & (v - 1) == 0

    for opt in ("--min", "--max", "--chunk-size"):
        for v in (0, 1, 2, 3, 4, 6, 8, -2, -4, 2 ** 30, 2 ** 30 + 1, 12):
            for argv in ([opt, str(v)], [f"{opt}={v}"]):
                s = parse(argv)
                ck.count("validation")
                ck.nontrivial(("validation", tuple(argv)))
                if (s is None) == pow2(v):
                    ck.violation(f"Minimize options {argv}: " + ("refused although a power of two" if s is None
                                 else f"accepted although {v} is not a power of two (min={s.minimize_min} "
                                      f"max={s.minimize_max} repeat={s.minimize_repeat})"),
                                 {"argv": argv})
                elif s is not None and opt == "--chunk-size" and not (
                        s.minimize_min == v and s.minimize_max == v and s.minimize_repeat == "never"):
                    ck.violation(f"--chunk-size {v} did not set min=max={v}, repeat=never", {"argv": argv})
    # --chunk-size is the shortcut wherever it stands: later --min / --max / --repeat do not undo it
    for argv in (["--chunk-size", "4", "--repeat", "always"], ["--chunk-size", "4", "--min", "1"], ["--chunk-size", "2", "--max", "8"],
                 ["--chunk-size=2", "--repeat=last", "--min=1", "--max=8"], ["--repeat", "always", "--chunk-size", "4"],
                 ["--min", "1", "--max", "8", "--chunk-size", "2"]):
        s = parse(argv)
        n = int([a for a in argv if a.startswith("--chunk-size")][0].split("=")[1]) if any("chunk-size=" in a for a in argv) \
            else int(argv[argv.index("--chunk-size") + 1])
        ck.count("validation")
        ck.nontrivial(("validation", tuple(argv)))
        if s is None or not (s.minimize_min == n and s.minimize_max == n and s.minimize_repeat == "never"):
            ck.violation(f"Minimize options {argv}: --chunk-size={n} must mean min=max={n} with a single sweep, got " +
                         ("refused" if s is None else f"min={s.minimize_min} max={s.minimize_max} repeat={s.minimize_repeat}"),
                         {"argv": argv})
    for v in (0, 1, 7):
        s = parse(["--max-run-time", str(v)])
        ck.count("validation")
        if s is None or s.stop_after_time != v:
            ck.violation(f"--max-run-time {v}: limit in force is {None if s is None else s.stop_after_time}",
                         {"argv": ["--max-run-time", str(v)]})
