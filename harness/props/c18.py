"""C18 - child outcome classification and output capture are exact."""
import os
import shutil
import signal
import sys
import tempfile
import time
from concurrent.futures import ThreadPoolExecutor

from common import Check, rng, run_model
from runner import SCRATCH_ROOT

RULE = ("decision function: Coq theorems over the model, tied to timed_run's if/elif chain by "
        "regeneration (GenEqStatus) and, in isolation, by driving the real chain with a stub child "
        "for return codes -64..300, 2^31-1, 2^31, NTSTATUS values; runtime half against ground truth "
        "the harness controls: one real child per exit code 0..255, per terminating signal, sleeps "
        "of limit +- margin, output sizes {0,1,4095,65536,65537,1MiB} on each/both streams incl. "
        "binary, output flushed before a timeout; both capture modes; crashes/hangs verdicts. "
        "non-trivial = a real child process ran; distinct = distinct (behaviour, capture mode)")

PY = sys.executable
TERMINATING = [s for s in range(1, 32) if s not in (
    signal.SIGSTOP, signal.SIGTSTP, signal.SIGTTIN, signal.SIGTTOU, signal.SIGCONT,
    signal.SIGCHLD, signal.SIGURG, signal.SIGWINCH)] + list(range(signal.SIGRTMIN, signal.SIGRTMAX + 1))


def want_status(timed_out, rc):
    if timed_out:
        return "TIMEOUT"
    if rc == 0:
        return "NORMAL"
    if rc < 0 or rc == 77 or rc >= 2 ** 31:
        return "CRASH"
    return "ABNORMAL"


def alive(pid):
    try:
        os.kill(pid, 0)
    except ProcessLookupError:
        return False
    except PermissionError:
        return True
    # still there: zombie?
    try:
        with open(f"/proc/{pid}/stat") as f:
            return f.read().split(")")[1].split()[0]
    except OSError:
        return False


def run(ck: Check):
    from lithium.interestingness import crashes, hangs, timed_run as trmod
    from lithium.interestingness.timed_run import timed_run

    quick = ck.tier == "quick"
    r = rng("c18")
    work = tempfile.mkdtemp(prefix="lv-", dir=SCRATCH_ROOT)
    cases, impl = [], []
    try:
        jobs = []

        def child(code, out=b"", err=b"", sleep=0.0, sig=None, flush_first=True):
            src = ("import sys,os,time,signal\n"
                   f"o=sys.stdout.buffer; e=sys.stderr.buffer\n"
                   f"o.write(bytes.fromhex(sys.argv[1])*int(sys.argv[2])); e.write(bytes.fromhex(sys.argv[3])*int(sys.argv[4]))\n"
                   "o.flush(); e.flush()\n"
                   "c = os.environ.get('LV_CLOSE')\n"
                   "if c in ('both', 'out'): os.close(1)\n"
                   "if c in ('both', 'err'): os.close(2)\n"
                   f"time.sleep({sleep})\n"
                   + (f"try:\n    signal.signal({sig}, signal.SIG_DFL)\nexcept OSError:\n    pass\nos.kill(os.getpid(), {sig})\ntime.sleep(5)\n"
                      if sig else "")
                   + f"os._exit({code})\n")
            return src

        def job(name, code=0, out=b"", nout=1, err=b"", nerr=1, sleep=0.0, sig=None, limit=20,
                use_files=False, env=None):
            jobs.append(dict(name=name, code=code, out=out, nout=nout, err=err, nerr=nerr, sleep=sleep,
                             sig=sig, limit=limit, use_files=use_files, env=env))

        for mode in (False, True):
            for c in range(256):
                job(f"exit{c}", code=c, out=b"o%d\n" % c, err=b"e%d\n" % c, use_files=mode)
            for s in TERMINATING:
                job(f"sig{s}", sig=s, out=b"before-signal\n", use_files=mode)
            sizes = [0, 1, 4095, 65536, 65537] + ([1 << 20] if not quick else [200000])
            for n in sizes:
                job(f"out{n}", out=b"\x00", nout=n, use_files=mode)
                job(f"err{n}", err=b"\xff", nerr=n, use_files=mode)
                job(f"both{n}", out=b"a\r\n\x00"[: max(1, min(4, n or 1))], nout=n // 4 + (1 if n else 0),
                    err=b"\xfe\n", nerr=n // 2, code=3, use_files=mode)
            for lim in ([0.5, 0.8] if quick else [0.4, 0.6, 0.8, 1.0]):
                for margin in (0.3,) if quick else (0.3, 0.15):
                    # still running at the limit: must be TIMEOUT whatever the machine load
                    job(f"sleep+{lim}+{margin}", sleep=lim + margin, limit=lim, out=b"early\n", err=b"E\n",
                        code=5, use_files=mode)
            for lim, nap in ((1.5, 0.3), (2.0, 1.0)) if quick else ((1.5, 0.3), (2.0, 1.0), (2.5, 1.6), (3.0, 0.0)):
                # finishes well before the limit (1 s of slack for interpreter start-up under load)
                job(f"sleep-{lim}-{nap}", sleep=nap, limit=lim, out=b"early\n", code=6, use_files=mode)
            job("int-timeout", sleep=3, limit=1, out=b"x", use_files=mode)
            # the classification does not depend on the caller's environment (sanitizer options already set there)
            for opts in ("exitcode=23", "detect_leaks=0:exitcode=1", "abort_on_error=1"):
                for c in (0, 1, 23, 77, 78):
                    job(f"env-{opts}-exit{c}", code=c, out=b"o\n", use_files=mode,
                        env={"ASAN_OPTIONS": opts, "UBSAN_OPTIONS": opts, "LSAN_OPTIONS": opts})

            # ... nor on what the child PRINTS: reports that look like crashes / sanitizer findings / time-outs on either
            # stream leave the outcome to the way the child ended
            TEXTS = [b"==4242==ERROR: AddressSanitizer: heap-use-after-free on address 0x602\nSUMMARY: AddressSanitizer: heap-use-after-free /src/a.c:3 in main\n",
                     b"SUMMARY: UndefinedBehaviorSanitizer: undefined-behavior x.c:1:2 in \n", b"Assertion failure: false, at js/src/vm/X.cpp:1\n",
                     b"Traceback (most recent call last):\n  File \"x\", line 1\nSegmentation fault (core dumped)\n",
                     b"TIMED OUT\nEXCEEDED 120 SECONDS\nCRASHED\nexit status 77\n", b"\xff\x00SUMMARY: ThreadSanitizer: data race\n\x00"]
            from boundaries import mined_texts
            TEXTS += [t + b"\n" for t in mined_texts()]      # texts a changed tree special-cases (nothing on the unchanged tree)
            for ti, text in enumerate(TEXTS):
                for c in (0, 1, 3, 77, 134):
                    job(f"says{ti}-err-exit{c}", code=c, err=text, out=b"o\n", use_files=mode)
                    job(f"says{ti}-out-exit{c}", code=c, out=text, err=b"noise\n" * 3, use_files=mode)
                job(f"says{ti}-sig11", sig=11, err=text, use_files=mode)
                job(f"says{ti}-many", code=3, err=text, nerr=700, use_files=mode)
            job("says-then-timeout", sleep=2, limit=0.7, err=TEXTS[0], out=TEXTS[4], use_files=mode)
            # a child that writes, CLOSES its stdout and stderr (one or both) and keeps running past the limit - a
            # program that daemonises, a wrapper that hands its streams on: what it wrote before is captured
            for closes in ("both", "out", "err"):
                for n_ in (1, 700, 262144):
                    job(f"closes-{closes}-then-hangs-{n_}", sleep=1.6, limit=0.6, out=b"o", nout=n_, err=b"e", nerr=min(n_, 700),
                        use_files=mode, env={"LV_CLOSE": closes})

        def do(j):
            idx = jobs.index(j)
            prefix = os.path.join(work, f"log{idx}") if j["use_files"] else None
            src = child(j["code"], sleep=j["sleep"], sig=j["sig"])
            t0 = time.time()
            try:
                env = None if j["env"] is None else dict(os.environ, **j["env"])
                rd = timed_run([PY, "-c", src, j["out"].hex(), str(j["nout"]), j["err"].hex(), str(j["nerr"])],
                               j["limit"], prefix, env=env)
            except BaseException as exc:  # pylint: disable=broad-except
                return j, exc, b"", b"", False, 0.0
            el = time.time() - t0
            if prefix is None:
                out, err = rd.out, rd.err
            else:
                with open(rd.out, "rb") as f:
                    out = f.read()
                with open(rd.err, "rb") as f:
                    err = f.read()
            return j, rd, out, err, alive(rd.pid), el

        with ThreadPoolExecutor(16) as ex:
            results = list(ex.map(do, jobs))
        for j, rd, out, err, still, el in results:
            if isinstance(rd, BaseException):
                ck.count("child")
                ck.violation(f"timed_run on child '{j['name']}' (files={j['use_files']}) raised "
                             f"{type(rd).__name__}: {rd}",
                             {k: (v.hex() if isinstance(v, bytes) else v) for k, v in j.items()})
                continue
            ck.count("child")
            ck.nontrivial((j["name"], j["use_files"]))
            timed_out = j["sleep"] > j["limit"]
            rc = None if timed_out else (-j["sig"] if j["sig"] else j["code"])
            want = want_status(timed_out, rc if rc is not None else 0)
            got = rd.status.name
            bad = []
            if got != want:
                bad.append(f"status {got}, expected {want}")
            if rd.return_code != rc:
                bad.append(f"return_code {rd.return_code}, expected {rc}")
            if out != j["out"] * j["nout"]:
                bad.append(f"stdout {len(out)} bytes, expected {len(j['out']) * j['nout']}")
            if err != j["err"] * j["nerr"]:
                bad.append(f"stderr {len(err)} bytes, expected {len(j['err']) * j['nerr']}")
            if still:
                bad.append(f"child {rd.pid} not reaped ({still})")
            if timed_out and el > j["limit"] + 2.5:
                bad.append(f"returned {el:.1f}s after start, limit {j['limit']}")
            if bad:
                ck.violation(f"timed_run on child '{j['name']}' (files={j['use_files']}): " + "; ".join(bad),
                             {k: (v.hex() if isinstance(v, bytes) else v) for k, v in j.items()})
            cases.append(f"classify {'T' if timed_out else 'F'} {rc if rc is not None else 0}")
            impl.append(f"{got} {rd.return_code}")
        ck.sample({"child": "exit 77, files", "status": [getattr(getattr(x[1], "status", None), "name", "?")
                                                         for x in results if x[0]["name"] == "exit77"][0]})

        # output sizes around large powers of two (capture caps, buffer limits): every byte is captured, whatever the size.
        # One child at a time (each holds its output in memory once)
        import hashlib
        bigsrc = ("import sys,os\nn=int(sys.argv[2]); s=(sys.stdout if sys.argv[1]=='out' else sys.stderr).buffer\n"
                  "blk=bytes(range(256))*4096\nwhile n>0:\n    s.write(blk[:n]); n-=len(blk)\ns.flush(); os._exit(0)\n")
        sizes_big = [(1 << 24) + 1, 1 << 26, (1 << 26) + 1] if quick else [(1 << k) + d for k in range(20, 28) for d in (-1, 0, 1)]
        from boundaries import with_mined
        for nbytes in with_mined(sizes_big, 1 << 28, lo=1 << 12):
            for stream in ("out", "err"):
                for use_files in ((False,) if quick else (False, True)):
                    prefix = os.path.join(work, "big") if use_files else None
                    try:
                        rd = timed_run([PY, "-c", bigsrc, stream, str(nbytes)], 120, prefix)
                        if use_files:
                            with open(rd.out if stream == "out" else rd.err, "rb") as f:
                                got = f.read()
                        else:
                            got = rd.out if stream == "out" else rd.err
                        blk = bytes(range(256)) * 4096
                        want_hash = hashlib.sha256((blk * (nbytes // len(blk) + 1))[:nbytes]).hexdigest()
                        ok = len(got) == nbytes and hashlib.sha256(got).hexdigest() == want_hash and rd.status.name == "NORMAL"
                        what = f"captured {len(got)} bytes, status {rd.status.name}"
                        del got
                    except BaseException as exc:  # pylint: disable=broad-except
                        ok, what = False, "raised " + type(exc).__name__
                    ck.count("child")
                    ck.nontrivial(("big-output", nbytes, stream, use_files))
                    if not ok:
                        ck.violation(f"timed_run on a child writing {nbytes} bytes to std{stream} and exiting 0 (files={use_files}): {what}",
                                     {"bytes": nbytes, "stream": stream, "files": use_files})
        # a target that burns CPU on many threads and never ends: it uses CPU time faster than the wall clock - the outcome
        # is still TIMEOUT (the limit is about elapsed time)
        busy = ("import hashlib,threading,sys\nsys.stdout.write('started\\n'); sys.stdout.flush()\nb=b'x'*(1<<20)\n"
                "def w():\n    while True: hashlib.sha256(b).digest()\n"
                "ts=[threading.Thread(target=w,daemon=True) for _ in range(12)]\n[t.start() for t in ts]\nts[0].join()\n")
        for use_files in (False, True):
            try:
                rd = timed_run([PY, "-c", busy], 2, os.path.join(work, "busy") if use_files else None)
                got_b = (rd.status.name, rd.return_code)
            except BaseException as exc:  # pylint: disable=broad-except
                got_b = ("raised " + type(exc).__name__, None)
            ck.count("child")
            ck.nontrivial(("busy-threads", use_files))
            if got_b != ("TIMEOUT", None):
                ck.violation(f"timed_run on a child that keeps 12 threads busy and never exits, limit 2 s (files={use_files}): "
                             f"status {got_b[0]}, return code {got_b[1]}; expected TIMEOUT / None", {"child": "12 busy threads", "limit": 2, "files": use_files})
        # re-use of a log prefix (as `repeat` does): the files must hold exactly the new output
        reuse = os.path.join(work, "reuse")
        for n1, n2 in ((200000, 10), (10, 5000), (5000, 0), (7, 7)):
            for n in (n1, n2):
                rd = timed_run([PY, "-c", child(0), b"A".hex(), str(n), b"B".hex(), str(n // 2)], 20, reuse)
                with open(rd.out, "rb") as f:
                    out = f.read()
                with open(rd.err, "rb") as f:
                    err = f.read()
                ck.count("reuse")
                ck.nontrivial(("reuse", n1, n2, n))
                if out != b"A" * n or err != b"B" * (n // 2):
                    ck.violation(f"timed_run with a re-used log prefix: stdout file has {len(out)} bytes, the child "
                                 f"wrote {n}; stderr file {len(err)}, the child wrote {n // 2}",
                                 {"reuse": True, "sizes": [n1, n2], "n": n})

        # with the logging set-up of `lithium -v` (DEBUG) the outcome is reported all the same, in both capture modes
        import logging
        from runner import lithium_logging
        with lithium_logging(logging.DEBUG):
            for mode in (None, os.path.join(work, "dbg")):
                for code, sig, sleep, want_s in ((0, None, 0, "NORMAL"), (3, None, 0, "ABNORMAL"), (77, None, 0, "CRASH"),
                                                 (0, 11, 0, "CRASH"), (0, None, 3, "TIMEOUT")):
                    try:
                        rd = timed_run([PY, "-c", child(code, sleep=sleep, sig=sig), b"o".hex(), "1", b"e".hex(), "1"], 1, mode)
                        got_s = rd.status.name
                    except BaseException as exc:  # pylint: disable=broad-except
                        got_s = f"raised {type(exc).__name__}: {exc}"
                    ck.count("debug-logging")
                    ck.nontrivial(("debug-logging", code, sig, sleep, mode is not None))
                    if got_s != want_s:
                        ck.violation(f"with DEBUG logging (lithium -v), child exit={code} sig={sig} sleep={sleep} "
                                     f"({'log files' if mode else 'in memory'}): {got_s}, expected {want_s}",
                                     {"code": code, "sig": sig, "sleep": sleep, "files": mode is not None, "logging": "DEBUG"})
        # the decision chain in isolation: stub child with arbitrary return codes
        class FakeChild:
            pid = 0
            stdout = stderr = stdin = None

            def __init__(self, rc, hang):
                self.returncode, self.hang, self.killed = rc, hang, False

            def communicate(self, input=None, timeout=None):  # pylint: disable=redefined-builtin
                if self.hang and not self.killed:
                    raise trmod.subprocess.TimeoutExpired("x", timeout)
                return b"", b""

            def wait(self, timeout=None):
                if self.hang and not self.killed:
                    raise trmod.subprocess.TimeoutExpired("x", timeout)
                return self.returncode

            def poll(self):
                return None if (self.hang and not self.killed) else self.returncode

            def terminate(self):
                self.killed = True

            def kill(self):
                self.killed = True

        real_popen = trmod.subprocess.Popen
        codes = list(range(-64, 301)) + [2 ** 31 - 1, 2 ** 31, 2 ** 31 + 1, 0xC0000005, 0xC0000409, 2 ** 32 - 1,
                                         2 ** 40]
        try:
            for rc in codes:
                for hang in (False, True):
                    fake = FakeChild(rc, hang)
                    trmod.subprocess.Popen = lambda *a, **k: fake
                    try:
                        rd = timed_run([PY, "-c", "pass"], 1, None)
                    except BaseException as exc:  # pylint: disable=broad-except
                        ck.count("chain")
                        ck.violation(f"status chain: returncode {rc} hang={hang}: timed_run raised {type(exc).__name__}: {exc}",
                                     {"returncode": rc, "hang": hang})
                        continue
                    ck.count("chain")
                    want = want_status(hang, rc)
                    wrc = None if hang else rc
                    if rd.status.name != want or rd.return_code != wrc or (hang and not fake.killed):
                        ck.violation(f"status chain: returncode {rc} hang={hang} -> {rd.status.name} "
                                     f"{rd.return_code} killed={fake.killed}; expected {want} {wrc}",
                                     {"returncode": rc, "hang": hang})
                    cases.append(f"classify {'T' if hang else 'F'} {rc}")
                    impl.append(f"{rd.status.name} {rd.return_code}")
        finally:
            trmod.subprocess.Popen = real_popen

        # crashes / hangs verdicts with real children
        for mode in (None, os.path.join(work, "v")):
            for code, sig, sleep, wc, wh in ((0, None, 0, False, False), (1, None, 0, False, False),
                                             (77, None, 0, True, False), (0, 11, 0, True, False),
                                             (0, None, 3, False, True),
                                             # what a shell reports for "killed by signal N" is an ordinary exit code here
                                             (129, None, 0, False, False), (137, None, 0, False, False),
                                             (139, None, 0, False, False), (255, None, 0, False, False),
                                             (128, None, 0, False, False), (76, None, 0, False, False)):
                src = child(code, sleep=sleep, sig=sig)
                args = ["-t", "1", PY, "-c", src, "", "0", "", "0"]
                gc = crashes.interesting(args, mode)
                gh = hangs.interesting(args, mode)
                ck.count("verdict", 2)
                if gc != wc or gh != wh:
                    ck.violation(f"crashes/hangs verdict for exit={code} sig={sig} sleep={sleep}: "
                                 f"crashes={gc} hangs={gh}, expected {wc}/{wh}",
                                 {"code": code, "sig": sig, "sleep": sleep, "files": mode is not None})
            # a time limit of 0 is a time limit: a child that is still running when it is reached (at once) is a
            # hang, and the call returns without waiting for it
            import time as _time
            src = child(0, sleep=2)
            t0 = _time.monotonic()
            gh = hangs.interesting(["-t", "0", PY, "-c", src, "", "0", "", "0"], mode)
            gc = crashes.interesting(["-t", "0", PY, "-c", src, "", "0", "", "0"], mode)
            el = _time.monotonic() - t0
            ck.count("verdict", 2)
            ck.nontrivial(("verdict", "t0", mode is not None))
            if gh is not True or gc is not False or el > 1.5:
                ck.violation(f"-t 0 with a child that runs for 2 s: hangs={gh} crashes={gc} after {el:.2f} s; "
                             f"expected hangs=True crashes=False at once (TIMEOUT exactly when still running at the limit)",
                             {"timeout": 0, "sleep": 2, "files": mode is not None})
    finally:
        shutil.rmtree(work, ignore_errors=True)
    model = run_model(cases)
    from coqlit import xcheck
    xcheck(ck, cases, model)
    for c, m, i in zip(cases, model, impl):
        mm = " ".join(m.split()[:2])
        if mm != i:
            ck.mismatch("classify", c, m, i)
    return ck.finish(level="proof", rule=RULE, assumptions=[
        "runtime half (communicate(timeout) raises exactly when the child is still running, kill()+communicate() "
        "reaps it, pipes/log files receive every byte) is OS/CPython behaviour: explored against ground truth, "
        "not proved; margins of 0.15-0.3 s around the limit"])
