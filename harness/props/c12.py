"""C12 - temp dir is a faithful duplicate-free log"""
from common import Check
from explore import Explorer, oracle_c12
from universe import driver_universe
from props.c01 import RULE


def run(ck: Check):
    ex = Explorer(ck, oracles=[oracle_c12])
    driver_universe(ex, ck, aborts=True)   # a test that raises ends the run there: numbering / count up to that point
    extra(ex, ck)
    # the directory stays a log across runs on one Lithium object sharing it (C12_session_log / _no_overwrite): the
    # check that an earlier run's numbered files survive a later run is part of session_universe itself
    from universe import session_universe

    def numbering(ck_, ctx, run_):
        nums = sorted(int(n.split("-")[0]) for n, _, _ in run_.temp if n != "original")
        if nums != list(range(1, len(nums) + 1)) and run_.exc not in ("Hang", "CapHit"):
            ck_.violation(f"temp dir of a re-used Lithium object is not numbered 1..k without gaps/duplicates: {nums}",
                          {"session": ctx.get("session"), "files": [n for n, _, _ in run_.temp]})
    session_universe(ck, numbering, quick=ck.tier == "quick")
    ex.diff()
    return ck.finish(level="proof", rule=RULE + EXTRA_RULE, assumptions=ASSUME)


EXTRA_RULE = ""
ASSUME = ["the interestingness test sees only the file, its arguments and the prefix",
          "SHA-512 collision-freeness (the model de-duplicates on content equality)"]


def extra(ex, ck):
    pass
