"""C12 - temp dir is a faithful duplicate-free log"""
from common import Check
from explore import Explorer, oracle_c12
from universe import driver_universe
from props.c01 import RULE


def run(ck: Check):
    ex = Explorer(ck, oracles=[oracle_c12])
    driver_universe(ex, ck, aborts=True)   # a test that raises ends the run there: numbering / count up to that point
    extra(ex, ck)
    # the directory stays a log across runs on one Lithium object sharing it (C12_session_log / _no_overwrite): the
    # check that an earlier run's numbered files survive a later run is part of session_universe itself
    from universe import session_universe

    def numbering(ck_, ctx, run_):
        nums = sorted(int(n.split("-")[0]) for n, _, _ in run_.temp if n != "original")
        if nums != list(range(1, len(nums) + 1)) and run_.exc not in ("Hang", "CapHit"):
            ck_.violation(f"temp dir of a re-used Lithium object is not numbered 1..k without gaps/duplicates: {nums}",
                          {"session": ctx.get("session"), "files": [n for n, _, _ in run_.temp]})
            return
        if run_.exc in ("Hang", "CapHit") or "offset" not in ctx:
            return
        # each run of the session: as many tests reported as were run; the i-th test of the whole session is handed
        # prefix i and what it saw is in i-<tag>
        off, bad = ctx["offset"], []
        got = {n: b for n, b, _ in run_.temp}
        if run_.test_count != run_.tests:
            bad.append(f"lithium counts {run_.test_count} test(s) for this run, the test ran {run_.tests} time(s)")
        for e, (k, seen, a) in zip([e for e in run_.events if e.startswith("T ")], run_.seen):
            pnum = e.split()[2]
            if pnum != str(off + k):
                bad.append(f"test {off + k} of the session was handed prefix {pnum}")
            elif a in "YN" and got.get(f"{pnum}-{'interesting' if a == 'Y' else 'boring'}") != seen:
                bad.append(f"{pnum}-{'interesting' if a == 'Y' else 'boring'} does not hold what that test saw")
        if bad:
            ck_.violation(f"re-used Lithium object, run {ctx['strategy']} after {off} earlier test(s): " + "; ".join(bad[:3]),
                          {"session": ctx.get("session"), "files": sorted(got)})
    session_universe(ck, numbering, quick=ck.tier == "quick")
    # a temp dir given by the user that still holds numbered files of an earlier session: test i is handed prefix i and
    # its copy is written as i-<tag> (overwriting a stale file of that name); stale files with other names are not ours
    from runner import impl_run
    for stale in ({"1-interesting.txt": b"old1"}, {"3-boring.txt": b"old3", "4-boring.txt": b"old4", "1-interesting.txt": b"o"},
                  {"2-interesting.txt": b"x", "9-boring.txt": b"y", "original.txt": b"z"}):
        for v in ("YNYNYNYN", "YYNNYY", "YNNNNNNN"):
            data = b"a\nb\nc\nd\ne\n"
            run_ = impl_run("minimize", {}, None, data, v, load=True, prefill=stale)
            ck.count("stale-tempdir")
            ck.nontrivial(("stale-tempdir", tuple(sorted(stale)), v))
            got = {n: b for n, b, _ in run_.temp}
            bad = []
            for k, seen, a in run_.seen:
                name = f"{k}-{'interesting' if a == 'Y' else 'boring'}"
                if got.get(name) != seen:
                    bad.append(f"{name} does not hold what test {k} saw")
            if got.get("original") != data:
                bad.append("'original' is not the original")
            if not all(e.split()[2] == e.split()[1] for e in run_.events if e.startswith("T ")):
                bad.append("a test was handed a prefix number different from its own number")
            if run_.test_count != run_.tests:
                bad.append(f"reported {run_.test_count} tests, ran {run_.tests}")
            if bad:
                ck.violation(f"minimize with a temp dir that already held {sorted(stale)} (verdicts {v}): " + "; ".join(bad[:3]),
                             {"stale": sorted(stale), "verdicts": v, "listing": sorted(got)})
    from envmatrix import run_matrix
    run_matrix(ck, ("C12",))
    from boundaries import long_run_recurrence
    long_run_recurrence(ck, ck.tier == "quick")
    ex.diff()
    return ck.finish(level="proof", rule=RULE + EXTRA_RULE, assumptions=ASSUME)


EXTRA_RULE = ""
ASSUME = ["the interestingness test sees only the file, its arguments and the prefix",
          "SHA-512 collision-freeness (the model de-duplicates on content equality)"]


def extra(ex, ck):
    pass
