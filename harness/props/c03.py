"""C03 - minimize ends with a 1-minimal file (deterministic, possibly non-monotone test)."""
import hashlib

from common import Check, rng
from explore import Explorer, content, make_oracle_c03, small_layouts, table_f

RULE = ("tie X on complete traces + 1-minimality oracle: exhaustive DFS over verdict sequences "
        "(every sequence with first answer Y whose repeated contents got equal answers IS a "
        "deterministic test; contents never asked count as 'some test accepts them') for every "
        "layout up to N atoms incl. duplicate atoms and non-reducible parts, repeat in "
        "{last,always}, several --max; sampled non-monotone deterministic families (hash mod 3, "
        "parity of length, needs a XOR b, atom-count in a set) for 6-64 atoms. non-trivial = more "
        "than one test; distinct = distinct (options, input, verdict sequence / function)")


def families():
    def h3(c):
        return hashlib.sha256(c).digest()[0] % 3 != 0

    def parity(c):
        return len(c) % 2 == 0

    def xor_ab(c):
        return (b"a" in c) != (b"b" in c)

    def count_set(c):
        return c.count(b"\n") in (1, 2, 3, 5, 8, 13, 21, 34)

    def has_k(c):
        return b"k" in c and c.count(b"\n") % 3 != 1
    return [h3, parity, xor_ab, count_set, has_k]


def run(ck: Check):
    quick = ck.tier == "quick"
    ex = Explorer(ck, oracles=[make_oracle_c03(table_f)])
    n = 3 if quick else 4
    for tc in small_layouts(n, alphabet=(b"a\n", b"b\n")):
        for cfg in ({}, {"repeat": "always"}, {"max": 1}, {"max": 2, "repeat": "always"}):
            ex.dfs("minimize", cfg, tc, stream="dfs", max_runs=400)
    if not quick:
        for tc in small_layouts(5, alphabet=(b"a\n", b"b\n"), with_nonred=False):
            ex.dfs("minimize", {}, tc, stream="dfs5", max_runs=3000)
    else:
        for tc in small_layouts(4, alphabet=(b"a\n", b"b\n"), with_nonred=False):
            ex.dfs("minimize", {}, tc, stream="dfs4", max_runs=600)
    # atoms that differ only in something a normalisation would erase - a byte that is not UTF-8 against another one or
    # against '?', letter case, a trailing blank, the line terminator, a combining form: candidates built from them are
    # DIFFERENT files, each is tested on its own
    for alpha in ((b"\xff\n", b"\xfe\n"), (b"\xff\n", b"?\n"), (b"\xc3\xa9\n", b"\xc3\n"), (b"a\n", b"A\n"), (b"a\n", b"a \n"),
                  (b"a\n", b"a\r\n"), (b"\xc3\xa9\n", b"e\xcc\x81\n"), (b"\xed\xa0\x80\n", b"\xef\xbf\xbd\n")):
        for tc in small_layouts(3 if quick else 4, alphabet=alpha, with_nonred=False):
            if len(set(tc[1])) < 2:
                continue
            for cfg in ({}, {"repeat": "always"}):
                ex.dfs("minimize", cfg, tc, stream="dfs-near-identical-atoms", max_runs=60 if quick else 600)
    for parts in ([b"keep1\n", b"plumless\n", b"keep2\n", b"buckeroo\n"], [b"plumless\n", b"buckeroo\n", b"x\n"]):     # CRC-32 / Adler-32 twins
        tcc = (b"", parts, [True] * len(parts), b"")
        for cfg in ({}, {"repeat": "always"}):
            ex.dfs("minimize", cfg, tcc, stream="dfs-colliding-atoms", max_runs=150 if quick else 1500)
    # the same strategy object after another file
    from universe import reuse_universe
    reuse_universe(ex, ck, strategies=("minimize",))
    ex.diff()
    # deterministic non-monotone families on larger inputs
    r = rng("c03")
    fams = families()
    for i in range(60 if quick else 600):
        k = r.randint(6, 64)
        parts = [bytes([r.choice(b"abkxyz")]) + b"\n" for _ in range(k)]
        flags = [r.random() < 0.9 for _ in range(k)]
        tc = (b"", parts, flags, b"")
        f = r.choice(fams)
        if not f(content(tc)):
            continue
        ex2 = Explorer(ck, oracles=[make_oracle_c03(lambda ctx, run, f=f: f)])
        cfg = r.choice([{}, {"repeat": "always"}, {"max": 4}])
        ex2.one("minimize", cfg, tc, content(tc), lambda kk, data, f=f: "Y" if f(data) else "N",
                stream="family")
        ex.lines += ex2.lines
        ex.impl += ex2.impl
        ex.meta += ex2.meta
    ex.lines, ex.impl, ex.meta = ex.lines[-600:], ex.impl[-600:], ex.meta[-600:]
    ex.diff()
    # the SAME Lithium / strategy / testcase objects for consecutive runs under ONE deterministic test: what an
    # earlier run tried (and accepted) must not be skipped by a later one
    from runner import impl_session
    fam2 = [lambda c: b"a\n" in c, lambda c: c.count(b"\n") % 2 == 1 or b"k\n" in c,
            lambda c: hashlib.sha256(c).digest()[0] % 3 != 0]
    for i in range(80 if quick else 800):
        f = fam2[i % len(fam2)]
        steps = []
        for _ in range(r.choice([2, 3])):
            k = r.randint(2, 6)
            parts = [r.choice([b"a\n", b"b\n", b"c\n", b"d\n", b"k\n"]) for _ in range(k)]
            if i % len(fam2) == 0 and b"a\n" not in parts:
                parts[r.randrange(k)] = b"a\n"
            data = b"".join(parts)
            if not f(data):
                continue
            steps.append({"strategy": "minimize", "cfg": {"repeat": r.choice(["last", "always"])}, "atom": "line",
                          "file0": data, "verdict": lambda kk, d, f=f: "Y" if f(d) else "N"})
        if len(steps) < 2:
            continue
        steps[1]["cfg"] = steps[0]["cfg"]    # one strategy object = one configuration
        for st in steps[2:]:
            st["cfg"] = steps[0]["cfg"]
        runs = impl_session(steps)
        for step, run_ in zip(steps, runs):
            ck.count("session")
            ck.nontrivial(("session", i, step["file0"]))
            ctx = {"strategy": "minimize", "cfg": step["cfg"], "tc": run_.loaded, "file0": step["file0"], "verdicts": "",
                   "clock": [], "atom": "line", "exc_class": "TestRaised", "load": True,
                   "session": [s_["file0"].hex() for s_ in steps], "note": "same objects for all runs; test = family " + str(i % len(fam2))}
            make_oracle_c03(lambda ctx, run, f=f: f)(ck, ctx, run_)
    # a --tempdir that still holds the numbered logs of an earlier reduction under ANOTHER test (files the current test would
    # accept, tagged boring; files it rejects, tagged interesting): nothing is learnt from them - the result is 1-minimal
    from runner import impl_run
    from explore import replay_doc
    lines5 = [b"a\n", b"b\n", b"c\n", b"d\n", b"e\n"]
    data5 = b"".join(lines5)
    for need in ([3], [1, 3], [0], [4], [2, 4]):
        f5 = (lambda d, need=need: all(lines5[i] in d for i in need))
        stale = {}
        for k_, keep in enumerate(([3], [1, 3], [3, 4], [0, 3], [], [1], [0, 1, 2, 3], [4], [2, 4], [0])):
            stale[f"{k_ + 1}-{'boring' if k_ % 3 else 'interesting'}.txt"] = b"".join(lines5[i] for i in keep)
        for cfg in ({}, {"repeat": "always"}):
            run_ = impl_run("minimize", cfg, None, data5, lambda k, d, f5=f5: "Y" if f5(d) else "N", load=True, prefill=stale)
            ck.count("stale-tempdir")
            ck.nontrivial(("stale-tempdir", tuple(need), tuple(cfg.items())))
            want = b"".join(lines5[i] for i in need)
            if run_.exc is not None or run_.final != want:
                ctx = {"strategy": "minimize", "cfg": cfg, "tc": run_.loaded, "file0": data5, "verdicts": "", "clock": [], "atom": "line",
                       "exc_class": "TestRaised", "load": True, "tempdir_prefilled_with": sorted(stale)}
                ck.violation(f"minimize in a temp dir that already held {sorted(stale)[:4]}... (logs of another test): the run ended "
                             f"exc={run_.exc} with {run_.final!r}; the test needs only {want!r}, so the result is not 1-minimal",
                             replay_doc(ctx, run_))
    from scale import order_dependent_minimality
    order_dependent_minimality(ck)
    return ck.finish(level="proof", rule=RULE, assumptions=[
        "atoms are non-empty (C06) so every candidate is strictly shorter than its basis"])
