"""C03 - minimize ends with a 1-minimal file (deterministic, possibly non-monotone test)."""
import hashlib

from common import Check, rng
from explore import Explorer, content, make_oracle_c03, small_layouts, table_f

RULE = ("tie X on complete traces + 1-minimality oracle: exhaustive DFS over verdict sequences "
        "(every sequence with first answer Y whose repeated contents got equal answers IS a "
        "deterministic test; contents never asked count as 'some test accepts them') for every "
        "layout up to N atoms incl. duplicate atoms and non-reducible parts, repeat in "
        "{last,always}, several --max; sampled non-monotone deterministic families (hash mod 3, "
        "parity of length, needs a XOR b, atom-count in a set) for 6-64 atoms. non-trivial = more "
        "than one test; distinct = distinct (options, input, verdict sequence / function)")


def families():
    def h3(c):
        return hashlib.sha256(c).digest()[0] % 3 != 0

    def parity(c):
        return len(c) % 2 == 0

    def xor_ab(c):
        return (b"a" in c) != (b"b" in c)

    def count_set(c):
        return c.count(b"\n") in (1, 2, 3, 5, 8, 13, 21, 34)

    def has_k(c):
        return b"k" in c and c.count(b"\n") % 3 != 1
    return [h3, parity, xor_ab, count_set, has_k]


def run(ck: Check):
    quick = ck.tier == "quick"
    ex = Explorer(ck, oracles=[make_oracle_c03(table_f)])
    n = 3 if quick else 4
    for tc in small_layouts(n, alphabet=(b"a\n", b"b\n")):
        for cfg in ({}, {"repeat": "always"}, {"max": 1}, {"max": 2, "repeat": "always"}):
            ex.dfs("minimize", cfg, tc, stream="dfs", max_runs=400)
    if not quick:
        for tc in small_layouts(5, alphabet=(b"a\n", b"b\n"), with_nonred=False):
            ex.dfs("minimize", {}, tc, stream="dfs5", max_runs=3000)
    else:
        for tc in small_layouts(4, alphabet=(b"a\n", b"b\n"), with_nonred=False):
            ex.dfs("minimize", {}, tc, stream="dfs4", max_runs=600)
    # atoms that differ only in something a normalisation would erase - a byte that is not UTF-8 against another one or
    # against '?', letter case, a trailing blank, the line terminator, a combining form: candidates built from them are
    # DIFFERENT files, each is tested on its own
    for alpha in ((b"\xff\n", b"\xfe\n"), (b"\xff\n", b"?\n"), (b"\xc3\xa9\n", b"\xc3\n"), (b"a\n", b"A\n"), (b"a\n", b"a \n"),
                  (b"a\n", b"a\r\n"), (b"\xc3\xa9\n", b"e\xcc\x81\n"), (b"\xed\xa0\x80\n", b"\xef\xbf\xbd\n")):
        for tc in small_layouts(3 if quick else 4, alphabet=alpha, with_nonred=False):
            if len(set(tc[1])) < 2:
                continue
            for cfg in ({}, {"repeat": "always"}):
                ex.dfs("minimize", cfg, tc, stream="dfs-near-identical-atoms", max_runs=60 if quick else 600)
    # the same strategy object after another file
    from universe import reuse_universe
    reuse_universe(ex, ck, strategies=("minimize",))
    ex.diff()
    # deterministic non-monotone families on larger inputs
    r = rng("c03")
    fams = families()
    for i in range(60 if quick else 600):
        k = r.randint(6, 64)
        parts = [bytes([r.choice(b"abkxyz")]) + b"\n" for _ in range(k)]
        flags = [r.random() < 0.9 for _ in range(k)]
        tc = (b"", parts, flags, b"")
        f = r.choice(fams)
        if not f(content(tc)):
            continue
        ex2 = Explorer(ck, oracles=[make_oracle_c03(lambda ctx, run, f=f: f)])
        cfg = r.choice([{}, {"repeat": "always"}, {"max": 4}])
        ex2.one("minimize", cfg, tc, content(tc), lambda kk, data, f=f: "Y" if f(data) else "N",
                stream="family")
        ex.lines += ex2.lines
        ex.impl += ex2.impl
        ex.meta += ex2.meta
    ex.lines, ex.impl, ex.meta = ex.lines[-600:], ex.impl[-600:], ex.meta[-600:]
    ex.diff()
    # the SAME Lithium / strategy / testcase objects for consecutive runs under ONE deterministic test: what an
    # earlier run tried (and accepted) must not be skipped by a later one
    from runner import impl_session
    fam2 = [lambda c: b"a\n" in c, lambda c: c.count(b"\n") % 2 == 1 or b"k\n" in c,
            lambda c: hashlib.sha256(c).digest()[0] % 3 != 0]
    for i in range(80 if quick else 800):
        f = fam2[i % len(fam2)]
        steps = []
        for _ in range(r.choice([2, 3])):
            k = r.randint(2, 6)
            parts = [r.choice([b"a\n", b"b\n", b"c\n", b"d\n", b"k\n"]) for _ in range(k)]
            if i % len(fam2) == 0 and b"a\n" not in parts:
                parts[r.randrange(k)] = b"a\n"
            data = b"".join(parts)
            if not f(data):
                continue
            steps.append({"strategy": "minimize", "cfg": {"repeat": r.choice(["last", "always"])}, "atom": "line",
                          "file0": data, "verdict": lambda kk, d, f=f: "Y" if f(d) else "N"})
        if len(steps) < 2:
            continue
        steps[1]["cfg"] = steps[0]["cfg"]    # one strategy object = one configuration
        for st in steps[2:]:
            st["cfg"] = steps[0]["cfg"]
        runs = impl_session(steps)
        for step, run_ in zip(steps, runs):
            ck.count("session")
            ck.nontrivial(("session", i, step["file0"]))
            ctx = {"strategy": "minimize", "cfg": step["cfg"], "tc": run_.loaded, "file0": step["file0"], "verdicts": "",
                   "clock": [], "atom": "line", "exc_class": "TestRaised", "load": True,
                   "session": [s_["file0"].hex() for s_ in steps], "note": "same objects for all runs; test = family " + str(i % len(fam2))}
            make_oracle_c03(lambda ctx, run, f=f: f)(ck, ctx, run_)
    from scale import order_dependent_minimality
    order_dependent_minimality(ck)
    return ck.finish(level="proof", rule=RULE, assumptions=[
        "atoms are non-empty (C06) so every candidate is strictly shorter than its basis"])
