"""C01 - final file is exactly the last version the test accepted (all strategies)."""
from common import Check, rng
from explore import (Explorer, content, oracle_c01, small_layouts)
from universe import driver_universe

RULE = ("tie X on complete event traces of Lithium.run: exhaustive DFS over every verdict sequence "
        "(first answer Y) for every (parts, flags) layout up to N atoms over a 2-letter atom alphabet "
        "(with and without non-reducible parts and DDBEGIN/DDEND-style before/after), all modelled "
        "strategies x option grid; strategies without a concrete model (replace-*, move) drive the "
        "model DRIVER through their recorded proposal list; seeded random verdicts for 5-40 atoms. "
        "non-trivial = the run performed more than one test; distinct = distinct "
        "(strategy, options, input, verdict sequence)")


def run(ck: Check):
    ex = Explorer(ck, oracles=[oracle_c01])
    driver_universe(ex, ck, aborts=False)
    from explore import oracle_session
    from universe import session_universe
    session_universe(ck, oracle_session, quick=ck.tier == "quick")
    from envmatrix import run_matrix
    run_matrix(ck, ("C01",))
    from scale import big_final_is_last_accepted
    big_final_is_last_accepted(ck)
    from boundaries import final_file_at_part_counts
    final_file_at_part_counts(ck, ck.tier == "quick")
    ex.diff()
    return ck.finish(level="proof", rule=RULE, assumptions=[
        "the interestingness test sees only the file, its arguments and the prefix",
        "SHA-512 collision-freeness (the model de-duplicates on content equality)"])
