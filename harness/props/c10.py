"""C10 - monotone tests: exact core in O(m log n) tests."""
import itertools
import math

from common import Check, rng
from explore import Explorer, content, replay_doc, tc_len

RULE = ("tie X on complete traces of minimize (default options) under monotone tests 'file still "
        "contains all m core atoms' + direct oracle (final file == core, number of tests <= "
        "(2m+1)*ceil(log2 n)+5m+8): EVERY subset core for n <= 8 (thorough 10) distinct atoms x "
        "line/char/symbol atoms; clustered / spread / random cores for n in {16,100,1000,4096} and "
        "seeded random (n, core) pairs. non-trivial = the core is a proper non-empty subset; "
        "distinct = distinct (atom type, n, core)")


def bound(n, m):
    lg = 0 if n <= 1 else math.ceil(math.log2(n))
    return (2 * m + 1) * lg + 5 * m + 8


def atoms_for(kind, n):
    if kind == "line":
        return [b"%d\n" % i for i in range(n)]
    if kind == "char":
        return [bytes([33 + i]) for i in range(n)]
    return [b"s%d;" % i for i in range(n)]


def make_oracle(core_idx, parts):
    core = [parts[i] for i in core_idx]

    def f(data):
        # monotone: every core atom still present, as whole atoms in order
        pos = 0
        for c in core:
            j = data.find(c, pos)
            if j < 0:
                return False
            pos = j + len(c)
        return True

    def orc(ck, ctx, run):
        n, m = len(parts), len(core)
        want = b"".join(core)
        b = bound(n, m)
        if run.exc is not None:
            ck.violation(f"run raised {run.exc}", replay_doc(ctx, run))
        elif run.final != want:
            ck.violation(f"monotone test with core {core_idx} of n={n}: final file {run.final!r}, expected "
                         f"exactly the core {want!r}", replay_doc(ctx, run, core=list(core_idx)))
        elif run.tests > b:
            ck.violation(f"monotone test with core {core_idx} of n={n}: {run.tests} tests, bound {b}",
                         replay_doc(ctx, run, core=list(core_idx), bound=b))
        ck.cov.setdefault("worst_ratio", 0.0)
        ck.cov["worst_ratio"] = max(ck.cov["worst_ratio"], round(run.tests / b, 3))
    return f, orc


def run(ck: Check):
    quick = ck.tier == "quick"
    r = rng("c10")
    ex = Explorer(ck)
    N = 8 if quick else 10

    def go(kind, n, core_idx, stream):
        parts = atoms_for(kind, n)
        # unique decoding: line atoms "1\n" vs "11\n": find() of b"1\n" inside b"11\n" -> make them unambiguous
        if kind == "line":
            parts = [b"<%d>\n" % i for i in range(n)]
        if kind == "symbol":
            parts = [b"<%d>;" % i for i in range(n)]
        f, orc = make_oracle(core_idx, parts)
        tc = (b"", parts, [True] * n, b"")
        ex.oracles = [orc]
        if 0 < len(core_idx) < n:
            ck.nontrivial((kind, n, tuple(core_idx)))
        # the extracted model compares every candidate with every earlier one byte by byte (content de-dup): beyond
        # ~2000 atoms only the direct oracle is applied to the implementation run
        ex.one("minimize", {}, tc, content(tc), lambda k, data: "Y" if f(data) else "N", atom=kind,
               stream=stream, cap=bound(n, len(core_idx)) + 50, model=n <= 2048)

    for kind in ("line", "char", "symbol"):
        for n in range(1, N + 1):
            subsets = itertools.chain.from_iterable(itertools.combinations(range(n), m) for m in range(n + 1))
            for core in subsets:
                if kind != "line" and n > N - 2 and r.random() < 0.7:
                    continue
                go(kind, n, core, f"all-subsets-{kind}")
    # files LOADED by the real splitters, the lines ended by every kind of line terminator Python knows (the atoms the
    # property speaks of are the splitter's): the result is exactly the core
    TERMS = [b"\n", b"\r\n", b"\r", b"\x0b", b"\x0c", b"\x1c", b"\x1d", b"\x1e", b"\xc2\x85", b"\xe2\x80\xa8", b"\xe2\x80\xa9"]
    for shift in range(0, len(TERMS), 1 if not quick else 3):
        for n in (5, 12):
            parts = [b"<%d>" % i + TERMS[(i + shift) % len(TERMS)] for i in range(n)]
            data = b"".join(parts)
            for core in ([0], [n - 1], [1, 3], list(range(0, n, 2)), list(range(1, n, 2)), [2], []):
                f, orc = make_oracle(core, parts)
                ex.oracles = [orc]
                ck.nontrivial(("terminators", shift, n, tuple(core)))
                ex.one("minimize", {}, None, data, lambda k, d, f=f: "Y" if f(d) else "N", atom="line", load=True,
                       stream="loaded-terminators", cap=bound(n, len(core)) + 50)
    for data, atom, core_parts in ((b"a;b}c{d;\ne]f", "symbol", None), (b"x = 'abc' + \"de\";\n", "jsstr", None),
                                   (b'<a b="c" d=e f>\n', "attrs", None)):
        from splitx import impl_load
        _, t0, _ = impl_load(atom, data)
        red = [p for p, fl in zip(t0.parts, t0.reducible) if fl]
        for core in ([0], [len(red) - 1], list(range(0, len(red), 2)), []):
            keep = [red[i] for i in core]

            def f2(d, keep=keep, t0=t0):
                pos = len(t0.before)
                for c in keep:
                    j = d.find(c, pos)
                    if j < 0:
                        return False
                    pos = j + len(c)
                return True
            run_ = ex_run = None
            from runner import impl_run
            run_ = impl_run("minimize", {}, None, data, lambda k, d, f2=f2: "Y" if f2(d) else "N", atom=atom, load=True, cap=400)
            ck.count("loaded-" + atom)
            ck.nontrivial(("loaded-core", atom, tuple(core)))
            it, want = iter(core), []
            keepset = set(core)
            ri = 0
            for p, fl in zip(t0.parts, t0.reducible):
                if not fl:
                    want.append(p)
                else:
                    if ri in keepset:
                        want.append(p)
                    ri += 1
            want = t0.before + b"".join(want) + t0.after
            if run_.exc is not None or run_.final != want:
                ck.violation(f"[{atom}] monotone test with core {core} of the {len(red)} reducible atoms of {data!r}: final file "
                             f"{run_.final!r} (exc={run_.exc}), expected exactly the core with the protected text: {want!r}",
                             {"atom": atom, "data": data.hex(), "core": core})
    # a quarter / half a million atoms with the DEFAULT options (the largest chunk size is then bounded by the file only):
    # the count stays logarithmic in n
    from scale import _run
    for n_big, core_i in ((1 << 18, None), (1 << 19, 123457)) if quick else ((1 << 18, None), (1 << 19, 123457), (1 << 20, 7), (300001, 299999)):
        atoms_big = [b"a%d;" % i for i in range(n_big)]
        data_big = b"".join(atoms_big)
        needle = None if core_i is None else atoms_big[core_i]
        run_b = _run("minimize", data_big, (lambda d: True) if needle is None else (lambda d, needle=needle: needle in d), atom="symbol",
                     cap=2000, watchdog=600.0, light=True)
        m_b = 0 if needle is None else 1
        ck.count("huge")
        ck.nontrivial(("huge", n_big, m_b))
        if run_b.exc is not None or run_b.final != (needle or b"") or run_b.tests > bound(n_big, m_b):
            ck.violation(f"minimize with default options on {n_big} symbol atoms, core of {m_b}: {run_b.tests} tests (bound {bound(n_big, m_b)}), "
                         f"exc={run_b.exc}, final file {len(run_b.final)} bytes (the core has {len(needle or b'')})",
                         {"atoms": n_big, "core": core_i, "tests": run_b.tests, "bound": bound(n_big, m_b)})
    # atoms whose CRC-32 / Adler-32 collide (a weakened de-dup key must not drop a candidate)
    for words in ([b"plumless", b"buckeroo"], [b"plumless", b"buckeroo", b"x", b"y", b"z", b"w"],
                  [b"a", b"plumless", b"b", b"buckeroo"]):
        for term in (b"\n", b";"):
            parts = [w + term for w in words]
            for core in itertools.chain.from_iterable(itertools.combinations(range(len(parts)), m)
                                                       for m in range(len(parts) + 1)):
                f, orc = make_oracle(core, parts)
                tc = (b"", parts, [True] * len(parts), b"")
                ex.oracles = [orc]
                ex.one("minimize", {}, tc, content(tc), lambda k, data, f=f: "Y" if f(data) else "N",
                       atom="line" if term == b"\n" else "symbol", stream="collision-words")
    for n in (16, 100, 1000, 4096 if not quick else 2048):
        for m in (0, 1, 2, 5, 17):
            if m > n:
                continue
            cores = [tuple(range(m)), tuple(range(n - m, n)), tuple(sorted(r.sample(range(n), m))),
                     tuple(range(n // 2, n // 2 + m)), tuple(range(0, n, max(1, n // max(m, 1))))[:m]]
            for core in cores:
                go("line", n, core, "large")
    # evenly spread cores at powers of two: every chunk-size level alternates failing and removable chunks
    for n in ((2048,) if quick else (512, 1024, 2048, 4096)):
        for m in ((8, 16) if quick else (4, 8, 16, 32)):
            stride = n // m
            for off in ((0, stride // 2) if quick else (0, stride // 2, stride - 1)):
                go("line" if off else "symbol", n, tuple(range(off, n, stride))[:m], "spread-pow2")
    for _ in range(100 if quick else 800):
        n = r.randint(2, 300 if quick else 3000)
        m = r.randint(0, min(n, 12))
        go(r.choice(["line", "symbol"]) if n > 200 else r.choice(["line", "char", "symbol"]),
           n if n <= 200 else n, tuple(sorted(r.sample(range(n), m))), "random")
    # the same strategy / Lithium objects for a small file and then a large one (nothing learnt from the first
    # input may slow down the second): exact core and the count bound for every run of the session
    from runner import impl_session
    for sizes in ((8, 1024), (3, 300, 2000), (16, 16, 512)) if quick else ((8, 1024), (3, 300, 2000), (16, 16, 512), (1, 4096)):
        steps, info = [], []
        for n in sizes:
            parts = [b"<%d>\n" % i for i in range(n)]
            m = min(n, 3)
            core_idx = tuple(sorted(r.sample(range(n), m)))
            f, _ = make_oracle(core_idx, parts)
            steps.append({"strategy": "minimize", "cfg": {}, "atom": "line", "file0": b"".join(parts),
                          "verdict": lambda k, data, f=f: "Y" if f(data) else "N", "cap": bound(n, m) + 50})
            info.append((n, m, core_idx, parts))
        for (n, m, core_idx, parts), run_ in zip(info, impl_session(steps)):
            ck.count("session")
            ck.nontrivial(("session", sizes, n))
            want = b"".join(parts[i] for i in core_idx)
            if run_.exc is not None or run_.final != want or run_.tests > bound(n, m):
                ck.violation(f"same minimize object for files of {sizes} atoms: the run on n={n} (core {core_idx}) ended "
                             f"with exc={run_.exc}, {run_.tests} tests (bound {bound(n, m)}), final == core: {run_.final == want}",
                             {"session_sizes": list(sizes), "n": n, "core": list(core_idx), "tests": run_.tests,
                              "bound": bound(n, m)})
    from scale import linked_testcase_core
    linked_testcase_core(ck, bound)
    import logging
    for kind, text in (("char", "aé€b😀c".encode()), ("line", b"caf\xe9\nna\xefve\n\xff\xfe\nplain\n"), ("symbol", "x=é;y=€;z".encode())):
        from runner import impl_run
        tcx = None
        for level in (logging.INFO, logging.DEBUG):
            base = impl_run("minimize", {}, None, text, "Y", atom=kind, load=True)
            parts = base.loaded[1]
            for core in ((), (0,), (len(parts) - 1,), tuple(range(0, len(parts), 2))):
                want = b"".join(parts[i] for i in core)
                f = (lambda d, core=core, parts=parts: all(parts[i] in d for i in core))
                # atoms may repeat as byte strings (continuation bytes): accept exactly the supersets of the core in order
                run_ = impl_run("minimize", {}, None, text, lambda k, d, f=f: "Y" if f(d) else "N", atom=kind, load=True,
                                log_level=level, cap=bound(len(parts), len(core)) + 50)
                ck.count("logging-on")
                ck.nontrivial(("logging-on", kind, level, core))
                if run_.exc is not None or not f(run_.final) or run_.tests > bound(len(parts), len(core)):
                    ck.violation(f"minimize/{kind} with the command line's logging level {logging.getLevelName(level)} on {text!r} "
                                 f"(core {core}): ended exc={run_.exc}, {run_.tests} tests (bound {bound(len(parts), len(core))}), "
                                 f"final {run_.final!r}", {"atom": kind, "data": text.hex(), "core": list(core), "level": level})
    ex.diff()
    return ck.finish(level="proof", rule=RULE, assumptions=[
        "the test-count bound is a Coq theorem only in the form stated in Props/C10.v; see level note"])
