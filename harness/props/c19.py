"""C19 - outputs, diff_test and repeat decide exactly what they document."""
import itertools
import os
import re
import shutil
import sys
import tempfile
import types
from concurrent.futures import ThreadPoolExecutor

from common import Check, hx, rng, run_model
from runner import SCRATCH_ROOT

RULE = ("tie X: the real outputs/diff_test/repeat modules run with real child processes printing "
        "scripted byte strings (binary, multi-line, empty, match spanning lines / split over the two "
        "streams) and exiting with scripted codes, in BOTH capture modes, compared with the model's "
        "decision and with the documented meaning: outputs x {literal, regex} x search strings from "
        "substrings and non-substrings; diff_test over a 3x3x3 grid of (exit code, stdout, stderr) "
        "pairs incl. same-size outputs with forced equal mtimes and a timeout; repeat with every "
        "inner verdict sequence for N <= 4, default and custom cookies occurring 0/1/2 times. "
        "non-trivial = children actually ran; distinct = distinct (module, arguments, capture mode)")

PY = sys.executable
CHILD = ("import sys,os\n"
         "o=bytes.fromhex(sys.argv[1]); e=bytes.fromhex(sys.argv[2])\n"
         "sys.stdout.buffer.write(o); sys.stdout.buffer.flush()\n"
         "sys.stderr.buffer.write(e); sys.stderr.buffer.flush()\n"
         "os._exit(int(sys.argv[3]))\n")


def run(ck: Check):
    from lithium.interestingness import diff_test, outputs, repeat

    quick = ck.tier == "quick"
    r = rng("c19")
    work = tempfile.mkdtemp(prefix="lv-", dir=SCRATCH_ROOT)
    cases, impl = [], []
    try:
        # ------------------------------------------------------------ outputs
        streams = [(b"hello world\n", b""), (b"", b"oops: hello\n"), (b"line one\nline two\n", b"err\n"),
                   (b"\x00\xffbin\n", b"\xfe"), (b"", b""), (b"he", b"llo"), (b"xhello", b""),
                   (b"caf\xc3\xa9 crashed\n", b""), (b"", b"h\xc3\xa9llo\n"), (b"a\xffb\n", b"\xe2\x82\xac1\n")]
        literals = ["hello", "line two", "one\nline", "zzz", "", "llo", "he", "a\ufffdb", "\u00e9", "caf\u00e9"]
        regexes = ["he.lo", "^line two$", "one\\nline", "h[a-z]+o w", "^oops", "z+", "two$", "^$",
                   "^caf. crashed$", "^\\w+$", "caf..", "a.b", "^.1$", "h..llo",
                   # patterns whose match is the EMPTY string (a match all the same)
                   "(?=hello)", "x*", "\\b(?=line two$)", "(?:fatal)?", "^(?=oops: )", "$"]
        jobs = []
        for (o, e) in streams:
            for s in literals:
                for mode in (False, True):
                    jobs.append(("lit", o, e, s, mode))
            for s in regexes:
                for mode in (False, True):
                    jobs.append(("re", o, e, s, mode))
        if quick:
            jobs = [j for i, j in enumerate(jobs) if i % 2 == 0 or j[3] in ("he.lo", "hello", "^$", "(?=hello)", "x*",
                                                                             "(?:fatal)?", "^(?=oops: )", "$")]

        def do_outputs(idx_j):
            idx, (kind, o, e, s, mode) = idx_j
            prefix = os.path.join(work, f"o{idx}") if mode else None
            args = ["-t", "20", "-s", s] + (["-r"] if kind == "re" else []) + [PY, "-c", CHILD, o.hex(), e.hex(), "0"]
            try:
                return outputs.interesting(args, prefix)
            except BaseException as exc:  # pylint: disable=broad-except
                return "raised " + type(exc).__name__ + ": " + str(exc)[:80]

        with ThreadPoolExecutor(16) as ex:
            res = list(ex.map(do_outputs, enumerate(jobs)))
        for (kind, o, e, s, mode), got in zip(jobs, res):
            ck.count("outputs")
            ck.nontrivial(("outputs", kind, o, e, s, mode))
            if kind == "lit":
                want = s.encode() in o or s.encode() in e
            else:
                want = bool(re.search(s.encode(), o, re.MULTILINE) or re.search(s.encode(), e, re.MULTILINE))
            if got is not want:
                key = None
                ck.violation(f"outputs {'--regex ' if kind == 're' else ''}-s {s!r} on stdout={o!r} stderr={e!r} "
                             f"({'log files' if mode else 'in memory'}): got {got}, documented meaning {want}",
                             {"module": "outputs", "regex": kind == "re", "search": s, "stdout": o.hex(),
                              "stderr": e.hex(), "files": mode, "got": str(got)}, key=key)
            if kind == "lit":
                cases.append(f"outputs {hx(s.encode())} {hx(o)} {hx(e)}")
                impl.append("T" if got is True else ("F" if got is False else str(got)))
        ck.sample({"module": "outputs", "search": "he.lo", "regex": True, "stdout": "hello world\\n"})
        # large outputs (more than a pipe buffer / read block): a multi-line search text placed at every offset
        # around the 64 KiB and 128 KiB marks, with and without line breaks in the padding
        big_child = ("import sys,os\n"
                     "pad=(b'y'*63+b'\\n') if sys.argv[3]=='nl' else b'y'*64\n"
                     "n=int(sys.argv[1])\n"
                     "data=(pad*(n//64+1))[:n]+bytes.fromhex(sys.argv[2])\n"
                     "(sys.stdout if sys.argv[4]=='o' else sys.stderr).buffer.write(data)\n"
                     "os._exit(0)\n")
        tail = b"\nline one\nline two\nend"
        bjobs = []
        for mark in (1 << 16, 1 << 17):
            for k in (range(0, 26, (5 if quick else 1))):
                for padkind in ("nl", "raw"):
                    for needle in ("one\nline two", "line one\nl", "zz\nline"):
                        for mode in (False, True):
                            bjobs.append((mark - k, padkind, needle, mode, "o" if k % 2 == 0 else "e"))

        def do_big(idx_j):
            idx, (n, padkind, needle, mode, stream) = idx_j
            prefix = os.path.join(work, f"b{idx}") if mode else None
            args = ["-t", "20", "-s", needle, PY, "-c", big_child, str(n), tail.hex(), padkind, stream]
            try:
                return outputs.interesting(args, prefix)
            except BaseException as exc:  # pylint: disable=broad-except
                return "raised " + type(exc).__name__ + ": " + str(exc)[:80]

        with ThreadPoolExecutor(16) as ex:
            bres = list(ex.map(do_big, enumerate(bjobs)))
        for (n, padkind, needle, mode, stream), got in zip(bjobs, bres):
            ck.count("outputs-big")
            ck.nontrivial(("outputs-big", n, padkind, needle, mode, stream))
            want = needle.encode() in tail
            if got is not want:
                ck.violation(f"outputs -s {needle!r} on {n} bytes of padding ({padkind}) followed by {tail!r} on "
                             f"std{'out' if stream == 'o' else 'err'} ({'log files' if mode else 'in memory'}): got {got}, "
                             f"documented meaning {want}",
                             {"module": "outputs", "search": needle, "padding": n, "padkind": padkind,
                              "tail": tail.hex(), "files": mode, "stream": stream, "got": str(got)})

        # ------------------------------------------------------------ diff_test
        outs = [b"a\n", b"b\n", b""]
        codes = [0, 1, 3]
        djobs = []
        for (ca, oa, ea), (cb, ob, eb) in itertools.product(itertools.product(codes, outs, outs), repeat=2):
            if quick and r.random() < 0.8:
                continue
            for mode in (False, True):
                djobs.append((ca, oa, ea, cb, ob, eb, mode))
        # always: the same bytes split differently over the two streams / same streams, different exit status
        for a_, b_ in (((0, b"a\n", b""), (0, b"", b"a\n")), ((0, b"a\nb\n", b""), (0, b"a\n", b"b\n")),
                       ((1, b"", b"a\nb\n"), (1, b"a\n", b"b\n")), ((0, b"a\n", b"b\n"), (0, b"a\n", b"b\n")),
                       ((0, b"a\n", b"b\n"), (3, b"a\n", b"b\n")), ((0, b"ab", b""), (0, b"a", b"b")),
                       # equal length, equal CRC-32 and Adler-32, different bytes (and with a common prefix / suffix)
                       ((0, b"plumless", b""), (0, b"buckeroo", b"")), ((0, b"", b"plumless\n"), (0, b"", b"buckeroo\n")),
                       ((1, b"x plumless y\n", b"e"), (1, b"x buckeroo y\n", b"e")), ((0, b"plumless", b"buckeroo"), (0, b"buckeroo", b"plumless"))):
            for mode in (False, True):
                djobs.append(a_ + b_ + (mode,))
        dchild = ("import sys,os\n"
                  "which=sys.argv[1]\n"
                  "c,o,e=(sys.argv[2:5] if which=='A' else sys.argv[5:8])\n"
                  "sys.stdout.buffer.write(bytes.fromhex(o)); sys.stdout.buffer.flush()\n"
                  "sys.stderr.buffer.write(bytes.fromhex(e)); sys.stderr.buffer.flush()\n"
                  "for fd in (1,2):\n"
                  "    try: os.utime(fd, ns=(10**18, 10**18))\n"
                  "    except OSError: pass\n"
                  "os._exit(int(c))\n")

        def do_diff(idx_j):
            idx, (ca, oa, ea, cb, ob, eb, mode) = idx_j
            prefix = os.path.join(work, f"d{idx}") if mode else None
            args = ["-t", "20", "-a", "A", "-b", "B", PY, "-c", dchild,
                    str(ca), oa.hex(), ea.hex(), str(cb), ob.hex(), eb.hex()]
            # binary + a_args + testcase : ["python", "A", "-c", ...] would be wrong, so use a wrapper
            return None

        # diff_test builds  binary + a_args.split() + rest : make `binary` a wrapper script that
        # takes A/B as its first argument
        wrapper = os.path.join(work, "child.py")
        with open(wrapper, "w") as f:
            f.write("#!" + PY + "\n" + dchild)
        os.chmod(wrapper, 0o755)

        def do_diff2(idx_j):
            idx, (ca, oa, ea, cb, ob, eb, mode) = idx_j
            prefix = os.path.join(work, f"d{idx}") if mode else None
            args = ["-t", "20", "-a", "A", "-b", "B", wrapper,
                    str(ca), oa.hex(), ea.hex(), str(cb), ob.hex(), eb.hex()]
            try:
                return diff_test.interesting(args, prefix)
            except BaseException as exc:  # pylint: disable=broad-except
                return "raised " + type(exc).__name__ + ": " + str(exc)[:80]

        with ThreadPoolExecutor(16) as ex:
            res = list(ex.map(do_diff2, enumerate(djobs)))
        for (ca, oa, ea, cb, ob, eb, mode), got in zip(djobs, res):
            ck.count("diff_test")
            ck.nontrivial(("diff", ca, oa, ea, cb, ob, eb, mode))
            want = (ca != cb) or (oa != ob) or (ea != eb)
            if got is not want:
                ck.violation(f"diff_test A=(exit {ca}, {oa!r}, {ea!r}) B=(exit {cb}, {ob!r}, {eb!r}) "
                             f"({'log files' if mode else 'in memory'}): got {got}, documented meaning {want}",
                             {"module": "diff_test", "a": [ca, oa.hex(), ea.hex()], "b": [cb, ob.hex(), eb.hex()],
                              "files": mode, "got": str(got)})
            cases.append(f"diff {ca} {hx(oa)} {hx(ea)} {cb} {hx(ob)} {hx(eb)}")
            impl.append("T" if got is True else ("F" if got is False else str(got)))
        # one run that times out against one that does not (return code None vs 0)
        slow = os.path.join(work, "slow.py")
        with open(slow, "w") as f:
            f.write("#!" + PY + "\nimport sys,time\nif sys.argv[1]=='A': time.sleep(3)\n")
        os.chmod(slow, 0o755)
        for mode in (None, os.path.join(work, "slow")):
            got = diff_test.interesting(["-t", "1", "-a", "A", "-b", "B", slow], mode)
            ck.count("diff_test")
            if got is not True:
                ck.violation("diff_test: a run that timed out and one that exited 0 are reported as no difference",
                             {"module": "diff_test", "timeout": True, "files": mode is not None})

        both = os.path.join(work, "both.py")
        with open(both, "w") as f:
            f.write("#!" + PY + "\nimport sys,time\nsys.stdout.write(sys.argv[2] if sys.argv[1]=='A' else sys.argv[3]); sys.stdout.flush()\ntime.sleep(3)\n")
        os.chmod(both, 0o755)
        for oa, ob in (("same\n", "same\n"), ("left\n", "right\n"), ("", "x")):
            for mode in (None, os.path.join(work, "both")):
                got = diff_test.interesting(["-t", "1", "-a", "A", "-b", "B", both, oa, ob], mode)
                ck.count("diff_test")
                ck.nontrivial(("diff-both-timeout", oa, ob, mode is not None))
                if got is not (oa != ob):
                    ck.violation(f"diff_test: both runs time out after printing {oa!r} / {ob!r} ({'log files' if mode else 'in memory'}): "
                                 f"got {got}, documented meaning {oa != ob}",
                                 {"module": "diff_test", "timeout": "both", "stdout_a": oa, "stdout_b": ob, "files": mode is not None})
        # outputs on a child that is stopped by --timeout after printing: the text searched is what the CHILD wrote - in
        # memory and through log files alike - whatever else ends up in the kept logs
        from boundaries import mined_texts
        hang = os.path.join(work, "hang.py")
        with open(hang, "w") as f:
            f.write("#!" + PY + "\nimport sys,time\nsys.stdout.write('abc'); sys.stdout.flush()\n"
                    "sys.stderr.write('warn'); sys.stderr.flush()\ntime.sleep(4)\n")
        os.chmod(hang, 0o755)
        searches = [("abc", False), ("warn", False), ("zzz", False), ("TIMED OUT", False), ("timeout", False), ("n\n", False),
                    ("c\n", False), (r"after \d+s", True), (r"warn$", True), (r"^\[", True), ("killed", False), ("Timeout", False)]
        searches += [(t.decode("latin-1"), False) for t in mined_texts(40)]
        real_out, real_err = b"abc", b"warn"
        import re as _re

        def do_hang(job):
            (srch, rx), mode = job
            args = (["-r"] if rx else []) + ["-s", srch, "-t", "1", hang]
            try:
                return outputs.interesting(args, os.path.join(work, "hang-%d" % (abs(hash((srch, rx))) % 10 ** 8)) if mode else None)
            except BaseException as exc:  # pylint: disable=broad-except
                return "raised " + type(exc).__name__
        hj = [(sr, m) for sr in searches for m in (False, True)]
        with ThreadPoolExecutor(12) as ex:
            hres = list(ex.map(do_hang, hj))
        for ((srch, rx), mode), got in zip(hj, hres):
            sb = srch.encode("latin-1", "replace")
            want = any((_re.search(sb, d, _re.MULTILINE) is not None) if rx else (sb in d) for d in (real_out, real_err))
            ck.count("outputs")
            ck.nontrivial(("outputs-timeout", srch, rx, mode))
            if got is not want:
                ck.violation(f"outputs {'--regex ' if rx else ''}-s {srch!r} on a child that prints 'abc' / 'warn' and is stopped by "
                             f"--timeout ({'log files' if mode else 'in memory'}): got {got}, the text "
                             f"{'occurs' if want else 'does not occur'} in what the child wrote",
                             {"module": "outputs", "search": srch, "regex": rx, "files": mode, "timeout": True})
        # the exit STATUS: a run ended by signal N is different from a run that exits with N, with 128+N (what a shell
        # would report) or with 256-N, and equal only to another run ended by signal N - for every terminating signal,
        # and exit codes around 0 / 127 / 128 / 255
        sigchild = os.path.join(work, "sigchild.py")
        with open(sigchild, "w") as f:
            f.write("#!" + PY + "\nimport sys,os,signal\nspec = sys.argv[2] if sys.argv[1] == 'A' else sys.argv[3]\n"
                    "sys.stdout.write('same\\n'); sys.stdout.flush()\n"
                    "if spec[0] == 's':\n    signal.signal(int(spec[1:]), signal.SIG_DFL); os.kill(os.getpid(), int(spec[1:]))\n"
                    "    import time; time.sleep(5)\nos._exit(int(spec[1:]))\n")
        os.chmod(sigchild, 0o755)
        sjobs = []
        for n in (1, 2, 3, 6, 9, 11, 13, 14, 15):
            for other in (f"e{128 + n}", f"e{n}", f"e{256 - n}", f"s{n}", f"s{15 if n != 15 else 9}", "e0"):
                sjobs.append((f"s{n}", other))
        for a_, b_ in (("e0", "e0"), ("e0", "e1"), ("e127", "e128"), ("e255", "e255"), ("e254", "e255"), ("e128", "e128")):
            sjobs.append((a_, b_))
        if quick:
            sjobs = sjobs[::2] + [("s9", "e137"), ("s15", "e143"), ("s11", "e139")]

        def do_sig(job):
            (a_, b_), mode = job
            try:
                return diff_test.interesting(["-t", "20", "-a", "A", "-b", "B", sigchild, a_, b_],
                                             os.path.join(work, f"sig-{a_}-{b_}") if mode else None)
            except BaseException as exc:  # pylint: disable=broad-except
                return "raised " + type(exc).__name__
        sj = [(j, m) for j in sjobs for m in (False, True)]
        with ThreadPoolExecutor(8) as ex:
            sres = list(ex.map(do_sig, sj))
        for ((a_, b_), mode), got in zip(sj, sres):
            ck.count("diff_test")
            ck.nontrivial(("diff-status", a_, b_, mode))
            if got is not (a_ != b_):
                ck.violation(f"diff_test: run A ends '{a_}', run B ends '{b_}' (s = killed by that signal, e = exit code), same output "
                             f"({'log files' if mode else 'in memory'}): got {got}, documented meaning {a_ != b_}",
                             {"module": "diff_test", "a_ends": a_, "b_ends": b_, "files": mode})
        # the two runs are two real EXECUTIONS, however alike their command lines: a program that behaves differently from
        # one execution to the next (intermittent, stateful) under -a/-b spellings that expand to the same arguments
        flaky = os.path.join(work, "flaky.py")
        with open(flaky, "w") as f:
            f.write("#!" + PY + "\nimport sys,os\ncf, kind = sys.argv[-2], sys.argv[-1]\n"
                    "n = int(open(cf).read() or 0) if os.path.exists(cf) else 0\nopen(cf, 'w').write(str(n + 1))\n"
                    "second = n % 2 == 1\n"
                    "if kind == 'out' and second: sys.stdout.write('x')\n"
                    "if kind == 'err' and second: sys.stderr.write('x')\n"
                    "sys.stdout.write('common\\n'); sys.stdout.flush()\n"
                    "os._exit(3 if (kind == 'code' and second) else 0)\n")
        os.chmod(flaky, 0o755)
        fi = 0
        for a_args, b_args in (("", ""), ("X", "X"), ("X -y", " X  -y "), ("X", "Y")):
            for kind in ("out", "err", "code", "same"):
                for mode in (None, os.path.join(work, "flaky")):
                    fi += 1
                    cf = os.path.join(work, f"count{fi}")
                    try:
                        got = diff_test.interesting(["-t", "20", "-a", a_args, "-b", b_args, flaky, cf, kind], mode)
                    except BaseException as exc:  # pylint: disable=broad-except
                        got = "raised " + type(exc).__name__
                    execs = int(open(cf).read()) if os.path.exists(cf) else 0
                    ck.count("diff_test")
                    ck.nontrivial(("diff-flaky", a_args, b_args, kind, mode is not None))
                    if got is not (kind != "same") or execs != 2:
                        ck.violation(f"diff_test -a {a_args!r} -b {b_args!r} on a program whose second execution differs in "
                                     f"'{kind}' ({'log files' if mode else 'in memory'}): got {got} after {execs} execution(s); "
                                     f"documented meaning {kind != 'same'} from two runs",
                                     {"module": "diff_test", "a_args": a_args, "b_args": b_args, "second_run_differs_in": kind,
                                      "files": mode is not None, "executions": execs})
        # ------------------------------------------------------------ repeat
        calls = []
        inner = types.ModuleType("lv_inner_test")
        state = {"seq": "", "i": 0, "inits": 0}

        def inner_init(args):
            state["inits"] += 1

        def inner_interesting(args, prefix):
            k = state["i"]
            state["i"] += 1
            calls.append(list(args))
            return k < len(state["seq"]) and state["seq"][k] == "Y"

        inner.init = inner_init
        inner.interesting = inner_interesting
        sys.modules["lv_inner_test"] = inner
        try:
            for n in range(1, 5 if not quick else 4):
                for seq in itertools.product("YN", repeat=n):
                    for cookie, argv in ((None, ["xREPEATNUMx", "plain", "REPEATNUMREPEATNUM"]),
                                         ("COOKIE", ["xCOOKIEx", "REPEATNUM", "COOKIECOOKIE", "coo"]),
                                         ("9", ["a9b", "99", "x"])):
                        state.update(seq="".join(seq), i=0, inits=0)
                        del calls[:]
                        args = (["-n", cookie] if cookie else []) + [str(n), "lv_inner_test"] + argv
                        try:
                            got = repeat.interesting(args, "pfx")
                        except BaseException as exc:  # pylint: disable=broad-except
                            got = "raised " + type(exc).__name__
                        ck.count("repeat")
                        ck.nontrivial(("repeat", n, seq, cookie))
                        ck_cookie = cookie or "REPEATNUM"
                        want = "Y" in seq
                        ncalls = (seq.index("Y") + 1) if want else n
                        wargs = [[a.replace(ck_cookie, str(i)) for a in argv] for i in range(1, ncalls + 1)]
                        if got is not want or calls != wargs or state["inits"] != 1:
                            ck.violation(f"repeat {n} with inner answers {''.join(seq)} cookie {ck_cookie!r}: "
                                         f"got {got} after {len(calls)} calls with args {calls[:2]}..., expected "
                                         f"{want} after {ncalls} calls with args {wargs[:2]}..., init calls "
                                         f"{state['inits']}",
                                         {"module": "repeat", "n": n, "seq": "".join(seq), "cookie": ck_cookie,
                                          "argv": argv, "calls": calls[:3]})
                        cases.append(f"repeat {n} {''.join(seq)} {hx(ck_cookie.encode())} "
                                     + ",".join(hx(a.encode()) for a in argv))
                        impl.append(("T" if got is True else "F" if got is False else str(got)) + " "
                                    + "|".join(",".join(hx(a.encode()) for a in c) for c in calls))
            # repeat around repeat (the inner test is `repeat` itself, with another cookie): N x M runs at most, each
            # with both cookies substituted by the outer / inner run number - judged by a nested reference loop
            for n_out, n_in in ((2, 2), (2, 3), (3, 2)):
                for seq in itertools.product("YN", repeat=n_out * n_in) if not quick else [tuple(x) for x in ("NNNN", "NNNY", "NNYN", "NYNN", "YNNN", "NNNNNY", "NNNYNN", "NNNNNN", "NNYNNN")]:
                    if len(seq) != n_out * n_in:
                        continue
                    state.update(seq="".join(seq), i=0, inits=0)
                    del calls[:]
                    argv = ["o-OUT-i-IN", "plain", "IN/OUT"]
                    args = ["-n", "OUT", str(n_out), "repeat", "-n", "IN", str(n_in), "lv_inner_test"] + argv
                    try:
                        got = repeat.interesting(args, "pfx")
                    except BaseException as exc:  # pylint: disable=broad-except
                        got = "raised " + type(exc).__name__
                    want, wargs, k = False, [], 0
                    for i_out in range(1, n_out + 1):
                        for i_in in range(1, n_in + 1):
                            wargs.append([a.replace("OUT", str(i_out)).replace("IN", str(i_in)) for a in argv])
                            ok_ = seq[k] == "Y"
                            k += 1
                            if ok_:
                                want = True
                                break
                        if want:
                            break
                    ck.count("repeat")
                    ck.nontrivial(("repeat-nested", n_out, n_in, seq))
                    if got is not want or calls != wargs:
                        ck.violation(f"repeat {n_out} repeat {n_in} with inner answers {''.join(seq)}: got {got} after {len(calls)} calls "
                                     f"{calls[:3]}..., expected {want} after {len(wargs)} calls {wargs[:3]}...",
                                     {"module": "repeat", "nested": [n_out, n_in], "seq": "".join(seq), "calls": calls[:6]})
        finally:
            del sys.modules["lv_inner_test"]
    finally:
        shutil.rmtree(work, ignore_errors=True)
    model = run_model(cases)
    for c, m, i in zip(cases, model, impl):
        if m != i:
            ck.mismatch(c.split()[0], c, m, i)
    return ck.finish(level="proof", rule=RULE, assumptions=[
        "regular-expression matching itself is a parameter of the model (`matches`); the harness compares the "
        "regex verdicts of the real modules with CPython's re.search(MULTILINE) on the scripted outputs",
        "process execution and capture are C18's runtime half"])
