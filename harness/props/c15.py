"""C15 - line, char and symbol atoms follow their documented boundaries."""
import os
import shutil
import tempfile

from common import Check, hx, rng, run_model
from runner import SCRATCH_ROOT
from splitx import (LINE_ALPHABET, SYMBOL_ALPHABET, impl_load, model_load_line, strings_upto)

RULE = ("tie X on the decomposition + direct boundary oracles on the real classes: every string up "
        "to length L over terminators/delimiters/filler for line, char, symbol; delimiter-set grid "
        "(defaults, single bytes, regex-special bytes ] ^ \\ -, overlapping sets) given "
        "programmatically and through Lithium.process_args(--cut-before/--cut-after); seeded random "
        "longer strings. non-trivial = at least two atoms; distinct = distinct (mode, sets, string)")

TERMS = [b"\r\n", b"\n", b"\r", b"\x0b", b"\x0c", b"\x1c", b"\x1d", b"\x1e", b"\xc2\x85",
         b"\xe2\x80\xa8", b"\xe2\x80\xa9"]


def line_ok(parts):
    for i, p in enumerate(parts):
        last = i == len(parts) - 1
        if not last and not any(p.endswith(t) for t in TERMS):
            return f"atom {i} {p!r} does not end with a line terminator"
        if b"\n" in p[:-1]:
            return f"atom {i} {p!r} has a line feed before its last byte"
        if not last and p.endswith(b"\r") and parts[i + 1].startswith(b"\n"):
            return f"CR-LF split between atoms {i} and {i + 1}"
    return None


def cut_points(data, before, after):
    pts = set()
    for i, b in enumerate(data):
        if b in after:
            pts.add(i + 1)
        if b in before:
            pts.add(i)
    return sorted(p for p in pts if 0 < p < len(data))


def known_overlap_cut_points(data, before, after):
    """the cut points of the KNOWN finding `symbol-overlapping-sets`: a byte in both sets that directly follows a
    cut is consumed as the optional cut-before byte of the next atom and then does not end that atom, and a cut
    that would fall before such a byte right after a cut-after byte is the same cut; i.e. scanning left to right,
    an atom is: optional cut-before byte, bytes in neither set, then a cut-after byte / end / lookahead at a
    cut-before byte.  Only a result equal to this scan is attributed to the known finding."""
    pts, i, n = [], 0, len(data)
    while i < n:
        j = i
        if data[j] in before:
            j += 1
        while j < n and data[j] not in before and data[j] not in after:
            j += 1
        if j < n and data[j] in after:
            j += 1
        if j == i:
            j = i + 1
        if j < n:
            pts.append(j)
        i = j
    return pts


def symbol_ok(parts, data, before, after):
    got, pos = [], 0
    for p in parts[:-1]:
        pos += len(p)
        got.append(pos)
    want = cut_points(data, before, after)
    if got != want or b"".join(parts) != data:
        return f"cut points {got}, expected {want}"
    return None


SETS = [(None, None), (b"]", b"["), (b"}", b";"), (b":", b"\n"), (b"]}", b"{["), (b"a", b"a"),
        (b"^", b";"), (b"^]", b"="), (b"\\", b";"), (b"a-c", b";"), (b";", b"]"), (b"-", b"^"),
        (b"]", b"\\"),
        # an empty set is a set: cut nowhere before / nowhere after / nowhere at all
        (b"", b";"), (b"}", b""), (b"", b"")]


def run(ck: Check):
    quick = ck.tier == "quick"
    r = rng("c15")
    cases, impl = [], []

    def one(atom, data, sets=(None, None)):
        line, t, out = impl_load(atom, data, sets[0], sets[1])
        ck.count(atom)
        if t is None:
            if line != "err LithiumError":
                ck.violation(f"[{atom} sets={sets}] load raised {line} on {data!r}",
                             {"atom": atom, "data": data.hex(), "cut_before": None if sets[0] is None else sets[0].hex(),
                              "cut_after": None if sets[1] is None else sets[1].hex()})
            return
        if len(t.parts) >= 2:
            ck.nontrivial((atom, sets, data))
        err = None
        if atom == "line":
            err = line_ok(t.parts)
        elif atom == "char":
            if any(len(p) != 1 for p in t.parts):
                err = "a char atom is not a single byte"
        else:
            b, a = (sets if sets[0] is not None else (b"]}:", b"?=;{[\n"))
            region = b"".join(t.parts)
            err = symbol_ok(t.parts, region, b, a)
        if err:
            key = None
            if atom == "symbol" and sets[0] is not None and set(sets[0]) & set(sets[1]):
                got_pts, pos = [], 0
                for p_ in t.parts[:-1]:
                    pos += len(p_)
                    got_pts.append(pos)
                if got_pts == known_overlap_cut_points(region, sets[0], sets[1]) and b"".join(t.parts) == region:
                    key = "symbol-overlapping-sets"
            ck.violation(f"[{atom} sets={sets}] {err}: {data!r} -> {t.parts!r}",
                         {"atom": atom, "data": data.hex(), "cut_before": None if sets[0] is None else sets[0].hex(),
                          "cut_after": None if sets[1] is None else sets[1].hex(), "parts": [p.hex() for p in t.parts]},
                         key=key)
        cases.append(model_load_line(atom, data, sets[0], sets[1]))
        impl.append(line)

    # atoms of files whose line breaks / cut bytes sit on multiples of block sizes (64 KiB, 1 MiB)
    from boundaries import block_boundary_loads

    def judge(atom, name, data, line, t, out):
        if t is None:
            return
        err = None
        if atom == "line":
            err = line_ok(t.parts)
        elif atom == "char":
            err = "a char atom is not a single byte" if any(len(p) != 1 for p in t.parts) else None
        else:
            err = symbol_ok(t.parts, b"".join(t.parts), b"]}:", b"?=;{[\n")
        if err:
            ck.violation(f"[{atom}] {len(data)}-byte file '{name}': {err[:300]}", {"atom": atom, "file": name, "size": len(data)})
    block_boundary_loads(ck, quick, judge, atoms=("line", "symbol", "char"))
    for data in strings_upto(LINE_ALPHABET[:11] + [b"x"], 3 if quick else 4):
        one("line", data)
        one("char", data)
    for data in strings_upto(SYMBOL_ALPHABET, 4 if quick else 5):
        one("symbol", data)
    alpha = [b"]", b"}", b":", b";", b"[", b"{", b"=", b"\n", b"a", b"b", b"c", b"^", b"\\", b"-"]
    for sets in SETS[1:]:
        for data in strings_upto(alpha, 3 if quick else 4):
            one("symbol", data, sets)
    for _ in range(500 if quick else 10000):
        n = r.randint(5, 200)
        one("line", b"".join(r.choice(LINE_ALPHABET) for _ in range(n)))
        one("symbol", b"".join(r.choice(alpha) for _ in range(n)), r.choice(SETS))
    big = (b"call(arg_one,\n  arg_two\n);" * 45000)[: (1 << 20) + 7]
    assert len(big) == (1 << 20) + 7
    for sets in ((b"}", b";{"), (b"", b";"), (None, None)):
        for data in (big, big[: (1 << 20) - 7], big * 3):
            line, t, out = impl_load("symbol", data, sets[0], sets[1])
            ck.count("symbol-1MiB")
            ck.nontrivial(("symbol-1MiB", sets, len(data)))
            b_, a_ = (sets if sets[0] is not None else (b"]}:", b"?=;{[\n"))
            err = None if t is None else symbol_ok(t.parts, b"".join(t.parts), b_, a_)
            if t is None or err or out != data:
                ck.violation(f"[symbol sets={sets}] {len(data)}-byte region: " + (line if t is None else (err or "dump differs"))[:300],
                             {"atom": "symbol", "size": len(data), "cut_before": None if sets[0] is None else sets[0].hex(),
                              "cut_after": None if sets[1] is None else sets[1].hex()})
    # the atoms of a loaded testcase stay what they are when ranges are deleted (a caller may mark parts protected):
    # no two of them are ever fused into one part
    from splitx import make
    for atom, data, sets in (("line", b"k1\nk2\r\nx\ny\nz\n", (None, None)), ("char", b"KLxyz", (None, None)),
                             ("symbol", b"1;3;x;y;z;", (None, None)), ("symbol", b"k,k2,x,y,z,", (b"", b","))):
        line, t, out = impl_load(atom, data, sets[0], sets[1])
        before_parts = list(t.parts)
        for prot in ((0, 1), (0, 2), (1, 3)):
            for lo, hi in ((0, 1), (0, 2), (0, 3), (1, 3), (0, 99)):
                c = t.copy()
                c.reducible = [i not in prot for i in range(len(c.parts))]
                try:
                    c.rmslice(lo, hi)
                    got = list(c.parts)
                except Exception as e:  # pylint: disable=broad-except
                    got = ["<raised %s>" % type(e).__name__]
                ck.count("atoms-after-rmslice")
                ck.nontrivial(("atoms-after-rmslice", atom, prot, lo, hi))
                if any(p not in before_parts for p in got):
                    ck.violation(f"[{atom}] after rmslice({lo}, {hi}) with parts {prot} protected the testcase holds parts that are "
                                 f"not atoms of the split: {[p for p in got if p not in before_parts]!r} (atoms: {before_parts!r})",
                                 {"atom": atom, "data": data.hex(), "protected": list(prot), "lo": lo, "hi": hi})
    cli(ck, r)

    def judge_sets(b, a, data, t, dumped, argv):
        err = symbol_ok(t.parts, data, b, a) if b"".join(t.parts) == data else "the atoms do not concatenate to the file"
        if err and not (set(b) & set(a)):
            ck.violation(f"{' '.join(argv[1:4])!r}: every byte of a supplied delimiter string is a delimiter (here {b!r} / {a!r}): {err[:200]}; "
                         f"atoms {t.parts!r}", {"argv": argv, "data": data.hex(), "parts": [p.hex() for p in t.parts]})
    cli_text_sets(ck, judge_sets)
    collapse_keeps_sets(ck)
    sets_changed_between_loads(ck)
    from envmatrix import run_matrix
    run_matrix(ck, ("C15",))
    model = run_model(cases, shards=8)
    from coqlit import xcheck
    xcheck(ck, cases, model)
    for c, m, i in zip(cases, model, impl):
        if m != i:
            ck.mismatch(c.split()[1].split(":")[0], c, m, i)
    ck.sample({"case": cases[len(cases) // 3], "impl": impl[len(cases) // 3]})
    return ck.finish(level="proof", rule=RULE, extra={"exhaustive": True})


def cli(ck, r):
    """--cut-before / --cut-after through the real command line"""
    from lithium.reducer import Lithium
    d = tempfile.mkdtemp(prefix="lv-", dir=SCRATCH_ROOT)
    cwd = os.getcwd()
    try:
        os.chdir(d)
        with open("yes.py", "w") as f:
            f.write("def interesting(a, p):\n    return True\n")
        datas = [b"a]b}c:d;e=f\n[g{h?i", b"x;y;z]]w", b"^a^b;c\\d-e", b"abcabc;"]
        for before, after in SETS[1:]:
            for data in datas:
                with open("t.txt", "wb") as f:
                    f.write(data)
                lith = Lithium()
                ck.count("cli")
                try:
                    lith.process_args(["-s", "--cut-before", before.decode(), "--cut-after",
                                       after.decode(), "yes.py", "t.txt"])
                except BaseException as e:  # pylint: disable=broad-except
                    ck.violation(f"--cut-before {before!r} --cut-after {after!r}: process_args raised "
                                 f"{type(e).__name__}: {e}",
                                 {"argv": ["-s", "--cut-before", before.decode(), "--cut-after", after.decode()],
                                  "data": data.hex()}, key=None)
                    continue
                err = symbol_ok(lith.testcase.parts, data, before, after)
                ck.nontrivial(("cli", before, after, data))
                if err:
                    got_pts, pos = [], 0
                    for p_ in lith.testcase.parts[:-1]:
                        pos += len(p_)
                        got_pts.append(pos)
                    ck.violation(f"--cut-before {before!r} --cut-after {after!r}: {err}",
                                 key="symbol-overlapping-sets" if (set(before) & set(after) and got_pts ==
                                                                   known_overlap_cut_points(data, before, after)) else None,
                                 replay={"argv": ["-s", "--cut-before", before.decode(), "--cut-after", after.decode()],
                                  "data": data.hex(), "parts": [p.hex() for p in lith.testcase.parts]})
    finally:
        os.chdir(cwd)
        shutil.rmtree(d, ignore_errors=True)


def cli_text_sets(ck, judge):
    """delimiter sets as the command line delivers them - TEXT: characters outside ASCII (every byte of their UTF-8
    encoding is a delimiter), backslashes followed by letters (a backslash is a byte like any other), quotes, blanks.
    judge(before_bytes, after_bytes, data, testcase, dumped) states the property"""
    from lithium.reducer import Lithium
    d = tempfile.mkdtemp(prefix="lv-", dir=SCRATCH_ROOT)
    cwd = os.getcwd()
    sets = [("\u00bb", ";"), ("", "\u00bb;\n"), ("\u3002", "\u3001"), ("\\n", ";"), ("", "\\n;"), ("\\t", ""), ("\\x41;", "]"),
            ("\u00e9", "\u00e8"), ("\\", "\\"), ("'", '"'), (" ", "\t"), ("\\r\\n", ""), ("$", "^"), ("\\u00bb", "")]
    datas = ["say \u00abhello\u00bb; then \u00abbye\u00bb;\nend\n".encode(), b"a\\nb;c\nd\\n;e", b"x\tA;y\\x41;z]w\\tq",
             "\u30a2\u3002\u30a4\u3001\u30a6\u00a9\u00e9\u00e8".encode(), b"\xc2 lone \xbb\xc3\xa9 \\r\\n\r\n'q\" $^"]
    try:
        os.chdir(d)
        with open("yes.py", "w") as f:
            f.write("def interesting(a, p):\n    return True\n")
        for before, after in sets:
            for data in datas:
                with open("t.txt", "wb") as f:
                    f.write(data)
                lith = Lithium()
                ck.count("cli-text-sets")
                ck.nontrivial(("cli-text-sets", before, after, data))
                argv = ["-s", f"--cut-before={before}", "--cut-after", after, "yes.py", "t.txt"]
                try:
                    lith.process_args(argv)
                    lith.testcase.dump()
                    with open("t.txt", "rb") as f:
                        dumped = f.read()
                except BaseException as e:  # pylint: disable=broad-except
                    ck.violation(f"--cut-before {before!r} --cut-after {after!r} on {data!r}: {type(e).__name__}: {e}",
                                 {"argv": argv, "data": data.hex()})
                    continue
                judge(before.encode("utf-8", "surrogateescape"), after.encode("utf-8", "surrogateescape"), data, lith.testcase, dumped, argv)
    finally:
        os.chdir(cwd)
        shutil.rmtree(d, ignore_errors=True)


def collapse_keeps_sets(ck):
    """the supplied delimiter sets stay in force when minimize-collapse-brace re-splits the region"""
    from explore import Explorer
    ex = Explorer(ck)
    # (delimiter sets that contain the very bytes a collapse rewrites - blanks, line breaks, tabs, the braces themselves)
    for before, after, data in ((b"@", b",", b"a,b,{\n},X,"), (b"}", b";", b"x;{ \n};y;{\n}"), (b"]", b"[", b"[{\n\n}]a["),
                                (b" ", b";", b"if(a){  }x;y"), (b"\n", b";", b"a;{\n\n}b;c{ \n}"), (b"\t ", b"", b"x{\t}y z{ }w{\t \t}"),
                                (b"{", b"}", b"a{ }b{\n}c{  }"), (b" }", b"{", b"q{  }r{ } s{\n }t"), (b"", b" \n", b"k{ \n }l {\n\n} m")):
        atom = f"symbol:{before.hex()}:{after.hex()}"
        for v in ("Y" * 200, "YNNNNNYYYY" * 20, "Y" + "NY" * 100, "YN" + "Y" * 100, "YNN" + "Y" * 100, "YNNNN" + "Y" * 100):
            run1 = ex.one("minimize-collapse-brace", {}, None, data, v, atom=atom, load=True, stream="collapse-sets")
            # the candidate proposed right after the raw write is the freshly RE-SPLIT region: its atoms must
            # be cut at the supplied delimiters (later candidates are deletions of it, not fresh splits)
            err, last = None, None
            prev_w = False
            for kind, v_ in run1.steps:
                if kind == "P" and prev_w and not err:
                    err = symbol_ok(v_[1], b"".join(v_[1]), before, after)
                    last = v_
                prev_w = kind == "W"
            if last is None:
                continue
            ck.nontrivial(("collapse-sets", before, after, data, v[:4]))
            if err and not set(before) & set(after):
                ck.violation(f"minimize-collapse-brace with --cut-before {before!r} --cut-after {after!r}: the final "
                             f"atoms {last[1]!r} are not cut at the supplied delimiters ({err})",
                             {"cut_before": before.hex(), "cut_after": after.hex(), "data": data.hex(), "verdicts": v[:12]})
    ex.diff()


def sets_changed_between_loads(ck):
    """set_cut_chars / handle_args on an object that has already split something must take effect"""
    import lithium.testcases as tcs
    from splitx import MEM
    data = b"a<b>,c;d]e}f:g\n(h),i"
    # several objects alive at once, each with its own sets (or the defaults), configured in every order: an object splits
    # by ITS sets
    import itertools as _it
    plans = [(None, None), (b">", b","), (b"(", b")"), (None, None)]
    for order in _it.permutations(range(4)):
        objs = [tcs.TestcaseSymbol() for _ in plans]
        for i in order:
            if plans[i][0] is not None:
                objs[i].set_cut_chars(*plans[i])
        for i in reversed(order):
            o = objs[i].copy() if i % 2 else objs[i]
            o.parts, o.reducible = [], []
            o.split_parts(data)
            b_, a_ = plans[i] if plans[i][0] is not None else (b"]}:", b"?=;{[\n")
            err = symbol_ok(o.parts, data, b_, a_)
            ck.count("live-objects")
            ck.nontrivial(("live-objects", order, i))
            if err:
                ck.violation(f"four symbol testcases alive at once (sets {plans}, configured in the order {order}): object {i} with "
                             f"sets {plans[i]} splits {data!r} into {o.parts!r} ({err[:160]})", {"plans": str(plans), "order": list(order), "object": i})
                return
    for first in SETS[:6]:
        for second in SETS[:8]:
            if second[0] is None or set(second[0]) & set(second[1]):
                continue
            t = tcs.TestcaseSymbol()
            if first[0] is not None:
                t.set_cut_chars(*first)
            MEM.files["/mem/t.txt"] = data
            tcs.open = MEM.open
            try:
                t.load("/mem/t.txt")
                t.copy()
                t.set_cut_chars(*second)
                t.load("/mem/t.txt")
                parts = list(t.parts)
                t2 = t.copy()
                t2.parts, t2.reducible = [], []
                t2.split_parts(data)
            finally:
                del tcs.open
            ck.count("sets-changed")
            ck.nontrivial(("sets-changed", first, second))
            for what, ps in (("second load", parts), ("split by a copy", t2.parts)):
                err = symbol_ok(ps, data, second[0], second[1])
                if err:
                    ck.violation(f"symbol delimiters changed from {first} to {second} on a used object: {what} gives "
                                 f"{ps!r} ({err})", {"first": str(first), "second": str(second), "data": data.hex()})
                    break
