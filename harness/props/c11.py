"""C11 - uninteresting original untouched; exit status"""
from common import Check
from explore import Explorer, oracle_c11
from universe import driver_universe
from props.c01 import RULE


def run(ck: Check):
    ex = Explorer(ck, oracles=[oracle_c11])
    driver_universe(ex, ck, aborts=False)
    extra(ex, ck)
    ex.diff()
    return ck.finish(level="proof", rule=RULE + EXTRA_RULE, assumptions=ASSUME)


EXTRA_RULE = ""
ASSUME = ["the interestingness test sees only the file, its arguments and the prefix",
          "SHA-512 collision-freeness (the model de-duplicates on content equality)"]


def extra(ex, ck):
    pass
