"""C11 - uninteresting original untouched; exit status"""
from common import Check
from explore import Explorer, oracle_c11
from universe import driver_universe
from props.c01 import RULE


def run(ck: Check):
    ex = Explorer(ck, oracles=[oracle_c11])
    driver_universe(ex, ck, aborts=False)
    extra(ex, ck)
    from explore import oracle_session
    from universe import session_universe
    session_universe(ck, oracle_session, quick=ck.tier == "quick")
    # a time limit that runs out says nothing about the outcome: the status still tells whether something was accepted
    from explore import content
    rr = rng("c11-limit") if "rng" in globals() else __import__("common").rng("c11-limit")
    for strategy in ("minimize", "minimize-around", "minimize-balanced", "minimize-collapse-brace"):
        for i in range(12 if ck.tier == "quick" else 120):
            n = rr.randint(3, 9)
            tcl = (b"", [b"%d\n" % j for j in range(n)], [True] * n, b"")
            limit = rr.choice([1, 5])
            t, clock = 100, []
            for _ in range(80):
                clock.append(t)
                t += rr.choice([0, 0, 1, limit, limit + 1])
            v = "Y" + "".join(rr.choice("YN") for _ in range(60))
            ex.one(strategy, {"limit": limit}, tcl, content(tcl), v, clock=clock, stream="limit-status",
                   model=strategy != "minimize-collapse-brace")
    # the init() hook edits the testcase file (appends to it) before the first test: what is on disk is no longer what was
    # loaded - a rejected original and check-only still never write the file
    from explore import replay_doc as _rd
    from runner import impl_run as _ir
    for strategy in ("minimize", "minimize-around", "minimize-balanced", "check-only"):
        for atom in ("line", "char"):
            for v in ("N", "Y") if strategy == "check-only" else ("N",):
                data = b"a\nb\nc\n"
                run_ = _ir(strategy, {}, None, data, v, atom=atom, load=True, init_edits=b"# touched by init\n")
                ck.count("init-edits-file")
                ck.nontrivial(("init-edits-file", strategy, atom, v))
                if run_.writes or run_.exc is not None or run_.tests != 1 or (run_.rc == 0) != (v == "Y") or run_.final != data + b"# touched by init\n":
                    ctx = {"strategy": strategy, "cfg": {}, "tc": run_.loaded, "file0": data, "verdicts": v, "clock": [], "atom": atom,
                           "exc_class": "TestRaised", "load": True, "init_hook_appends": "# touched by init"}
                    ck.violation(f"{strategy}/{atom}: the init hook appended a line to the testcase file, the test answered {v}: "
                                 f"{run_.writes} write(s) by lithium, {run_.tests} test(s), status {run_.rc}, exc={run_.exc}, file now "
                                 f"{run_.final!r} (nothing may be written: expected 1 test and the file as the hook left it)", _rd(ctx, run_))
    from envmatrix import run_matrix
    run_matrix(ck, ("C11",))
    # file names at the limits of the file system: an extension so long that 'original<ext>' / '<n>-boring<ext>' in the
    # temp dir has NAME_MAX-1, NAME_MAX, NAME_MAX+1 bytes (and ordinary lengths).  Whatever happens to the copies - they
    # fit, or the run stops with the OS error - a rejected original is never written to, and a run that works reports
    # its status as always
    from explore import replay_doc
    from runner import impl_run
    name_max = 255
    for elen in [1, 4, 16, 64, 128, 200] + list(range(name_max - 14, name_max - 5)):
        ext = "." + "e" * (elen - 1)
        for strategy in ("minimize", "minimize-around", "check-only"):
            for v in ("N", "YNNNNNNNNN", "YYNYNYNY"):
                data = b"a\nb\nc\n"
                try:
                    run_ = impl_run(strategy, {}, None, data, v, load=True, ext=ext)
                except OSError:
                    continue        # the scratch testcase itself cannot be created with that name
                ck.count("name-length")
                ck.nontrivial(("name-length", elen, strategy, v))
                ctx = {"strategy": strategy, "cfg": {}, "tc": run_.loaded, "file0": data, "verdicts": v, "clock": [], "atom": "line",
                       "exc_class": "TestRaised", "load": True, "extension_length": elen}
                too_long = max(len("original" + ext), len("1-interesting" + ext)) > name_max
                if run_.exc == "OSError" and too_long:
                    # the copies do not fit: the run stops; the user's file is as it was if test 1 did not accept it
                    if (v[0] == "N" or not run_.seen) and (run_.writes or run_.final != data):
                        ck.violation(f"{strategy} with a {elen}-byte extension: the run stopped with OSError and the testcase file was "
                                     f"written {run_.writes} time(s) although no test accepted anything", replay_doc(ctx, run_))
                    continue
                oracle_c11(ck, ctx, run_)
    ex.diff()
    return ck.finish(level="proof", rule=RULE + EXTRA_RULE, assumptions=ASSUME)


EXTRA_RULE = ""
ASSUME = ["the interestingness test sees only the file, its arguments and the prefix",
          "SHA-512 collision-freeness (the model de-duplicates on content equality)"]


def extra(ex, ck):
    """the PROCESS exit status and the file, through `python -m lithium` (main(), process_args, run)"""
    from concurrent.futures import ThreadPoolExecutor
    from realproc import run_lithium
    data = b"a\nb\nc\nd\n"
    jobs = [("N", []), ("Y", []), ("YNNY", []), ("YNNNNNNNNNNN", []), ("N", ["--strategy", "check-only"]),
            ("Y", ["--strategy", "check-only"]), ("YYY", ["--strategy", "minimize-around"]), ("N", ["-c"]),
            ("YN", ["--strategy=minimize-balanced", "-c"]), ("Y", ["--strategy", "check-only", "--testcase"]),
            # check-only requested in every spelling argparse accepts, before / after other options
            ("YYYY", ["--strategy=check-only"]), ("YYYY", ["--strat", "check-only"]), ("NYYY", ["--strateg=check-only"]),
            ("YYYY", ["-c", "--strategy", "check-only"]), ("YYYY", ["--tempdir", "td", "--strategy", "check-only"]),
            ("YYYY", ["--st", "check-only", "-v"])]
    jobs = [j for j in jobs if "--testcase" not in j[1]]
    with ThreadPoolExecutor(8) as pool:
        results = list(pool.map(lambda j: run_lithium(data, j[0], j[1]), jobs))
    for (verdicts, options), res in zip(jobs, results):
        ck.count("process")
        ck.nontrivial(("process", verdicts, tuple(options)))
        tests = [x for x in res["log"] if x["ev"] == "test"]
        first = tests[0]["ans"] if tests else None
        later_yes = any(t["ans"] == "Y" for t in tests[1:])
        check_only = any("check-only" in o for o in options)
        bad = []
        if first == "N" or check_only:
            if len(tests) != 1:
                bad.append(f"{len(tests)} tests ran, expected exactly 1")
            if res["final"] != data:
                bad.append("the testcase file changed")
            if (res["rc"] == 0) != (check_only and first == "Y"):
                bad.append(f"exit status {res['rc']}")
        else:
            if (res["rc"] == 0) != later_yes:
                bad.append(f"exit status {res['rc']} but a later candidate accepted = {later_yes}")
            want = data
            for t in tests:
                if t["ans"] == "Y":
                    want = bytes.fromhex(t["data"])
            if res["final"] != want:
                bad.append(f"final file {res['final']!r} is not the last accepted version {want!r}")
        if bad:
            ck.violation(f"python -m lithium {options} with verdicts {verdicts}: " + "; ".join(bad),
                         {"data": data.hex(), "verdicts": verdicts, "options": options, "rc": res["rc"],
                          "stderr": res["stderr"]})
