"""C05 - text outside the DDBEGIN/DDEND region is never modified."""
import itertools

from common import Check, rng
from explore import Explorer, make_oracle_c05

RULE = ("tie X on complete traces (concrete models for minimize / around / balanced / collapse-brace "
        "with the re-load through the modelled splitters; recorded proposals for replace-* and move) + "
        "prefix/suffix oracle on every file the scripted test saw and on the final file: marker files "
        "built from small atom sets with terminators LF CRLF CR NEL, marker words embedded in longer "
        "lines, after-lines starting with UTF-8 continuation bytes, all 7 strategies + move x 5 "
        "splitters, exhaustive DFS over verdict sequences for small regions and seeded random beyond. "
        "non-trivial = more than one test; distinct = distinct (strategy, splitter, file, verdicts)")

STRATS = ["minimize", "minimize-around", "minimize-balanced", "minimize-collapse-brace",
          "replace-properties-by-globals", "replace-arguments-by-globals"]
CONCRETE = {"minimize", "minimize-around", "minimize-balanced", "minimize-collapse-brace",
            "replace-properties-by-globals"}


def files(quick, r):
    begins = [b"DDBEGIN\n", b"// x DDBEGIN y\r\n", b"head\nDDBEGIN\r"]
    ends = [b"DDEND\n", b"/* DDEND */ tail", b"\x85DDEND\n", b"DDEND\r\nmore\n",
            # the protected footer mentions the marker words again (the FIRST DDEND line ends the region)
            b"DDEND\n// see DDEND above, DDBEGIN too\nDDEND\n"]
    bodies = [b"a\xff{\n\n}\n{\xc2\x85}\n", b"{\n\n}\n", b"a\nb\n", b"x{\n}y\n{ \n}\n", b"function f(a) {\n}\nf(1);\n", b"a.b.c = 1;\nd.b.c = 2;\n",
              b"'ab\\x41'\n\"c\"\n", b"<a b=\"c\" d>\n", b"a\r\nb\r\n", b"a\xc2\x85b\xc2\x85", b"{\n\r\n}\r\n",
              b"{\nX\n}a\xc2}\n", b"\n{\n}\n", b"a\rb\r"]
    out = []
    for bg, body, en in itertools.product(begins, bodies, ends):
        out.append(bg + body + en)
    r.shuffle(out)
    keep = [f for f in out if f.count(b"DDEND") > 1][:6]
    # the last reducible line ends with each kind of line boundary other than LF / CR (char mode protects that byte)
    keep += [b"DDBEGIN\n" + body + b"DDEND\n" for body in (b"a\xc2\x85b\xc2\x85", b"x\x0c", b"y\x0b", b"z\xe2\x80\xa8",
                                                           b"w\x1c", b"v\x1e", b"u\r\n")]
    return keep + out[: (40 if quick else 195)]


def run(ck: Check):
    quick = ck.tier == "quick"
    r = rng("c05")
    ex = Explorer(ck, oracles=[make_oracle_c05()])
    fl = files(quick, r)
    atoms = ["line", "char", "symbol", "jsstr", "attrs"]
    for i, data in enumerate(fl):
        for atom in atoms:
            strategies = STRATS if (i % 3 == 0 or not quick) else STRATS[:4]
            for strategy in strategies:
                cfgs = [{}]
                if strategy == "minimize-balanced" and i % 4 == 0:
                    cfgs.append({"move": True})
                for cfg in cfgs:
                    replay = strategy not in CONCRETE      # the move has a concrete model too (Model/PairsMove.v)
                    try:
                        ex.dfs(strategy, cfg, None, file0=data, atom=atom, load=True, replay=replay,
                               stream=f"{strategy}/{atom}", max_runs=12 if quick else 80, cap=150)
                    except Exception as e:  # pylint: disable=broad-except
                        from lithium.util import LithiumError
                        if not isinstance(e, LithiumError):
                            raise
    # seeded random verdicts on larger regions
    for i in range(40 if quick else 400):
        n = r.randint(4, 20)
        body = b"".join(r.choice([b"{\n", b"}\n", b"x\n", b" \n", b"a.b = 1;\n", b"{ \n", b"\r\n"]) for _ in range(n))
        data = r.choice([b"DDBEGIN\n", b"x DDBEGIN\r\n"]) + body + r.choice([b"DDEND\n", b"\x85DDEND\n", b"DDEND"])
        v = "Y" + "".join("Y" if r.random() < 0.5 else "N" for _ in range(300))
        strategy = r.choice(STRATS[:4])
        ex.one(strategy, {}, None, data, v, atom=r.choice(atoms), load=True, stream="random")
    # corpus: deterministic tests that steer collapse-brace into re-loading a file whose last
    # reducible bytes can fuse with the first byte of the DDEND line
    def want(k, data):
        return "Y" if (b"a\xc2" in data and (b"{\n" in data or b"{ }" in data)) else "N"

    for atom in atoms:
        for end in (b"\x85DDEND\n", b"DDEND\n"):
            ex.one("minimize-collapse-brace", {}, None, b"DDBEGIN\n{\nX\n}a\xc2}\n" + end, want, atom=atom,
                   load=True, stream="corpus")
    # corpus: every splitter that keeps unreducible text of the REGION in before/after (jsstr: text before the first /
    # after the last string; char: the DDEND line break) together with a re-split in the middle of the run
    # (collapse-brace) - the text outside the markers must survive the re-split
    for body in (b"x = 'ab' + {\n\n} + \"cd\";\n", b"{\n}\nf('a{\n}b', {\n \n}, \"c\");\n{\n}\n",
                 b"'a'\n{\n}\n", b"{\n}\n'a' {\n\n} 'b'"):
        for bg, en in ((b"// head\nDDBEGIN\n", b"DDEND\ntail\n"), (b"DDBEGIN\r\n", b"/* DDEND */ t"), (b"h 'q' DDBEGIN\n", b"\nDDEND 'z'\n")):
            for atom in atoms:
                for v in ("Y" * 60, "Y" + "NY" * 40, "YN" + "Y" * 60):
                    ex.one("minimize-collapse-brace", {}, None, bg + body + en, v, atom=atom, load=True, stream="corpus2")
                ex.dfs("minimize-collapse-brace", {}, None, file0=bg + body + en, atom=atom, load=True,
                       stream="corpus2-dfs", max_runs=6 if quick else 60, cap=150)
    # "and the final file": a write that fails half-way (once) while a candidate is being written must not leave a
    # file without its protected text behind (the restoring dump repairs it)
    from props.c08 import reference as marker_reference
    from runner import impl_session
    for data in (b"// header, keep me\nDDBEGIN\nfunction f() {\n}\nl2\nl3\nDDEND\n// tail\n", b"x DDBEGIN\r\nabc\r\nd\r\n/* DDEND */ t"):
        P, _, S = marker_reference(data)
        for strategy in ("minimize", "minimize-collapse-brace", "minimize-around"):
            for atom in ("line", "char"):
                for k in (1, 2, 3, 5):
                    for v in ("YNY" * 10, "YYYYYYYY", "YNNYNNY"):
                        run_ = impl_session([{"strategy": strategy, "cfg": {}, "atom": atom, "file0": data, "verdict": v,
                                              "write_fault": k}])[0]
                        if run_.fault_last or run_.exc in ("Hang", "CapHit"):
                            ck.count("write-fault(skipped)")
                            continue
                        ck.count("write-fault")
                        ck.nontrivial(("write-fault", strategy, atom, k, v, data))
                        if not (run_.final.startswith(P) and run_.final.endswith(S) and len(run_.final) >= len(P) + len(S)):
                            ck.violation(f"{strategy}/{atom}: write number {k} to the testcase file failed half-way (once); the "
                                         f"run ended ({run_.exc}) leaving {run_.final!r}: the text outside the markers is damaged "
                                         f"(P={P!r}, S={S!r})",
                                         {"strategy": strategy, "atom": atom, "file0": data.hex(), "verdicts": v, "write_fault": k,
                                          "final": run_.final.hex()})
    # what stands in front of the DDBEGIN line (nothing, a byte-order mark, bytes that are not UTF-8) x one terminator
    # style used throughout the file x all five splitters x all strategies
    from universe import marker_matrix
    marker_matrix(lambda strategy, cfg, tc, **kw: ex.dfs(strategy, cfg, tc, replay=strategy not in CONCRETE, cap=150, **kw), quick,
                  others=STRATS[1:])
    from scale import big_frame_and_subdeletion
    big_frame_and_subdeletion(ck, frame=True, sub=False)
    # marker lines whose CR LF straddles a multiple of a block size: the first candidates of a run still carry the text
    # outside the markers
    from boundaries import block_files
    for name, data, small in block_files(quick):
        if b"DDBEGIN" not in data:
            continue
        for atom in ("line", "symbol") + (("char", "jsstr", "attrs") if small and len(data) < 70000 else ()):
            ex.one("minimize", {}, None, data, "Y" * 8, atom=atom, load=True, stream="block-boundary", model=False, cap=5, light=False)
    from envmatrix import run_matrix
    run_matrix(ck, ("C05",))
    # a test that edits the HEAD of the file in place while it runs (same length): every later candidate is written out
    # whole, so it begins with the original bytes again - also when the text in front of the region is large (8 KiB, 64 KiB)
    for plen in (10, 4095, 4096, 8191, 8192, 8193, 65536, 70000):
        head = b"// " + b"p" * max(0, plen - 14) + b"\n// DDBEGIN\n"
        data = head + b"l1\nl2\nl3\nl4\nl5\n" + b"// DDEND\ntail\n"
        for atom in ("line", "char", "symbol"):
            for v in ("Y" * 40, "Y" + "NY" * 20, "YN" + "Y" * 30):
                ex.one("minimize", {}, None, data, v, atom=atom, load=True, stream="test-stamps-the-head", model=False, cap=30,
                       scribble="stamp", light=False)
    ex.diff()
    return ck.finish(level="proof", rule=RULE, assumptions=[
        "replace-* and the experimental move: their candidates are taken from the real generators "
        "(monitored assumption: they never assign before/after), the driver is the proved model"])
