"""C02 - interrupts, errors and kills never lose the last accepted version"""
from common import Check
from explore import Explorer, oracle_c02
from universe import driver_universe
from props.c01 import RULE


def run(ck: Check):
    ex = Explorer(ck, oracles=[oracle_c02])
    driver_universe(ex, ck, aborts=True)
    extra(ex, ck)
    from explore import oracle_session
    from universe import session_universe
    session_universe(ck, oracle_session, quick=ck.tier == "quick")
    from envmatrix import run_matrix
    run_matrix(ck, ("C02",))
    from scale import long_run_kill_invariant
    long_run_kill_invariant(ck)
    # file names at the limit of the file system: an extension with which 'original<ext>' and '<n>-boring<ext>' still fit
    # into NAME_MAX but '<n>-interesting<ext>' does not (and the neighbouring lengths).  A copy that cannot be written
    # stops the run (the OS error comes out); it never goes on without the copy a later kill would need
    from explore import last_accepted, replay_doc
    from runner import impl_run
    from universe import EXCS
    for elen in range(255 - 16, 255 - 6):
        ext = "." + "e" * (elen - 1)
        for strategy in ("minimize", "minimize-around"):
            for v in ("YYNR", "YNYR", "YYYYR", "YNNNR", "YR", "YYNNYNR"):
                data = b"a\nb\nc\nd\ne\nf\ng\nh\n"
                try:
                    run_ = impl_run(strategy, {}, None, data, v, load=True, ext=ext, exc_class=[e for e in EXCS if e is not OSError][len(v) % 5])
                except OSError:
                    continue
                ck.count("name-length-abort")
                ck.nontrivial(("name-length-abort", elen, strategy, v))
                ctx = {"strategy": strategy, "cfg": {}, "tc": run_.loaded, "file0": data, "verdicts": v, "clock": [], "atom": "line",
                       "exc_class": EXCS[len(v) % len(EXCS)].__name__, "load": True, "extension_length": elen}
                if run_.exc in (None, "CapHit", "Hang") or not run_.seen:
                    continue        # (no test ran: not even 'original<ext>' fits, the run stops before it starts)
                # however the run ended (the scripted abort, or the OS error of a copy that does not fit): the file holds the
                # last accepted version and the newest interesting copy (else 'original') IS that version
                want = last_accepted(ctx, run_)
                inter = [(int(n.split("-")[0]), b) for n, b, _ in run_.temp if n.endswith("-interesting")]
                best = max(inter)[1] if inter else dict((n, b) for n, b, _ in run_.temp).get("original")
                if run_.final != want or best != want:
                    ck.violation(f"{strategy} with a {elen}-byte extension, verdicts {v} (run ended with {run_.exc}): the file holds "
                                 f"{run_.final!r}, the newest interesting copy in the temp dir {best!r}, the last accepted version is "
                                 f"{want!r}", replay_doc(ctx, run_, want=want.hex()))
    ex.diff()
    return ck.finish(level="proof", rule=RULE + EXTRA_RULE, assumptions=ASSUME)


EXTRA_RULE = ""
ASSUME = ["the interestingness test sees only the file, its arguments and the prefix",
          "SHA-512 collision-freeness (the model de-duplicates on content equality)"]


def move_aborts(ex, ck):
    """the experimental move re-uses candidate objects: abort at the LAST and the last-but-one test of every explored
    verdict sequence (the test right after an accepted move is where an aliased, half-edited testcase would be
    restored)"""
    from explore import content
    from universe import EXCS
    quick = ck.tier == "quick"
    for parts in ([b"{\n", b"a\n", b"b\n", b"c\n", b"}\n"], [b"(\n", b"x\n", b"y\n", b")\n", b"z\n"],
                  [b"[\n", b"p\n", b"q\n", b"]\n"]):
        tc = (b"", parts, [True] * len(parts), b"")
        runs = ex.dfs("minimize-balanced", {"move": True}, tc, stream="move-dfs", max_runs=120 if quick else 1200)
        seen = set()
        for run in runs:
            v = "".join(a for _, _, a in run.seen)
            for k in (len(v), len(v) - 1):
                if k < 2 or v[:k - 1] + "R" in seen:
                    continue
                seen.add(v[:k - 1] + "R")
                ex.one("minimize-balanced", {"move": True}, tc, content(tc), v[:k - 1] + "R",
                       exc_class=EXCS[(k + len(v)) % len(EXCS)], stream="move-abort")


def hookless_aborts(ex, ck):
    """most real interestingness tests define neither init nor cleanup: an abort is restored all the same"""
    from explore import content
    from universe import EXCS
    parts = [b"a\n", b"b\n", b"c\n", b"d\n", b"e\n", b"f\n"]
    tc = (b"", parts, [True] * len(parts), b"")
    for hooks in ((), ("init",), ("cleanup",)):
        for strategy in ("minimize", "minimize-around", "minimize-collapse-brace"):
            for v in ("YNYNR", "YR", "YNNR", "YYYR", "YNYYNR"):
                for exc in (EXCS[0], EXCS[2], EXCS[3]):
                    ex.one(strategy, {}, tc, content(tc), v, exc_class=exc, stream="hookless-abort", model=False, hooks=hooks)
            ex.one(strategy, {}, tc, content(tc), "YNYNYN", stream="hookless", model=False, hooks=hooks)


def extra(ex, ck):
    move_aborts(ex, ck)
    hookless_aborts(ex, ck)
    """the kill half with REAL processes: `python -m lithium` SIGKILLed while test k is running; the highest
    '*-interesting' copy in the temp dir (else 'original') must be the last accepted version"""
    from concurrent.futures import ThreadPoolExecutor
    from common import rng
    from realproc import run_lithium
    r = rng("c02-kill")
    quick = ck.tier == "quick"
    jobs = []
    for i in range(12 if quick else 150):
        n = r.randint(2, 9)
        data = b"".join(b"%d\n" % j for j in range(n))
        k = r.randint(1, 8)
        prefix = "Y" + "".join(r.choice("YN") for _ in range(k - 2)) if k >= 2 else ""
        strategy = r.choice(["minimize", "minimize-around", "minimize-balanced", "minimize-collapse-brace"])
        atom = r.choice(["-l", "-c", "-s"])
        jobs.append((data, prefix[: k - 1] + "K", ["--strategy", strategy, atom]))
    with ThreadPoolExecutor(8) as pool:
        results = list(pool.map(lambda j: run_lithium(*j), jobs))
    for (data, verdicts, options), res in zip(jobs, results):
        ck.count("sigkill")
        tests = [x for x in res["log"] if x["ev"] == "test"]
        if not tests or tests[-1]["ans"] != "K":
            continue  # the run ended before the kill point
        ck.nontrivial(("sigkill", data, verdicts, tuple(options)))
        want = data
        for t in tests:
            if t["ans"] == "Y":
                want = bytes.fromhex(t["data"])
        inter = sorted((int(n.split("-")[0]), b) for n, b in res["temp"].items() if n.endswith("-interesting"))
        best = inter[-1][1] if inter else res["temp"].get("original")
        inits = sum(1 for x in res["log"] if x["ev"] == "init")
        if best != want or inits != 1 or res["log"][0]["ev"] != "init":
            ck.violation(f"python -m lithium {options} killed (SIGKILL) inside test {len(tests)} after verdicts "
                         f"{verdicts[:-1]!r}: newest interesting copy / original in the temp dir is {best!r}, the last "
                         f"accepted version is {want!r}; init calls {inits}",
                         {"data": data.hex(), "verdicts": verdicts, "options": options,
                          "temp": {k: v.hex() for k, v in res["temp"].items()}})
