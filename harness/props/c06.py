"""C06 - splitting a file and writing it back is the identity (5 splitters)."""
from common import Check, rng, run_model
from splitx import (ATTR_ALPHABET, JS_ALPHABET, LINE_ALPHABET, LINE_ALPHABET_SMALL, SYMBOL_ALPHABET,
                    impl_load, model_load_line, oracle_roundtrip, strings_upto)

RULE = ("tie X on the full (before, parts, flags, after) decomposition or the error, and the direct "
        "round-trip oracle dump(load(d)) == d / atoms non-empty / one flag per atom on the real "
        "classes: EVERY byte string up to length L over per-splitter adversarial alphabets "
        "(terminators CR LF VT FF FS NEL-bytes LS-bytes, invalid UTF-8, marker words as single "
        "symbols; quotes/escapes/braces for jsstr; tag syntax for attrs; cut bytes for symbol), "
        "seeded random strings of length 8-400, a sample through real files. non-trivial = the "
        "string splits into >= 2 atoms or has markers; distinct = distinct (splitter, string)")

SPLITTERS = {"line": (LINE_ALPHABET, LINE_ALPHABET_SMALL), "char": (LINE_ALPHABET, LINE_ALPHABET_SMALL),
             "symbol": (SYMBOL_ALPHABET + [b"DDBEGIN\n", b"DDEND\n"], SYMBOL_ALPHABET[:7] + [b"a"]),
             "jsstr": (JS_ALPHABET + [b"DDBEGIN\n", b"DDEND\n"], JS_ALPHABET[:7]),
             "attrs": (ATTR_ALPHABET + [b"DDBEGIN\n", b"DDEND\n"], ATTR_ALPHABET[:8])}
MODELLED = ("line", "char", "symbol", "jsstr", "attrs")


def run(ck: Check, only=None):
    quick = ck.tier == "quick"
    r = rng("c06")
    cases, impl = [], []
    for atom, (big, small) in SPLITTERS.items():
        if only and atom not in only:
            continue
        gens = [strings_upto(big, 3 if quick else 4), strings_upto(small, 5 if quick else 6, 4 if quick else 5)]
        rnd = []
        from boundaries import mined_texts
        big = list(big) + mined_texts(24)       # texts a changed tree special-cases (nothing on the unchanged tree)
        for _ in range(1500 if quick else 20000):
            n = r.randint(8, 400 if r.random() < 0.2 else 40)
            rnd.append(b"".join(r.choice(big) for _ in range(n)))
        # byte order marks (at offset 0 and elsewhere), alone and in front of every kind of content
        for tail in (b"", b"x", b"\n", b"DDBEGIN\nx\nDDEND\n", b"'a'", b"<a b=c>", b"\xef\xbb\xbf", b"a;b"):
            rnd.append(b"\xef\xbb\xbf" + tail)
            rnd.append(tail + b"\xef\xbb\xbf" + tail)
        rnd += [b"\xef\xbb\xbf" + x for x in rnd[:200:5]]
        rnd.append(b"DDBEGIN\nab\rDDEND\n")
        rnd.append(b"x DDBEGIN y\r\nab\xc2\x85DDEND z\r\ntail")
        gens.append(rnd)
        idx = 0
        for g in gens:
            for data in g:
                idx += 1
                line, t, out = impl_load(atom, data, real_file=(idx % 997 == 0))
                ck.count(atom)
                if t is not None and (len(t.parts) >= 2 or t.before or t.after):
                    ck.nontrivial((atom, data))
                oracle_roundtrip(ck, atom, data, line, t, out)
                if atom in MODELLED:
                    cases.append(model_load_line(atom, data))
                    impl.append(line)
                if idx == 4000:
                    ck.sample({"atom": atom, "data": data.hex(), "impl": line})
    for sets in ((b"", b""), (b"", b";"), (b"}", b""), (b"]", b"["), (b"a", b"a")):
        for data in (b"var a = f(1)\nvar b = g(2)\n\nprint(a, b)\n", b"x;y}z\r\n]a[\n", b"\n\n", b"DDBEGIN\na;\nb\nDDEND\n", b"no newline"):
            line, t, out = impl_load("symbol", data, sets[0], sets[1])
            ck.count("symbol-sets")
            ck.nontrivial(("symbol-sets", sets, data))
            if t is None:
                if line != "err LithiumError":
                    ck.violation(f"[symbol sets={sets}] load raised {line} on {data!r}", {"atom": "symbol", "data": data.hex(),
                                 "cut_before": sets[0].hex(), "cut_after": sets[1].hex()})
            elif t.before + b"".join(t.parts) + t.after != data or out != data or any(not p for p in t.parts):
                ck.violation(f"[symbol sets={sets}] {data!r}: before+atoms+after = {t.before + b''.join(t.parts) + t.after!r}, dump {out!r}",
                             {"atom": "symbol", "data": data.hex(), "cut_before": sets[0].hex(), "cut_after": sets[1].hex()})
    # delimiter sets given as TEXT on the command line (non-ASCII characters, backslashes): whatever they cut, the pieces
    # are the file
    from props.c15 import cli_text_sets

    def judge_rt(b, a, data, t, dumped, argv):
        cat = t.before + b"".join(t.parts) + t.after
        if cat != data or dumped != data or any(not p for p in t.parts) or len(t.parts) != len(t.reducible):
            ck.violation(f"[symbol] {' '.join(argv[1:4])!r} on {data!r}: before+atoms+after = {cat!r}, written back {dumped!r}, "
                         f"{sum(1 for p in t.parts if not p)} empty atom(s)", {"argv": argv, "data": data.hex()})
    if not only or "symbol" in only:
        cli_text_sets(ck, judge_rt)

    def direct(atom, data):
        line, t, out = impl_load(atom, data)
        ck.count("repetition-" + atom)
        ck.nontrivial(("rep", atom, data))
        oracle_roundtrip(ck, atom, data, line, t, out)
    for atom, data in repetition_sweeps(quick):
        if not only or atom in only:
            direct(atom, data)
    # sizes, last bytes and CR LF pairs exactly on multiples of block sizes (64 KiB, 1 MiB, ...)
    from boundaries import block_boundary_loads
    block_boundary_loads(ck, quick, lambda atom, name, data, line, t, out: oracle_roundtrip(ck, atom, data[:0] + data, line, t, out, extra={"file": name}) if (not only or atom in only) else None)
    from boundaries import dump_at_part_counts
    dump_at_part_counts(ck, quick)
    from envmatrix import run_matrix
    run_matrix(ck, ("C06",))
    reload_same_object(ck)
    from scale import big_dump_identity, big_load_identity
    big_dump_identity(ck)
    big_load_identity(ck)
    model = run_model(cases, shards=16)
    from coqlit import xcheck
    xcheck(ck, cases, model)
    for c, m, i in zip(cases, model, impl):
        if m != i:
            ck.mismatch(c.split()[1], c, m, i)
    return ck.finish(level="proof", rule=RULE, assumptions=[
        "CPython's utf-8/surrogateescape decode + str.splitlines and the re module are modelled "
        "(byte-level PyLines.v; hand-readable scanners for each regular expression) and validated "
        "by this exhaustive comparison, not verified"], extra={"exhaustive": True})


def repetition_sweeps(quick):
    """one fragment repeated k times for EVERY k up to a few hundred (counters, give-up limits, windows and recursion
    guards sit at round numbers nobody would pick by hand), behind each opener and in front of each tail"""
    K = 140 if quick else 330
    from boundaries import mined
    # a give-up / rewind limit a changed tree introduced: its neighbourhood only (the quadratic and cubic splitters make
    # "every k up to the limit" too expensive)
    extra_ks = sorted({c + d_ for c in mined()[0] if K <= c <= 3000 for d_ in (-2, -1, 0, 1, 2, 3)})
    plans = {"jsstr": ([b'"', b"'", b"x = '"], [b'\\"', b"\\'", b'"', b"'", b"\\\\", b"a", b"\\u{1}", b"'\n\""], [b"", b"\n", b'"', b"x"]),
             "attrs": ([b"<a", b"<a b", b""], [b" b=c", b' d="e"', b" f", b"<", b">", b"='"], [b"", b">", b"\n", b"'"]),
             "symbol": ([b"", b"x"], [b"{", b"};", b";\n", b"]["], [b"", b"\n", b"y"]),
             "line": ([b"", b"DDBEGIN\n"], [b"\n", b"\r", b"a\xc2\x85", b"\r\n"], [b"", b"DDEND\n", b"x"]),
             "char": ([b"", b"DDBEGIN\n"], [b"\n", b"a", b"\r\n"], [b"", b"\nDDEND\n", b"DDEND"])}
    for atom, (openers, frags, tails) in plans.items():
        for oi, o in enumerate(openers):
            for fi, f in enumerate(frags):
                for ti, t in enumerate(tails):
                    if quick and (oi + fi + ti) % 2 and not (oi == 0 and ti == 0):
                        continue
                    for k in list(range(0, K)) + extra_ks:
                        if atom in ("line", "char") and o and b"DDEND" not in t:
                            continue
                        yield atom, o + f * k + t


def reload_same_object(ck):
    """a testcase object that loads a second file must behave like a fresh object (load() resets it)"""
    import lithium.testcases as tcs
    from splitx import MEM, make
    files = [b"// h DDBEGIN\none\ntwo;\n// DDEND f\ntrailer\n", b"one\ntwo\nthree\n", b"<a b c d>", b"x = 'ab' + \"c\";\n",
             b'<div id="k" class="c d" lang=en hidden>hello <i>w</i></div>\n', b"", b"DDBEGIN\r\nq\r\nDDEND", b"a;b;{c}\n",
             b"p = 1;\nq = 2;\n"]
    for atom in SPLITTERS:
        for a in files:
            for b in files:
                fresh_line, fresh_t, fresh_out = impl_load(atom, b)
                t = make(atom)
                MEM.files["/mem/a.txt"], MEM.files["/mem/b.txt"] = a, b
                tcs.open = MEM.open
                try:
                    try:
                        t.load("/mem/a.txt")
                        len(t)
                    except Exception:  # pylint: disable=broad-except
                        pass
                    try:
                        t.load("/mem/b.txt")
                        got = (t.before, list(t.parts), list(t.reducible), t.after)
                        t.dump()
                        out = MEM.files["/mem/b.txt"]
                    except Exception as e:  # pylint: disable=broad-except
                        got, out = "err " + type(e).__name__, None
                finally:
                    del tcs.open
                ck.count("reload")
                ck.nontrivial(("reload", atom, a, b))
                want = None if fresh_t is None else (fresh_t.before, list(fresh_t.parts), list(fresh_t.reducible), fresh_t.after)
                if (fresh_t is None) != isinstance(got, str) or (fresh_t is not None and (got != want or out != b)):
                    ck.violation(f"[{atom}] a testcase object that had loaded {a!r} loads {b!r} differently from a fresh "
                                 f"object: {got!r} (dump {out!r}) vs {want!r}",
                                 {"atom": atom, "first": a.hex(), "second": b.hex()})
