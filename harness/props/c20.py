"""C20 - each run gets a fresh temp directory, even under races and faults."""
import errno
import itertools
import os
import shutil
import subprocess
import sys
import tempfile
import threading

from common import Check, rng, run_model
from runner import SCRATCH_ROOT

RULE = ("tie X: (a) the real Lithium.create_temp_dir over a stubbed pathlib/os layer driven by the same "
        "directory contents and fault oracle as the model: every pre-existing subset of tmp1..tmp5, "
        "every fault position with EACCES/ENOENT/ENOTDIR/EROFS/ENOSPC; (b) the real file system in a "
        "child process time-boxed from outside: gaps, plain files named tmpN, a deleted working "
        "directory; (c) k in {2,4,8,16} real processes released by a barrier in one directory; "
        "(d) EVERY interleaving of k <= 3 runs at the granularity of the stubbed exists()/mkdir() "
        "calls (threads stepped by a scheduler). non-trivial = the run had to skip at least one "
        "taken name or met a fault or ran concurrently; distinct = distinct (contents, faults, schedule)")

ERRS = {"EACCES": errno.EACCES, "ENOENT": errno.ENOENT, "ENOTDIR": errno.ENOTDIR, "EROFS": errno.EROFS,
        "ENOSPC": errno.ENOSPC}


class StubFS:
    """in-memory directory; every exists()/mkdir() is one atomic step and a scheduling point"""

    def __init__(self, names, fault=None, sched=None):
        self.names = set(names)
        self.fault = fault or {}
        self.created = []
        self.sched = sched
        self.touched = []

    def point(self):
        if self.sched is not None:
            self.sched.yield_point()

    def mkdir(self, name, exist_ok=False, parents=False):
        self.point()
        if name in self.names:
            if exist_ok:
                self.touched.append(("reused", name))
                return
            raise FileExistsError(errno.EEXIST, "File exists", name)
        if name in self.fault:
            e = ERRS[self.fault[name]]
            raise OSError(e, os.strerror(e), name)
        self.names.add(name)
        self.created.append(name)

    def exists(self, name):
        self.point()
        return name in self.names

    def remove(self, name):
        self.touched.append(("removed", name))
        self.names.discard(name)


class Patched:
    """route pathlib.Path / os calls on relative tmpN names to a StubFS (per thread)"""
    local = threading.local()

    def __enter__(self):
        import pathlib
        self.pathlib = pathlib
        self.saved = {}
        cls = pathlib.Path

        def fs():
            return Patched.local.fs

        def mkdir(p, mode=0o777, parents=False, exist_ok=False):
            return fs().mkdir(str(p), exist_ok=exist_ok, parents=parents)

        def exists(p, **kw):
            return fs().exists(str(p))

        def is_dir(p, **kw):
            return fs().exists(str(p))

        def os_mkdir(p, mode=0o777, **kw):
            return fs().mkdir(os.fspath(p))

        def os_makedirs(p, mode=0o777, exist_ok=False):
            return fs().mkdir(os.fspath(p), exist_ok=exist_ok, parents=True)

        def os_exists(p):
            return fs().exists(os.fspath(p))

        def rmtree(p, *a, **k):
            return fs().remove(os.fspath(p))

        for obj, name, fn in ((cls, "mkdir", mkdir), (cls, "exists", exists), (cls, "is_dir", is_dir),
                              (os, "mkdir", os_mkdir), (os, "makedirs", os_makedirs),
                              (os.path, "exists", os_exists), (os.path, "isdir", os_exists), (os.path, "lexists", os_exists),
                              (shutil, "rmtree", rmtree), (os, "rmdir", rmtree)):
            self.saved[(obj, name)] = getattr(obj, name)
            setattr(obj, name, fn)
        return self

    def __exit__(self, *a):
        for (obj, name), fn in self.saved.items():
            setattr(obj, name, fn)


def stub_run(names, fault=None, cap=200):
    """one real create_temp_dir over a stub; returns ('dir', n) / ('err', name) / ('spin',)"""
    from lithium.reducer import Lithium
    fs = StubFS(names, fault)
    count = {"n": 0}

    class Spin(BaseException):
        pass

    orig_point = fs.point

    def point():
        count["n"] += 1
        if count["n"] > cap:
            raise Spin()
        orig_point()
    fs.point = point
    Patched.local.fs = fs
    lith = Lithium()
    try:
        lith.create_temp_dir()
    except Spin:
        return ("spin",), fs
    except OSError as e:
        return ("err", errno.errorcode.get(e.errno, str(e.errno))), fs
    return ("dir", str(lith.temp_dir)), fs


class Scheduler:
    """steps k threads one scheduling point at a time according to a schedule"""

    def __init__(self, k):
        self.k = k
        self.sems = [threading.Semaphore(0) for _ in range(k)]
        self.back = threading.Semaphore(0)
        self.tid = threading.local()
        self.done = [False] * k

    def yield_point(self):
        i = self.tid.i
        self.back.release()       # tell the controller we are parked
        self.sems[i].acquire()    # wait to be scheduled


def interleave(names, k, schedule_prefix):
    """run k real create_temp_dir calls in threads over ONE stub fs, stepping them according to
    schedule_prefix (then round-robin until all finish). Returns (results, fs, trace of who could run)"""
    from lithium.reducer import Lithium
    sch = Scheduler(k)
    fs = StubFS(names, sched=sch)
    results = [None] * k
    parked = [False] * k

    def body(i):
        sch.tid.i = i
        Patched.local.fs = fs
        lith = Lithium()
        try:
            lith.create_temp_dir()
            results[i] = ("dir", str(lith.temp_dir))
        except OSError as e:
            results[i] = ("err", errno.errorcode.get(e.errno, str(e.errno)))
        sch.done[i] = True
        sch.back.release()

    ths = [threading.Thread(target=body, args=(i,), daemon=True) for i in range(k)]
    for t in ths:
        t.start()
    for _ in range(k):            # every thread parks at its first scheduling point
        sch.back.acquire()
    steps, choices, pos = 0, [], 0
    while not all(sch.done):
        live = [i for i in range(k) if not sch.done[i]]
        if pos < len(schedule_prefix) and schedule_prefix[pos] in live:
            i = schedule_prefix[pos]
        else:
            i = live[0]
        pos += 1
        choices.append((i, tuple(live)))
        sch.sems[i].release()
        sch.back.acquire()
        steps += 1
        if steps > 400:
            break
    for t in ths:
        t.join(timeout=1)
    return results, fs, choices


def check_concurrent(ck, names, results, fs, what, replay):
    dirs = [r[1] for r in results if r and r[0] == "dir"]
    bad = None
    if len(set(dirs)) != len(dirs):
        bad = f"two runs were given the same directory: {dirs}"
    elif any(d in names for d in dirs):
        bad = f"a pre-existing entry was reused: {dirs} (existing {sorted(names)})"
    elif any(r is None or r[0] != "dir" for r in results):
        bad = f"a run did not get a directory: {results}"
    elif fs is not None and (fs.touched or not set(names) <= fs.names):
        bad = f"pre-existing entries were touched: {fs.touched}"
    if bad:
        ck.violation(f"{what}: {bad}", replay)


def run(ck: Check):
    quick = ck.tier == "quick"
    r = rng("c20")
    cases, impl = [], []
    with Patched():
        # (a) sequential, stubbed: every subset of tmp1..tmp5 x fault positions
        for subset in itertools.chain.from_iterable(itertools.combinations(range(1, 6), n) for n in range(6)):
            names = {f"tmp{i}" for i in subset}
            free = next(i for i in range(1, 8) if i not in subset)
            for fault in [None] + [(free, e) for e in ERRS]:
                fdict = {f"tmp{fault[0]}": fault[1]} if fault else {}
                res, fs = stub_run(names, fdict)
                ck.count("stub")
                ck.nontrivial(("stub", subset, fault))
                if fault is None:
                    want = ("dir", f"tmp{free}")
                else:
                    want = ("err", fault[1])
                if res != want or fs.touched or not names <= fs.names:
                    key = None
                    ck.violation(f"create_temp_dir with existing {sorted(names)} and fault {fault}: got {res}, "
                                 f"expected {want}; touched {fs.touched}",
                                 {"existing": sorted(names), "fault": fault, "got": res}, key=key)
                cases.append("ctd " + (",".join(str(i) for i in subset) or "-") + " "
                             + (f"{fault[0]}:{fault[1]}" if fault else "-"))
                impl.append(" ".join(res))
        ck.sample({"existing": ["tmp1", "tmp2", "tmp4"], "result": stub_run({"tmp1", "tmp2", "tmp4"})[0]})
        # (d) every interleaving of k <= 3 runs
        import collections
        for names in ([], ["tmp1"], ["tmp2"], ["tmp1", "tmp3"]):
            for k in (2, 3):
                if quick and k == 3 and len(names) == 2:
                    continue
                seen = set()
                stack = [()]
                n_sched = 0
                while stack and n_sched < (400 if quick else 5000):
                    prefix = stack.pop()
                    results, fs, choices = interleave(set(names), k, list(prefix))
                    n_sched += 1
                    ck.count("interleaving")
                    ck.nontrivial(("il", tuple(names), k, tuple(c for c, _ in choices)))
                    check_concurrent(ck, set(names), results, fs,
                                     f"interleaving {[c for c, _ in choices]} of {k} runs, existing {names}",
                                     {"existing": names, "k": k, "schedule": [c for c, _ in choices]})
                    cases.append(f"sched {','.join(map(str, (int(n[3:]) for n in names))) or '-'} {k} "
                                 + ",".join(str(c) for c, _ in choices))
                    impl.append(",".join(sorted(r_[1][3:] for r_ in results if r_ and r_[0] == "dir")))
                    for pos in range(len(prefix), len(choices)):
                        took, live = choices[pos]
                        for alt in live:
                            if alt != took:
                                newp = tuple(c for c, _ in choices[:pos]) + (alt,)
                                if newp not in seen:
                                    seen.add(newp)
                                    stack.append(newp)
    # (b) + (c): the real file system, in child processes time-boxed from outside
    work = tempfile.mkdtemp(prefix="lv-", dir=SCRATCH_ROOT)
    try:
        real_fs(ck, work, quick)
        real_race(ck, work, quick, r)
    finally:
        shutil.rmtree(work, ignore_errors=True)
    model = run_model(cases)
    from coqlit import xcheck
    xcheck(ck, cases, model)
    for c, m, i in zip(cases, model, impl):
        if m != i:
            ck.mismatch(c.split()[0], c, m, i)
    return ck.finish(level="proof", rule=RULE, assumptions=[
        "mkdir(2) is atomic and fails with EEXIST for an existing name of any kind (OS behaviour, assumed)",
        "the stub layer intercepts pathlib.Path.mkdir/exists/is_dir, os.mkdir/makedirs/rmdir, os.path.exists/lexists/isdir, shutil.rmtree"])


CHILD = r"""
import os, sys, json
sys.path.insert(0, %(src)r)
import logging
logging.disable(logging.CRITICAL)
from lithium.reducer import Lithium
from lithium.strategies import CheckOnly
from lithium.testcases import TestcaseLine
os.chdir(sys.argv[1])
mode = sys.argv[2]
tfile = os.path.join(sys.argv[1], "..", "t-%%d.txt" %% os.getpid())
with open(tfile, "w") as f:
    f.write("a\\nb\\n")
class Script:
    def interesting(self, args, prefix):
        return True
l = Lithium()
l.strategy = CheckOnly()
l.testcase = TestcaseLine()
l.testcase.load(tfile)
l.condition_script = Script()
l.condition_args = []
if mode == "deleted":
    os.rmdir(sys.argv[1])
elif mode == "barrier":
    while not os.path.exists(sys.argv[3]):
        pass
try:
    l.run()          # the whole start-up path: temp dir creation as a real run does it
    print(json.dumps(["dir", str(l.temp_dir)]))
except OSError as e:
    print(json.dumps(["err", type(e).__name__]))
finally:
    try:
        os.unlink(tfile)
    except OSError:
        pass
"""


def child(args, timeout=15, env=None):
    src = os.path.join(os.environ.get("VERIF_REPO", "/repo"), "src")
    try:
        p = subprocess.run(["timeout", "-s", "KILL", str(timeout), sys.executable, "-c", CHILD % {"src": src}] + args,
                           capture_output=True, text=True, timeout=timeout + 5, check=False,
                           env=None if env is None else dict(os.environ, **env))
    except subprocess.TimeoutExpired:
        return ["hang"]
    if p.returncode in (-9, 137):
        return ["hang"]
    try:
        import json
        return json.loads(p.stdout.strip().splitlines()[-1])
    except (ValueError, IndexError):
        return ["crash", p.stderr[-200:]]


def real_fs(ck, work, quick):
    # gaps and plain files named tmpN
    d = os.path.join(work, "gaps")
    os.mkdir(d)
    os.mkdir(os.path.join(d, "tmp1"))
    with open(os.path.join(d, "tmp2"), "w") as f:
        f.write("a plain file")
    os.mkdir(os.path.join(d, "tmp4"))
    with open(os.path.join(d, "tmp1", "keep.txt"), "w") as f:
        f.write("precious")
    # a name can also be taken by a symbolic link - dangling or not
    os.symlink(os.path.join(work, "outside", "victim"), os.path.join(d, "tmp3"))
    os.symlink(os.path.join(d, "tmp1"), os.path.join(d, "tmp5"))
    res = child([d, "plain"])
    ck.count("realfs")
    ck.nontrivial(("realfs", "gaps"))
    ok = (res == ["dir", "tmp6"] and open(os.path.join(d, "tmp2")).read() == "a plain file"
          and open(os.path.join(d, "tmp1", "keep.txt")).read() == "precious"
          and sorted(os.listdir(d)) == ["tmp1", "tmp2", "tmp3", "tmp4", "tmp5", "tmp6"]
          and os.path.islink(os.path.join(d, "tmp3")) and not os.path.exists(os.path.join(work, "outside"))
          and sorted(os.listdir(os.path.join(d, "tmp1"))) == ["keep.txt"])
    if not ok:
        ck.violation(f"real file system with tmp1/ tmp2(file) tmp3(dangling link) tmp4/ tmp5(link to tmp1): got {res}, expected tmp6; "
                     f"listing {sorted(os.listdir(d))}, something created outside: {os.path.exists(os.path.join(work, 'outside'))}",
                     {"case": "gaps", "got": res})
    # a genuine gap below other taken names: the LOWEST free number is used
    dg = os.path.join(work, "gaps2")
    os.mkdir(dg)
    os.mkdir(os.path.join(dg, "tmp1"))
    os.mkdir(os.path.join(dg, "tmp3"))
    with open(os.path.join(dg, "tmp4"), "w") as f:
        f.write("file")
    os.mkdir(os.path.join(dg, "tmp10"))
    os.mkdir(os.path.join(dg, "tmp1.bak"))
    res = child([dg, "plain"])
    ck.count("realfs")
    ck.nontrivial(("realfs", "gaps2"))
    if res != ["dir", "tmp2"] or sorted(os.listdir(dg)) != ["tmp1", "tmp1.bak", "tmp10", "tmp2", "tmp3", "tmp4"]:
        ck.violation(f"real file system with tmp1/ tmp3/ tmp4(file) tmp10/ tmp1.bak/: got {res}, expected tmp2; listing {sorted(os.listdir(dg))}",
                     {"case": "gaps2", "got": res})
    # an environment full of variables that name temp / work / result directories (TMPDIR & co., and every ALL-CAPS
    # text a changed tree introduced): without --tempdir the run still creates ./tmp1 and touches none of them
    from boundaries import mined
    de = os.path.join(work, "envdirs")
    os.mkdir(de)
    os.mkdir(os.path.join(de, "elsewhere"))
    with open(os.path.join(de, "elsewhere", "original.txt"), "w") as f:
        f.write("precious")
    names = ["TMPDIR", "TEMP", "TMP", "TEMPDIR", "LITHIUM_TEMPDIR", "LITHIUM_TMP", "LITHIUM_TMPDIR", "LITHIUM_WORKDIR", "LITHIUM_OUTPUT"]
    names += [t for t in mined()[1] if t.isupper() and t.replace("_", "").isalnum() and 3 <= len(t) <= 40]
    res = child([de, "plain"], env={n: os.path.join(de, "elsewhere") for n in names})
    ck.count("realfs")
    ck.nontrivial(("realfs", "environment-variables"))
    if res != ["dir", "tmp1"] or sorted(os.listdir(de)) != ["elsewhere", "tmp1"] or os.listdir(os.path.join(de, "elsewhere")) != ["original.txt"] \
            or open(os.path.join(de, "elsewhere", "original.txt")).read() != "precious":
        ck.violation(f"with {names} all set to an existing directory and no --tempdir: got {res}, expected the new directory ./tmp1; "
                     f"the working directory holds {sorted(os.listdir(de))}, the other directory {sorted(os.listdir(os.path.join(de, 'elsewhere')))}",
                     {"case": "environment-variables", "variables": names, "got": res})
    # ... and through the command line proper (`python -m lithium test file`, no --tempdir), same environment
    de2 = os.path.join(work, "envdirs-cli")
    os.mkdir(de2)
    os.mkdir(os.path.join(de2, "elsewhere"))
    with open(os.path.join(de2, "elsewhere", "original.txt"), "w") as f:
        f.write("precious")
    with open(os.path.join(de2, "cond.py"), "w") as f:
        f.write("def interesting(args, prefix):\n    return b'b' in open(args[-1], 'rb').read()\n")
    with open(os.path.join(de2, "t.txt"), "w") as f:
        f.write("a\nb\nc\n")
    src_ = os.path.join(os.environ.get("VERIF_REPO", "/repo"), "src")
    envv = dict(os.environ, PYTHONPATH=src_, **{n: os.path.join(de2, "elsewhere") for n in names})
    try:
        pr_ = subprocess.run(["timeout", "-s", "KILL", "60", sys.executable, "-m", "lithium", "cond.py", "t.txt"], cwd=de2, env=envv,
                             capture_output=True, timeout=70, check=False)
        rc_ = pr_.returncode
    except subprocess.TimeoutExpired:
        rc_ = "hang"
    ck.count("realfs")
    ck.nontrivial(("realfs", "environment-variables-cli"))
    listing = sorted(os.listdir(de2))
    if rc_ != 0 or listing != ["cond.py", "elsewhere", "t.txt", "tmp1"] or os.listdir(os.path.join(de2, "elsewhere")) != ["original.txt"] \
            or open(os.path.join(de2, "elsewhere", "original.txt")).read() != "precious" or not os.listdir(os.path.join(de2, "tmp1")):
        ck.violation(f"`python -m lithium cond.py t.txt` with {names} all set to an existing directory: status {rc_}, the working directory "
                     f"holds {listing} (expected a new tmp1 with the intermediate files), the other directory "
                     f"{sorted(os.listdir(os.path.join(de2, 'elsewhere')))}", {"case": "environment-variables-cli", "variables": names, "status": rc_})
    # names that are NOT tmpN but look like it - another letter case, a leading zero, a trailing blank or dot, a suffix, a
    # full-width digit: they take no number away (the file system here is case-sensitive); exact names do
    dl = os.path.join(work, "lookalikes")
    os.mkdir(dl)
    for nm in ("TMP1", "Tmp2", "tmp01", "tmp1 ", "tmp1.", "tmp1.txt", "tmp\uff11", "xtmp1", "tmp-1", "tmp"):
        os.mkdir(os.path.join(dl, nm))
        with open(os.path.join(dl, nm, "keep"), "w") as f:
            f.write("k")
    before_ = sorted(os.listdir(dl))
    res = child([dl, "plain"])
    ck.count("realfs")
    ck.nontrivial(("realfs", "lookalikes"))
    if res != ["dir", "tmp1"] or sorted(os.listdir(dl)) != sorted(before_ + ["tmp1"]) or any(
            os.listdir(os.path.join(dl, nm)) != ["keep"] for nm in before_):
        ck.violation(f"real file system holding {before_} (none of them is 'tmp1'): got {res}, expected the new directory tmp1; "
                     f"listing now {sorted(os.listdir(dl))}", {"case": "lookalikes", "got": res})
    # K names taken (tmp1..tmpK, files and directories alternating) for K around every power of two and ten: the run
    # creates tmp(K+1) and touches nothing that was there (probe caps, give-up counters)
    from boundaries import around, with_mined
    for K in (with_mined([9, 10, 99, 100, 101, 255, 256, 999, 1000, 1001, 1024], 20000, lo=2) if quick else around(10001, lo=7)):
        dk = os.path.join(work, f"taken{K}")
        os.mkdir(dk)
        for i in range(1, K + 1):
            if i % 2 or i == K:
                os.mkdir(os.path.join(dk, f"tmp{i}"))
            else:
                open(os.path.join(dk, f"tmp{i}"), "w").close()
        with open(os.path.join(dk, f"tmp{K}", "1-interesting.txt"), "w") as f:
            f.write("of an earlier run")
        res = child([dk, "plain"], timeout=60)
        ck.count("realfs")
        ck.nontrivial(("realfs", "taken", K))
        kept = open(os.path.join(dk, f"tmp{K}", "1-interesting.txt")).read() == "of an earlier run" and os.listdir(os.path.join(dk, f"tmp{K}")) == ["1-interesting.txt"]
        if res != ["dir", f"tmp{K + 1}"] or not os.path.isdir(os.path.join(dk, f"tmp{K + 1}")) or not kept:
            ck.violation(f"real file system with tmp1..tmp{K} all taken: got {res}, expected the new directory tmp{K + 1}; the old "
                         f"tmp{K} untouched: {kept}", {"case": "taken", "K": K, "got": res})
        shutil.rmtree(dk, ignore_errors=True)
    # a working directory that no longer exists: mkdir fails with ENOENT, must stop with that error
    d2 = os.path.join(work, "gone")
    os.mkdir(d2)
    res = child([d2, "deleted"], timeout=8)
    ck.count("realfs")
    ck.nontrivial(("realfs", "deleted-cwd"))
    if res[0] != "err":
        ck.violation(f"create_temp_dir in a deleted working directory: {res} (expected the mkdir error; "
                     f"'hang' = still retrying when killed after 8 s)", {"case": "deleted-cwd", "got": res},
                     key="retry-forever" if res == ["hang"] else None)
    # parent is not a directory / read-only cannot be provoked as root; covered by the stub faults
    # the test's init hook changes the current directory (to its own work dir, which holds a tmp1 of an earlier run):
    # whatever directory the run then uses, it is a NEW one - the old tmp1 and its files stay as they are
    d4 = os.path.join(work, "chdir")
    os.makedirs(os.path.join(d4, "launch"))
    os.makedirs(os.path.join(d4, "target", "tmp1"))
    with open(os.path.join(d4, "target", "tmp1", "1-interesting.txt"), "w") as f:
        f.write("precious result of an earlier run")
    with open(os.path.join(d4, "target", "tmp1", "original.txt"), "w") as f:
        f.write("earlier original")
    src4 = os.path.join(os.environ.get("VERIF_REPO", "/repo"), "src")
    prog4 = (
        "import os, sys, json, logging\n"
        f"sys.path.insert(0, {src4!r})\n"
        "logging.disable(logging.CRITICAL)\n"
        "from lithium.reducer import Lithium\n"
        "from lithium.strategies import Minimize\n"
        "from lithium.testcases import TestcaseLine\n"
        "base = sys.argv[1]\n"
        "os.chdir(os.path.join(base, 'launch'))\n"
        "t = os.path.join(base, 'launch', 't.txt'); open(t, 'w').write('a\\nb\\nc\\nd\\n')\n"
        "class Script:\n"
        "    def init(self, args): os.chdir(os.path.join(base, 'target'))\n"
        "    def interesting(self, args, prefix): return b'a' in open(t, 'rb').read()\n"
        "l = Lithium(); l.strategy = Minimize(); l.testcase = TestcaseLine(); l.testcase.load(t)\n"
        "l.condition_script = Script(); l.condition_args = []\n"
        "try:\n"
        "    rc = l.run(); out = ['rc', rc, str(l.temp_dir)]\n"
        "except BaseException as e:\n"
        "    out = ['exc', type(e).__name__, str(e)[:100]]\n"
        "print(json.dumps(out))\n")
    try:
        pr = subprocess.run(["timeout", "-s", "KILL", "60", sys.executable, "-c", prog4, d4], capture_output=True, text=True,
                            timeout=70, check=False)
        import json
        got4 = json.loads(pr.stdout.strip().splitlines()[-1])
    except Exception as e:  # pylint: disable=broad-except
        got4 = ["crash", str(e)[:200]]
    ck.count("realfs")
    ck.nontrivial(("realfs", "init-chdir"))
    old1 = os.path.join(d4, "target", "tmp1")
    kept = (sorted(os.listdir(old1)) == ["1-interesting.txt", "original.txt"]
            and open(os.path.join(old1, "1-interesting.txt")).read() == "precious result of an earlier run"
            and open(os.path.join(old1, "original.txt")).read() == "earlier original")
    if not kept or got4[0] != "rc":
        ck.violation(f"the test's init hook changes directory to one that holds a tmp1 of an earlier run: run -> {got4}; the old "
                     f"tmp1 now holds {sorted(os.listdir(old1))} (untouched: {kept})", {"case": "init-chdir", "got": got4})
    # "each run": main() through the real command line, twice on ONE Lithium object and once on a fresh one,
    # all in the same directory: tmp1, tmp2, tmp3, the files of each run only in its own directory
    d3 = os.path.join(work, "twice")
    os.mkdir(d3)
    src = os.path.join(os.environ.get("VERIF_REPO", "/repo"), "src")
    prog = (
        "import os, sys, json, logging\n"
        f"sys.path.insert(0, {src!r})\n"
        "logging.disable(logging.CRITICAL)\n"
        "from lithium.reducer import Lithium\n"
        "os.chdir(sys.argv[1])\n"
        "open('cond.py','w').write('def interesting(args, prefix):\\n    return len(open(args[-1],\"rb\").read()) >= 4\\n')\n"
        "out = []\n"
        "l = Lithium()\n"
        "for i, obj in enumerate((l, l, Lithium())):\n"
        "    open('t.txt','w').write('a\\nb\\nc\\nd\\n')\n"
        "    before = {n: sorted(os.listdir(n)) for n in os.listdir('.') if n.startswith('tmp')}\n"
        "    rc = obj.main(['cond.py', 't.txt'])\n"
        "    after = {n: sorted(os.listdir(n)) for n in os.listdir('.') if n.startswith('tmp')}\n"
        "    out.append([rc, str(obj.temp_dir), before, after])\n"
        "print(json.dumps(out))\n")
    try:
        pr = subprocess.run(["timeout", "-s", "KILL", "60", sys.executable, "-c", prog, d3], capture_output=True,
                            text=True, timeout=70, check=False)
        import json
        got = json.loads(pr.stdout.strip().splitlines()[-1])
    except Exception as e:  # pylint: disable=broad-except
        got = ["crash", str(e)[:200]]
    ck.count("realfs")
    ck.nontrivial(("realfs", "main-twice"))
    bad = None
    if not got or got[0] == "crash" or len(got) != 3:
        bad = f"runs did not complete: {got}"
    else:
        for i, (rc, td, before, after) in enumerate(got):
            if td != f"tmp{i + 1}":
                bad = f"run {i + 1} used {td}, expected the new directory tmp{i + 1}"
                break
            if td in before:
                bad = f"run {i + 1} re-used the existing directory {td}"
                break
            if any(after.get(n) != files for n, files in before.items()):
                bad = f"run {i + 1} changed the contents of an earlier run's directory: {before} -> {after}"
                break
            if not after.get(td):
                bad = f"run {i + 1} wrote no intermediate files into its directory {td}"
                break
    if bad:
        ck.violation(f"three runs through main() in one directory (two on the same Lithium object): {bad}",
                     {"case": "main-twice", "got": got})
    # ONE Lithium object, a history of runs with the directory population changing in between (an earlier tmpN removed,
    # the process moved to another directory, names taken by files, a gap opened below): each run uses the lowest
    # number whose name is free AT THAT MOMENT - nothing is remembered from the runs before
    d5 = os.path.join(work, "history")
    os.mkdir(d5)
    prog2 = (
        "import os, sys, json, logging, shutil, itertools\n"
        f"sys.path.insert(0, {src!r})\n"
        "logging.disable(logging.CRITICAL)\n"
        "from lithium.reducer import Lithium\n"
        "base = sys.argv[1]\n"
        "os.chdir(base)\n"
        "cond = os.path.join(base, 'cond.py'); t = os.path.join(base, 't.txt')\n"
        "open(cond,'w').write('def interesting(args, prefix):\\n    return len(open(args[-1],\"rb\").read()) >= 4\\n')\n"
        "def rm(n): shutil.rmtree(n, ignore_errors=True)\n"
        "def cd(n): os.makedirs(n, exist_ok=True); os.chdir(n)\n"
        "def touch(n): open(n, 'w').close()\n"
        "plans = {'same': [None, ('rm','tmp1'), None, None, ('rm','tmp2'), ('rm', 'tmp1')],\n"
        "         'files': [('touch','tmp1'), None, ('touch','tmp4'), None, ('rm','tmp2')],\n"
        "         'moved': [None, ('cd','sub1'), None, ('cd', os.path.join(base, 'sub2')), ('cd', base), ('rm', 'tmp1')],\n"
        "         'fresh-each': [None, ('rm','tmp1'), ('cd','sub3'), None]}\n"
        "out = {}\n"
        "for name, plan in plans.items():\n"
        "    cd(os.path.join(base, 'plan-' + name))\n"
        "    l = Lithium()\n"
        "    rows = []\n"
        "    for act in plan:\n"
        "        if act: {'rm': rm, 'cd': cd, 'touch': touch}[act[0]](act[1])\n"
        "        if name == 'fresh-each': l = Lithium()\n"
        "        open(t,'w').write('a\\nb\\nc\\nd\\n')\n"
        "        want = next('tmp%d' % n for n in itertools.count(1) if not os.path.lexists('tmp%d' % n))\n"
        "        try:\n"
        "            rc = l.main([cond, t])\n"
        "        except BaseException as e:\n"
        "            rc = type(e).__name__\n"
        "        rows.append([str(act), want, str(l.temp_dir), rc, os.path.isdir(want) and bool(os.listdir(want))])\n"
        "    out[name] = rows\n"
        "print(json.dumps(out))\n")
    try:
        pr = subprocess.run(["timeout", "-s", "KILL", "90", sys.executable, "-c", prog2, d5], capture_output=True,
                            text=True, timeout=100, check=False)
        got5 = json.loads(pr.stdout.strip().splitlines()[-1])
    except Exception as e:  # pylint: disable=broad-except
        got5 = {"crash": [[str(e)[:200], pr.stderr[-300:] if "pr" in dir() else ""]]}
    for name, rows in got5.items():
        ck.count("realfs")
        ck.nontrivial(("realfs", "history", name))
        for i, row in enumerate(rows):
            if len(row) != 5 or row[1] != row[2] or row[3] not in (0, 1) or not row[4]:
                ck.violation(f"one Lithium object, run {i + 1} of history '{name}' (before it: {row[0] if row else '?'}): the lowest free "
                             f"name was {row[1] if len(row) > 1 else '?'}, the run used {row[2] if len(row) > 2 else '?'} "
                             f"(status {row[3] if len(row) > 3 else '?'}, files written there: {row[4] if len(row) > 4 else '?'})",
                             {"case": "history-" + name, "rows": rows})
                break


def real_race(ck, work, quick, r):
    rounds = 4 if quick else 40
    for rnd in range(rounds):
        k = [2, 4, 8, 16][rnd % 4]
        d = os.path.join(work, f"race{rnd}")
        os.mkdir(d)
        pre = r.sample(range(1, 5), r.randint(0, 2))
        for i in pre:
            os.mkdir(os.path.join(d, f"tmp{i}"))
        go = os.path.join(work, f"go{rnd}")
        src = os.path.join(os.environ.get("VERIF_REPO", "/repo"), "src")
        procs = [subprocess.Popen([sys.executable, "-c", CHILD % {"src": src}, d, "barrier", go],
                                  stdout=subprocess.PIPE, text=True) for _ in range(k)]
        import time
        time.sleep(0.6)
        open(go, "w").close()
        import json
        results = []
        for p in procs:
            try:
                out, _ = p.communicate(timeout=20)
                results.append(tuple(json.loads(out.strip().splitlines()[-1])))
            except Exception:  # pylint: disable=broad-except
                p.kill()
                results.append(("hang",))
        ck.count("race")
        ck.nontrivial(("race", rnd, k))
        check_concurrent(ck, {f"tmp{i}" for i in pre}, results, None, f"{k} processes started together",
                         {"k": k, "existing": pre, "results": results})
        want = sorted(f"tmp{i}" for i in pre) + []
        listing = sorted(os.listdir(d))
        dirs = sorted(x[1] for x in results if x[0] == "dir")
        if sorted(set(listing) - set(want)) != dirs:
            ck.violation(f"{k} racing runs: directory listing {listing} vs handed out {dirs}",
                         {"k": k, "existing": pre, "listing": listing})
