"""C07 - rmslice / _slice_xlat / __len__ / copy: correspondence (tie X) + direct oracle."""
import itertools

from common import Check, enc_bools, enc_opt, enc_parts, hx, rng, run_model

RULE = ("every reducible/non-reducible flag layout up to length L (quick 7, thorough 9; parts are "
        "distinct one-byte atoms) x every pair (a,b) in [-n-2,n+2]^2 (both orders) for rmslice on a "
        "copy(), plus (a,b) incl. None for _slice_xlat, plus util.py helpers on -70..4100 and "
        "2^k+-1; seeded random long layouts; a case is non-trivial when the layout has at least "
        "one reducible and one non-reducible part or the range is non-empty after clamping; "
        "distinct = distinct (layout,a,b)")


def clampi(n, x):
    if x < 0:
        return max(n + x, 0)
    return min(x, n)


def spec_rm(parts, red, lo, hi):
    out_p, out_r, r = [], [], 0
    for p, f in zip(parts, red):
        if f:
            if not lo <= r < hi:
                out_p.append(p)
                out_r.append(True)
            r += 1
        else:
            out_p.append(p)
            out_r.append(False)
    return out_p, out_r


def run(ck: Check):
    import lithium.testcases as tcs
    from lithium.testcases import TestcaseLine
    from lithium import util
    classes = [tcs.TestcaseLine, tcs.TestcaseChar, tcs.TestcaseSymbol, tcs.TestcaseJsStr, tcs.TestcaseAttrs]

    L = 7 if ck.tier == "quick" else 9
    cases, impl = [], []

    state = {"i": 0}

    def mk(parts, red):
        state["i"] += 1
        t = classes[state["i"] % len(classes)]()
        t.before, t.after = b"<", b">"
        t.parts, t.reducible = list(parts), list(red)
        return t

    def impl_rmslice(parts, red, a, b):
        src = mk(parts, red)
        cp = src.copy()
        alias = (cp.parts is src.parts) or (cp.reducible is src.reducible)
        try:
            cp.rmslice(a, b)
        except IndexError:
            return "err IndexError", src, cp, alias
        return (f"ok {hx(cp.before)} {enc_parts(cp.parts)} {enc_bools(cp.reducible)} "
                f"{hx(cp.after)} {len(cp)}"), src, cp, alias

    layouts = []
    for n in range(0, L + 1):
        for red in itertools.product([False, True], repeat=n):
            layouts.append(list(red))
    r = rng("c07")
    for _ in range(40 if ck.tier == "quick" else 300):
        n = r.randint(10, 60)
        p = r.choice([0.1, 0.5, 0.9])
        layouts.append([r.random() < p for _ in range(n)])

    for red in layouts:
        n = len(red)
        parts = [bytes([65 + (i % 60)]) for i in range(n)]
        k = sum(red)
        span = range(-k - 2, k + 3) if n <= L else sorted(set(
            [-k - 2, -k, -1, 0, 1, k // 2, k - 1, k, k + 2] + [r.randint(-k - 2, k + 2) for _ in range(3)]))
        tcs = f"3c {enc_parts(parts)} {enc_bools(red)} 3e"
        for a in span:
            for b in span:
                out, src, cp, alias = impl_rmslice(parts, red, a, b)
                cases.append(f"rmslice {tcs} {a} {b}")
                impl.append(out)
                ck.count("rmslice")
                lo, hi = clampi(k, a), clampi(k, b)
                if (0 < k < n) or lo < hi:
                    ck.nontrivial((tuple(red), a, b))
                # ---- direct oracle on the implementation
                if src.parts != parts or src.reducible != red or alias:
                    ck.violation("copy() is not independent: rmslice on the copy changed the source",
                                 {"parts": [p.hex() for p in parts], "reducible": red, "a": a, "b": b},
                                 key="alias")
                if lo <= hi:
                    ep, er = spec_rm(parts, red, lo, hi)
                    ok = (not out.startswith("err") and cp.parts == ep and cp.reducible == er
                          and len(cp) == k - (hi - lo) and cp.before == b"<" and cp.after == b">")
                    if not ok:
                        ck.violation(
                            f"rmslice({a},{b}) on flags {enc_bools(red)} gave {out}; the property "
                            f"requires parts {enc_parts(ep)} flags {enc_bools(er)} len {k - (hi - lo)}",
                            {"op": "rmslice", "parts": [p.hex() for p in parts], "reducible": red,
                             "a": a, "b": b, "got": out}, key=None)
        # _slice_xlat incl. None, __len__
        t = mk(parts, red)
        cases.append(f"len {tcs}")
        impl.append(f"ok {len(t)}")
        ck.count("len")
        for a in [None] + list(span)[:: max(1, len(span) // 6)]:
            for b in [None] + list(span)[:: max(1, len(span) // 6)]:
                try:
                    i, j = t._slice_xlat(a, b)
                    out = f"ok {i} {j}"
                except IndexError:
                    out = "err IndexError"
                cases.append(f"xlat {tcs} {enc_opt(a)} {enc_opt(b)}")
                impl.append(out)
                ck.count("xlat")
    # the operation is about POSITIONS, not contents: every class x parts made of UTF-8 continuation / lead bytes, bytes
    # that are not UTF-8, quotes and backslashes, line breaks, brackets, marker words, multi-byte atoms, equal atoms
    palettes = [[bytes([0x80 + 7 * i]) for i in range(9)], [b"\xc3", b"\xa9", b"b", b"\xe2", b"\x82", b"\xac", b"c", b"\xf0", b"\x9f"],
                [b"'", b"\\", b'"', b"\\'", b"`", b"\\\\", b"'", b'"', b"\\"], [b"\n", b"\r", b"\r\n", b"\n", b"\x0c", b"\xc2\x85", b"\n", b"\r", b"\n"],
                [b"{", b"}", b"(", b")", b"[", b"]", b"{\n", b"}\n", b" "], [b"DDBEGIN\n", b"DDEND\n", b"x", b"DDBEGIN", b"DDEND", b"\xff", b"\xfe", b"\xef\xbb\xbf", b"\x00"],
                [b"a"] * 9, [b"<a", b" b=c", b">", b"<", b" d", b"/>", b"=", b'"e"', b">"],
                # empty parts (a rewriting strategy can leave one behind): positions, not contents
                [b"", b"a", b"", b"b", b"", b"", b"c", b"", b"d"], [b""] * 9]
    Lc = 4 if ck.tier == "quick" else 6
    for cls in classes:
        for pal in palettes:
            for n in range(1, Lc + 1):
                for red in itertools.product([False, True], repeat=n):
                    red = list(red)
                    parts = pal[:n]
                    k = sum(red)
                    for a in range(-k - 2, k + 3):
                        for b in range(-k - 2, k + 3):
                            lo, hi = clampi(k, a), clampi(k, b)
                            if lo > hi:
                                continue
                            t = cls()
                            t.before, t.after, t.parts, t.reducible = b"<", b">", list(parts), list(red)
                            cp = t.copy()
                            ck.count("contents")
                            ck.nontrivial(("contents", cls.__name__, tuple(parts), tuple(red), a, b))
                            try:
                                cp.rmslice(a, b)
                                got = (cp.parts, cp.reducible, len(cp), type(cp) is cls)
                            except Exception as e:  # pylint: disable=broad-except
                                got = type(e).__name__
                            ep, er = spec_rm(parts, red, lo, hi)
                            if got != (ep, er, k - (hi - lo), True) or t.parts != parts or t.reducible != red:
                                ck.violation(f"{cls.__name__}: rmslice({a},{b}) on parts {parts!r} flags {enc_bools(red)} gave {got!r}; "
                                             f"the property requires {ep!r} {enc_bools(er)} len {k - (hi - lo)} (source now {t.parts!r})",
                                             {"op": "rmslice", "class": cls.__name__, "parts": [p.hex() for p in parts],
                                              "reducible": red, "a": a, "b": b})
    # bounds far outside any range - beyond the machine word, powers of ten - are clamped like any other out-of-range value
    import sys as _sys
    FAR = [_sys.maxsize - 1, _sys.maxsize, _sys.maxsize + 1, 2 ** 63, 2 ** 64 + 5, 10 ** 30, 2 ** 31, 2 ** 32 + 1]
    for cls in classes:
        for n in (1, 3, 4):
            for red in itertools.product([False, True], repeat=n):
                red = list(red)
                parts = [bytes([97 + i]) for i in range(n)]
                k = sum(red)
                bounds = FAR[:: (2 if ck.tier == "quick" else 1)] + [-x for x in FAR[::3]] + [0, 1, -1]
                for a in bounds:
                    for b in bounds:
                        lo, hi = clampi(k, a), clampi(k, b)
                        if lo > hi or (abs(a) < 5 and abs(b) < 5):
                            continue
                        t = cls()
                        t.before, t.after, t.parts, t.reducible = b"<", b">", list(parts), list(red)
                        cp = t.copy()
                        ck.count("far-bounds")
                        ck.nontrivial(("far", cls.__name__, tuple(red), a, b))
                        try:
                            cp.rmslice(a, b)
                            got = (cp.parts, cp.reducible, len(cp))
                        except Exception as e:  # pylint: disable=broad-except
                            got = type(e).__name__
                        ep, er = spec_rm(parts, red, lo, hi)
                        if got != (ep, er, k - (hi - lo)):
                            ck.violation(f"{cls.__name__}: rmslice({a},{b}) on flags {enc_bools(red)} gave {got!r}; out-of-range bounds "
                                         f"are clamped: expected {ep!r} {enc_bools(er)} len {k - (hi - lo)}",
                                         {"op": "rmslice", "class": cls.__name__, "reducible": red, "a": str(a), "b": str(b)})
                        # (direct oracle only: the driver of the extracted model reads machine-size integers; the theorem is over Z)
    # SEQUENCES of deletions on one lineage (copy, rmslice, copy, rmslice ... - what a reduction does): each one is judged
    # against the specification applied to what the previous one left
    r3 = rng("c07-sequences")
    for _ in range(3000 if ck.tier == "quick" else 30000):
        n = r3.randint(2, 9)
        red = [r3.random() < 0.6 for _ in range(n)]
        parts = [bytes([65 + i]) for i in range(n)]
        t = mk(parts, red)
        cur_p, cur_r, hist = list(parts), list(red), []
        for step_ in range(r3.randint(2, 4)):
            k = sum(cur_r)
            a, b = r3.randint(-k - 1, k + 1), r3.randint(-k - 1, k + 1)
            lo, hi = clampi(k, a), clampi(k, b)
            if lo > hi:
                continue
            if r3.random() < 0.5:
                t = t.copy()
            hist.append((a, b))
            try:
                t.rmslice(a, b)
                got = (t.parts, t.reducible, len(t))
            except Exception as e:  # pylint: disable=broad-except
                got = type(e).__name__
            cur_p, cur_r = spec_rm(cur_p, cur_r, lo, hi)
            ck.count("sequence")
            if got != (cur_p, cur_r, sum(cur_r)):
                ck.nontrivial(("sequence", tuple(red), tuple(hist)))
                ck.violation(f"rmslice sequence {hist} on flags {enc_bools(red)} (copy() in between at random): after the last one the "
                             f"testcase is {got!r}, the specification gives {cur_p!r} {enc_bools(cur_r)} len {sum(cur_r)}",
                             {"op": "rmslice-sequence", "reducible": red, "sequence": hist})
                break
        ck.nontrivial(("sequence", tuple(red), tuple(hist)))
    # len() queried, then the lists edited IN PLACE (append / flag flip / pop), then rmslice: no stale state
    r2 = rng("c07-inplace")
    for _ in range(300 if ck.tier == "quick" else 3000):
        n = r2.randint(1, 7)
        red = [r2.random() < 0.7 for _ in range(n)]
        parts = [bytes([65 + i]) for i in range(n)]
        t = mk(parts, red)
        len(t)
        t._slice_xlat(0, None)
        op = r2.choice(["append", "flip", "pop", "extend"])
        if op == "append":
            t.parts.append(b"z"); t.reducible.append(r2.random() < 0.5)
        elif op == "flip":
            i = r2.randrange(n); t.reducible[i] = not t.reducible[i]
        elif op == "pop":
            t.parts.pop(); t.reducible.pop()
        else:
            t.parts.extend([b"y", b"w"]); t.reducible.extend([True, False])
        p2, f2 = list(t.parts), list(t.reducible)
        k2 = sum(f2)
        a, b = r2.randint(-k2 - 1, k2 + 1), r2.randint(-k2 - 1, k2 + 1)
        ck.count("inplace")
        ck.nontrivial(("inplace", tuple(red), op, a, b))
        lo, hi = clampi(k2, a), clampi(k2, b)
        bad = None
        if len(t) != k2:
            bad = f"len() reports {len(t)} but {k2} parts are reducible"
        elif lo <= hi:
            try:
                t.rmslice(a, b)
                ep, er = spec_rm(p2, f2, lo, hi)
                if t.parts != ep or t.reducible != er or len(t) != k2 - (hi - lo):
                    bad = f"rmslice({a},{b}) gave {t.parts!r} {t.reducible!r} len {len(t)}, expected {ep!r} {er!r}"
            except IndexError:
                bad = f"rmslice({a},{b}) raised IndexError"
        if bad:
            ck.violation(f"after len() and an in-place {op} on flags {enc_bools(red)}: {bad}",
                         {"op": "inplace-" + op, "flags": red, "a": a, "b": b})
    ck.sample({"op": "rmslice", "layout": "FTTFT", "a": 1, "b": -1,
               "impl": impl_rmslice([b"a", b"b", b"c", b"d", b"e"], [False, True, True, False, True], 1, -1)[0]})

    # util.py helpers
    ints = list(range(-70, 4101)) + [2 ** k + d for k in range(12, 61) for d in (-1, 0, 1)]
    for x in ints:
        cases.append(f"ipo2 {x}")
        impl.append("ok T" if util.is_power_of_two(x) else "ok F")
        cases.append(f"lpo2 {x}")
        impl.append(f"ok {util.largest_power_of_two_smaller_than(x)}")
        ck.count("util", 2)
    for x in range(-20, 60):
        for d in (-3, -1, 0, 1, 2, 3, 8):
            try:
                out = f"ok {util.divide_rounding_up(x, d)}"
            except ZeroDivisionError:
                out = "err ZeroDivisionError"
            cases.append(f"dru {x} {d}")
            impl.append(out)
            ck.count("util")

    model = run_model(cases)

    from coqlit import xcheck

    xcheck(ck, cases, model)
    for c, m, i in zip(cases, model, impl):
        if m != i:
            ck.mismatch(c.split()[0], c, m, i)
    ck.sample({"op": cases[1000] if len(cases) > 1000 else cases[0],
               "model": model[1000] if len(cases) > 1000 else model[0]})
    from scale import big_rmslice
    big_rmslice(ck)
    from boundaries import rmslice_at_protected_counts
    rmslice_at_protected_counts(ck, ck.tier == "quick")
    return ck.finish(
        level="proof", rule=RULE,
        assumptions=["aliasing/object identity of copy() is outside the functional model; it is "
                     "checked on the implementation only (source compared after every rmslice)"],
        extra={"exhaustive": True, "layout_bound": L})
