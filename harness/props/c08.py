"""C08 - DDBEGIN/DDEND select exactly the lines between the marker lines."""
import itertools

from common import Check, hx, rng, run_model
from splitx import impl_load, model_load_line

RULE = ("tie X on find_markers/load + reference oracle: every arrangement of up to K lines (quick 4, "
        "thorough 5) each drawn from {plain, B, E, BE, EB, BB, split-marker} x terminator {LF, CRLF, "
        "CR, NEL, none at EOF} x 5 splitters; marker words split across a line break / UTF-8 "
        "boundary; error-is-early through Lithium.process_args. non-trivial = at least one marker "
        "word present; distinct = distinct (splitter, file)")

KINDS = {"plain": b"xy", "B": b"a DDBEGIN b", "E": b"c DDEND d", "BE": b"x DDBEGIN y DDEND",
         "EB": b"DDEND DDBEGIN", "BB": b"DDBEGIN DDBEGIN", "half": b"DDBE",
         # the two words overlapping on their shared D / glued together / inside longer words
         "ovEB": b"// DDENDDBEGIN", "glBE": b"DDBEGINDDEND", "ovEE": b"xDDENDDENDy"}
TERMS = [b"\n", b"\r\n", b"\r", b"\xc2\x85"]


def reference(data):
    """independent statement of the property on Python's own line splitting"""
    lines = [l.encode("utf-8", "surrogateescape") for l in
             data.decode("utf-8", "surrogateescape").splitlines(keepends=True)]
    bi = next((i for i, l in enumerate(lines) if b"DDBEGIN" in l), None)
    if bi is None:
        if any(b"DDEND" in l for l in lines):
            return None
        return (b"", data, b"")
    if any(b"DDEND" in l for l in lines[:bi]):
        return None
    ei = next((i for i in range(bi + 1, len(lines)) if b"DDEND" in lines[i]), None)
    if ei is None:
        return None
    return (b"".join(lines[:bi + 1]), b"".join(lines[bi + 1:ei]), b"".join(lines[ei:]))


def run(ck: Check):
    quick = ck.tier == "quick"
    r = rng("c08")
    K = 4 if quick else 5
    files = []
    kinds = list(KINDS)
    for n in range(1, K + 1):
        for combo in itertools.product(kinds, repeat=n):
            if n >= 4 and combo.count("plain") + combo.count("half") < n - 3:
                continue
            if n >= 3 and sum(combo.count(k) for k in ("ovEB", "glBE", "ovEE")) > 1:
                continue
            terms = [r.choice(TERMS) for _ in combo]
            for last in (terms[-1], b""):
                body = b"".join(KINDS[k] + t for k, t in zip(combo[:-1], terms[:-1]))
                files.append(body + KINDS[combo[-1]] + last)
    files += [b"DDBE\nGIN\nx\nDDEND\n", b"DDBEGI\xc2\x85N\nDDEND\n", b"DDBEGIN\nDD\xe2\x80\xa8END\nDDEND\n",
              b"\xffDDBEGIN\xff\n\xc2\nDDEND\xc2", b"DDBEGIN\rDDEND\r"]
    # the same arrangements with bytes that are not UTF-8 ON the marker lines (a Latin-1 comment around the marker word):
    # a malformed file is a Lithium error whatever else its lines hold, a well-formed one keeps its boundaries
    files += [f.replace(b"a DD", b"r\xe9gion DD").replace(b"c DD", b"\xe9\xff DD").replace(b"x DD", b"\xa4 DD").replace(b"DDEND DDB", b"DDEND\xfe DDB")
              for f in files[::3] if b"DD" in f]
    # bytes that are line breaks in OTHER encodings (0x85 is NEL in latin-1 and an ellipsis in cp1252; 0x0a0d, LS next to
    # stray bytes) on and around the marker lines of files that are not valid UTF-8 as a whole: the marker LINES are
    # those of the UTF-8 / surrogateescape reading, wherever a stray byte sits
    for stray in (b"", b"caf\xe9\n", b"\xff\xfe\n"):
        for pos in ("front", "region", "tail"):
            for bg, en in ((b"// DDBEGIN \x85 keep this\n", b"\x85 DDEND\n"), (b"x DDBEGIN\xe2\x80\xa8", b"\xe2\x80\xa9DDEND y\n"),
                           (b"a\x85DDBEGIN\x85b\n", b"c\x85DDEND\x85d"), (b"DDBEGIN\xc2\x85", b"DDEND\xc2")):
                body = b"l1\n\x85l2\nl3\xe2\x80\xa8l4\n"
                files.append((stray if pos == "front" else b"") + bg + (stray if pos == "region" else b"") + body + en
                             + (stray if pos == "tail" else b""))
    cases, impl = [], []
    for data in files:
        ref = reference(data)
        for atom in ("line", "char", "symbol", "jsstr", "attrs"):
            line, t, out = impl_load(atom, data)
            ck.count(atom)
            if b"DD" in data:
                ck.nontrivial((atom, data))
            # oracle: error iff reference says error; region boundaries as specified
            if ref is None:
                if line != "err LithiumError":
                    ck.violation(f"[{atom}] malformed markers accepted: {data!r} -> {line}",
                                 {"atom": atom, "data": data.hex(), "got": line})
            else:
                if t is None:
                    ck.violation(f"[{atom}] well-formed file rejected: {data!r} -> {line}",
                                 {"atom": atom, "data": data.hex(), "got": line})
                elif not (t.before.startswith(ref[0]) and t.after.endswith(ref[2])
                          and len(t.before) + len(t.after) <= len(data)
                          and (atom in ("jsstr", "char") or (t.before == ref[0] and t.after == ref[2]))):
                    ck.violation(f"[{atom}] protected prefix/suffix are not the marker lines: "
                                 f"{data!r} -> {line}", {"atom": atom, "data": data.hex(), "got": line,
                                                         "want_before": ref[0].hex(), "want_after": ref[2].hex()})
                elif atom == "char" and ref[0] and t.after[: len(t.after) - len(ref[2])] not in (
                        ref[1][-1:], b""):
                    ck.violation(f"[char] unexpected bytes moved in front of the DDEND line: {line}",
                                 {"atom": atom, "data": data.hex(), "got": line})
            if atom in ("line", "char", "symbol"):
                cases.append(model_load_line(atom, data))
                impl.append(line)
        cases.append("markers " + hx(data))
        impl.append("err LithiumError" if ref is None else
                    ("none " + hx(ref[1]) if not ref[0] and not ref[2] and b"DDBEGIN" not in data
                     else f"marked {hx(ref[0])} {hx(ref[1])} {hx(ref[2])}"))
    ck.sample({"file": files[len(files) // 2].hex(), "reference": str(reference(files[len(files) // 2]))})
    early(ck)
    model = run_model(cases, shards=8)
    from coqlit import xcheck
    xcheck(ck, cases, model)
    for c, m, i in zip(cases, model, impl):
        if m != i:
            ck.mismatch(c.split()[0], c, m, i)
    # "protected" is a promise about the whole run, not only about load(): every strategy, on a marker file, shows the
    # test (and leaves behind) files that still begin with the text through the DDBEGIN line and end with the text
    # from the DDEND line on (C05's oracle on a small fixed set; C05 explores this in depth)
    from explore import Explorer, make_oracle_c05
    ex5 = Explorer(ck, oracles=[make_oracle_c05()])
    for data in (b"// head\nDDBEGIN\nfunction f() {\n\n}\nkeep();\nDDEND\n// tail\n", b"x DDBEGIN\r\na.b.c = 1;\r\n{\r\n}\r\n/* DDEND */ t"):
        for strategy in ("minimize", "minimize-around", "minimize-balanced", "minimize-collapse-brace",
                         "replace-properties-by-globals", "replace-arguments-by-globals"):
            for atom in ("line", "symbol", "char"):
                for v in ("Y" * 80, "Y" + "NY" * 40, "YN" + "Y" * 60):
                    ex5.one(strategy, {}, None, data, v, atom=atom, load=True, stream="run-keeps-markers", model=False, cap=200)
    from scale import big_frame_and_subdeletion
    big_frame_and_subdeletion(ck, frame=True, sub=False)
    # marker lines whose line break straddles a multiple of a block size (64 KiB, 1 MiB): the boundaries are still
    # the ends of the marker LINES
    from boundaries import block_boundary_loads

    def judge(atom, name, data, line, t, out):
        ref = reference(data)
        if ref is None:
            bad = None if line == "err LithiumError" else f"malformed markers accepted ({line[:60]})"
        elif t is None:
            bad = f"well-formed file rejected ({line[:60]})"
        elif not (t.before.startswith(ref[0]) and t.after.endswith(ref[2]) and len(t.before) + len(t.after) <= len(data)
                  and (atom in ("jsstr", "char") or (t.before == ref[0] and t.after == ref[2]))):
            bad = (f"protected prefix ends {t.before[-14:]!r} (the DDBEGIN line ends {ref[0][-14:]!r}), protected suffix starts "
                   f"{t.after[:14]!r} (the DDEND line starts {ref[2][:14]!r})")
        else:
            bad = None
        if bad:
            ck.violation(f"[{atom}] {len(data)}-byte file '{name}': {bad}", {"atom": atom, "file": name, "size": len(data)})
    from envmatrix import run_matrix
    run_matrix(ck, ("C08",))
    block_boundary_loads(ck, quick, judge)
    # the same object loading a second file (a library user, a second pass) splits it like a fresh object
    from props.c06 import reload_same_object
    reload_same_object(ck)
    return ck.finish(level="proof", rule=RULE, extra={"exhaustive": True, "files": len(files)})


def early(ck):
    """a malformed file is rejected by process_args before anything is tested or written"""
    import os
    import shutil
    import tempfile
    from lithium.reducer import Lithium
    from lithium.util import LithiumError
    from runner import SCRATCH_ROOT
    for data in (b"DDEND\nDDBEGIN\n", b"DDBEGIN\nx\n", b"x DDEND\n", b"a\nDDBEGIN\nDDBEGIN\n", b"// r\xe9gion DDEND\nx\n", b"\xff DDBEGIN \xfe\nx\n",
                 b"ok\n\xe9 DDEND DDBEGIN\xa4\n"):
        d = tempfile.mkdtemp(prefix="lv-", dir=SCRATCH_ROOT)
        try:
            path = os.path.join(d, "t.txt")
            with open(path, "wb") as f:
                f.write(data)
            with open(os.path.join(d, "yes.py"), "w") as f:
                f.write("import pathlib\ndef interesting(a, p):\n    pathlib.Path(%r).write_text('ran')\n    return True\n"
                        % os.path.join(d, "ran"))
            cwd = os.getcwd()
            os.chdir(d)
            try:
                for atomflag, opts in (("-l", []), ("-c", []), ("-s", []), ("-j", []), ("-a", []),
                                       # options that name things which do not exist yet: nothing may be created either
                                       ("-l", ["--tempdir", "newdir"]), ("-c", ["--tempdir=a/b/c"]),
                                       ("-s", ["--strategy", "minimize-around", "--tempdir", "work"])):
                    lith = Lithium()
                    try:
                        rc = lith.main([atomflag] + opts + [os.path.join(d, "yes.py"), path])
                        got = f"returned {rc}"
                    except LithiumError:
                        got = "LithiumError"
                    except SystemExit as e:
                        got = f"SystemExit {e.code}"
                    ck.count("early")
                    listing = sorted(os.listdir(d))
                    with open(path, "rb") as f:
                        now = f.read()
                    if got != "LithiumError" or now != data or listing != ["t.txt", "yes.py"]:
                        ck.violation(f"malformed markers: main() {got}; dir {listing}; file changed={now != data}",
                                     {"data": data.hex(), "flag": atomflag, "got": got, "listing": listing})
            finally:
                os.chdir(cwd)
        finally:
            shutil.rmtree(d, ignore_errors=True)
