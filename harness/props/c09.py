"""C09 - every strategy terminates within a bounded number of tests."""
import itertools

from common import Check, rng
from explore import Explorer, c09_bound, content, oracle_c09, small_layouts, tc_len

RULE = ("tie X on complete traces + bound oracle: exhaustive DFS over ALL verdict sequences for "
        "<= N atoms (worst sequence found by search), always-Y / always-N / alternating for 6-300 "
        "atoms x repeat/min/max grid for the four chunk strategies; rewriting strategies on a JS "
        "corpus with a hard cap of bound+1 tests enforced by the scripted test (non-termination "
        "shows as cap hit). non-trivial = more than one test; distinct = distinct (strategy, "
        "options, input, verdicts)")


def run(ck: Check):
    ex = Explorer(ck, oracles=[oracle_c09])
    quick = ck.tier == "quick"
    r = rng("c09")
    cfgs = [{}, {"repeat": "always"}, {"repeat": "never"}, {"min": 2}, {"max": 2},
            {"first": True, "repeat": "always"}]
    worst = {}
    for n in range(1, (5 if quick else 6)):
        tc = (b"", [bytes([97 + i]) + b"\n" for i in range(n)], [True] * n, b"")
        for cfg in cfgs:
            runs = ex.dfs("minimize", cfg, tc, stream="dfs-minimize", max_runs=400 if quick else 4000)
            worst[("minimize", n)] = max(worst.get(("minimize", n), 0), max(x.tests for x in runs))
    for n in (6, 17, 64, 150 if quick else 300):
        tc = (b"", [b"%d\n" % i for i in range(n)], [True] * n, b"")
        for cfg in cfgs:
            for v in ("Y" * 100000, "Y", "Y" + "NY" * 50000, "Y" + "YN" * 50000):
                run1 = ex.one("minimize", cfg, tc, content(tc), v, stream="long", cap=c09_bound(n) + 1)
                worst[("minimize", n)] = max(worst.get(("minimize", n), 0), run1.tests)
    ck.cov["worst_case_tests"] = {f"{k[0]}/n={k[1]}": {"tests": v, "bound": c09_bound(k[1])}
                                  for k, v in worst.items()}
    extra(ex, ck, worst)
    ex.diff()
    return ck.finish(level="proof", rule=RULE)


def extra(ex, ck, worst):
    quick = ck.tier == "quick"
    r = rng("c09-pairs")
    cfgs = [{}, {"repeat": "always"}, {"repeat": "never"}, {"min": 2}, {"max": 2}]
    br = (b"{\n", b"}\n", b"x\n", b"(\n")
    for strategy in ("minimize-around", "minimize-balanced"):
        for tc in small_layouts(4 if quick else 5, alphabet=br[: (3 if quick else 4)], with_nonred=False):
            if len(tc[1]) < 2:
                continue
            for cfg in cfgs[:2]:
                runs = ex.dfs(strategy, cfg, tc, stream="dfs-" + strategy, max_runs=60 if quick else 600)
                k = (strategy, len(tc[1]))
                worst[k] = max(worst.get(k, 0), max(x.tests for x in runs))
        for n in (6, 17, 27, 64, 150 if quick else 300):
            shapes = [[b"%d\n" % i for i in range(n)], [b"(\n"] * n, [b"{\n"] * (n // 2) + [b"}\n"] * (n - n // 2),
                      [r.choice(br) for _ in range(n)]]
            for parts in shapes:
                tc = (b"", parts, [True] * n, b"")
                for cfg in cfgs:
                    for v in ("Y" * 100000, "Y", "Y" + "NY" * 50000):
                        run1 = ex.one(strategy, cfg, tc, content(tc), v, stream="long-" + strategy,
                                      cap=c09_bound(n) + 1)
                        k = (strategy, n)
                        worst[k] = max(worst.get(k, 0), run1.tests)
    # minimize-collapse-brace (line mode): the model gets the re-load through the line splitter
    ck.cov["worst_case_tests"] = {f"{k[0]}/n={k[1]}": {"tests": v, "bound": c09_bound(k[1])}
                                  for k, v in worst.items()}
