"""C09 - every strategy terminates within a bounded number of tests."""
import itertools

from common import Check, rng
from explore import Explorer, c09_bound, content, oracle_c09, small_layouts, tc_len

RULE = ("tie X on complete traces + bound oracle: exhaustive DFS over ALL verdict sequences for "
        "<= N atoms (worst sequence found by search), always-Y / always-N / alternating for 6-300 "
        "atoms x repeat/min/max grid for the four chunk strategies; rewriting strategies on a JS "
        "corpus with a hard cap of bound+1 tests enforced by the scripted test (non-termination "
        "shows as cap hit). non-trivial = more than one test; distinct = distinct (strategy, "
        "options, input, verdicts)")


def run(ck: Check):
    ex = Explorer(ck, oracles=[oracle_c09])
    quick = ck.tier == "quick"
    r = rng("c09")
    cfgs = [{}, {"repeat": "always"}, {"repeat": "never"}, {"min": 2}, {"max": 2},
            {"first": True, "repeat": "always"}]
    worst = {}
    for n in range(1, (5 if quick else 6)):
        tc = (b"", [bytes([97 + i]) + b"\n" for i in range(n)], [True] * n, b"")
        for cfg in cfgs:
            runs = ex.dfs("minimize", cfg, tc, stream="dfs-minimize", max_runs=400 if quick else 4000)
            worst[("minimize", n)] = max(worst.get(("minimize", n), 0), max(x.tests for x in runs))
    for n in (6, 17, 64, 150 if quick else 300):
        tc = (b"", [b"%d\n" % i for i in range(n)], [True] * n, b"")
        for cfg in cfgs:
            for v in ("Y" * 100000, "Y", "Y" + "NY" * 50000, "Y" + "YN" * 50000):
                run1 = ex.one("minimize", cfg, tc, content(tc), v, stream="long", cap=c09_bound(n) + 1)
                worst[("minimize", n)] = max(worst.get(("minimize", n), 0), run1.tests)
    ck.cov["worst_case_tests"] = {f"{k[0]}/n={k[1]}": {"tests": v, "bound": c09_bound(k[1])}
                                  for k, v in worst.items()}
    extra(ex, ck, worst)
    # a time limit that runs out in the middle of a run: the strategy stops, it does not fail
    rl = rng("c09-limit")
    for strategy in ("minimize", "minimize-around", "minimize-balanced", "minimize-collapse-brace"):
        for i in range(6 if quick else 60):
            n = rl.randint(3, 12)
            tcl = (b"", [(b"{ %d\n", b"} %d\n", b"x%d\n")[(j + i) % 3] % j for j in range(n)], [True] * n, b"")
            limit = rl.choice([1, 5])
            t0, clock = 100, []
            for _ in range(120):
                clock.append(t0)
                t0 += rl.choice([0, 0, 1, limit, limit + 1])
            for cfg in ({"limit": limit}, {"limit": limit, "repeat": "always"}):
                ex.one(strategy, cfg, tcl, content(tcl), "Y" + "".join(rl.choice("YN") for _ in range(80)), clock=clock, stream="limit-expires",
                       model=strategy != "minimize-collapse-brace")
    # chunk sizes the command line must refuse (0, negative, not a power of two) through every option that sets them: if
    # one is accepted after all, the run still has to end within the bound and without an internal error
    from explore import replay_doc
    from runner import Refused, impl_run
    for strategy in ("minimize", "minimize-around", "minimize-balanced", "minimize-collapse-brace", "replace-properties-by-globals"):
        for argv in (["--chunk-size", "0"], ["--chunk-size=-1"], ["--chunk-size", "-2"], ["--chunk-size", "3"], ["--min", "0"], ["--max=0"],
                     ["--min", "-4"], ["--max", "-2"], ["--min=3"], ["--chunk-size", "6", "--repeat", "always"]):
            for v in ("Y" * 3000, "Y" + "NY" * 1500):
                tcx = (b"", [b"l%d\n" % i for i in range(6)], [True] * 6, b"")
                ck.count("refused-options")
                try:
                    run_ = impl_run(strategy, {"argv": argv}, tcx, content(tcx), v, cap=c09_bound(6) + 1, watchdog=20.0)
                except Refused:
                    continue
                ck.nontrivial(("accepted-odd-options", strategy, tuple(argv)))
                if run_.exc is not None or run_.tests > c09_bound(6):
                    ctx = {"strategy": strategy, "cfg": {"argv": argv}, "tc": tcx, "file0": content(tcx), "verdicts": v[:8], "clock": [],
                           "atom": "line", "exc_class": "TestRaised", "load": False}
                    ck.violation(f"{strategy} {' '.join(argv)} was accepted by the option parser and then ran {run_.tests} tests on 6 atoms "
                                 f"(bound {c09_bound(6)}), ending with {run_.exc}", replay_doc(ctx, run_))
    ex.diff()
    return ck.finish(level="proof", rule=RULE)


def extra(ex, ck, worst):
    quick = ck.tier == "quick"
    r = rng("c09-pairs")
    cfgs = [{}, {"repeat": "always"}, {"repeat": "never"}, {"min": 2}, {"max": 2}]
    br = (b"{\n", b"}\n", b"x\n", b"(\n")
    for strategy in ("minimize-around", "minimize-balanced"):
        for tc in small_layouts(4 if quick else 5, alphabet=br[: (3 if quick else 4)], with_nonred=False):
            if len(tc[1]) < 2:
                continue
            for cfg in cfgs[:2]:
                runs = ex.dfs(strategy, cfg, tc, stream="dfs-" + strategy, max_runs=60 if quick else 600)
                k = (strategy, len(tc[1]))
                worst[k] = max(worst.get(k, 0), max(x.tests for x in runs))
        for n in (6, 17, 27, 64, 150 if quick else 300):
            shapes = [[b"%d\n" % i for i in range(n)], [b"(\n"] * n, [b"{\n"] * (n // 2) + [b"}\n"] * (n - n // 2),
                      [r.choice(br) for _ in range(n)]]
            for parts in shapes:
                tc = (b"", parts, [True] * n, b"")
                for cfg in cfgs:
                    for v in ("Y" * 100000, "Y", "Y" + "NY" * 50000):
                        run1 = ex.one(strategy, cfg, tc, content(tc), v, stream="long-" + strategy,
                                      cap=c09_bound(n) + 1)
                        k = (strategy, n)
                        worst[k] = max(worst.get(k, 0), run1.tests)
    # option combinations on the pair strategies: --repeat-first-round (which they accept and ignore) with repeat modes
    # and --max that make the FIRST chunk size repeatable
    for strategy in ("minimize-around", "minimize-balanced"):
        for cfg in ({"first": True, "repeat": "always"}, {"first": True, "max": 1}, {"first": True, "min": 2, "max": 2},
                    {"first": True}, {"first": True, "repeat": "never"}):
            for n in (2, 3, 6):
                tcp = (b"", [b"%d\n" % i for i in range(n)], [True] * n, b"")
                ex.dfs(strategy, cfg, tcp, stream="pairs-first-round", max_runs=20 if quick else 200, cap=c09_bound(n) + 1)
    # minimize-collapse-brace: concrete model (re-split through the modelled splitters)
    for data in (b"{\n\n}\n", b"a\n{\n \n}\nb\n", b"x{\n}y\n{\n}\n", b"{\n{\n}\n}\n", b"{ \n\t\n}\n" * 3,
                 # bytes that are not UTF-8, and non-ASCII white space between braces (the collapse is on BYTES)
                 b"a\xff\n{\n}\nb\n", b"caf\xe9 {\n\n}\n\xc2\x85x\n", b"{\xc2\x85}\n{\xc2\xa0}\n{\n}\n",
                 b"{\xe2\x80\xa8}\n\xfe{\x0b\x0c}\n"):
        for atom in ("line", "char", "symbol"):
            for cfg in cfgs[:3]:
                runs = ex.dfs("minimize-collapse-brace", cfg, None, file0=data, atom=atom, load=True,
                              stream="dfs-collapse", max_runs=40 if quick else 400)
                n = tc_len(runs[0].loaded)
                k = ("minimize-collapse-brace/" + atom, n)
                worst[k] = max(worst.get(k, 0), max(x.tests for x in runs))
    for n in (20, 60):
        data = b"".join(r.choice([b"{\n", b"}\n", b"\n", b" \n", b"x\n"]) for _ in range(n))
        for v in ("Y" * 20000, "Y" + "NY" * 10000, "Y"):
            ex.one("minimize-collapse-brace", {}, None, data, v, atom="line", load=True, stream="long-collapse",
                   cap=c09_bound(n) + 1)
    # rewriting strategies: bound (B+2)^2 on B bytes of reducible text, cap enforced by the test
    corpus = [b"function foo(a) {}\nfoo(function foo(x){})\n", b"function foo(a) {}\nfoo(3)\n",
              b"x.y.z = 1;\nq.y.z = 2;\nx.y.w();\n", b"function f(a,b) {\n return a.c + b.c;\n}\nf(1, 2);\nf(3);\n",
              b"(function (a, b) { return a; })(1, 2)\n", b"g = function(q) {};\ng(g(1));\n",
              b"a.b.c.d.e = a.b.c;\n" * 3,
              # definition and call on ONE line; immediately-invoked functions behind other text on their line, two on a
              # line, nested; the parameter text occurring elsewhere on the line
              b"function f(a){}f(1)\n", b"var r = (function(a){\nreturn a;\n})(1);\n", b"(function(a){})(1);(function(b){})(2)\n",
              b"(function(a){ (function(b){\n})(2)\n})(1)\n", b"var q = 1; (function(q){})(q)\n", b"g(1);function g(b){}\n",
              b"var x;function f(a){}f(1)\n", b"fa(1);var x;function f(a){}\n", b"var a;function f(a){};f(f(1))\n"]
    import re as _re0

    def first_occurrence_elsewhere(seen):
        """the call site of the second known finding: `parts[def_chunk].replace(args_pattern, b"", 1)` removes the FIRST
        occurrence of the parameter text on the definition line; true when, in some file of the run, that first
        occurrence lies before the parameter list of a named function definition"""
        for _, d, _a in seen:
            for ln in d.splitlines(keepends=True):
                for mm in _re0.finditer(rb"(?:function\s+(\w+)|(\w+)\s*=\s*function)\s*\((\s*\w+\s*(?:,\s*\w+\s*)*)\)", ln):
                    if 0 <= ln.find(mm.group(3)) < mm.start(3):
                        return True
        return False
    for data in corpus:
        parts = data.splitlines(keepends=True)
        tc = (b"", parts, [True] * len(parts), b"")
        B = len(data)
        for strategy in ("replace-properties-by-globals", "replace-arguments-by-globals"):
            for cfg in ({}, {"repeat": "always"}, {"repeat": "never"}):
                for v in ("Y" * 100000, "Y", "Y" + "NY" * 50000, "Y" + "YN" * 50000, "YYN" * 30000):
                    bound = (B + 2) ** 2
                    run1 = ex.one(strategy, cfg, tc, data, v, stream="rewriters", replay=True,
                                  cap=min(bound, 400) + 1, model=False)
                    ck.nontrivial((strategy, data, v[:3], tuple(cfg.items())))
                    if run1.exc == "CapHit" or run1.tests > bound or run1.exc not in (None,):
                        grew = any(len(d2) > len(d1) for (_, d1, a1), (_, d2, _) in zip(run1.seen, run1.seen[1:]))
                        # the known finding is THIS input under an always-yes test with a repeating mode; any other
                        # non-terminating input / verdict sequence is a new violation
                        key = "replace-arguments-unbounded" if (
                            strategy == "replace-arguments-by-globals" and run1.exc == "CapHit" and grew
                            and data == b"function foo(a) {}\nfoo(function foo(x){})\n" and set(v) == {"Y"}
                            and cfg.get("repeat", "last") != "never") else None
                        if key is None and (strategy == "replace-arguments-by-globals" and run1.exc == "CapHit" and grew
                                            and cfg.get("repeat", "last") != "never" and first_occurrence_elsewhere(run1.seen)):
                            key = "replace-arguments-first-occurrence"
                        ck.violation(f"{strategy} on {data!r} with verdicts {v[:6]}...: {run1.tests} tests "
                                     f"(cap {min(bound, 400)}, bound (B+2)^2 = {bound}), exc={run1.exc}, last file "
                                     f"{len(run1.seen[-1][1])} bytes vs original {B}",
                                     {"strategy": strategy, "data": data.hex(), "cfg": cfg, "verdicts": v[:10],
                                      "tests": run1.tests, "exc": run1.exc}, key=key)
    # replace-properties-by-globals against its CONCRETE model (Model/ReplaceProps.v): complete traces, DFS over
    # verdict sequences, every option that reaches the strategy, all splitters (non-reducible parts), stale work
    # items (a word that an earlier accepted substitution removed), repeated words in one line
    quick = ck.tier == "quick"
    pcorpus = [b"x.y.z = 1;\nq.y.z = 2;\nx.y.w();\n", b"q.c\na.b.c\n", b"a.b.b\nz\na.b a.b\n", b"a..b\n.c\nd.\n1.5e.f\n",
               b"this.list = [];\nFoo.prototype.push = function(a) {\nthis.list.push(a);\n}\n", b"a.b\n" * 5,
               b"caf\xc3\xa9.x.y\n\xff.z\nw_1.k_2.k_2\n", b"a.wordy a.word\nb.word.word.x\n"]
    for data in pcorpus:
        parts = data.splitlines(keepends=True)
        tc = (b"", parts, [True] * len(parts), b"")
        for cfg in ({}, {"repeat": "always"}, {"repeat": "never"}, {"max": 1}, {"min": 2}, {"min": 2, "max": 2, "repeat": "never"}):
            runs = ex.dfs("replace-properties-by-globals", cfg, tc, stream="replace-properties-concrete",
                          max_runs=60 if quick else 600, cap=(len(data) + 2) ** 2 + 1)
            for x in runs:
                if x.tests > (len(data) + 2) ** 2 or x.exc not in (None,):
                    ck.violation(f"replace-properties-by-globals on {data!r}: {x.tests} tests (bound {(len(data) + 2) ** 2}), "
                                 f"exc={x.exc}", {"strategy": "replace-properties-by-globals", "data": data.hex(), "cfg": cfg})
    for atom, data in (("jsstr", b"x = 'a.b' + \"c.d.e\";\n"), ("attrs", b'<a href="x.y.z" id=p.q>\n<b c=d.e>'),
                       ("symbol", b"a.b;c.d{e.f}\n"), ("line", b"h.h\nDDBEGIN\na.b.c\nd.b\nDDEND\nt.t\n"), ("char", b"a.b")):
        ex.dfs("replace-properties-by-globals", {}, None, file0=data, atom=atom, load=True, stream="replace-properties-concrete",
               max_runs=60 if quick else 600, cap=400)
    # the two regular expressions of the pass as byte scanners (props_of, sub_word) against CPython's re
    import re as _re
    from common import hx, run_model
    rr = rng("c09-regex")
    alpha = b"ab._ ;(.a.b9_\xff\xc3\xa9-\n"
    rcases, rwant = [], []
    for i in range(4000 if quick else 60000):
        sline = bytes(rr.choice(alpha) for _ in range(rr.randint(0, 14)))
        if i % 2 == 0:
            rcases.append("propsof " + hx(sline))
            rwant.append("ok " + ",".join(hx(mm.group(1)) for mm in _re.finditer(rb"(?<=[\w\d_])\.(\w+)", sline)))
        else:
            w = bytes(rr.choice(b"ab_9") for _ in range(rr.randint(1, 3)))
            rcases.append("subword " + hx(w) + " " + hx(sline))
            rwant.append("ok " + hx(_re.sub(rb"[\w_.]+\." + w, w, sline)))
        ck.count("regex-scanner")
    for c, m, w in zip(rcases, run_model(rcases), rwant):
        if m.strip() != w.strip():
            ck.mismatch("regex-scanner", c, m, w)
    from scale import many_chunks_rounds
    many_chunks_rounds(ck, c09_bound)
    ck.cov["worst_case_tests"] = {f"{k[0]}/n={k[1]}": {"tests": v, "bound": c09_bound(k[1])}
                                  for k, v in worst.items()}
