"""C13 - pair strategies stop only at their own fixpoint."""
from common import Check, rng
from explore import Explorer, content, make_oracle_c13, small_layouts, table_f

RULE = ("tie X on complete traces of minimize-around / minimize-balanced (concrete Coq models) + "
        "fixpoint oracle: exhaustive DFS over verdict sequences (each consistent sequence is a "
        "deterministic test; contents never asked count as accepted by some test): around for every "
        "layout up to N atoms, balanced for every arrangement of bracket-bearing atoms "
        "{x, {, }, (, ), [, }}, {(, )}} up to M atoms; sampled bracket-structured programs of 6-40 "
        "atoms with deterministic non-monotone oracles. non-trivial = more than one test; "
        "distinct = distinct (strategy, options, input, verdicts)")

BR = [b"x\n", b"{\n", b"}\n", b"(\n", b")\n", b"[\n", b"}}\n", b"{(\n", b")}\n"]


def run(ck: Check):
    quick = ck.tier == "quick"
    ex = Explorer(ck, oracles=[make_oracle_c13(table_f)])
    for tc in small_layouts(5 if quick else 6, alphabet=(b"a\n",), with_nonred=False):
        for cfg in ({}, {"repeat": "always"}, {"max": 1}):
            ex.dfs("minimize-around", cfg, tc, stream="around", max_runs=600 if quick else 5000)
    for tc in small_layouts(4 if quick else 5, alphabet=(b"a\n", b"b\n"), with_nonred=False):
        if len(tc[1]) >= 3:
            ex.dfs("minimize-around", {}, tc, stream="around2", max_runs=150 if quick else 1500)
    for tc in small_layouts(3 if quick else 4, alphabet=BR[: (6 if quick else 9)], with_nonred=False):
        if len(tc[1]) >= 2:
            for cfg in ({}, {"repeat": "always"}):
                ex.dfs("minimize-balanced", cfg, tc, stream="balanced", max_runs=60 if quick else 400)
    # a time limit that never passes (scripted clock stands still, limit 10^6 s) changes nothing: the fixpoint is
    # still reached
    for strategy in ("minimize-around", "minimize-balanced"):
        for tc in small_layouts(4 if quick else 5, alphabet=BR[:4], with_nonred=False):
            if len(tc[1]) >= 3:
                ex.dfs(strategy, {"limit": 1000000}, tc, stream="far-deadline", max_runs=25 if quick else 200,
                       clock=[1700000000] * 50)
    # bytes that are not UTF-8 (Latin-1 text, one half of a multi-byte character per atom): no effect on the search
    NONUTF = [b"caf\xe9\n", b"(\xff\n", b")\n", b"\xc3\n", b"\xa9{\n", b"}\n", b"x\n"]
    for tc in small_layouts(3 if quick else 4, alphabet=NONUTF[: (5 if quick else 7)], with_nonred=False):
        if len(tc[1]) >= 3 and any(p[0] > 127 or p[-2] > 127 for p in tc[1] if len(p) > 1):
            for st_ in ("minimize-around", "minimize-balanced"):
                ex.dfs(st_, {}, tc, stream="non-utf8", max_runs=12 if quick else 100)
    for data in (b"\xe9(K)", "é(K)x".encode(), b"\xff" * 30 + b"(\n" + b"k\n)\n"):
        for st_ in ("minimize-around", "minimize-balanced"):
            ex.dfs(st_, {}, None, file0=data, atom="char", load=True, stream="non-utf8-char", max_runs=40 if quick else 400)
    # the experimental move does not change what "done" means (C13 makes no exception for it): runs that finish
    # normally end at the same fixpoint
    for tc in small_layouts(4 if quick else 5, alphabet=BR[:5], with_nonred=False):
        if len(tc[1]) >= 3:
            for cfg in ({"move": True}, {"move": True, "repeat": "always"}):
                ex.dfs("minimize-balanced", cfg, tc, stream="balanced-move", max_runs=25 if quick else 250)
    for parts in ([b"a\n", b"b\n", b"c\n", b"d\n"], [b"{\n", b"a\n", b"b\n", b"}\n", b"c\n"]):
        tc = (b"", parts, [True] * len(parts), b"")
        for cfg in ({"move": True}, {"move": True, "repeat": "always"}):
            ex.dfs("minimize-balanced", cfg, tc, stream="balanced-move", max_runs=300 if quick else 3000)
    # atoms that close one kind of bracket and open another (per-kind balances cancel numerically)
    MIX = [b"x\n", b")[\n", b"](\n", b"){\n", b"}(\n", b"(\n", b"]\n"]
    for tc in small_layouts(3 if quick else 4, alphabet=MIX[: (5 if quick else 7)], with_nonred=False):
        if len(tc[1]) >= 2 and any(len(p) > 2 for p in tc[1]):
            ex.dfs("minimize-balanced", {}, tc, stream="balanced-mixed", max_runs=40 if quick else 300)
    for parts in ([b"keep\n", b"2), [\n", b"3], (\n"], [b"(\n", b") {\n", b"} [\n", b"]\n", b"o\n"],
                  [b"f(\n", b"), [\n", b"], {\n", b"}\n"]):
        tc = (b"", parts, [True] * len(parts), b"")
        for cfg in ({}, {"repeat": "always"}):
            ex.dfs("minimize-balanced", cfg, tc, stream="balanced-mixed", max_runs=200 if quick else 2000)
    # brackets in every lexical position - behind a backslash, inside string literals, regular expressions, comments,
    # doubled: the strategies count BYTES, an atom's balance is what the property says it is whatever surrounds the byte
    CTX = [b"r = /\\(/\n", b"o\n", b")\n", b'"\\]"\n', b"[\n", b"// {\n", b"}\n", b"'('\n", b"\\\\(\n", b"\\{\\}\\{\n"]
    for tc in small_layouts(3 if quick else 4, alphabet=CTX[: (7 if quick else 10)], with_nonred=False):
        if len(tc[1]) >= 2 and any(b"\\" in p or b"/" in p or b"'" in p for p in tc[1]):
            ex.dfs("minimize-balanced", {}, tc, stream="balanced-lexical-context", max_runs=25 if quick else 250)
    for parts in ([b"r = /\\(/\n", b"o\n", b")\n"], [b"s = \"\\[\";\n", b"o\n", b"x\n", b"]\n"], [b"// {\n", b"o\n", b"}\n", b"\\}\n"]):
        tc = (b"", parts, [True] * len(parts), b"")
        for cfg in ({}, {"repeat": "always"}, {"move": True}):
            ex.dfs("minimize-balanced", cfg, tc, stream="balanced-lexical-context", max_runs=200 if quick else 2000)
    # atoms whose CRC-32 / Adler-32 (and lengths) collide: candidates that differ only in them are different files - a
    # de-dupe key weaker than the content would skip one of them untested
    COLL = [b"plumless\n", b"buckeroo\n", b"keep\n", b"(\n", b")\n"]
    for tc in small_layouts(4 if quick else 5, alphabet=COLL[:3], with_nonred=False):
        if len(tc[1]) >= 3 and b"plumless\n" in tc[1] and b"buckeroo\n" in tc[1]:
            for st_ in ("minimize-around", "minimize-balanced"):
                ex.dfs(st_, {}, tc, stream="colliding-atoms", max_runs=40 if quick else 400)
    for parts in ([b"keep1\n", b"plumless\n", b"keep2\n", b"buckeroo\n"], [b"plumless\n", b"k\n", b"buckeroo\n", b"k\n", b"x\n"],
                  [b"(\n", b"plumless\n", b")\n", b"buckeroo\n"]):
        tc = (b"", parts, [True] * len(parts), b"")
        for st_ in ("minimize-around", "minimize-balanced"):
            for cfg in ({}, {"repeat": "always"}):
                ex.dfs(st_, cfg, tc, stream="colliding-atoms", max_runs=150 if quick else 1500)
    from universe import reuse_universe
    reuse_universe(ex, ck, strategies=("minimize-around", "minimize-balanced"))
    ex.diff()
    r = rng("c13")

    def fam_has(c):
        return b"o" in c and c.count(b"{") == c.count(b"}")

    def fam_len(c):
        return len(c) % 3 != 1 and b"o" in c

    for i in range(60 if quick else 600):
        k = r.randint(6, 40)
        parts = [r.choice([b"{\n", b"}\n", b"o\n", b"x\n", b"(\n", b")\n", b"if (a) {\n", b"} else {\n"]) for _ in range(k)]
        if b"o\n" not in parts:
            parts[r.randrange(k)] = b"o\n"
        tc = (b"", parts, [True] * k, b"")
        f = r.choice([fam_has, fam_len])
        if not f(content(tc)):
            continue
        st = r.choice(["minimize-around", "minimize-balanced"])
        ex2 = Explorer(ck, oracles=[make_oracle_c13(lambda ctx, run, f=f: f)])
        ex2.one(st, r.choice([{}, {"repeat": "always"}]), tc, content(tc),
                lambda kk, data, f=f: "Y" if f(data) else "N", stream="family")
        ex.lines, ex.impl, ex.meta = ex2.lines, ex2.impl, ex2.meta
        ex.diff()
    # duplicate atoms + random deterministic (content-hash) tests: de-duplicated candidates right after an
    # accepted removal
    import hashlib
    for i in range(400 if quick else 4000):
        k = r.randint(4, 8)
        parts = [r.choice([b"a\n", b"a\n", b"b\n"]) for _ in range(k)]
        tc = (b"", parts, [True] * k, b"")
        orig = content(tc)
        salt, pct = bytes([r.randrange(256)]), r.choice([30, 50, 70])

        def f(c, orig=orig, salt=salt, pct=pct):
            return c == orig or hashlib.sha256(salt + c).digest()[0] % 100 < pct
        st = r.choice(["minimize-around", "minimize-around", "minimize-balanced"])
        ex3 = Explorer(ck, oracles=[make_oracle_c13(lambda ctx, run, f=f: f)])
        ex3.one(st, r.choice([{}, {"repeat": "always"}]), tc, orig, lambda kk, data, f=f: "Y" if f(data) else "N",
                stream="dup-hash", model=(i % 10 == 0))
        if ex3.lines:
            ex.lines, ex.impl, ex.meta = ex3.lines, ex3.impl, ex3.meta
            ex.diff()
    # the SAME strategy object used for two consecutive runs on different files of the same atom count (a cache
    # keyed by anything but the contents would go stale)
    from runner import impl_session
    for i in range(60 if quick else 600):
        k = r.randint(3, 7)
        st = r.choice(["minimize-around", "minimize-balanced", "minimize-balanced"])
        steps = []
        for _ in range(2):
            parts = [r.choice(BR[:6]) for _ in range(k)]
            orig = b"".join(parts)
            salt, pct = bytes([r.randrange(256)]), r.choice([40, 70, 90])

            def f(c, orig=orig, salt=salt, pct=pct):
                return c == orig or hashlib.sha256(salt + c).digest()[0] % 100 < pct
            steps.append({"strategy": st, "cfg": {}, "atom": "line", "file0": orig, "f": f,
                          "verdict": lambda kk, data, f=f: "Y" if f(data) else "N"})
        runs = impl_session(steps)
        for step, run_ in zip(steps, runs):
            ck.count("session")
            ck.nontrivial(("session", st, step["file0"], i))
            ctx = {"strategy": st, "cfg": {}, "tc": run_.loaded, "file0": step["file0"], "verdicts": "",
                   "clock": [], "atom": "line", "exc_class": "TestRaised", "load": True,
                   "session": [s_["file0"].hex() for s_ in steps], "note": "same strategy object, two runs; "
                   "test = content hash, see seen[]"}
            run_.verd = "".join(a for _, _, a in run_.seen)
            make_oracle_c13(lambda ctx, run, f=step["f"]: f)(ck, ctx, run_)
    from boundaries import partner_at_distances
    partner_at_distances(ck, quick)
    return ck.finish(level="proof", rule=RULE, assumptions=[
        "reading of 'partner' fixed in DESIGN.md 4/C13: the running balance must not dip below zero"])
