"""C16 - JS-string and attribute atoms are exactly string characters / attributes."""
from common import Check, rng, run_model
from props.c08 import reference as marker_reference
from splitx import (ATTR_ALPHABET, JS_ALPHABET, impl_load, model_load_line, oracle_roundtrip,
                    strings_upto)

RULE = ("tie X on the full decomposition + independent references: a Python reference tokenizer for "
        "JS strings (quote search, token rule, unclosed quote = text) compared with the real class on "
        "the spans of reducible atoms, and a structural attribute grammar + inside-a-tag walk for "
        "attrs: EVERY string up to length L over {' \" \\ x u { } 0 a LF} / {< > = space LF a - : \" ' /}, "
        "seeded random strings assembled from string/tag fragments, the repository's own test "
        "inputs. non-trivial = at least one reducible atom; distinct = distinct (mode, string)")

HEX = b"0123456789abcdefABCDEF"


def tok(d, k):
    if d[k] != 0x5C or k + 1 >= len(d):
        return 1
    c = d[k + 1]
    if c == 0x75 and k + 6 <= len(d) and all(x in HEX for x in d[k + 2:k + 6]):
        return 6
    if c == 0x78 and k + 4 <= len(d) and all(x in HEX for x in d[k + 2:k + 4]):
        return 4
    if c == 0x75 and k + 2 < len(d) and d[k + 2] == 0x7B:
        j = k + 3
        while j < len(d) and d[j] in HEX:
            j += 1
        if j > k + 3 and j < len(d) and d[j] == 0x7D:
            return j + 1 - k
    return 2


def ref_js(region):
    spans, i, n = [], 0, len(region)
    while i < n:
        if region[i] not in b"'\"":
            i += 1
            continue
        q, k, toks, closed = region[i], i + 1, [], None
        while k < n:
            t = tok(region, k)
            if t == 1 and region[k] == q:
                closed = k
                break
            toks.append((k, k + t))
            k += t
        if closed is None:
            i += 1
        else:
            spans += toks
            i = closed + 1
    return spans


def impl_spans(t):
    pos, out = len(t.before), []
    for p, r in zip(t.parts, t.reducible):
        if r:
            out.append((pos, pos + len(p)))
        pos += len(p)
    return out


WS = b" \t\n\r\x0c\x0b"
ALPHA = bytes(range(65, 91)) + bytes(range(97, 123))
NAMECH = ALPHA + b"0123456789:-"


def attr_shape(p):
    k = 0
    while k < len(p) and p[k] in WS:
        k += 1
    if k >= len(p) or p[k] not in ALPHA:
        return False
    k += 1
    while k < len(p) and p[k] in NAMECH:
        k += 1
    if k == len(p):
        return True
    if p[k] != 0x3D:
        return False
    v = p[k + 1:]
    if not v:
        return True
    if v[0] in b"'\"":
        return len(v) >= 2 and v[-1] == v[0] and v[0] not in v[1:-1]
    return not any(c in WS or c == 0x3E for c in v)


def opens_tag(p):
    i = p.rfind(b"<")
    if i < 0:
        return False
    s = p[i + 1:]
    k = 0
    while k < len(s) and s[k] in WS:
        k += 1
    if k >= len(s) or s[k] not in ALPHA:
        return False
    return all(c in ALPHA + b"-" for c in s[k + 1:])


def attrs_walk(parts, red):
    in_tag = False
    for i, (p, r) in enumerate(zip(parts, red)):
        if r:
            if not in_tag:
                return f"reducible atom {i} {p!r} is not inside a tag"
            if not attr_shape(p):
                return f"reducible atom {i} {p!r} is not one complete attribute"
        elif in_tag:
            in_tag = not p.endswith(b">")
        else:
            in_tag = opens_tag(p)
    return None


REPO_CASES = [b"'xabcx'", b"'x'abcx'", b"'x\"abc\"x'", b"'\\u{123}\"\\x32\\u1234'", b"<a b=\"c\" d='e'>",
              b"<a b=\">\" c=\"d\"><e f=\"g\">", b"<a /garbage b=c>", b"<a\nb=1\nc=2>", b"<a xml:b=c>",
              b"<a-b c=\"d\">", b"<a b=>><c d>"]


def run(ck: Check):
    quick = ck.tier == "quick"
    r = rng("c16")
    cases, impl = [], []

    def one(atom, data, model=True):
        line, t, out = impl_load(atom, data)
        ck.count(atom)
        oracle_roundtrip(ck, atom, data, line, t, out)
        if t is None:
            if line != "err LithiumError":
                ck.violation(f"[{atom}] load raised {line} on {data!r}", {"atom": atom, "data": data.hex()})
            return
        if any(t.reducible):
            ck.nontrivial((atom, data))
        if atom == "jsstr":
            mref = marker_reference(data)
            if mref is not None:
                base = len(mref[0])
                want = [(base + a, base + b) for a, b in ref_js(mref[1])]
                got = impl_spans(t)
                if got != want:
                    ck.violation(f"[jsstr] reducible atoms {got} but the reference tokenizer gives {want} "
                                 f"for {data!r}", {"atom": atom, "data": data.hex(), "got": got, "want": want})
        else:
            err = attrs_walk(t.parts, t.reducible)
            if err:
                ck.violation(f"[attrs] {err}: {data!r} -> {t.parts!r} {t.reducible!r}",
                             {"atom": atom, "data": data.hex(), "parts": [p.hex() for p in t.parts],
                              "reducible": t.reducible})
        if model:       # big files: reference tokenizer / attribute walk only
            cases.append(model_load_line(atom, data))
            impl.append(line)

    for data in strings_upto(JS_ALPHABET, 5 if quick else 6):
        one("jsstr", data)
    for data in strings_upto(ATTR_ALPHABET, 4 if quick else 5):
        one("attrs", data)
    for data in strings_upto(ATTR_ALPHABET[:7], 6 if quick else 7, 5 if quick else 6):
        one("attrs", data)
    # upper-case look-alikes of the escape letters are ordinary characters (\\U0041 is a backslash pair and four
    # characters): every string up to a length over { " \\ U X u 0 { } }
    for data in strings_upto([b'"', b"\\", b"U", b"X", b"u", b"0", b"{", b"}"], 5 if quick else 7, 3):
        if b'"' in data and b"\\" in data:
            one("jsstr", b'"' + data + b'"')
    # bytes that would start a multi-byte UTF-8 character, inside strings right before the closing quote or an escape
    # (a Latin-1 file): each is one character of the string, the quote still closes it
    for data in strings_upto([b'"', b"\\", b"x", b"4", b"\xe9", b"\xc3", b"\xf0", b"a"], 4 if quick else 6, 1):
        if any(c in data for c in (b"\xe9", b"\xc3", b"\xf0")):
            one("jsstr", b's = "' + data + b'" + t;')
    jsfrag = [b"caf\xe9", b"\xc3", b"\xf0\x9f", b"\xe2\x80", b"\\U0041", b"\\X41", b"\\U{41}", b"\\N", b"U", b"X", b"'", b'"', b"\\", b"\\x41", b"\\u1234", b"\\u{1F600}", b"\\u{}", b"\\u{0000041}", b"\\u{000000000061}", b"\\xg", b"a", b"b;",
              b"\n", b"\\'", b'\\"', b"x = ", b"DDBEGIN\n", b"DDEND\n", b"\\u{12", b"\xff"]
    atfrag = [b"<a", b"<b-c", b"< d", b">", b" e", b" f=", b"g", b'"h i"', b"'j'", b"=", b" ", b"\n",
              b"/", b"k:l", b'"', b"'", b"<", b"x>y", b"DDBEGIN\n", b"DDEND\n", b"\t", b"\r"]
    from boundaries import mined_texts
    jsfrag += mined_texts(24)       # texts a changed tree special-cases (nothing on the unchanged tree)
    atfrag += mined_texts(24)
    for _ in range(1500 if quick else 20000):
        n = r.randint(3, 40)
        one("jsstr", b"".join(r.choice(jsfrag) for _ in range(n)))
        one("attrs", b"".join(r.choice(atfrag) for _ in range(n)))
    for data in REPO_CASES:
        one("jsstr", data)
        one("attrs", data)
    # one fragment repeated k times for every k up to a few hundred (give-up limits, windows)
    from props.c06 import reload_same_object, repetition_sweeps
    for atom, data in repetition_sweeps(quick):
        if atom in ("jsstr", "attrs"):
            one(atom, data, model=False)
    # the same object loading a second file (a library user, a second pass) splits it like a fresh object
    reload_same_object(ck)
    # files of 64 KiB and more (fast paths, windows): no backslash anywhere, quoted spans crossing line breaks,
    # apostrophes in comments; and one with escapes
    unit = b"var s = 'it is a string' + \"and 'another'\";\n// don't\nx = 'multi\nline' + \"q\";\n"
    for big in (unit * 900, unit * 1100 + b"t = 'a\\'b' + \"c\\\\\";\n", b"<a b='1' c=\"2\">\n" * 5000):
        for atom in ("jsstr", "attrs"):
            one(atom, big, model=False)
    from runner import impl_run
    for atom, data in (("attrs", b't.f();\n<a onclick="q.f()" id=k>x</a>\n<b c="d.e.f" g=h.i>\n'),
                       ("jsstr", b"q.r = 'a.b.c' + f(\"d.e\", 'x');\nfunction f(a, b) { return a.c; }\nf('1', \"2\");\n")):
        for strategy in ("replace-properties-by-globals", "replace-arguments-by-globals", "minimize", "minimize-around",
                         "minimize-balanced", "minimize-collapse-brace"):
            for v in ("Y" * 60, "Y" + "NY" * 30, "YN" + "Y" * 50):
                run_ = impl_run(strategy, {}, None, data, v, atom=atom, load=True, cap=200)
                ck.count("run-keeps-protected")
                ck.nontrivial(("run-keeps-protected", atom, strategy, v[:3]))
                if run_.exc not in (None,) or run_.last is None:
                    continue
                fixed0 = [p for p, f in zip(run_.loaded[1], run_.loaded[2]) if not f]
                fixed1 = [p for p, f in zip(run_.last[1], run_.last[2]) if not f]
                if fixed1 != fixed0 or run_.last[0] != run_.loaded[0] or run_.last[3] != run_.loaded[3]:
                    ck.violation(f"[{atom}] after {strategy} (verdicts {v[:6]}..) the protected parts of the testcase are {fixed1!r}, "
                                 f"they were {fixed0!r}: text that is not an atom was rewritten or made reducible",
                                 {"atom": atom, "strategy": strategy, "data": data.hex(), "verdicts": v})
    from envmatrix import run_matrix
    run_matrix(ck, ("C16",))
    model = run_model(cases, shards=16)
    from coqlit import xcheck
    xcheck(ck, cases, model)
    for c, m, i in zip(cases, model, impl):
        if m != i:
            ck.mismatch(c.split()[1], c, m, i)
    ck.sample({"case": cases[len(cases) // 2], "impl": impl[len(cases) // 2]})
    return ck.finish(level="proof", rule=RULE, extra={"exhaustive": True}, assumptions=[
        "CPython's re semantics for the five patterns is modelled by hand-readable scanners "
        "(SplitJs.v, SplitAttrs.v), pinned to the pattern texts by GenEq and validated by this "
        "exhaustive comparison"])
