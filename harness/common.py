"""Shared plumbing for the per-property checks: build status, proof status, model driver,
evidence, known findings, verdict.  Stdlib only; run with /venv/bin/python."""
import hashlib
import json
import os
import random
import re
import subprocess
import sys
import time

VERIF = os.path.dirname(os.path.dirname(os.path.abspath(__file__)))
REPO = os.environ.get("VERIF_REPO", "/repo")
COQ = os.path.join(VERIF, "coq")
DRIVER = os.path.join(COQ, "Extract", "driver")
QFLAGS = []
for d in ("Lib", "Gen", "Model", "Proofs", "GenEq", "Props"):
    QFLAGS += ["-Q", d, "Lithium"]

TRUSTED_BASE = [
    "Coq 8.16.1 kernel (coqc); vm_compute used in Examples / *_refuted witnesses; no native_compute",
    "axioms: none (every Print Assumptions under Props/ must say 'Closed under the global context')",
    "tools/translate.py + tools/gen_tables.py (Python ast -> Gallina, fail-closed) and CPython's ast module",
    "extraction: ExtrOcamlBasic only (bool/option/list/prod/unit/sumbool -> OCaml's); no Extract Constant; "
    "N/Z/positive/nat stay extracted inductives; coq/Extract/driver.ml (case-file parser/printer); ocamlfind ocamlopt",
    "correspondence harness under harness/ (generators, scripted test, trace recording, canonicalisation, diff)",
]


def seed():
    try:
        return int(os.environ.get("VERIF_SEED", "0"))
    except ValueError:
        return 0


def rng(tag):
    h = hashlib.sha256(f"{seed()}:{tag}".encode()).digest()
    return random.Random(int.from_bytes(h[:8], "big"))


# ----------------------------------------------------------------- encodings
def hx(b):
    return b.hex() if b else "."


def unhx(s):
    return b"" if s == "." else bytes.fromhex(s)


def enc_parts(parts):
    return ",".join(hx(p) for p in parts) if parts else "-"


def dec_parts(s):
    return [] if s == "-" else [unhx(x) for x in s.split(",")]


def enc_bools(bs):
    return "".join("T" if b else "F" for b in bs) if bs else "-"


def dec_bools(s):
    return [] if s == "-" else [c == "T" for c in s]


def enc_opt(x):
    return "N" if x is None else str(x)


def enc_ints(xs):
    return ",".join(str(x) for x in xs) if xs else "-"


# ----------------------------------------------------------------- build / proofs
def build():
    """Run tools/build.sh (translate + make + extraction). Returns status dict."""
    t0 = time.time()
    subprocess.run([os.path.join(VERIF, "tools", "build.sh")], check=False,
                   env={**os.environ, "VERIF_REPO": REPO})
    st = {}
    for k in ("translate", "make", "extract"):
        try:
            st[k] = int(open(os.path.join(VERIF, "build", k + ".status")).read().strip())
        except (OSError, ValueError):
            st[k] = None
    st["wall_s"] = round(time.time() - t0, 2)
    return st


def vo_ok(target):
    """True iff coq/<target>.vo and everything it depends on is built and up to date."""
    r = subprocess.run(["make", "-q", target + ".vo"], cwd=COQ, stdout=subprocess.DEVNULL,
                       stderr=subprocess.DEVNULL, check=False)
    return r.returncode == 0 and os.path.exists(os.path.join(COQ, target + ".vo"))


def deps_of(target):
    """Transitive .v dependencies (inside coq/) of coq/<target>.v, from .Makefile.d."""
    dfile = os.path.join(COQ, ".Makefile.d")
    graph = {}
    try:
        txt = open(dfile).read().replace("\\\n", " ")
    except OSError:
        return [target + ".v"]
    for line in txt.splitlines():
        if ":" not in line:
            continue
        lhs, rhs = line.split(":", 1)
        outs = [x for x in lhs.split() if x.endswith(".vo")]
        ins = [x[:-1] for x in rhs.split() if x.endswith(".vo") and not x.startswith("/")]
        for o in outs:
            graph[o[:-1]] = ins
    seen, todo = [], [target + ".v"]
    while todo:
        x = todo.pop()
        if x in seen:
            continue
        seen.append(x)
        todo += graph.get(x, [])
    return sorted(seen)


STMT = re.compile(r"^\s*(Theorem|Lemma|Corollary|Example|Fact|Proposition|Remark)\s+([A-Za-z0-9_']+)",
                  re.M)
FORBIDDEN = re.compile(r"\b(Admitted|admit|Axiom|Axioms|Parameter|Parameters|Conjecture|Hypothesis|"
                       r"Variable|Variables|Hypotheses|bypass_check)\b|Unset\s+Guard|"
                       r"Admit\s+Obligations|-type-in-type|-impredicative-set")


def strip_comments(src):
    out, depth, i = [], 0, 0
    while i < len(src):
        if src.startswith("(*", i):
            depth += 1
            i += 2
        elif src.startswith("*)", i) and depth:
            depth -= 1
            i += 2
        else:
            if not depth:
                out.append(src[i])
            i += 1
    return "".join(out)


# tie T: which GenEq files (regenerated definitions = model) each property relies on
# the driver properties are proved for EVERY strategy that talks to the driver through values (no aliasing of the
# testcase objects it has handed over): that assumption is about the strategies' code, so their source pins belong to the tie
_DRV = ["GenEq/GenEqSrcDriver", "GenEq/GenEqStrat", "GenEq/GenEqSrcRewriters", "GenEq/GenEqSplit", "GenEq/GenEqSrcSplit",
        "GenEq/GenEqSrcMinimize", "GenEq/GenEqSrcPairs", "GenEq/GenEqSrcCollapse"]
_MIN = ["GenEq/GenEqTestcase", "GenEq/GenEqUtil", "GenEq/GenEqStrat", "GenEq/GenEqSplit",
        "GenEq/GenEqSrcMinimize"] + _DRV
_SPL = ["GenEq/GenEqSplit", "GenEq/GenEqSrcSplit"]
TIES = {
    "C01": _DRV, "C02": _DRV, "C11": _DRV, "C12": _DRV,
    "C03": _MIN, "C10": _MIN, "C14": _MIN + ["GenEq/GenEqSrcCli", "GenEq/GenEqSrcPairs"],
    "C04": _MIN + ["GenEq/GenEqSrcPairs"],
    "C09": _MIN + ["GenEq/GenEqSrcPairs", "GenEq/GenEqSrcCollapse"],
    "C13": ["GenEq/GenEqTestcase", "GenEq/GenEqUtil", "GenEq/GenEqStrat", "GenEq/GenEqSplit",
            "GenEq/GenEqSrcPairs"] + _DRV,
    "C05": _SPL + ["GenEq/GenEqStrat", "GenEq/GenEqSrcCollapse", "GenEq/GenEqSrcMinimize", "GenEq/GenEqSrcPairs"] + _DRV,
    "C06": _SPL, "C08": _SPL, "C16": _SPL,
    "C15": _SPL + ["GenEq/GenEqSrcCollapse"],
    "C07": ["GenEq/GenEqTestcase", "GenEq/GenEqUtil", "GenEq/GenEqSplit"],
    "C17": ["GenEq/GenEqSrcCli", "GenEq/GenEqStrat"],
    "C18": ["GenEq/GenEqStatus", "GenEq/GenEqSrcRun"],
    "C19": ["GenEq/GenEqSrcInterest", "GenEq/GenEqSrcRun", "GenEq/GenEqStatus"],      # outputs / diff_test judge what timed_run captured
    "C20": ["GenEq/GenEqTemp", "GenEq/GenEqSrcDriver", "GenEq/GenEqSrcCli"],
}


def proof_status(pid, tier="quick"):
    """Re-check Props/<pid>.v: built, closed under the global context, no forbidden
    vernacular in its dependency closure; plus the GenEq files of TIES.  Returns dict."""
    target = f"Props/{pid}"
    res = {"target": target + ".v", "built": False, "closed": False, "axioms": [],
           "obligations": 0, "discharged": 0, "theorems": [], "files": [], "forbidden": [],
           "broken": []}
    files = deps_of(target)
    for tie in TIES.get(pid, []):
        for f in deps_of(tie):
            if f not in files:
                files.append(f)
    res["files"] = files
    names = []
    for f in files:
        p = os.path.join(COQ, f)
        if not os.path.exists(p):
            res["broken"].append(f + " (missing)")
            continue
        src = strip_comments(open(p).read())
        for m in FORBIDDEN.finditer(src):
            w = m.group(0)
            if w in ("Variable", "Variables", "Hypothesis", "Hypotheses"):
                # allowed inside a Section only: replay Section/End nesting up to this point
                stack = []
                for mm in re.finditer(r"^\s*(Section|Module|End)\s+([A-Za-z0-9_']+)", src[:m.start()], re.M):
                    if mm.group(1) == "End":
                        if stack:
                            stack.pop()
                    else:
                        stack.append(mm.group(1))
                if "Section" in stack:
                    continue
            res["forbidden"].append(f"{f}: {w}")
        stm = STMT.findall(src)
        names += [(f, n) for _, n in stm]
        if not f.startswith(("Lib/", "Model/", "Gen/")) or stm:
            pass
        if not vo_ok(f[:-2]):
            res["broken"].append(f)
    res["obligations"] = len(names)
    broken_files = set(b.split(" ")[0] for b in res["broken"])
    res["discharged"] = sum(1 for f, _ in names if f not in broken_files)
    res["theorems"] = [n for f, n in names if f == target + ".v"]
    res["built"] = vo_ok(target) and all(vo_ok(t) for t in TIES.get(pid, []))
    if vo_ok(target):
        r = subprocess.run(["coqc"] + QFLAGS + [target + ".v"], cwd=COQ, capture_output=True,
                           text=True, timeout=900, check=False)
        out = r.stdout
        res["closed_count"] = out.count("Closed under the global context")
        ax = re.findall(r"^Axioms:\n((?:.+\n)+?)(?=\S|\Z)", out, re.M)
        for blk in re.split(r"\n(?=Axioms:)", out):
            if blk.startswith("Axioms:") or "\nAxioms:" in blk:
                for line in blk.split("Axioms:", 1)[1].splitlines():
                    mm = re.match(r"^([A-Za-z_][\w.']*)\s*:", line)
                    if mm:
                        res["axioms"].append(mm.group(1))
        res["axioms"] = sorted(set(res["axioms"]))
        res["closed"] = (r.returncode == 0 and not res["axioms"] and res["closed_count"] > 0)
    if res["built"] and (tier == "thorough" or os.environ.get("VERIF_COQCHK")):
        # independent re-check of the compiled files and everything they depend on
        try:
            r = subprocess.run(["coqchk", "-silent", "-o"] + QFLAGS + [f"Lithium.{pid}"], cwd=COQ,
                               capture_output=True, text=True, timeout=3000, check=False)
            out = r.stdout + r.stderr
            m = re.search(r"\* Axioms:\s*(.*?)\n\s*\n", out, re.S)
            axioms = (m.group(1).strip() if m else "?")
            res["coqchk"] = {"rc": r.returncode, "axioms": axioms,
                             "type_in_type": "type-in-type: <none>" in out,
                             "positivity": "positivity is assumed: <none>" in out}
            if r.returncode != 0 or axioms != "<none>" or not res["coqchk"]["type_in_type"] \
                    or not res["coqchk"]["positivity"]:
                res["broken"].append("coqchk: " + (axioms if r.returncode == 0 else out[-200:]))
        except subprocess.TimeoutExpired:
            res["coqchk"] = {"rc": "timeout"}
    res["ok"] = bool(res["built"] and res["closed"] and not res["forbidden"]
                     and not res["broken"])
    return res


# ----------------------------------------------------------------- model driver
def run_model(lines, shards=8):
    """Feed case lines to the extracted model; returns the list of result lines."""
    if not os.path.exists(DRIVER):
        raise RuntimeError("model driver not built (see build/extract.log)")
    if not lines:
        return []
    n = max(1, min(shards, len(lines) // 2000 + 1))
    chunks = [lines[i::n] for i in range(n)]
    procs = []
    for ch in chunks:
        p = subprocess.Popen(["bash", "-c", f"ulimit -s unlimited 2>/dev/null; exec {DRIVER}"],
                             stdin=subprocess.PIPE, stdout=subprocess.PIPE, text=True)
        procs.append((p, ch))
    import threading
    outs = [None] * n

    def work(i, p, ch):
        o, _ = p.communicate("\n".join(ch) + "\n")
        outs[i] = o.split("\n")[:len(ch)]

    ths = [threading.Thread(target=work, args=(i, p, ch)) for i, (p, ch) in enumerate(procs)]
    for t in ths:
        t.start()
    for t in ths:
        t.join()
    res = [None] * len(lines)
    for i in range(n):
        o = outs[i]
        if len(o) < len(chunks[i]):
            o = o + ["crash driver-died"] * (len(chunks[i]) - len(o))
        res[i::n] = o
    return res


# ----------------------------------------------------------------- known findings
def known_findings():
    try:
        return json.load(open(os.path.join(VERIF, "known_findings.json")))
    except OSError:
        return {"known": [], "fixed": []}


class Check:
    """Collects what one check run found and turns it into evidence + exit status."""

    def __init__(self, pid, tier):
        self.pid, self.tier, self.t0 = pid, tier, time.time()
        self.violations = []   # dicts: {"what":…, "replay":{…}, "key":…}
        self.mismatches = []   # correspondence disagreements (model vs implementation)
        self.known_hits = {}
        self.cov = {"evaluations": 0, "distinct_nontrivial": 0, "samples": [], "streams": {}}
        self.distinct = set()
        self.notes = []
        self.proof = None
        self.buildst = None

    # coverage bookkeeping ------------------------------------------------
    def count(self, stream, n=1):
        self.cov["evaluations"] += n
        self.cov["streams"][stream] = self.cov["streams"].get(stream, 0) + n

    def nontrivial(self, key):
        self.distinct.add(hashlib.blake2b(repr(key).encode(), digest_size=8).digest())

    def sample(self, s, cap=6):
        if len(self.cov["samples"]) < cap:
            self.cov["samples"].append(s)

    def mismatch(self, stream, case, model, impl):
        self.mismatches.append({"stream": stream, "case": case, "model": model, "impl": impl})

    def violation(self, what, replay, key=None):
        """A concrete failing input on the IMPLEMENTATION (direct oracle)."""
        for kf in known_findings().get("known", []):
            if kf["property"] == self.pid and key is not None and kf["key"] == key:
                self.known_hits.setdefault(key, {"what": kf["what"], "n": 0, "example": replay})
                self.known_hits[key]["n"] += 1
                return
        self.violations.append({"what": what, "replay": replay, "key": key})

    # verdict -------------------------------------------------------------
    def finish(self, level="proof", rule="", assumptions=(), extra=None):
        os.makedirs(os.path.join(VERIF, "evidence", "replays"), exist_ok=True)
        rc = 0
        pr = self.proof or {}
        # code under test may have printed without a final newline (outputs.py's "[Found string in: ...] "): the verdict
        # lines below must START their line
        sys.stdout.flush()
        print()
        for key, h in self.known_hits.items():
            print(f"KNOWN-FINDING: property={self.pid} {h['what']} [{key}; {h['n']} hit(s) this run]")
        replay_path = None
        if self.violations:
            v = self.violations[0]
            tag = hashlib.sha256(json.dumps(v["replay"], sort_keys=True, default=str).encode()
                                 ).hexdigest()[:12]
            replay_path = os.path.join(VERIF, "evidence", "replays", f"{self.pid}-{tag}.json")
            json.dump({"property": self.pid, "kind": "failing-input", "what": v["what"],
                       "replay": v["replay"], "others": len(self.violations) - 1,
                       "proof": {k: pr.get(k) for k in ("built", "closed", "broken", "axioms")},
                       "mismatches": self.mismatches[:5]},
                      open(replay_path, "w"), indent=1, default=str)
            print(f"VIOLATION property={self.pid} replay={replay_path}")
            print(f"  {v['what']}")
            rc = 1
        else:
            broken = []
            if self.buildst and self.buildst.get("translate") not in (0,):
                broken.append("translator: tools/translate.py could not regenerate coq/Gen from the "
                              "source (see build/translate.log)")
            if self.proof is not None and not pr.get("ok"):
                if not pr.get("built"):
                    broken.append("proof: coq/%s does not build; broken files: %s" % (
                        pr.get("target"), ", ".join(pr.get("broken") or ["?"])))
                if pr.get("axioms"):
                    broken.append("proof: axioms in use: " + ", ".join(pr["axioms"]))
                if pr.get("forbidden"):
                    broken.append("proof: forbidden vernacular: " + ", ".join(pr["forbidden"]))
                if pr.get("built") and not pr.get("closed") and not pr.get("axioms"):
                    broken.append("proof: Print Assumptions output missing")
            if self.mismatches:
                streams = sorted(set(m["stream"] for m in self.mismatches))
                broken.append("correspondence: model and implementation disagree on %d case(s) in "
                              "stream(s) %s" % (len(self.mismatches), ", ".join(streams)))
            if broken:
                tag = hashlib.sha256(json.dumps(broken).encode()).hexdigest()[:12]
                replay_path = os.path.join(VERIF, "evidence", "replays", f"{self.pid}-{tag}.json")
                json.dump({"property": self.pid, "kind": "no-failing-input-found",
                           "no_longer_checks": broken, "theorems": pr.get("theorems"),
                           "mismatches": self.mismatches[:10]},
                          open(replay_path, "w"), indent=1, default=str)
                print(f"VIOLATION property={self.pid} replay={replay_path} no-failing-input-found")
                for b in broken:
                    print("  " + b)
                rc = 1
        self.cov["distinct_nontrivial"] = len(self.distinct)
        self.cov["rule"] = rule
        self.cov["obligations"] = pr.get("obligations", 0)
        self.cov["discharged"] = pr.get("discharged", 0)
        self.cov["checker_cmd"] = (f"tools/build.sh (coq_makefile + make: full .vo build) ; "
                                   f"coqc Props/{self.pid}.v (Print Assumptions)")
        self.cov["trusted_base"] = TRUSTED_BASE
        self.cov["theorems"] = pr.get("theorems", [])
        self.cov["proof_files"] = pr.get("files", [])
        self.cov["print_assumptions_closed"] = pr.get("closed_count", 0)
        self.cov["axioms"] = pr.get("axioms", [])
        if pr.get("coqchk"):
            self.cov["coqchk"] = pr["coqchk"]
        self.cov["correspondence_mismatches"] = len(self.mismatches)
        self.cov["known_finding_hits"] = {k: v["n"] for k, v in self.known_hits.items()}
        if extra:
            self.cov.update(extra)
        if not self.cov["samples"]:
            self.cov["samples"] = ["(no case explored)"]
        ev = {"property_id": self.pid, "tier": self.tier, "seed": seed(), "level": level,
              "coverage": self.cov, "assumptions": list(assumptions) + self.notes,
              "wall_s": round(time.time() - self.t0, 2),
              "violations": len(self.violations) + (1 if rc and not self.violations else 0)}
        path = os.path.join(VERIF, "evidence", f"{self.pid}.json")
        json.dump(ev, open(path, "w"), indent=1, default=str)
        print(f"{self.pid} [{self.tier}] rc={rc} evaluations={self.cov['evaluations']} "
              f"distinct_nontrivial={self.cov['distinct_nontrivial']} obligations="
              f"{self.cov['obligations']}/{self.cov['discharged']} mismatches={len(self.mismatches)} "
              f"wall={ev['wall_s']}s")
        return rc
