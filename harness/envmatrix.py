"""The same code under other interpreters and environments.  A property holds however Python is started: with
assertions compiled out (-O), with warnings raised as errors (-W error), under a locale whose encoding is not UTF-8
(LC_ALL=C with UTF-8 mode and locale coercion off), with lithium's logging at DEBUG.  Each configuration runs, in a
child interpreter, one compact scenario set with direct oracles (plain statements of the properties) and reports what
fails; the parent turns that into violations of the property it is checking.

The scenario set (CHILD below): every splitter on marker / plain files with every kind of line terminator -> the
decomposition is the file, one flag per atom, no empty atom, the marker lines are the protected text (C06, C08); a
minimize run per splitter under a scripted test -> every file the test sees and the final file keep the protected text
and are the original minus reducible atoms (C04, C05), the final file is the last accepted version (C01), the temp dir
logs the tests (C12); the same run aborted by RuntimeError / KeyboardInterrupt / SystemExit at test 3 -> file restored,
hooks ran once (C02); a rejected original -> nothing written (C11)."""
import json
import os
import subprocess
import sys

CHILD = r'''
import json, os, sys, tempfile, shutil, logging
sys.path.insert(0, SRC)
if os.environ.get("LV_DEBUG_LOG"):
    logging.basicConfig(level=logging.DEBUG, stream=open(os.devnull, "w"))
else:
    logging.disable(logging.CRITICAL)
import lithium.testcases as tcs
from lithium.reducer import Lithium
from lithium.strategies import Minimize
from lithium.util import LithiumError
out = []
sigs = {}
def rd(p_):
    with open(p_, "rb") as f_:
        return f_.read()
def wr(p_, b_):
    with open(p_, "wb") as f_:
        f_.write(b_)
ATOMS = {"line": "TestcaseLine", "char": "TestcaseChar", "symbol": "TestcaseSymbol", "jsstr": "TestcaseJsStr", "attrs": "TestcaseAttrs"}
FILES = [b"pre\n// DDBEGIN\nabc;\ndef = 'x' + \"y\";\n<a b=c d>\n// DDEND\npost\n",
         b"h\r\n// DDBEGIN\r\nl1\r\nl2\rl3\xc2\x85l4\xe2\x80\xa8l5\r\n// DDEND\r\nt\r",
         b"a\xc2\x85// DDBEGIN\xe2\x80\xa8keep\xe2\x80\xa9x\n// DDEND\xc2\x85tail",
         b"no markers at all; f('s', \"t\");\n<p q=\"r\" s>\ncaf\xe9 \xff\n",
         b'<div style="color: red; background: blue; margin: 0 auto" id=x data-long-attribute-name-here=1>some longer text here</div>\n'
         b"var message = 'a fairly long string literal, longer than any preview';\n"]

def lines_of(data):
    return [l.encode("utf-8", "surrogateescape") for l in data.decode("utf-8", "surrogateescape").splitlines(keepends=True)]

def marker_ref(data):
    ls = lines_of(data)
    bi = next((i for i, l in enumerate(ls) if b"DDBEGIN" in l), None)
    if bi is None:
        return b"", b""
    ei = next(i for i in range(bi + 1, len(ls)) if b"DDEND" in ls[i])
    return b"".join(ls[:bi + 1]), b"".join(ls[ei:])

def is_sub(parts, flags, before, after, data):
    # data == before + (parts with some reducible ones deleted) + after
    if not (data.startswith(before) and data.endswith(after) and len(data) >= len(before) + len(after)):
        return False
    body, i = data[len(before):len(data) - len(after)], 0
    for p, f in zip(parts, flags):
        if body.startswith(p, i):
            i += len(p)
        elif not f:
            return False
    return i == len(body)

class Script:
    def __init__(self, path, verdicts, exc=None):
        self.path, self.verdicts, self.exc, self.k, self.seen, self.hooks = path, verdicts, exc, 0, [], []
    def init(self, args): self.hooks.append("init")
    def cleanup(self, args): self.hooks.append("cleanup")
    def interesting(self, args, prefix):
        self.k += 1
        d = rd(self.path)
        a = self.verdicts[self.k - 1] if self.k <= len(self.verdicts) else "N"
        self.seen.append((d, a, prefix))
        if a == "R":
            raise self.exc("stop")
        return True if a == "Y" else None if self.k % 2 else False

work = tempfile.mkdtemp(prefix="lvE-")
try:
    for fi, data in enumerate(FILES):
        P, S = marker_ref(data)
        for atom, cls in ATOMS.items():
            path = os.path.join(work, "t%d%s.txt" % (fi, atom))
            wr(path, data)
            t = getattr(tcs, cls)()
            try:
                t.load(path)
            except Exception as e:
                out.append(["C06", "[%s] load of %r raised %s" % (atom, data, type(e).__name__)]); continue
            cat = t.before + b"".join(t.parts) + t.after
            if cat != data or len(t.parts) != len(t.reducible) or any(not p for p in t.parts):
                out.append(["C06", "[%s] %r: before+atoms+after %s the file, %d atoms / %d flags, empty atoms %d" % (
                    atom, data, "==" if cat == data else "!=", len(t.parts), len(t.reducible), sum(1 for p in t.parts if not p))])
            t.dump()
            if rd(path) != data:
                out.append(["C06", "[%s] load + dump changed %r into %r" % (atom, data, rd(path))])
            if not (t.before.startswith(P) and t.after.endswith(S)) or (atom in ("line", "symbol", "attrs") and (t.before != P or t.after != S)):
                out.append(["C08", "[%s] %r: protected prefix %r / suffix %r, the marker lines give %r / %r" % (atom, data, t.before, t.after, P, S)])
            loaded = (t.before, list(t.parts), list(t.reducible), t.after)
            sigs["%d/%s" % (fi, atom)] = [t.before.hex(), [p.hex() for p in t.parts], list(t.reducible), t.after.hex()]
            if not any(loaded[2]):
                continue            # nothing to reduce: no test is run at all (C11)
            for verdicts, exc in (("YNYNYYNY", None), ("YYNNYNNN", None), ("N", None), ("YYR", RuntimeError), ("YNR", KeyboardInterrupt), ("YYNR", SystemExit)):
                wr(path, data)
                tmp = os.path.join(work, "tmp%d%s%s" % (fi, atom, verdicts))
                os.mkdir(tmp)
                t = getattr(tcs, cls)(); t.load(path)
                l = Lithium(); l.strategy = Minimize(); l.testcase = t; l.temp_dir = __import__("pathlib").Path(tmp)
                sc = Script(path, verdicts, exc); l.condition_script = sc; l.condition_args = []
                ended = "ok"
                try:
                    rc = l.run()
                except BaseException as e:
                    ended, rc = type(e).__name__, None
                final = rd(path)
                acc = [d for d, a, _ in sc.seen if a == "Y"]
                want = acc[-1] if acc else data
                tag = "[%s] minimize, verdicts %s, file %r" % (atom, verdicts, data[:40])
                if exc is not None and not any(a == "R" for _, a, _ in sc.seen):
                    exc = None          # the run was over before the test that raises
                if exc is None and ended != "ok":
                    out.append(["C11", tag + ": the run ended with %s instead of a status" % ended]); continue
                if exc is not None and ended != exc.__name__:
                    out.append(["C02", tag + ": the test raised %s, the run ended with %s" % (exc.__name__, ended)])
                if final != want:
                    out.append(["C02" if exc else "C01", tag + ": the file holds %r, the last accepted version is %r (run ended: %s)" % (final, want, ended)])
                if sc.hooks != ["init", "cleanup"]:
                    out.append(["C02", tag + ": hooks ran %r" % sc.hooks])
                for d, a, _ in sc.seen + [(final, "final", None)]:
                    if not (d.startswith(P) and d.endswith(S)):
                        out.append(["C05", tag + ": %r lost the text outside the markers (%r ... %r)" % (d, P, S)]); break
                    if not is_sub(loaded[1], loaded[2], loaded[0], loaded[3], d):
                        out.append(["C04", tag + ": %r is not the original with reducible atoms deleted" % d]); break
                if verdicts == "N" and (final != data or len(sc.seen) != 1 or rc == 0):
                    out.append(["C11", tag + ": rejected original: file %r, %d tests, status %r" % (final, len(sc.seen), rc)])
                if exc is None:
                    names = sorted(os.listdir(tmp))
                    wantn = sorted(["original.txt"] + ["%d-%s.txt" % (i + 1, "interesting" if a == "Y" else "boring") for i, (_, a, _) in enumerate(sc.seen)])
                    if names != wantn or l.test_count != len(sc.seen) or any(
                            rd(os.path.join(tmp, "%d-%s.txt" % (i + 1, "interesting" if a == "Y" else "boring"))) != d
                            for i, (d, a, _) in enumerate(sc.seen) if names == wantn):
                        out.append(["C12", tag + ": temp dir %r, expected %r (count %d / %d)" % (names, wantn, l.test_count, len(sc.seen))])
finally:
    shutil.rmtree(work, ignore_errors=True)
print("LV-RESULT " + json.dumps([out, sigs]))
'''

CONFIGS = [("python -O", ["-O"], {}), ("python -OO", ["-OO"], {}), ("python -W error", ["-W", "error"], {}),
           ("LC_ALL=C, UTF-8 mode off", ["-X", "utf8=0"], {"LC_ALL": "C", "LANG": "C", "PYTHONUTF8": "0", "PYTHONCOERCECLOCALE": "0"}),
           ("lithium logging at DEBUG", [], {"LV_DEBUG_LOG": "1"}), ("python -X dev", ["-X", "dev"], {})]


_REF = {}


def _child(src, flags, env):
    code = "SRC = %r\n" % src + CHILD
    e = dict(os.environ)
    e.pop("PYTHONPATH", None)
    e.update(env)
    try:
        pr = subprocess.run(["timeout", "-s", "KILL", "240", sys.executable] + flags + ["-c", code], capture_output=True, env=e,
                            timeout=260, check=False)
        line = [l for l in pr.stdout.decode("utf-8", "replace").splitlines() if l.startswith("LV-RESULT ")]
        if line:
            return json.loads(line[-1][10:])
        return [[["*", "the scenario set did not run to its end: " + pr.stderr.decode("utf-8", "replace")[-300:]]], {}]
    except subprocess.TimeoutExpired:
        return [[["*", "the scenario set did not finish within 260 s"]], {}]


def run_matrix(ck, pids):
    """run every configuration; report the failures that belong to one of `pids` as violations.  The decomposition of
    every file by every splitter must also be the one the default interpreter computes (pids C04 C06 C08 C15 C16)"""
    src = os.path.join(os.environ.get("VERIF_REPO", "/repo"), "src")
    if src not in _REF:
        _REF[src] = _child(src, [], {})
    ref_out, ref_sigs = _REF[src]
    for name, flags, env in CONFIGS:
        res, sigs = _child(src, flags, env)
        ck.count("environment")
        ck.nontrivial(("environment", name))
        for pid, msg in res:
            if pid in pids or pid == "*":
                ck.violation(f"under {name}: {msg[:600]}", {"environment": name, "interpreter_flags": flags, "env": env, "what": msg})
                break
        if set(pids) & {"C04", "C06", "C08", "C15", "C16"} and ref_sigs:
            for key, sg in sigs.items():
                if ref_sigs.get(key) != sg:
                    rs = ref_sigs.get(key) or ["", [], [], ""]
                    diff = next((i for i, (a, b) in enumerate(zip(sg[1] + [None], rs[1] + [None])) if a != b or (sg[2] + [None])[i] != (rs[2] + [None])[i]), 0)
                    ck.violation(f"under {name}: file {key.split('/')[0]} split by the {key.split('/')[1]} splitter differs from the split under "
                                 f"the default interpreter from atom {diff} on: {[bytes.fromhex(x) for x in sg[1][diff:diff + 3]]!r} flags "
                                 f"{sg[2][diff:diff + 3]} vs {[bytes.fromhex(x) for x in rs[1][diff:diff + 3]]!r} flags {rs[2][diff:diff + 3]} "
                                 f"({len(sg[1])} atoms / {len(sg[2])} flags vs {len(rs[1])} / {len(rs[2])})",
                                 {"environment": name, "interpreter_flags": flags, "env": env, "file": key})
                    break
