"""Large inputs.  The extracted model is only used on small cases (it compares contents byte by byte); here the real
classes are run on inputs of the sizes at which buffers, batches, windows and fast paths start to matter - thousands of
parts, atoms and trailers of 64 KiB and more, regions above 1 MiB, runs of thousands of tests - and judged by direct
oracles (plain statements of the property in Python)."""
import os
import shutil
import tempfile

from common import rng
from runner import SCRATCH_ROOT

BIG = 1 << 16


def _mk(cls_name, before, parts, flags, after, path):
    import lithium.testcases as tcs
    t = getattr(tcs, cls_name)()
    t.before, t.parts, t.reducible, t.after = before, list(parts), list(flags), after
    t.filename, t.extension = path, ".txt"
    return t


def layouts():
    """(name, before, parts, flags, after): part counts around 4096 / 8192, many protected parts, huge atoms"""
    out = []
    for n in (4094, 4095, 4096, 4097, 8191, 8192, 12287):
        parts = [b"x%d\n" % i for i in range(n)]
        out.append((f"n={n}", b"B\n", parts, [True] * n, b"A\n"))
        out.append((f"n={n},no-after", b"", parts, [True] * n, b""))
    for n, step in ((20001, 5), (9001, 2), (16385, 3)):
        parts = [b"p%d " % i for i in range(n)]
        flags = [i % step != 0 for i in range(n)]
        out.append((f"n={n},protected-every-{step}", b"<", parts, flags, b">"))
    big1, big2 = b"L" * (BIG - 1) + b"\n", b"M" * 70000 + b"\n"
    out.append(("huge-atoms", b"h\n", [b"a\n", b"b\n", big1, b"c\n", big2, b"d\n"], [True] * 6, b"t\n"))
    out.append(("huge-after", b"h\n", [b"a\n", b"b\n", b"c\n"], [True, False, True], b"DDEND\n" + b"T" * 70000))
    out.append(("huge-before", b"H" * 200000, [b"a\n"] * 50, [True] * 50, b"t"))
    out.append(("exact-64k-atoms", b"", [bytes([65 + i % 26]) * (BIG - 1) + b"\n" for i in range(48)], [True] * 48, b""))
    return out


def big_dump_identity(ck):
    """dump() writes before + parts + after, whatever the sizes (C06; every property that looks at written files
    depends on it)"""
    work = tempfile.mkdtemp(prefix="lvS-", dir=SCRATCH_ROOT)
    try:
        path = os.path.join(work, "t.txt")
        for cls in ("TestcaseLine", "TestcaseAttrs"):
            for name, before, parts, flags, after in layouts():
                t = _mk(cls, before, parts, flags, after, path)
                want = before + b"".join(parts) + after
                for what, obj in (("dump", t), ("copy().dump", t.copy())):
                    if os.path.exists(path):
                        os.unlink(path)
                    try:
                        obj.dump()
                        got = open(path, "rb").read()
                    except Exception as e:  # pylint: disable=broad-except
                        got = b"<raised %s>" % type(e).__name__.encode()
                    ck.count("scale-dump")
                    ck.nontrivial(("scale-dump", cls, name, what))
                    if got != want:
                        i = next((k for k in range(min(len(got), len(want))) if got[k] != want[k]), min(len(got), len(want)))
                        ck.violation(f"[{cls}] {what}() of a testcase with {len(parts)} parts ({name}) wrote {len(got)} bytes, "
                                     f"expected {len(want)}; first difference at offset {i}: {got[i:i + 20]!r} vs {want[i:i + 20]!r}",
                                     {"class": cls, "layout": name, "parts": len(parts), "reducible": sum(flags),
                                      "what": what, "first_difference": i})
                        break
    finally:
        shutil.rmtree(work, ignore_errors=True)


def big_load_identity(ck):
    """load + dump on big files with every splitter (C06)"""
    from splitx import impl_load
    r = rng("scale-load")
    files = {
        "one-70k-line": b"a\nb\n" + b"x" * 70000 + b"\nc\n",
        "10k-lines": b"".join(b"line %d;\n" % i for i in range(10000)),
        "markers+big-tail": b"h\nDDBEGIN\n" + b"".join(b"l%d\n" % i for i in range(8191)) + b"DDEND\n" + b"T" * 70000,
        "js-64k": (b"var s = 'it is a string' + \"and 'another'\";\n// don't\nx = 'multi\nline';\n" * 900),
        "attrs-big": b"".join(b'<t%d a="1" b=\'2\' c=3>txt</t%d>\n' % (i, i) for i in range(3000)),
        "random-128KiB": bytes(r.getrandbits(8) for _ in range(1 << 15)) * 4,
    }
    for name, data in files.items():
        for atom in ("line", "char", "symbol", "jsstr", "attrs"):
            if atom == "char" and len(data) > 300000:
                continue
            line, t, out = impl_load(atom, data, real_file=(name == "10k-lines"))
            ck.count("scale-load")
            ck.nontrivial(("scale-load", name, atom))
            if t is None:
                if line != "err LithiumError":
                    ck.violation(f"[{atom}] loading the {len(data)}-byte file '{name}' raised {line}", {"atom": atom, "file": name})
                continue
            cat = t.before + b"".join(t.parts) + t.after
            if cat != data or out != data or len(t.parts) != len(t.reducible) or any(not p for p in t.parts):
                ck.violation(f"[{atom}] {len(data)}-byte file '{name}': before+atoms+after {'==' if cat == data else '!='} file, "
                             f"dump {'==' if out == data else '!='} file, {len(t.parts)} parts / {len(t.reducible)} flags, "
                             f"empty atoms: {sum(1 for p in t.parts if not p)}", {"atom": atom, "file": name, "size": len(data)})


def ref_rm(parts, flags, lo, hi):
    out_p, out_f, rank = [], [], 0
    for p, f in zip(parts, flags):
        if f:
            if not lo <= rank < hi:
                out_p.append(p)
                out_f.append(True)
            rank += 1
        else:
            out_p.append(p)
            out_f.append(False)
    return out_p, out_f


def big_rmslice(ck):
    """rmslice on thousands of parts with windows wider than any plausible block size (C07)"""
    r = rng("scale-rmslice")
    for n in (5000, 6000, 9001, 13000):
        parts = [b"p%d\n" % i for i in range(n)]
        flags = [r.random() < 0.97 for _ in range(n)]
        for j in (n // 3, n // 2, n - 700, n - 1):
            flags[j] = False
        nred = sum(flags)
        for lo, hi in ((0, 4500), (0, 4096), (0, 4097), (100, 4500), (0, nred), (nred - 4100, nred), (7, 8199), (1, 2)):
            if hi > nred or lo < 0:
                continue
            t = _mk("TestcaseLine", b"B", parts, flags, b"A", "/nonexistent")
            c = t.copy()
            try:
                c.rmslice(lo, hi)
                got = (c.parts, c.reducible, len(c))
            except Exception as e:  # pylint: disable=broad-except
                got = ("raised " + type(e).__name__, None, None)
            wp, wf = ref_rm(parts, flags, lo, hi)
            ck.count("scale-rmslice")
            ck.nontrivial(("scale-rmslice", n, lo, hi))
            if got != (wp, wf, nred - (hi - lo)) or t.parts != parts or t.reducible != flags:
                extra = "" if isinstance(got[0], str) else f"{len(got[0])} parts (expected {len(wp)}), len() {got[2]} (expected {nred - (hi - lo)})"
                ck.violation(f"rmslice({lo}, {hi}) on {n} parts ({nred} reducible): {got[0] if isinstance(got[0], str) else extra}; "
                             f"source untouched: {t.parts == parts and t.reducible == flags}",
                             {"n": n, "lo": lo, "hi": hi, "protected": [i for i, f in enumerate(flags) if not f][:50]})
                return


# ------------------------------------------------------------------ whole runs at scale
def _run(strategy, data, f, atom="line", cap=100000, exc_at=None, via_link=None, watchdog=120.0, prefill=None, cfg=None, light=None):
    """one real Lithium.run on a big file under the deterministic test f(bytes)->bool; returns the runner's Run"""
    from runner import TestRaised, impl_run

    def verdict(k, d):
        if exc_at is not None and k == exc_at:
            return "R"
        return "Y" if f(d) else "N"
    return impl_run(strategy, cfg or {}, None, data, verdict, atom=atom, load=True, cap=cap, exc_class=TestRaised,
                    watchdog=watchdog, via_link=via_link, prefill=prefill, light=light)


def last_accepted_of(run, data):
    acc = [d for _, d, a in run.seen if a == "Y"]
    return acc[-1] if acc else data


def big_final_is_last_accepted(ck):
    """C01 on megabyte-sized candidates whose sizes are exact multiples of 64 KiB, on many atoms, and through a
    symbolic / hard link to the file"""
    cases = []
    lines48 = b"".join(bytes([65 + i % 26]) * (BIG - 1) + b"\n" for i in range(48))      # 3 MiB, 64 KiB lines
    cases.append(("48x64KiB-lines", "line", lines48, lambda d: lines48[:BIG] in d))
    cases.append(("48x64KiB-lines,late-marker", "line", lines48, lambda d: lines48[40 * BIG:41 * BIG] in d))
    rec = b"".join(b"%062d;\n" % i for i in range(4096))                                   # 64-byte records, 256 KiB
    cases.append(("4096x64B-records", "line", rec * 5, lambda d: (b"%062d;\n" % 7) in d))
    cases.append(("char-128KiB", "char", b"k" + b"z" * (2 * BIG - 1), lambda d: d.startswith(b"k")))
    for name, atom, data, f in cases:
        for link in (None, "sym", "hard"):
            if link and atom == "char":
                continue
            run = _run("minimize", data, f, atom=atom, via_link=link)
            ck.count("scale-run")
            ck.nontrivial(("scale-run", name, link))
            want = last_accepted_of(run, data)
            if getattr(run, "stale", None):
                k, got, exp = run.stale[0]
                ck.violation(f"minimize on '{name}': test {k} did not see the candidate proposed for it (file {got} bytes, "
                             f"candidate {exp} bytes)", {"case": name, "atom": atom, "size": len(data), "link": link, "test": k})
            elif run.exc is not None or run.final != want:
                ck.violation(f"minimize on '{name}' ({len(data)} bytes{', testcase path is a ' + link + ' link' if link else ''}): "
                             f"run ended exc={run.exc} after {run.tests} tests; final file has {len(run.final)} bytes, the last "
                             f"accepted version {len(want)} bytes (equal: {run.final == want})",
                             {"case": name, "atom": atom, "size": len(data), "link": link, "tests": run.tests})


def big_frame_and_subdeletion(ck, frame=True, sub=True):
    """C04 / C05 / C08 at scale: thousands of atoms between markers, a 70 KB protected trailer, attribute files
    with thousands of protected parts: every file the test sees and the final file keep the protected text and
    are the original with reducible atoms deleted"""
    from explore import is_subred
    region = [b"l%d\n" % i for i in range(8191)]
    head, tail = b"// head\nDDBEGIN\n", b"DDEND\n" + b"T" * 70000 + b"\n"
    data = head + b"".join(region) + tail
    attrs = b"".join(b'<t%d a="1" b=\'2\' c=3>x</t%d>\n' % (i, i) for i in range(4000))
    keep = region[4000]
    for name, atom, d, f, P, S in (("8191-lines+70KB-trailer", "line", data, lambda x: keep in x, head, tail),
                                   ("8192-chars", "char", head + b"q" * 8191 + b"\n" + tail, lambda x: True, head, tail),
                                   ("4000-tags-attrs", "attrs", attrs, lambda x: b"<t7 " in x, b"", b""),
                                   ("4000-tags-attrs,late", "attrs", attrs, lambda x: b'<t3999 a="1"' in x, b"", b"")):
        run = _run("minimize", d, f, atom=atom, cap=120)
        ck.count("scale-run")
        ck.nontrivial(("scale-frame", name))
        files = list(run.seen) + [("final", run.final, None)]
        deep = set(range(8)) | set(range(len(files) - 6, len(files)))     # the full sub-deletion test is quadratic
        for idx, (k, seen, _) in enumerate(files):
            bad = None
            if frame and not (seen.startswith(P) and seen.endswith(S) and len(seen) >= len(P) + len(S)):
                bad = "lost the text outside the markers"
            elif sub and atom == "char" and set(seen[len(P):len(seen) - len(S)]) - set(b"q\n"):
                bad = "is not the original with reducible atoms deleted"
            elif sub and atom != "char" and idx in deep and not is_subred(run.loaded, seen):
                bad = "is not the original with reducible atoms deleted"
            if bad:
                ck.violation(f"minimize/{atom} on '{name}' ({len(d)} bytes): the file at test {k} ({len(seen)} bytes) {bad}",
                             {"case": name, "atom": atom, "test": k, "size": len(seen)})
                break


def long_run_kill_invariant(ck):
    """C02 (kill clause) and C12 in a run of thousands of tests: at the start of EVERY test the highest-numbered
    '*-interesting' copy in the temp dir (else 'original') is the last accepted version, and no log file of an
    earlier test has gone"""
    from runner import impl_run
    n = 1100
    lines = [b"req%d\n" % i for i in range(n)] + [b"junk\n"]
    data = b"".join(lines)
    state = {"accepted": data, "bad": None, "k": 0}

    def verdict(k, d):
        # inspected from inside the test: what a SIGKILL at this moment would leave behind
        state["k"] = k
        tmp = state["tmp"]
        names = os.listdir(tmp) if os.path.isdir(tmp) else []
        inter = sorted((int(x.split("-")[0]), x) for x in names if "-interesting" in x)
        best = inter[-1][1] if inter else next((x for x in names if x.startswith("original")), None)
        if state["bad"] is None and k > 1:
            got = open(os.path.join(tmp, best), "rb").read() if best else None
            if got != state["accepted"]:
                state["bad"] = (f"a kill during test {k} would leave '{best}' ({None if got is None else len(got)} bytes) as the newest "
                                f"interesting copy, but the last accepted version has {len(state['accepted'])} bytes")
            elif len([x for x in names if x[0].isdigit()]) != k - 1:
                state["bad"] = f"at test {k} the temp dir holds {len([x for x in names if x[0].isdigit()])} numbered files, expected {k - 1}"
        ok = all(l in d for l in (lines[0], lines[n // 2], lines[n - 1])) and d.count(b"\n") >= n
        if ok:
            state["accepted"] = d
        return "Y" if ok else "N"

    import runner
    orig_scripted_init = runner.Scripted.__init__

    def patched_init(self, path, tmp, *a, **kw):
        state["tmp"] = tmp
        orig_scripted_init(self, path, tmp, *a, **kw)
    runner.Scripted.__init__ = patched_init
    try:
        run = impl_run("minimize", {}, None, data, verdict, atom="line", load=True, cap=6000, watchdog=300.0, light=True)
    finally:
        runner.Scripted.__init__ = orig_scripted_init
    ck.count("scale-run")
    ck.nontrivial(("scale-kill-invariant", n))
    if state["bad"] or run.exc is not None or run.tests < 1100:
        ck.violation(f"minimize on {n} required lines + 1 removable ({run.tests} tests, exc={run.exc}): "
                     + (state["bad"] or "the run did not get through its final sweep"),
                     {"lines": n, "tests": run.tests, "exc": run.exc})


def order_dependent_minimality(ck):
    """C03 on ~100-200 atoms with a deterministic, non-monotone test under which only one more atom becomes
    removable per sweep (the quadratic worst case of the repeat rounds)"""
    for n in (96, 160):
        lines = [b"%d\n" % i for i in range(n)]
        data = b"".join(lines)

        def f(d, lines=lines, n=n):
            present = [l in d for l in lines]   # distinct tokens: "7\n" is not inside "17\n" thanks to the line start check below
            toks = set(d.split(b"\n"))
            present = [l[:-1] in toks for l in lines]
            if not all(present[i] for i in range(1, n, 2)):
                return False                    # odd lines are required
            ev = [present[i] for i in range(0, n, 2)]
            # even lines may only go in increasing order: the removed ones form a prefix
            k = ev.index(True) if True in ev else len(ev)
            return all(ev[k:])
        run = _run("minimize", data, f, cap=60000, watchdog=300.0)
        ck.count("scale-run")
        ck.nontrivial(("scale-c03", n))
        final = run.final
        toks = final.split(b"\n")[:-1]
        deletable = [t for i, t in enumerate(toks) if f(b"".join(x + b"\n" for j, x in enumerate(toks) if j != i))]
        if run.exc is not None or deletable:
            ck.violation(f"minimize on {n} lines under an order-dependent deterministic test: after {run.tests} tests (exc={run.exc}) "
                         f"{len(toks)} lines are left and {len(deletable)} of them can still be deleted on their own, e.g. {deletable[:1]}",
                         {"n": n, "tests": run.tests, "left": len(toks)})


def many_chunks_rounds(ck, bound):
    """C09: rounds with more than 512 chunks, standard streams not a terminal"""
    data = b"".join(b"%d\n" % i for i in range(700))
    for strategy in ("minimize-around", "minimize-balanced", "minimize", "minimize-collapse-brace"):
        for name, f in (("never", lambda d: d == data), ("every-7th", lambda d: all((b"\n%d\n" % i) in (b"\n" + d) for i in range(0, 700, 7)))):
            if name != "never" and strategy in ("minimize", "minimize-collapse-brace"):
                continue
            run = _run(strategy, data, f, cap=20000, watchdog=120.0)
            ck.count("scale-run")
            ck.nontrivial(("scale-c09", strategy, name))
            if run.exc is not None or run.tests > bound(700):
                ck.violation(f"{strategy} on 700 lines ({name} accepts): ended with exc={run.exc} after {run.tests} tests "
                             f"(bound {bound(700)})", {"strategy": strategy, "test": name, "tests": run.tests, "exc": run.exc})


def linked_testcase_core(ck, bound):
    """C10 with the testcase path being a symbolic / hard link to the file the test reads"""
    n = 1500
    parts = [b"<%d>\n" % i for i in range(n)]
    data = b"".join(parts)
    for link in ("sym", "hard", None):
        for core in ((0, 700, 1499), tuple(range(100, 104)), (42,)):
            want = b"".join(parts[i] for i in core)
            f = lambda d, core=core: all(parts[i] in d for i in core)
            run = _run("minimize", data, f, via_link=link, cap=bound(n, len(core)) + 50)
            ck.count("scale-run")
            ck.nontrivial(("scale-c10", link, core))
            if run.exc is not None or run.final != want or run.tests > bound(n, len(core)):
                ck.violation(f"minimize on {n} atoms, core {core}, testcase path {'a ' + link + ' link' if link else 'plain'}: exc={run.exc}, "
                             f"{run.tests} tests (bound {bound(n, len(core))}), file under its real name == core: {run.final == want} "
                             f"({len(run.final)} bytes)", {"n": n, "core": list(core), "link": link, "tests": run.tests})
