"""Entry point of every registered check: ./check Cxx --tier quick|thorough"""
import argparse
import importlib
import json
import os
import sys
import traceback

import common


def replay(pid, doc):
    """re-run the recorded failing input on the CURRENT implementation and show what happens"""
    rp = doc.get("replay") or {}
    if doc.get("kind") == "no-failing-input-found":
        print("no failing input was found; what no longer checks:")
        for b in doc.get("no_longer_checks", []):
            print("  " + b)
        return 1
    if "strategy" in rp and "parts" in rp and isinstance(rp.get("verdicts"), str):
        from runner import impl_run
        tc = (bytes.fromhex(rp["before"]), [bytes.fromhex(p) for p in rp["parts"]], rp["reducible"],
              bytes.fromhex(rp["after"]))
        run = impl_run(rp["strategy"], rp.get("cfg") or {}, tc, bytes.fromhex(rp["file0"]), rp["verdicts"],
                       clock=rp.get("clock") or (), atom=rp.get("atom", "line"), load=bool(rp.get("load")))
        print("implementation trace now:", run.trace)
        print("recorded trace          :", rp.get("impl_trace"))
        return 0 if run.trace != rp.get("impl_trace") else 1
    if "atom" in rp and "data" in rp:
        from splitx import impl_load
        line, t, out = impl_load(rp["atom"], bytes.fromhex(rp["data"]),
                                 bytes.fromhex(rp["cut_before"]) if rp.get("cut_before") else None,
                                 bytes.fromhex(rp["cut_after"]) if rp.get("cut_after") else None)
        print("load now gives:", line, "| dump:", out)
        print("recorded      :", rp.get("got"))
        return 0 if line != rp.get("got") else 1
    print("(no automatic replay for this kind of record; the record above holds the complete input)")
    return 1


def main():
    ap = argparse.ArgumentParser()
    ap.add_argument("pid")
    ap.add_argument("--tier", default=os.environ.get("VERIF_TIER", "quick"),
                    choices=["quick", "thorough"])
    ap.add_argument("--replay")
    ap.add_argument("--no-build", action="store_true")
    args = ap.parse_args()
    pid = args.pid.upper()
    if args.replay:
        doc = json.load(open(args.replay))
        print(json.dumps(doc, indent=1)[:4000])
        return replay(pid, doc)
    # one check at a time: the generated definitions and the .vo files are shared state
    import fcntl
    os.makedirs(os.path.join(common.VERIF, "build"), exist_ok=True)
    lock = open(os.path.join(common.VERIF, "build", ".check.lock"), "w")
    fcntl.flock(lock, fcntl.LOCK_EX)
    ck = common.Check(pid, args.tier)
    # a check that does not come to an end says nothing - and must not look like a pass to whoever waits for it: after
    # the budget (VERIF_BUDGET seconds; default 60 min quick, 6 h thorough) it reports that, as an alarm, and stops
    import threading
    budget = float(os.environ.get("VERIF_BUDGET", 3600 if args.tier == "quick" else 21600))

    def out_of_time():
        try:
            sys.stdout.flush()
            print()
            os.makedirs(os.path.join(common.VERIF, "evidence", "replays"), exist_ok=True)
            rp = os.path.join(common.VERIF, "evidence", "replays", f"{pid}-out-of-time.json")
            json.dump({"property": pid, "kind": "no-failing-input-found",
                       "no_longer_checks": [f"the {args.tier} check of {pid} did not finish within {int(budget)} s (a hang or a slow path in "
                                            f"the code under test; {len(ck.violations)} violation(s) found so far)"],
                       "violations_so_far": [v["what"] for v in ck.violations[:5]]}, open(rp, "w"), indent=1)
            if ck.violations:
                print(f"  {ck.violations[0]['what'][:300]}")
            print(f"VIOLATION property={pid} replay={rp} no-failing-input-found")
            print(f"{pid} [{args.tier}] rc=1 (out of time after {int(budget)} s)")
            sys.stdout.flush()
        finally:
            os._exit(1)
    timer = threading.Timer(budget, out_of_time)
    timer.daemon = True
    timer.start()
    if not args.no_build:
        ck.buildst = common.build()
    ck.proof = common.proof_status(pid, args.tier)
    try:
        mod = importlib.import_module("props." + pid.lower())
        return mod.run(ck)
    except BaseException:  # the harness itself broke (or lithium called sys.exit under it): an alarm, not a pass
        traceback.print_exc()
        ck.mismatch("harness", "exception in harness", "", traceback.format_exc()[-600:])
        return ck.finish(level="proof", rule="harness crashed")


if __name__ == "__main__":
    sys.exit(main())
