"""Entry point of every registered check: ./check Cxx --tier quick|thorough"""
import argparse
import importlib
import json
import os
import sys
import traceback

import common


def main():
    ap = argparse.ArgumentParser()
    ap.add_argument("pid")
    ap.add_argument("--tier", default=os.environ.get("VERIF_TIER", "quick"),
                    choices=["quick", "thorough"])
    ap.add_argument("--replay")
    ap.add_argument("--no-build", action="store_true")
    args = ap.parse_args()
    pid = args.pid.upper()
    if args.replay:
        print(json.dumps(json.load(open(args.replay)), indent=1))
        mod = importlib.import_module("props." + pid.lower())
        if hasattr(mod, "replay"):
            return mod.replay(json.load(open(args.replay)))
        return 0
    # one check at a time: the generated definitions and the .vo files are shared state
    import fcntl
    os.makedirs(os.path.join(common.VERIF, "build"), exist_ok=True)
    lock = open(os.path.join(common.VERIF, "build", ".check.lock"), "w")
    fcntl.flock(lock, fcntl.LOCK_EX)
    ck = common.Check(pid, args.tier)
    if not args.no_build:
        ck.buildst = common.build()
    ck.proof = common.proof_status(pid, args.tier)
    try:
        mod = importlib.import_module("props." + pid.lower())
        return mod.run(ck)
    except Exception:  # the harness itself broke: that is an alarm, not a pass
        traceback.print_exc()
        ck.mismatch("harness", "exception in harness", "", traceback.format_exc()[-400:])
        return ck.finish(level="proof", rule="harness crashed")


if __name__ == "__main__":
    sys.exit(main())
