"""Run the REAL lithium driver/strategies under a scripted interestingness test and record a
canonical event trace; build the matching case line for the extracted model.

Trace grammar (identical on both sides):
  events separated by ';' :  I | X | W | C <name> | T <k> <prefixnum> <filehex> <Y|N|R>
  then ' | file=<hex> tests=<n> tfc=<n> total=<n> temp=<name=hex,...sorted> ' then
  rc=<n> | exc=test | exc=<Name> | nofuel
"""
import os
import shutil
import sys
import tempfile
import types
from pathlib import Path

from common import enc_bools, enc_opt, enc_parts, hx

SCRATCH_ROOT = "/dev/shm" if os.path.isdir("/dev/shm") else tempfile.gettempdir()

_watch = {"path": None, "tmp": None, "events": None}


def _audit(event, args):
    w = _watch
    if w["events"] is None:
        return
    try:
        if event == "open":
            path, mode, flags = args
            if not isinstance(path, (str, bytes, os.PathLike)):
                return
            writing = (mode is not None and any(c in mode for c in "wax+")) or (
                mode is None and flags is not None and flags & (os.O_WRONLY | os.O_RDWR))
            if not writing:
                return
            p = os.path.abspath(os.fsdecode(path))
        elif event in ("os.rename", "os.replace", "shutil.copyfile", "shutil.move"):
            p = os.path.abspath(os.fsdecode(args[1]))
        elif event in ("os.remove", "os.truncate", "os.unlink"):
            p = os.path.abspath(os.fsdecode(args[0]))
        else:
            return
        if p == w["path"]:
            w["events"].append("W")
        elif w["tmp"] and p.startswith(w["tmp"] + os.sep):
            rel = p[len(w["tmp"]) + 1:]
            stem = os.path.splitext(rel)[0]
            # the scripted test does not write; anything here is lithium's own copy
            w["events"].append("C " + stem)
    except Exception:  # pylint: disable=broad-except
        pass


sys.addaudithook(_audit)


class TestRaised(Exception):
    """default exception class raised by the scripted test"""


class no_tty:
    """during a run the standard streams are /dev/null, as under cron, CI or a pipe - and the same whoever starts the
    check (a terminal would otherwise make terminal-size queries and the like succeed only on a developer's screen)"""

    def __enter__(self):
        sys.stdout.flush()
        sys.stderr.flush()
        self.saved = [os.dup(fd) for fd in (0, 1, 2)]
        self.null_r = os.open(os.devnull, os.O_RDONLY)
        self.null_w = os.open(os.devnull, os.O_WRONLY)
        os.dup2(self.null_r, 0)
        os.dup2(self.null_w, 1)
        os.dup2(self.null_w, 2)
        return self

    def __exit__(self, *exc):
        try:
            sys.stdout.flush()
            sys.stderr.flush()
        except Exception:  # pylint: disable=broad-except
            pass
        for fd, keep in zip((0, 1, 2), self.saved):
            os.dup2(keep, fd)
            os.close(keep)
        os.close(self.null_r)
        os.close(self.null_w)
        return False


class Refused(Exception):
    """the strategy's own option parser refused the options (start-up validation)"""


class CapHit(BaseException):
    """raised when a run exceeds the test cap (non-termination guard)"""


class Hang(BaseException):
    """raised by the watchdog timer: the run did not finish within its wall-clock budget"""


def _on_alarm(signum, frame):
    raise Hang()


class Scripted:
    """The condition script object handed to Lithium."""

    def __init__(self, path, tmp, verdict, events, exc_class, cap):
        self.path, self.tmp, self.verdict, self.events = path, tmp, verdict, events
        self.exc_class, self.cap, self.k = exc_class, cap, 0
        self.seen = []  # (k, bytes, answer)
        self.w_mark = 0
        self.timeline = None
        self.args_seen = []
        self.stale = []     # tests that found something else on disk than the candidate proposed for them

    def init(self, args):
        self.events.append("I")
        if getattr(self, "init_edits", None):
            # the documented init() hook touches the testcase file (normalises it, appends a marker) before any test
            saved, _watch["events"] = _watch["events"], None
            try:
                with open(self.path, "ab") as f:
                    f.write(self.init_edits)
            finally:
                _watch["events"] = saved

    def cleanup(self, args):
        self.events.append("X")

    def interesting(self, args, prefix):
        self.k += 1
        if self.cap is not None and self.k > self.cap:
            raise CapHit()
        data = Path(self.path).read_bytes()
        exp = getattr(self, "expected", None)
        if exp is not None and data != exp:
            self.stale.append((self.k, len(data), len(exp)))
        self.expected = None
        ans = self.verdict(self.k, data)
        prefix = os.path.abspath(prefix)
        pnum = prefix[len(self.tmp) + 1:] if prefix.startswith(self.tmp + os.sep) else "?" + prefix
        self.events.append(f"T {self.k} {pnum} {('#%d' % len(data)) if getattr(self, 'light', False) else hx(data)} {ans}")
        self.seen.append((self.k, data, ans))
        if self.timeline is not None:
            self.timeline.append(("T", self.k))
        self.w_mark = self.events.count("W")
        self.args_seen.append(list(args) if args is not None else None)
        mode = getattr(self, "scribble", None)
        if mode and self.k >= 2:    # (the original is the user's file: Lithium never writes it back when test 1 rejects it)
            # a test (or the program it starts) that changes the testcase file while it runs: a browser rewriting its
            # prefs file, a formatter working in place, a tool deleting its input.  Lithium's own writes are what the
            # trace records, so the audit hook is off for this one
            saved, _watch["events"] = _watch["events"], None
            try:
                if mode == "append":
                    with open(self.path, "ab") as f:
                        f.write(b"# visited by test %d\n" % self.k)
                elif mode == "truncate":
                    open(self.path, "wb").close()
                elif mode == "delete":
                    os.remove(self.path)
                elif mode == "stamp":       # edits the head of the file IN PLACE (a tool stamping / normalising a header): same length
                    with open(self.path, "r+b") as f:
                        f.write(b"STAMPED-BY-TEST-%04d" % (self.k % 10000))
            finally:
                _watch["events"] = saved
        if ans == "R":
            raise self.exc_class("scripted test raises at test %d" % self.k)
        # the test's answer is used for its truth value (hand-written tests `return` whatever they have: None when
        # they fall off the end, a count, a match object): answer with a different truthy / falsy value each time
        if ans == "Y":
            return (True, 1, "yes", [0])[self.k % 4]
        return (False, None, 0, "")[self.k % 4]


def scripted_with(hooks):
    """the scripted test with only some of the optional hooks (a plain module with just interesting() is the
    common case in practice)"""
    hooks = tuple(hooks)
    if set(hooks) == {"init", "cleanup"}:
        return Scripted
    ns = {"__doc__": "scripted test without " + "/".join(h for h in ("init", "cleanup") if h not in hooks)}

    class Bare:
        __init__ = Scripted.__init__
        interesting = Scripted.interesting
    for h in hooks:
        setattr(Bare, h, getattr(Scripted, h))
    Bare.__doc__ = ns["__doc__"]
    return Bare


class lithium_logging:
    """the logging set-up of the command line (INFO, or DEBUG with -v) for the duration of a run, into a sink"""

    def __init__(self, level):
        self.level = level

    def __enter__(self):
        import logging
        if self.level is None:
            return self
        self.logger = logging.getLogger()
        self.old = self.logger.level
        self.handler = logging.Handler()
        self.handler.emit = lambda record: record.getMessage()     # format every message, keep nothing
        self.logger.addHandler(self.handler)
        self.logger.setLevel(self.level)
        self.old_disable = logging.root.manager.disable
        logging.disable(logging.NOTSET)
        return self

    def __exit__(self, *exc):
        import logging
        if self.level is None:
            return False
        self.logger.removeHandler(self.handler)
        self.logger.setLevel(self.old)
        logging.disable(self.old_disable)
        return False


class Clock:
    def __init__(self, values, log=None):
        self.values, self.i, self.log = list(values), 0, log

    def time(self):
        if not self.values:
            v = 0
        else:
            v = self.values[min(self.i, len(self.values) - 1)]
        self.i += 1
        if self.log is not None:
            self.log.append(("K", v))
        return v

    # the other clocks of the time module tick with the same script but have ANOTHER epoch, as in reality (wall-clock
    # seconds since 1970 vs seconds since boot): code that mixes two clocks goes as wrong here as it would there
    def monotonic(self):
        return self.time() - 1.7e9

    def perf_counter(self):
        return self.time() - 1.7e9

    def time_ns(self):
        return int(self.time() * 1e9)

    def monotonic_ns(self):
        return int(self.monotonic() * 1e9)

    def __getattr__(self, name):
        import time as _t
        return getattr(_t, name)


def verdict_from_string(s):
    return lambda k, data: (s[k - 1] if 0 < k <= len(s) else "N")


STRATS = {
    "minimize": "Minimize", "minimize-around": "MinimizeSurroundingPairs",
    "minimize-balanced": "MinimizeBalancedPairs", "minimize-collapse-brace": "CollapseEmptyBraces",
    "replace-properties-by-globals": "ReplacePropertiesByGlobals",
    "replace-arguments-by-globals": "ReplaceArgumentsByGlobals", "check-only": "CheckOnly",
}
ATOMS = {"line": "TestcaseLine", "char": "TestcaseChar", "symbol": "TestcaseSymbol",
         "jsstr": "TestcaseJsStr", "attrs": "TestcaseAttrs"}


def _cli_expressible(cfg):
    def pow2(v):
        return isinstance(v, int) and v >= 1 and v & (v - 1) == 0
    lim = cfg.get("limit")
    return (pow2(cfg.get("min", 1)) and pow2(cfg.get("max", 2 ** 30)) and cfg.get("repeat", "last") in
            ("last", "always", "never") and (lim is None or (isinstance(lim, int) and not isinstance(lim, bool))))


def make_strategy(name, cfg):
    import lithium.strategies as st
    s = getattr(st, STRATS[name])()
    if "argv" in cfg:
        # raw strategy options exactly as given on a command line; a refusal (parser.error) is reported to the caller
        import argparse
        import contextlib
        import io
        parser = argparse.ArgumentParser()
        s.add_args(parser)
        try:
            with contextlib.redirect_stderr(io.StringIO()):
                s.process_args(parser, parser.parse_args(list(cfg["argv"])))
        except SystemExit:
            raise Refused(cfg["argv"]) from None
        return s
    if name != "check-only" and _cli_expressible(cfg):
        # the way a user configures a strategy: its own add_args / process_args on a real parser
        import argparse
        argv = []
        mn, mx, rep = cfg.get("min", 1), cfg.get("max", 2 ** 30), cfg.get("repeat", "last")
        if mn == mx and rep == "never" and (mn + len(name)) % 2 == 0:
            argv += ["--chunk-size", str(mn)]
        else:
            if "min" in cfg:
                argv += ["--min", str(mn)]
            if "max" in cfg:
                argv += [f"--max={mx}"]
            if "repeat" in cfg:
                argv += ["--repeat", rep]
        if cfg.get("first"):
            argv += ["--repeat-first-round"]
        if cfg.get("limit") is not None:
            argv += ["--max-run-time", str(cfg["limit"])]
        if name == "minimize-balanced" and cfg.get("move"):
            argv += ["--with-experimental-move"]
        parser = argparse.ArgumentParser()
        s.add_args(parser)
        s.process_args(parser, parser.parse_args(argv))
        return s
    if name != "check-only":
        s.minimize_min = cfg.get("min", 1)
        s.minimize_max = cfg.get("max", 2 ** 30)
        s.minimize_repeat = cfg.get("repeat", "last")
        s.minimize_repeat_first_round = cfg.get("first", False)
        s.stop_after_time = cfg.get("limit")
        if name == "minimize-balanced":
            s.use_experimental_move = cfg.get("move", False)
    return s


class Run:
    """Result of one implementation run."""
    trace = ""
    tests = 0
    seen = ()
    final = b""
    rc = None
    exc = None
    temp = ()
    writes = 0
    fault_last = False
    stale = ()


def impl_run(strategy, cfg, tc, file0, verdict, clock=(), exc_class=TestRaised, atom="line",
             cap=5000, load=False, ext=".txt", watchdog=30.0, auto_tmp=False, via_link=None, prefill=None,
             light=None, hooks=("init", "cleanup"), log_level=None, scribble=None, warmup=None, init_edits=None):
    """tc = (before, parts, reducible, after) placed directly into a testcase object, or (when
    load=True) ignored in favour of Testcase.load(file0).  verdict: str or callable(k, data)."""
    import lithium.strategies as st
    import lithium.testcases as tcs
    from lithium.reducer import Lithium

    if isinstance(verdict, str):
        verdict = verdict_from_string(verdict)
    work = tempfile.mkdtemp(prefix="lv-", dir=SCRATCH_ROOT)
    res = Run()
    try:
        path = os.path.join(work, "t" + ext)
        # auto_tmp: no directory is chosen in advance; Lithium.run creates ./tmp1 itself (the way the command line
        # works without --tempdir), with the scratch directory as the current directory
        tmp = os.path.join(work, "tmp1" if auto_tmp else "tmp")
        if not auto_tmp:
            os.mkdir(tmp)
        real_path = path
        if via_link:
            # the path given to Lithium is a symbolic / hard link; the test (and the final comparison) read the file
            # under its real name
            os.mkdir(os.path.join(work, "real"))
            real_path = os.path.join(work, "real", "t" + ext)
            Path(real_path).write_bytes(file0)
            (os.symlink if via_link == "sym" else os.link)(real_path, path)
        else:
            Path(path).write_bytes(file0)
        for name_, bytes_ in (prefill or {}).items():      # leftovers of an earlier session in a re-used --tempdir
            Path(os.path.join(tmp, name_)).write_bytes(bytes_)
        if light is None:
            light = len(file0) > 100000
        atom_name = atom.split(":")[0]
        testcase = getattr(tcs, ATOMS[atom_name])()
        if ":" in atom:  # "symbol:<hex cut-before>:<hex cut-after>"
            _, hb, ha = atom.split(":")
            testcase.set_cut_chars(bytes.fromhex(hb), bytes.fromhex(ha))
        if load:
            testcase.load(path)
        else:
            testcase.before, testcase.parts, testcase.reducible, testcase.after = (
                tc[0], list(tc[1]), list(tc[2]), tc[3])
            testcase.filename, testcase.extension = path, ext
        res.loaded = (testcase.before, list(testcase.parts), list(testcase.reducible),
                      testcase.after)
        events = []
        script = scripted_with(hooks)(real_path, tmp, verdict, events, exc_class, cap)
        script.light = light
        script.scribble = scribble
        script.init_edits = init_edits
        lith = Lithium()
        lith.strategy = make_strategy(strategy, cfg)
        if warmup is not None:
            # the SAME strategy object has already reduced another file (a library user keeping the object, a second
            # pass): nothing of that run may show in this one
            wdata, wverdict = warmup
            wdir = os.path.join(work, "warm")
            os.mkdir(wdir)
            os.mkdir(os.path.join(wdir, "tmp"))
            wpath = os.path.join(wdir, "w" + ext)
            Path(wpath).write_bytes(wdata)
            wtc = getattr(tcs, ATOMS[atom_name])()
            if ":" in atom:
                wtc.set_cut_chars(bytes.fromhex(hb), bytes.fromhex(ha))
            wtc.load(wpath)
            wl = Lithium()
            wl.strategy, wl.testcase = lith.strategy, wtc
            wl.condition_script = Scripted(wpath, os.path.join(wdir, "tmp"), verdict_from_string(wverdict), [], exc_class, 2000)
            wl.condition_args = ["arg0", wpath]
            wl.temp_dir = Path(os.path.join(wdir, "tmp"))
            import signal as _sg
            _old = _sg.signal(_sg.SIGALRM, _on_alarm)
            _sg.setitimer(_sg.ITIMER_REAL, watchdog)
            try:
                with no_tty():
                    wl.run()
            except (CapHit, Hang, Exception):  # pylint: disable=broad-except
                pass
            finally:
                _sg.setitimer(_sg.ITIMER_REAL, 0)
                _sg.signal(_sg.SIGALRM, _old)
        lith.testcase = testcase
        lith.condition_script = script
        lith.condition_args = ["arg0", path]
        if not auto_tmp:
            lith.temp_dir = Path(tmp)
        timeline = []
        clk = Clock(clock, timeline)
        script.timeline = timeline
        old_time = st.time
        st.time = clk
        steps = []
        orig_try = st.ReductionIterator.try_testcase

        def try_wrapper(self, tcase, description="Reduction", *more, **kw):
            if len(steps) > 50 * (cap or 5000):
                raise CapHit()  # proposals without end (all skipped): a spinning strategy
            nw = events.count("W")
            if nw > script.w_mark:
                cur = Path(path).read_bytes()
                steps.extend([("W", cur)] * (nw - script.w_mark))
                script.w_mark = nw
            steps.append(("P", (tcase.before, list(tcase.parts), list(tcase.reducible),
                                tcase.after)))
            # what the next test must find on disk: this candidate (C01: "the content the file had during the test")
            script.expected = tcase.before + b"".join(tcase.parts) + tcase.after
            return orig_try(self, tcase, description, *more, **kw)

        st.ReductionIterator.try_testcase = try_wrapper
        _watch.update(path=os.path.abspath(path), tmp=os.path.abspath(tmp), events=events)
        tail = ""
        import signal
        old_handler = signal.signal(signal.SIGALRM, _on_alarm)
        signal.setitimer(signal.ITIMER_REAL, watchdog)
        old_cwd = os.getcwd()
        try:
            try:
                if auto_tmp:
                    os.chdir(work)
                with no_tty(), lithium_logging(log_level):
                    rc = lith.run()
            finally:
                signal.setitimer(signal.ITIMER_REAL, 0)
                signal.signal(signal.SIGALRM, old_handler)
                os.chdir(old_cwd)
            res.rc = rc
            tail = f"rc={rc}"
        except CapHit:
            res.exc = "CapHit"
            tail = "cap"
        except Hang:
            res.exc = "Hang"
            tail = "hang"
        except exc_class as e:  # the scripted exception came back out
            res.exc = "test"
            tail = "exc=test"
        except BaseException as e:  # pylint: disable=broad-except
            res.exc = type(e).__name__
            tail = "exc=" + type(e).__name__
            res.exc_text = repr(e)
        finally:
            _watch.update(events=None)
            st.time = old_time
            st.ReductionIterator.try_testcase = orig_try
        if res.exc not in (None, "test", "CapHit", "Hang"):
            steps.append(("F", res.exc))  # the strategy itself failed: the replay must fail there too
        res.steps = steps
        res.timeline = timeline
        li = lith.last_interesting
        res.last = None if li is None else (li.before, list(li.parts), list(li.reducible), li.after)
        final = Path(real_path).read_bytes() if os.path.exists(real_path) else b"<deleted>"
        temp = []
        for root, _, files in os.walk(tmp):
            for f in files:
                full = os.path.join(root, f)
                rel = os.path.relpath(full, tmp)
                temp.append((os.path.splitext(rel)[0], Path(full).read_bytes(),
                             os.path.splitext(rel)[1]))
        temp.sort()
        res.temp = temp
        res.final = final
        res.tests = script.k
        res.seen = script.seen
        res.args_seen = script.args_seen
        res.stale = script.stale
        res.events = events
        res.writes = events.count("W")
        res.test_count, res.tfc, res.total = lith.test_count, lith.temp_file_count, lith.test_total
        res.clock_reads = clk.i
        if light:      # big inputs: sizes instead of contents in the textual trace (no model run is compared with it)
            res.trace = (";".join(events) + f" | file=#{len(final)} tests={lith.test_count} "
                         f"tfc={lith.temp_file_count} total={lith.test_total} temp="
                         + ",".join(f"{n}=#{len(b)}" for n, b, _ in temp) + " " + tail)
        else:
            res.trace = (";".join(events) + f" | file={hx(final)} tests={lith.test_count} "
                         f"tfc={lith.temp_file_count} total={lith.test_total} temp="
                         + ",".join(f"{n}={hx(b)}" for n, b, _ in temp) + " " + tail)
        return res
    finally:
        shutil.rmtree(work, ignore_errors=True)


def enc_tc(tc):
    return f"{hx(tc[0])} {enc_parts(tc[1])} {enc_bools(tc[2])} {hx(tc[3])}"


def enc_steps(steps):
    out = []
    for kind, v in steps:
        if kind == "F":
            out.append("F:" + v)
        elif kind == "W":
            out.append("W:" + hx(v))
        else:
            out.append("P:" + "/".join([hx(v[0]), enc_parts(v[1]), enc_bools(v[2]), hx(v[3])]))
    return "+".join(out) if out else "-"


def model_line(strategy, cfg, tc, file0, verdicts, clock=(), fuel=200000, extra="", steps=None):
    """Case line for coq/Extract/driver: op `run`."""
    # the model's clock is integer-valued: quarter-second readings are passed to it in units of 1/4 s, the limit
    # alongside (the deadline logic is linear in both)
    scale = 4 if any(c != int(c) for c in clock) else 1
    clk = ",".join(str(int(c * scale)) for c in clock) if clock else "-"
    if scale != 1 and cfg.get("limit") is not None:
        cfg = dict(cfg, limit=cfg["limit"] * scale)
    if steps is not None:
        return f"run replay {enc_steps(steps)} {enc_tc(tc)} {hx(file0)} {verdicts or '-'} {fuel}"
    if strategy == "check-only":
        return f"run check-only {enc_tc(tc)} {hx(file0)} {verdicts or '-'}"
    if strategy == "minimize-balanced" and cfg.get("move"):
        strategy = "minimize-balanced-move"      # concrete model Model/PairsMove.v
    return (f"run {strategy} {cfg.get('min', 1)} {cfg.get('max', 2 ** 30)} {cfg.get('repeat', 'last')} "
            f"{'T' if cfg.get('first') else 'F'} {enc_opt(cfg.get('limit'))} {clk} {extra}"
            f"{enc_tc(tc)} {hx(file0)} {verdicts or '-'} {fuel}")


def dfs_verdicts(run_fn, max_runs=100000, first=("Y",), alphabet="YN"):
    """Enumerate every verdict sequence reachable on the implementation.
    run_fn(verdict_string) -> number of tests actually run with that string (default answer N
    after the end of the string).  Yields each explored string exactly once."""
    count = 0
    stack = [""]
    while stack:
        prefix = stack.pop()
        n = run_fn(prefix)
        count += 1
        yield prefix, n
        if count >= max_runs:
            return
        for i in range(len(prefix), n):
            stack.append(prefix + "N" * (i - len(prefix)) + "Y")


def impl_session(steps, exc_class=TestRaised, ext=".txt", watchdog=30.0):
    """Several consecutive runs on ONE Lithium object (and, where the atom type / strategy name repeats,
    the same testcase / strategy objects) with one temp dir - the way a library user or a second pass
    in the same process re-uses them.  steps: dicts with strategy, cfg, atom, file0, verdict, and
    optionally write_fault = k (the k-th write to the testcase path raises OSError after a partial
    write).  Returns a list of Run objects (no model trace)."""
    import signal
    import lithium.strategies as st
    import lithium.testcases as tcs
    from lithium.reducer import Lithium
    work = tempfile.mkdtemp(prefix="lvs-", dir=SCRATCH_ROOT)
    out = []
    try:
        path = os.path.join(work, "t" + ext)
        tmp = os.path.join(work, "tmp")
        os.mkdir(tmp)
        lith = Lithium()
        lith.temp_dir = Path(tmp)
        lith.condition_args = ["arg0", path]
        tc_objs, st_objs = {}, {}
        for step in steps:
            res = Run()
            verdict = step["verdict"]
            if isinstance(verdict, str):
                verdict = verdict_from_string(verdict)
            Path(path).write_bytes(step["file0"])
            atom = step.get("atom", "line")
            testcase = tc_objs.get(atom) or getattr(tcs, ATOMS[atom])()
            tc_objs[atom] = testcase
            testcase.load(path)
            res.loaded = (testcase.before, list(testcase.parts), list(testcase.reducible), testcase.after)
            events = []
            script = Scripted(path, tmp, verdict, events, exc_class, step.get("cap", 2000))
            name = step["strategy"]
            if name not in st_objs:
                st_objs[name] = make_strategy(name, step.get("cfg", {}))
            lith.strategy = st_objs[name]
            lith.testcase = testcase
            lith.condition_script = script
            before_count = lith.test_count
            fault = {"k": step.get("write_fault"), "n": 0, "intended": None}
            real_dump = tcs.Testcase.dump

            def faulty_dump(self_, *a, **kw):
                dpath = a[0] if a else kw.get("path")
                target = self_.filename if dpath is None else str(dpath)
                if os.path.abspath(str(target)) == os.path.abspath(path):
                    fault["n"] += 1
                    if fault["n"] == fault["k"]:
                        data = self_.before + b"".join(self_.parts) + self_.after
                        fault["intended"] = data
                        with open(target, "wb") as fo:      # a torn write, then the error
                            fo.write(data[: max(1, len(data) // 2)])
                        raise OSError(28, "No space left on device (injected)")
                return real_dump(self_, *a, **kw)
            if step.get("write_fault") is not None:
                tcs.Testcase.dump = faulty_dump
            # open_fault = (k, times, exception class name): the k-th .. (k+times-1)-th attempt to OPEN the testcase
            # file for writing fails (nothing is truncated); later attempts work again
            ofault = {"spec": step.get("open_fault"), "n": 0, "last_failed": False}
            real_open = open

            def flaky_open(p, mode="r", *a, **kw):
                if ofault["spec"] and any(c in mode for c in "wax+") and os.path.abspath(str(p)) == os.path.abspath(path):
                    ofault["n"] += 1
                    k0, times, exc_name = ofault["spec"]
                    if k0 <= ofault["n"] < k0 + times:
                        ofault["last_failed"] = True
                        raise {"PermissionError": PermissionError, "BlockingIOError": BlockingIOError,
                               "InterruptedError": InterruptedError, "OSError": OSError}[exc_name](13, "injected: file is busy")
                    ofault["last_failed"] = False
                return real_open(p, mode, *a, **kw)
            if step.get("open_fault") is not None:
                tcs.open = flaky_open
            _watch.update(path=os.path.abspath(path), tmp=os.path.abspath(tmp), events=events)
            old_handler = signal.signal(signal.SIGALRM, _on_alarm)
            signal.setitimer(signal.ITIMER_REAL, watchdog)
            try:
                try:
                    with no_tty():
                        res.rc = lith.run()
                finally:
                    signal.setitimer(signal.ITIMER_REAL, 0)
                    signal.signal(signal.SIGALRM, old_handler)
                    _watch.update(events=None)
                    if step.get("write_fault") is not None:
                        tcs.Testcase.dump = real_dump
                    if step.get("open_fault") is not None:
                        del tcs.open
            except CapHit:
                res.exc = "CapHit"
            except Hang:
                res.exc = "Hang"
            except exc_class:
                res.exc = "test"
            except BaseException as e:  # pylint: disable=broad-except
                res.exc = type(e).__name__
            res.final = Path(path).read_bytes() if os.path.exists(path) else b"<deleted>"
            res.seen, res.tests, res.events = script.seen, script.k, events
            res.writes = events.count("W")
            # the injected fault hit the LAST write of the run and that write was (re)writing the last accepted version
            # (the final / restoring dump itself): nothing can repair that
            acc = [d for _, d, a in script.seen if a == "Y"]
            res.fault_last = (fault["k"] is not None and fault["n"] <= fault["k"]
                              and fault["intended"] == (acc[-1] if acc else step["file0"]))
            if step.get("open_fault") is not None:
                res.fault_last = ofault["last_failed"]      # the last attempt to open the file failed: nothing to check
            res.test_count = lith.test_count - before_count
            temp = []
            for f_ in sorted(os.listdir(tmp)):
                temp.append((os.path.splitext(f_)[0], Path(os.path.join(tmp, f_)).read_bytes(), os.path.splitext(f_)[1]))
            res.temp = temp
            li = lith.last_interesting
            res.last = None if li is None else (li.before, list(li.parts), list(li.reducible), li.after)
            res.trace = ";".join(events)
            out.append(res)
        return out
    finally:
        shutil.rmtree(work, ignore_errors=True)
