"""Boundary values.  Limits, give-up counters, block and batch sizes sit at round numbers (powers of two, powers of
ten) and go wrong exactly AT them - one atom more than a batch, a line break straddling a read block, a multi-byte
character cut by the end of a buffer, the 1000th directory, a name of exactly NAME_MAX bytes.  The grids elsewhere are
exhaustive only for small sizes; here each numeric dimension a property quantifies over is swept through
2^k-1, 2^k, 2^k+1 and 10^k-1, 10^k, 10^k+1 with direct oracles (plain statements of the property)."""
import os

from common import rng


def _fold(node):
    """value of a constant integer expression (1 << 20, 64 * 1024 * 1024, 2 ** 16 - 1) or None"""
    import ast
    if isinstance(node, ast.Constant) and isinstance(node.value, int) and not isinstance(node.value, bool):
        return node.value
    if isinstance(node, ast.UnaryOp) and isinstance(node.op, ast.USub):
        v = _fold(node.operand)
        return None if v is None else -v
    if isinstance(node, ast.BinOp):
        a, b = _fold(node.left), _fold(node.right)
        if a is None or b is None:
            return None
        try:
            if isinstance(node.op, ast.LShift) and 0 <= b <= 40:
                return a << b
            if isinstance(node.op, ast.Pow) and 0 <= b <= 40 and abs(a) <= 1024:
                return a ** b
            if isinstance(node.op, ast.Mult):
                return a * b
            if isinstance(node.op, ast.Add):
                return a + b
            if isinstance(node.op, ast.Sub):
                return a - b
            if isinstance(node.op, ast.FloorDiv) and b:
                return a // b
        except (OverflowError, ValueError):
            return None
    return None


def source_constants(repo):
    """(set of ints, set of short str/bytes constants as latin-1 text) in <repo>/src/lithium/**/*.py"""
    import ast
    ints, strs = set(), set()
    root = os.path.join(repo, "src", "lithium")
    for d, _, files in os.walk(root):
        for fn in files:
            if not fn.endswith(".py"):
                continue
            try:
                tree = ast.parse(open(os.path.join(d, fn), "rb").read())
            except SyntaxError:
                continue
            docstrings = set()
            for node in ast.walk(tree):
                if isinstance(node, (ast.Module, ast.ClassDef, ast.FunctionDef, ast.AsyncFunctionDef)) and node.body and \
                        isinstance(node.body[0], ast.Expr) and isinstance(getattr(node.body[0], "value", None), ast.Constant):
                    docstrings.add(id(node.body[0].value))
            for node in ast.walk(tree):
                v = _fold(node)
                if v is not None and abs(v) < 2 ** 40:
                    ints.add(v)
                if isinstance(node, ast.Constant) and id(node) not in docstrings and isinstance(node.value, (str, bytes)):
                    t = node.value if isinstance(node.value, str) else node.value.decode("latin-1")
                    if 0 < len(t) <= 60:
                        strs.add(t)
    return ints, strs


_MINED = None


def mined():
    """(ints, texts) that occur in the CURRENT source but not in the reviewed one (harness/baseline_constants.json):
    empty on the unchanged tree; on a changed tree, the limits / block sizes / counters / special texts of the change"""
    global _MINED
    if _MINED is None:
        import json
        try:
            base = json.load(open(os.path.join(os.path.dirname(os.path.abspath(__file__)), "baseline_constants.json")))
            ints, strs = source_constants(os.environ.get("VERIF_REPO", "/repo"))
            _MINED = (sorted(i for i in ints - set(base["ints"]) if i >= 2), sorted(strs - set(base["strs"])))
        except (OSError, ValueError, KeyError):
            _MINED = ([], [])
    return _MINED


def around(limit, lo=0, pow2_from=0, dec=True, mined_limit=None):
    """sorted boundary values in [lo, limit]: 2^k-1, 2^k, 2^k+1, 10^k-1, 10^k, 10^k+1 - and, on a changed tree, the
    neighbourhood of every integer constant the change introduced (up to mined_limit, default 8 x limit)"""
    vals = set()
    k = pow2_from
    while 2 ** k - 1 <= limit:
        vals.update((2 ** k - 1, 2 ** k, 2 ** k + 1))
        k += 1
    if dec:
        k = 1
        while 10 ** k - 1 <= limit:
            vals.update((10 ** k - 1, 10 ** k, 10 ** k + 1))
            k += 1
    vals = {v for v in vals if lo <= v <= limit}
    cap = 8 * limit if mined_limit is None else mined_limit
    for c in mined()[0]:
        for v in (c - 1, c, c + 1, c + 2, 2 * c, 2 * c + 1):
            if lo <= v <= cap:
                vals.add(v)
    return sorted(vals)


def with_mined(values, cap, lo=0):
    """values + the neighbourhood of every integer constant a changed tree introduced (nothing on the unchanged tree)"""
    out = set(values)
    for c in mined()[0]:
        for v in (c - 1, c, c + 1, c + 2, 2 * c, 2 * c + 1):
            if lo <= v <= cap:
                out.add(v)
    return sorted(out)


TAILS = [(b"\n", "LF"), (b"\xc3", "cut-2-byte-char"), (b"\xe2\x80", "cut-3-byte-char"), (b"\xf0\x9f\x98", "cut-4-byte-char"),
         (b"\xe2\x80\xa8", "LS"), (b"\r", "CR"), (b"\xc3\xa9", "complete-char")]


def _fill(n, salt=b""):
    """n bytes of LF-terminated lines of 509 bytes (no CR anywhere; the line length divides no block size)"""
    if n <= 0:
        return b""
    unit = b"v = f(%s);" % (salt or b"x") + b"/" * 498 + b"\n"
    out = unit * (n // len(unit) + 1)
    out = out[:n]
    return out[:-1] + b"\n" if n >= 1 else out


def block_files(quick):
    """(name, data, small): files whose size, whose last bytes, or one of whose CR LF pairs sit exactly on a multiple of
    a block size B.  small = cheap enough for the per-byte splitters"""
    blocks = [1 << 16, 1 << 20] if quick else [1 << 12, 1 << 13, 1 << 16, 1 << 17, 1 << 20, 1 << 21]
    blocks = sorted(set(blocks) | {c for c in mined()[0] if 64 <= c <= (1 << 23)})      # block sizes a changed tree introduced
    for B in blocks:
        small = B <= (1 << 17)
        # 1. file size on the boundary x what the last bytes are
        for size in (B - 1, B, B + 1, 2 * B, 3 * B):
            if size > (1 << 21) + 1 and quick:
                continue
            for tail, tname in (TAILS if size in (B, 2 * B, 3 * B) else TAILS[:2]):
                yield f"size={size}(B={B}),tail={tname}", _fill(size - len(tail)) + tail, small
        # 2. a CR LF pair around the boundary: the CR at offset B-2, B-1 (straddling), B - as the end of the DDBEGIN
        #    line, of a line inside the region (offsets counted from the file start and from the region start), of the
        #    DDEND line, and in a file without markers
        for off in (B - 2, B - 1, B) if not quick else (B - 1, B):
            head = b"// " + b"h" * (off - 11) + b" DDBEGIN"          # len == off: the CR is byte number `off`
            yield (f"DDBEGIN-line-CR@{off}(B={B})", head + b"\r\n" + b"keep\r\nl2\r\nl3\r\n// DDEND\r\ntail\r\n", small)
            yield (f"plain-line-CR@{off}(B={B})", _fill(off - 5) + b"last;" + b"\r\n" + b"next\r\nmore\r\n", small)
            pre = b"// DDBEGIN\n"
            yield (f"region-line-CR@region+{off}(B={B})", pre + _fill(off - 5) + b"last;" + b"\r\n" + b"next\r\n// DDEND\nt\n", small)
            yield (f"region-line-CR@file+{off}(B={B})", pre + _fill(off - 5 - len(pre)) + b"last;" + b"\r\n" + b"next\r\n// DDEND\nt\n", small)
            prefix = b"// DDBEGIN\r\n" + b"p" * (off - 8 - 12 - 2) + b"\r\n"      # len == off - 8
            yield (f"DDEND-line-CR@{off}(B={B})", prefix + b"// DDEND" + b"\r\n" + b"tail\r\n", small)


def crlf_never_split(parts):
    """C15's line rule on big inputs: no atom ends in CR while the next one starts with LF"""
    for i in range(len(parts) - 1):
        if parts[i].endswith(b"\r") and parts[i + 1].startswith(b"\n"):
            return f"atoms {i} and {i + 1} split a CR LF pair ({parts[i][-12:]!r} | {parts[i + 1][:12]!r})"
    return None


def block_boundary_loads(ck, quick, judge, atoms=("line", "symbol", "char", "jsstr", "attrs")):
    """load every block-boundary file with every splitter; judge(atom, name, data, line, t, out) states the property"""
    from splitx import impl_load
    for name, data, small in block_files(quick):
        for atom in atoms:
            if atom in ("char", "jsstr", "attrs") and not small:
                continue
            if atom == "char" and len(data) > (1 << 16) + 64 and quick:
                continue
            line, t, out = impl_load(atom, data)
            ck.count("boundary-load")
            ck.nontrivial(("boundary-load", name, atom))
            judge(atom, name, data, line, t, out)


def part_counts(quick):
    return around(2049 if quick else 4097, lo=3, pow2_from=5)


def dump_at_part_counts(ck, quick):
    """dump() / copy().dump() write before + parts + after for part counts around every power of two and ten (batched
    writers lose the atom that falls outside the last batch) - C06, and everything that reads written files"""
    import shutil
    import tempfile
    from runner import SCRATCH_ROOT
    from scale import _mk
    work = tempfile.mkdtemp(prefix="lvB-", dir=SCRATCH_ROOT)
    try:
        path = os.path.join(work, "t.txt")
        for n in around(4097 if quick else 70000, lo=1):
            for cls, flags in (("TestcaseLine", [True] * n), ("TestcaseSymbol", [i % 3 != 0 for i in range(n)])):
                parts = [b"%d;\n" % i for i in range(n)]
                for before, after in ((b"", b""), (b"B\n", b"A\n")):
                    t = _mk(cls, before, parts, flags, after, path)
                    want = before + b"".join(parts) + after
                    try:
                        t.dump()
                        got = open(path, "rb").read()
                    except Exception as e:  # pylint: disable=broad-except
                        got = b"<raised %s>" % type(e).__name__.encode()
                    ck.count("boundary-dump")
                    ck.nontrivial(("boundary-dump", cls, n, bool(before)))
                    if got != want:
                        ck.violation(f"[{cls}] dump() of {n} parts ({sum(flags)} reducible, prefix {before!r}) wrote {len(got)} bytes, "
                                     f"expected {len(want)}; the written file ends {got[-24:]!r}, the testcase ends {want[-24:]!r}",
                                     {"class": cls, "parts": n, "before": before.hex(), "after": after.hex()})
                        return
    finally:
        shutil.rmtree(work, ignore_errors=True)


def final_file_at_part_counts(ck, quick):
    """C01 with part counts around powers of two and ten: a run in which NO candidate is accepted ends with the
    untouched original; a run in which only the first line survives ends with that line"""
    from scale import _run, last_accepted_of
    for n in (with_mined([31, 32, 33, 255, 256, 257, 999, 1000, 1001, 1023, 1024, 1025, 2049], 9000, lo=3) if quick else part_counts(quick)):
        data = b"".join(b"line %d\n" % i for i in range(n))
        tests = [("nothing-accepted", lambda d, data=data: d == data)]
        if n in (33, 1025) or not quick:
            tests.append(("first-line-survives", lambda d: d.startswith(b"line 0\n")))
        for tname, f in tests:
            for strategy in ("minimize",) if n > 129 else ("minimize", "minimize-around"):
                run = _run(strategy, data, f, cap=20 * n + 100, light=n > 300)
                ck.count("boundary-final")
                ck.nontrivial(("boundary-final", n, tname, strategy))
                want = last_accepted_of(run, data)
                if run.exc is not None or run.final != want:
                    ck.violation(f"{strategy} on {n} line atoms, test '{tname}': run ended exc={run.exc} after {run.tests} tests; the final "
                                 f"file has {len(run.final)} bytes and ends {run.final[-20:]!r}, the last accepted version has "
                                 f"{len(want)} bytes and ends {want[-20:]!r}",
                                 {"atoms": n, "test": tname, "strategy": strategy, "tests": run.tests})
                    return


def rmslice_at_protected_counts(ck, quick):
    """C07 with the number of protected parts INSIDE the deleted window around powers of two and ten (recursion depth,
    per-part bookkeeping)"""
    from scale import _mk, ref_rm
    for k in around(2049 if quick else 20001, lo=1):
        n = 2 * k + 3
        parts = [b"p%d\n" % i for i in range(n)]
        flags = [i % 2 == 0 for i in range(n)]          # k+1 protected parts between the reducible ones
        nred = sum(flags)
        for lo, hi in ((0, nred), (1, nred - 1), (-nred - 2, nred + 2), (0, 1)):
            t = _mk("TestcaseLine", b"B", parts, flags, b"A", "/nonexistent")
            c = t.copy()
            try:
                c.rmslice(lo, hi)
                got = (c.parts, c.reducible, len(c))
            except BaseException as e:  # pylint: disable=broad-except
                got = ("raised " + type(e).__name__, None, None)
            clo, chi = max(0, lo if lo >= 0 else nred + lo), min(nred, hi)
            wp, wf = ref_rm(parts, flags, clo, chi)
            ck.count("boundary-rmslice")
            ck.nontrivial(("boundary-rmslice", k, lo, hi))
            if got != (wp, wf, nred - (chi - clo)) or t.parts != parts:
                ck.violation(f"rmslice({lo}, {hi}) on {n} parts with {n - nred} protected parts in the window: "
                             f"{got[0] if isinstance(got[0], str) else 'wrong parts / flags / len ' + str(got[2])} "
                             f"(expected {len(wp)} parts, len {nred - (chi - clo)})", {"parts": n, "protected": n - nred, "lo": lo, "hi": hi})
                return


def partner_at_distances(ck, quick):
    """C13 (balanced): an opening bracket whose partner is d atoms later, for d around powers of two and ten; the test
    needs every atom in between and ignores the brackets, so the pair can be deleted together and nothing else can"""
    from scale import _run
    ds = with_mined([2, 255, 256, 257, 1023, 1024, 1025, 4097], 9000, lo=2) if quick else around(8193, lo=2, pow2_from=7)
    for d in ds:
        for op, cl in ((b"{\n", b"}\n"), (b"f(\n", b");\n")) if d < 2000 or not quick else ((b"{\n", b"}\n"),):
            fill = b"".join(b"k%d;\n" % i for i in range(d - 1))
            data = op + fill + cl

            def f(x, fill=fill, data=data):
                return x == data or x == fill        # both brackets or neither; every atom in between is needed
            run = _run("minimize-balanced", data, f, cap=40 * d + 200, watchdog=300.0, light=d > 300)
            ck.count("boundary-partner")
            ck.nontrivial(("boundary-partner", d, op))
            if run.exc is not None or run.final != fill:
                left = [b for b in (op, cl) if b in run.final]
                ck.violation(f"minimize-balanced on {op!r} + {d - 1} needed atoms + {cl!r} (partner {d} atoms later): the run ended "
                             f"exc={run.exc} after {run.tests} tests with {left!r} still in the file although deleting the pair "
                             f"together is accepted", {"distance": d, "open": op.hex(), "close": cl.hex(), "tests": run.tests})
                return


def long_run_recurrence(ck, quick):
    """C12 (no verdict is paid for twice) in runs of ten thousand tests and more in which a candidate rejected at the
    very beginning comes back at the very end: the test accepts the original with a growing hole behind its first p+1
    lines, so every sweep at chunk size 1 removes exactly one line (an ordinary quadratic ddmin run), and the last sweep
    proposes the run's FIRST candidate again"""
    import hashlib
    from scale import _run
    plans = [(144, 128)] if quick else [(80, 64), (144, 128), (300, 256)]
    for c in mined()[0]:
        # a limit on the number of tests / remembered candidates introduced by a changed tree: a run long enough to pass it
        if 2000 < c <= 120000:
            big = 128
            while big * big // 2 < c + c // 8:
                big *= 2
            plans.append((big + 16, big))
    for n, big in sorted(set(plans)):
        p = n - big
        lines = [b"line %d\n" % i for i in range(n)]
        data = b"".join(lines)
        good = {hashlib.sha1(b"".join(lines[: p + 1] + lines[p + 1 + k:])).digest() for k in range(big)}
        run = _run("minimize", data, lambda d: hashlib.sha1(d).digest() in good, cap=300000, watchdog=900.0, light=True)
        ck.count("boundary-long-run")
        ck.nontrivial(("boundary-long-run", n))
        ck.cov.setdefault("long_runs", {})[f"n={n}"] = {"tests": run.tests, "proposals": sum(1 for k, _ in run.steps if k == "P")}
        first, bad = {}, None
        for k, d, _a in run.seen:
            h = hashlib.sha1(d).digest()
            if h in first and not (d == data and first[h] == 1 and k > 1 and list(first.values()).count(1) <= 1):
                bad = f"test {k} saw the same {len(d)} bytes as test {first[h]} ({k - first[h] - 1} tests in between)"
                break
            first.setdefault(h, k)
        if not bad and run.test_count != run.tests:
            bad = f"lithium reports {run.test_count} tests, the test ran {run.tests} times"
        if not bad and (run.exc is not None or run.final != b"".join(lines[: p + 1])):
            bad = f"the run ended exc={run.exc} with {run.final.count(10)} lines instead of the {p + 1} that cannot be removed"
        if bad:
            ck.violation(f"minimize on {n} lines, test = 'original with a growing hole behind line {p}' ({run.tests} tests): {bad}",
                         {"lines": n, "prefix": p + 1, "tests": run.tests})


def _regex_samples(pattern, limit=4):
    """a few strings matching the regular expression `pattern` (str), built from its parse tree: literals as they
    are, classes by a member, repeats once or twice, each alternative"""
    try:
        import re._parser as sre_parse          # Python >= 3.11
    except ImportError:                         # pragma: no cover
        import sre_parse
    try:
        tree = sre_parse.parse(pattern)
    except Exception:  # pylint: disable=broad-except
        return []

    def member(items):
        for op, av in items:
            name = str(op)
            if name == "LITERAL":
                return chr(av)
            if name == "RANGE":
                return chr(av[0])
            if name == "CATEGORY":
                cat = str(av)
                return {"CATEGORY_DIGIT": "7", "CATEGORY_SPACE": " ", "CATEGORY_WORD": "w"}.get(cat, "x")
        return "x"

    def gen(seq, pick):
        out = [""]
        for op, av in seq:
            name = str(op)
            if name == "LITERAL":
                piece = [chr(av)]
            elif name == "NOT_LITERAL":
                piece = ["x" if chr(av) != "x" else "y"]
            elif name == "ANY":
                piece = ["x"]
            elif name == "IN":
                neg = av and str(av[0][0]) == "NEGATE"
                piece = ["~" if neg else member(av)]
            elif name in ("MAX_REPEAT", "MIN_REPEAT"):
                lo, hi, sub = av
                body = gen(sub, pick)
                n = max(lo, 1) if hi else 0
                piece = [b * n for b in body[:2]] + ([b * (n + 1) for b in body[:1]] if hi and hi > n else [])
            elif name == "SUBPATTERN":
                piece = gen(av[-1], pick)
            elif name == "BRANCH":
                piece = [x for alt in av[1] for x in gen(alt, pick)[:2]]
            elif name == "CATEGORY":
                piece = [member([(op, av)])]
            else:                                # AT, ASSERT, GROUPREF ...: contribute nothing
                piece = [""]
            out = [a + b for a in out[:limit] for b in (piece[:limit] or [""])][: limit * 2]
        return out
    try:
        return [s for s in dict.fromkeys(gen(tree, 0)) if s][:limit]
    except Exception:  # pylint: disable=broad-except
        return []


def mined_texts(maxlen=80):
    """byte strings built from the text constants a changed tree introduced: each as it is and, where it reads as a
    regular expression, a few strings matching it.  Empty on the unchanged tree.  They join the fragment alphabets of
    the splitter checks and the outputs of the child processes: a special-cased text is searched for where it matters"""
    out = []
    for t in mined()[1]:
        cands = [t]
        if any(ch in t for ch in "\\[(.*+?^$|"):
            cands += _regex_samples(t)
        for c in cands:
            try:
                b = c.encode("latin-1")
            except UnicodeEncodeError:
                b = c.encode("utf-8")
            if 0 < len(b) <= maxlen and b not in out:
                out.append(b)
    return out
