#!/usr/bin/env python3
"""tools/summarise_eval.py <log of tools/eval_seeds_parallel.sh> [--write]
Summarises a replay of the stored seeded changes; with --write also rewrites seeded/EVALUATION.md."""
import collections
import re
import subprocess
import sys

log = open(sys.argv[1]).read().splitlines()
by = collections.defaultdict(list)
for line in log:
    m = re.match(r"\[(C\d\d(?:-\d+)?)\] (.*)", line)
    if m:
        by[m.group(1)].append(m.group(2))
rows, counts = [], collections.Counter()
for s in sorted(by, key=lambda x: (x[:3], int(x[4:] or 1))):
    ls = by[s]
    demo = [x for x in ls if x.startswith("tests:")]
    t = dm = "?"
    if demo:
        mm = re.match(r"tests: (.*?) \| demo clean=(\d+) patched=(\d+)", demo[0])
        if mm:
            t, dm = mm.group(1).split(" in ")[0], f"{mm.group(2)}/{mm.group(3)}"
    if any("PATCH DOES NOT APPLY" in x for x in ls):
        res, msg = "patch does not apply", ""
    else:
        viol = [x for x in ls if x.startswith("VIOLATION")]
        msgs = [x for x in ls if not x.startswith(("VIOLATION", "tests:")) and "rc=" not in x]
        res = "NOT REPORTED" if not viol else ("pin only" if "no-failing-input" in viol[0] else "input")
        msg = msgs[0].strip()[:150].replace("|", "/") if msgs else ""
    counts[res] += 1
    rows.append(f"| {s} | {t} | {dm} | {res} | {msg} |")
print(dict(counts))
for r in rows:
    if "| input |" not in r:
        print(r[:220])
if "--write" in sys.argv:
    head = subprocess.run(["git", "-C", "/repo", "rev-parse", "--short", "HEAD"], capture_output=True, text=True).stdout.strip()
    vh = subprocess.run(["git", "-C", "/verif", "rev-parse", "--short", "HEAD"], capture_output=True, text=True).stdout.strip()
    out = ["# Last full evaluation of the stored seeded changes", "",
           f"Produced by `tools/eval_seeds_parallel.sh -j 5 $(ls seeded)` + `tools/summarise_eval.py <log> --write` against /repo at {head}",
           f"with the harness of /verif commit {vh} (or its working tree at that time). Each change was applied to its own scratch worktree;",
           "its own property's quick check was pointed at it. `input` = the check printed a VIOLATION line with a concrete failing",
           "input; the first message line of the report is shown.", "",
           f"Totals: {dict(counts)}", "",
           "| seed | tests with patch | demo clean/patched | result | first report line |", "|---|---|---|---|---|"] + rows
    open("/verif/seeded/EVALUATION.md", "w").write("\n".join(out) + "\n")
