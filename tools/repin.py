#!/usr/bin/env python3
"""Copy the named definitions from coq/Gen/GenTables.v into coq/Model/Pins.v (to be used ONLY
after a reviewed change of the source, e.g. a fix: commit, together with the matching model change)."""
import re
import sys
src = open('/verif/coq/Gen/GenTables.v').read()
pins = open('/verif/coq/Model/Pins.v').read()
for name in sys.argv[1:]:
    pat = r"Definition %s .*?\.\n(?=Definition|End)" % re.escape(name)
    m, m2 = re.search(pat, src, re.S), re.search(pat, pins, re.S)
    pins = pins.replace(m2.group(0), m.group(0))
    print("repinned", name)
open('/verif/coq/Model/Pins.v', 'w').write(pins)
