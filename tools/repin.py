#!/usr/bin/env python3
"""Copy the named definitions from coq/Gen/GenTables.v into coq/Model/Pins.v (to be used ONLY
after a reviewed change of the source, e.g. a fix: commit, together with the matching model change)."""
import re
import sys
if sys.argv[1:2] == ["--src"]:
    GEN, PIN, names = '/verif/coq/Gen/GenSrc.v', '/verif/coq/Model/PinsSrc.v', sys.argv[2:]
else:
    GEN, PIN, names = '/verif/coq/Gen/GenTables.v', '/verif/coq/Model/Pins.v', sys.argv[1:]
src = open(GEN).read()
pins = open(PIN).read()
for name in names:
    pat = r"Definition %s .*?\.\n(?=Definition|End)" % re.escape(name)
    m, m2 = re.search(pat, src, re.S), re.search(pat, pins, re.S)
    pins = pins.replace(m2.group(0), m.group(0))
    print("repinned", name)
open(PIN, 'w').write(pins)
