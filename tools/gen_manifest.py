#!/usr/bin/env python3
"""Writes /verif/MANIFEST.json from the table below (kept here so that it stays consistent)."""
import json
import os

V = os.path.dirname(os.path.dirname(os.path.abspath(__file__)))
TB = ("Trusted base: Coq 8.16.1 kernel (vm_compute in Examples/witnesses, no native_compute); no axioms "
      "(every Print Assumptions under coq/Props must be 'Closed under the global context'); the "
      "fail-closed translator tools/translate.py + gen_tables.py; extraction with ExtrOcamlBasic only "
      "and coq/Extract/driver.ml; the Python correspondence harness. ")

CHECKS = {
 "C01": dict(
  text="Theorems C01_final_is_last_accepted / C01_basis / C01_test_sees_candidate / C01_loop_follows_lsteps are "
       "proved in Coq for EVERY strategy (any resumption talking to the driver through try_testcase/feedback), "
       "every verdict function (incl. non-deterministic, non-monotone, raising) and every input, by invariants "
       "of the driver loop with no bound on the number of tests. The hand-written driver model is tied to the "
       "code by running model (extracted to OCaml) and implementation on the same inputs and verdict histories "
       "and diffing complete event traces (exhaustive DFS over verdict sequences on small inputs, all 7 "
       "strategies + move; random beyond). C01_session_final_is_last_accepted proves the same for a following run() on "
       "a RE-USED Lithium object (any previous world: counters, temp dir, stale last_interesting); the harness runs "
       "consecutive runs on one Lithium / testcase / strategy object and injects transient write faults. "
       "C01_final_is_last_accepted_test_changes_file (Model/Scribble.v) proves it for tests that CHANGE the testcase file while "
       "they run; the harness runs such tests (append / truncate / delete / stamp the head), boundary sweeps over part counts and "
       "the same scenario set in child interpreters under -O, -W error, a non-UTF-8 locale and DEBUG logging.",
  note=TB + "Assumes content(tc0) = bytes on disk (proved as C06 for the loaders); the test sees only file/args/prefix; "
       "SHA-512 collision-freeness (model de-duplicates on content). Strategies without a concrete model drive the "
       "model driver through their recorded proposal list.",
  tech="Coq proof (driver-loop invariant, all strategies) + extracted-model vs implementation trace correspondence",
  ref="4/C01"),
 "C02": dict(
  text="C02_abort_restores, C02_hooks_finished and C02_kill_tempdir are Coq theorems over the generic driver model: "
       "for every strategy, verdict function and abort point the file is restored to the last accepted version and "
       "init/cleanup run exactly once around all tests; for every cut of the trace inside a test the highest "
       "'*-interesting' copy (else 'original') equals the last accepted version. One corner (a strategy that "
       "writes the file itself and raises before any candidate was tested) is proved NOT restored "
       "(C02_abort_restores_unrestricted_refuted); C02_minimize_like_restores proves it unreachable for minimize and "
       "minimize-collapse-brace (the only shipped strategy that writes the file itself). Correspondence: "
       "aborts with 6 exception classes at every test index of explored runs; real `python -m lithium` children "
       "killed with SIGKILL; C02_session_abort_restores covers a re-used Lithium object; scribble_invisible / "
       "C02_abort_restores_test_changes_file / C02_kill_tempdir_test_changes_file (Model/Scribble.v) cover tests that change the "
       "testcase file while they run (Lithium never reads it back: same trace, temp dir, counters, status).",
  note=TB + "Durability of already-written temp files under SIGKILL and the atomicity of writes are OS behaviour the model "
       "assumes (partial for the kill half); cleanup() itself raising is outside the property.",
  tech="Coq proof (driver-loop invariant incl. finally/hooks/temp-dir) + trace correspondence with injected exceptions",
  ref="4/C02"),
 "C07": dict(
  text="C07_rmslice_spec etc.: rmslice/_slice_xlat/__len__/copy are REGENERATED from testcases.py on every run by "
       "tools/translate.py, proved equal to the model (GenEq), and the model is proved to delete exactly the "
       "reducible atoms of rank [clamp a, clamp b) for all layouts and all integers a,b (induction, no bound). "
       "Corollaries: empty range = identity on the whole object, full range = exactly the non-reducible parts, len after = len - width. "
       "Additionally model and implementation are compared on every flag layout up to length 7/9 x all index pairs.",
  note=TB + "Aliasing/object identity of copy() is outside the functional model and checked on the implementation only.",
  tech="Coq proof over a model regenerated from the Python source (translator + GenEq) + exhaustive correspondence",
  ref="4/C07"),
 "C10": dict(
  text="C10_exact_core (minimize with default options under a monotone test with a unique minimal core returns exactly the core, "
       "for every n, every core, every input with distinct atoms) and C10_test_count (total tests incl. the initial check "
       "<= (2m+1)*ceil(log2 n)+5m+8, proved with the exact constants by a potential function for every n <= 2^31 and every core) are "
       "Coq theorems; C10_test_count_unbounded_n_refuted proves the bound FALSE beyond 2^31 atoms (default --max 2^30). Tie: trace "
       "correspondence on every subset core for n <= 8/10 x line/char/symbol, clustered/spread/random cores up to n = 4096.",
  note=TB + "The count theorem carries the hypothesis n <= 2^31 (the statement is refuted in Coq beyond it; not replayable on the implementation).",
  tech="Coq proof (corollary of 1-minimality; potential function for the count) + trace correspondence over all small cores",
  ref="4/C10"),
 "C11": dict(
  text="C11_rejected_original / C11_nothing_to_reduce / C11_status / C11_check_only are Coq theorems over the generic "
       "driver model for every strategy and verdict function: a rejected original means exactly one test, no write, "
       "non-zero status; status 0 iff a later candidate was accepted (or nothing to reduce); check-only runs one "
       "test and never writes. C11_session_* prove the same for a following run on a re-used Lithium object "
       "(every previous world) and prove that WITHOUT the per-run reset of the written flag they fail "
       "(C11_session_without_reset_refuted / _clobbers: defect b8a6434). Tied to the code by trace correspondence "
       "including write events observed with an audit hook, and by two-run sessions on one object.",
  note=TB + "Write detection on the implementation relies on CPython audit events for open/rename/remove on the testcase path.",
  tech="Coq proof (case analysis + trace invariant) + trace correspondence with write observation",
  ref="4/C11"),
 "C12": dict(
  text="C12_log and C12_no_duplicates are Coq theorems over the generic driver model: for every strategy, verdict "
       "function and run (finished or aborted) the temp dir is exactly original + one correctly tagged, "
       "correctly numbered copy per answered test holding the bytes the file had during that test, prefixes are "
       "1,2,3..., test_count equals the number of tests, and tests after the first see pairwise distinct files. "
       "Tied to the code by comparing temp-dir listings, file bytes, prefixes and counters of real runs with the model.",
  note=TB + "SHA-512 collision-freeness is assumed (the model de-duplicates on content equality).",
  tech="Coq proof (counter and tried-set invariants) + temp-dir/trace correspondence",
  ref="4/C12"),

 "C03": dict(
  text="C03_one_minimal and C03_second_run_noop are Coq theorems over the minimize model: for EVERY deterministic test f "
       "(no monotonicity), every input with non-empty atoms, every power-of-two --max, repeat in {last, always}: the run "
       "finishes, the final testcase is a deletion of the original that f accepts, and deleting any single remaining "
       "reducible atom is rejected; a follow-up run with chunk size 1 accepts nothing. Termination comes from C09. "
       "Tie: trace correspondence (exhaustive DFS over verdict sequences = all deterministic tests up to observational "
       "equivalence on small inputs; non-monotone function families on larger ones) + regenerated Testcase/util definitions.",
  note=TB + "Atoms non-empty and content(tc0) = file are C06's theorems; SHA-512 collision-freeness.",
  tech="Coq proof (tried-set + last-sweep invariants) + trace correspondence with DFS over verdict sequences",
  ref="4/C03"),
 "C04": dict(
  text="C04_generic (any strategy whose candidates are deletions of the current best), C04_minimize, C04_pairs (minimize-around, "
       "minimize-balanced with the experimental move off): Coq theorems that every file handed to the test and the final file are "
       "the original with reducible atoms deleted (before/after and non-reducible parts in place), for every verdict function, "
       "option setting with max >= 1 and clock. Tie: concrete Coq models of the three strategies compared event by event with the "
       "implementation (DFS over verdicts, random layouts), rmslice regenerated from the source.",
  note=TB + "The experimental move is excluded by the property itself.",
  tech="Coq proof (deleting-strategy invariant over rmslice spec) + trace correspondence",
  ref="4/C04"),
 "C05": dict(
  text="C05_generic (EVERY strategy whose candidates and raw writes keep the frame: all test files and the final file are P ++ m ++ S), "
       "C05_deleting (minimize/around/balanced keep any frame), C05_collapse (collapse-brace with ANY tiling splitter: raw write and re-split "
       "candidate keep the frame), C05_loaded / C05_loaded_char (a loaded marker file is framed by the marker lines; char mode also "
       "protects the byte before the DDEND line), and the end-to-end corollaries C05_minimize/pairs/collapse_loaded: Coq theorems for "
       "every verdict function, input and splitter. replace-properties-by-globals: C05_replace_properties / _loaded / _candidate_shape over its "
       "CONCRETE pass (ReplaceProps.v), and C05_move / C05_move_loaded / C05_move_candidate_is_permutation over a CONCRETE model of the "
       "experimental move (PairsMove.v) - no assumption left for either. Only replace-arguments is covered by C05_generic under the "
       "monitored assumption that its candidates never change before/after (its real candidates are replayed through the model "
       "driver). Tie: "
       "trace correspondence over marker files x 7 strategies (+move) x 5 splitters with a prefix/suffix oracle.",
  note=TB + "Partial for replace-arguments only: 'candidates keep before/after' is monitored on the implementation, not proved.",
  tech="Coq proof (frame invariant of the driver loop + per-strategy frame preservation) + trace correspondence",
  ref="4/C05"),
 "C06": dict(
  text="C06_line/char/symbol/jsstr/attrs + C06_load_generic: Coq theorems that for EVERY byte string the loaded testcase writes back to "
       "exactly that string, every atom is non-empty, one flag per atom, and the only possible error is the marker LithiumError "
       "(jsstr's RuntimeError and fuel exhaustion are proved unreachable). Tie: the models (byte-level splitlines, marker scan, the five "
       "split_parts) are compared with the real classes on every string up to a length bound over adversarial alphabets (invalid UTF-8, "
       "all terminators, marker words, quotes/escapes, tag syntax) and random long strings; pattern texts / constants are regenerated "
       "from the source and pinned (GenEqSplit).",
  note=TB + "Modelled, not verified: CPython's utf-8/surrogateescape decode + str.splitlines (as PyLines.v) and the re module (as hand-readable scanners).",
  tech="Coq proof (cursor invariants, all byte strings) + exhaustive model/implementation comparison + pinned patterns",
  ref="4/C06"),
 "C08": dict(
  text="C08_spec: the two scanning loops of Testcase.load equal the specification 'lines strictly between the first DDBEGIN line and the "
       "first later DDEND line' for every byte string; C08_both_words_*, C08_error_is_early (the error is raised before split_parts for "
       "any splitter), C08_no_markers, C08_contains (find != -1 is substring occurrence). Tie: every arrangement of up to 4/5 lines of 7 "
       "kinds x 4 terminators x 5 splitters against the model and an independent reference; early rejection through Lithium.main().",
  note=TB + "str.splitlines is modelled (PyLines.v, validated exhaustively under C06).",
  tech="Coq proof (induction over the line list) + exhaustive arrangement comparison",
  ref="4/C08"),
 "C09": dict(
  text="C09_minimize_like (minimize and minimize-collapse-brace via the post-round callback), C09_pairs (minimize-around, "
       "minimize-balanced): Coq theorems that for EVERY verdict function (inconsistent answers included), clock and valid option setting "
       "the run neither exhausts fuel nor fails internally (balanced's assert, index errors, the bounded skip loop are proved "
       "unreachable) and performs at most (n+1)(n+ceil(log2 n)+2)+1 tests (potential-function proofs). C09_collapse_line proves the "
       "bound end to end for minimize-collapse-brace on every file loaded in line mode (the atoms stay lines, so the re-split never "
       "adds atoms); C09_collapse_char does the same for char mode (C09_collapse_never_longer), and "
       "C09_collapse_symbol_custom_post_refuted proves the side condition false for user-supplied symbol delimiters. "
       "replace-properties-by-globals has a CONCRETE model of its pass (ReplaceProps.v: both regular expressions as byte "
       "scanners, the words dictionary, chunk grouping, substitution): C09_replace_properties / C09_replace_properties_square prove no fuel "
       "exhaustion, no internal error and at most 1 + floor(B/2)*(log2 c0 + 2 + B) <= (B+2)^2 tests for every verdict function, with no "
       "interface assumption (the older C09_replace_properties_partial over an abstract pass is kept). "
       "C09_replace_arguments_refuted proves the outer loop of replace-arguments unbounded, and the concrete replay on "
       "the implementation is a known finding. Tie: trace correspondence incl. worst-case search by DFS, adversarial long inputs, the "
       "concrete replace-properties model on all five splitters, and the scanners against CPython's re.",
  note=TB + "Partial: replace-arguments-by-globals has no Coq model of its pass (outer loop only; it violates the property: known finding); "
       "collapse-brace end to end is proved for the line and char splitters (symbol / JS-string / attribute: side condition post_ok, "
       "explored; refuted for custom symbol delimiters).",
  tech="Coq proof (potential functions) for 4 chunk strategies and replace-properties + capped exploration for replace-arguments",
  ref="4/C09"),
 "C13": dict(
  text="C13_around / C13_balanced (no limit), C13_around_any_unexpired_limit / C13_balanced_any_unexpired_limit (any time limit that no "
       "clock reading exceeds) and C13_balanced_with_move (the experimental move switched on; finished runs): Coq theorems over the concrete models of the pair strategies: with a deterministic test, chunk "
       "size down to 1, repeat last/always, no limit, a finished run ends at a testcase where every 'delete both neighbours' (around) / "
       "'delete a balanced atom' and 'delete an unbalanced atom with its partner' (balanced, all-reducible splitters) candidate is rejected; "
       "partner is an independent 8-line definition. Tie: trace correspondence (DFS over verdicts on all small bracket arrangements, "
       "mixed-bracket and non-UTF-8 atoms, far deadlines, same strategy object on two files); the fixpoint oracle is also applied to "
       "runs with the experimental move (concrete model PairsMove.v).",
  note=TB + "Reading of 'partner' fixed in DESIGN.md (running balance must not dip below zero). Termination is C09_pairs.",
  tech="Coq proof (last-pass invariants) + trace correspondence",
  ref="4/C13"),
 "C14": dict(
  text="C14_blocks (every candidate in every reachable state: one contiguous block of the current best, power-of-two size at most the "
       "effective maximum, never larger than before, below --min only once at most --min atoms remain), C14_repeat / C14_single_sweep "
       "(round-end decision), C14_deadline*, C14_is_power_of_two, C14_largest_power_of_two_smaller_than (all integers): Coq theorems. "
       "Tie: util.py regenerated from source (GenEqUtil), option tables / process_args pinned (GenEqStrat), trace correspondence over "
       "an option grid with scripted clocks, and the start-up validation through argparse.",
  note=TB + "Deadline claims are about clock READINGS (time.time is modelled as an arbitrary stream); --min <= --max assumed for the --min rule.",
  tech="Coq proof (reachable-state invariant of the minimize state machine) + correspondence over option/clock grid",
  ref="4/C14"),
 "C15": dict(
  text="C15_line_* (atoms are exactly the lines: terminated except the last, LF only last, CR-LF never split), C15_char_*, "
       "C15_symbol_cuts (boundaries are exactly the positions after a cut-after byte / before a cut-before byte, any disjoint sets) for "
       "all byte strings; C15_symbol_overlap_refuted documents the overlapping-set behaviour (known finding). Tie: exhaustive strings x "
       "delimiter-set grid incl. regex-special bytes, programmatic and through --cut-before/--cut-after.",
  note=TB + "The cutter regex is modelled by a direct scanner; its template and defaults are pinned to the source (GenEqSplit).",
  tech="Coq proof (all byte strings, all disjoint delimiter sets) + exhaustive comparison incl. the command line",
  ref="4/C15"),
 "C16": dict(
  text="C16_js: the reducible spans produced by the model of TestcaseJsStr.split_parts (rewinds, header/footer and gap merges included) "
       "equal an independent position-based reference tokenizer for every byte string; C16_tok_len_cases (escapes are cut whole); "
       "C16_attrs: every reducible atom has attribute shape and lies inside a tag (structural walk), for every byte string; both "
       "splitters total and loss-free. Tie: exhaustive comparison of model, implementation and Python twins of the references.",
  note=TB + "CPython's re semantics for the five patterns is modelled by scanners pinned to the pattern texts.",
  tech="Coq proof (equivalence with a reference tokenizer / structural grammar) + exhaustive comparison",
  ref="4/C16"),
 "C17": dict(
  text="C17_isolation / C17_scan_isolation (nothing after the test name changes the configuration; the test gets its arguments verbatim), "
       "C17_options_take_effect (the early parser sees exactly the items of the main parser), C17_resolution / C17_syspath_restored "
       "(path, cwd, built-in, error; search path restored) are Coq theorems over a token-level model of argparse/importlib AS CONFIGURED "
       "by Lithium; C17_old_early_parser_refuted and C17_sys_modules_shadow document the repaired / remaining defects. Tie: ~700 (6000) "
       "command lines through the real process_args compared field by field with the model.",
  note=TB + "Partial by nature: argparse and importlib are modelled on a stated token domain (full option names, no abbreviations, no '--', "
       "no clustered flags), not verified.",
  tech="Coq proof over a model of the two-parser scheme + command-line correspondence",
  ref="4/C17"),
 "C18": dict(
  text="C18_timeout/finished/posix/reported_code/crashes/hangs: Coq theorems about the decision function, which is REGENERATED from the "
       "if/elif chain of timed_run and from crashes.py/hangs.py on every run (GenEqStatus). The runtime half (timeout detection, kill and "
       "reap, byte-exact capture in both modes) cannot be exhibited by a model and is explored against ground truth: one child per exit "
       "code 0..255, per terminating signal, sleeps around the limit, outputs up to 1 MiB on both streams.",
  note=TB + "Partial: communicate(timeout)/kill/pipes are OS+CPython behaviour (explored, margins 0.15-0.3 s).",
  tech="Coq proof of the regenerated decision chain + child-process exploration of the runtime half",
  ref="4/C18"),
 "C19": dict(
  text="C19_outputs_spec/modes_agree, C19_diff_spec/modes_agree, C19_repeat, C19_replace_*: Coq theorems about the decision logic of "
       "outputs, diff_test and repeat (regex matching as a parameter, filecmp and str.replace modelled). Tie: the real modules with "
       "real children in both capture modes compared with the model and with the documented meaning (forced equal mtimes for diff_test).",
  note=TB + "Regular-expression matching is a parameter of the model; process execution is C18's runtime half.",
  tech="Coq proof of the decision logic + child-process correspondence in both capture modes",
  ref="4/C19"),
 "C20": dict(
  text="C20_lowest_free, C20_concurrent (EVERY schedule of k runs: distinct fresh directories, nothing pre-existing touched), "
       "C20_concurrent_progress, C20_fault_stops, C20_terminates: Coq theorems over an atomic-mkdir model whose caught exception class is "
       "pinned to the source. Tie: the real create_temp_dir over a stubbed pathlib/os layer for every subset of tmp1..5 x fault, every "
       "interleaving of 2-3 runs at exists()/mkdir() granularity, the real file system, 2-16 racing processes, and three "
       "main() runs in one directory (two on the same Lithium object).",
  note=TB + "Atomicity of mkdir(2) and EEXIST for existing names of any kind are OS behaviour (assumed).",
  tech="Coq proof over all schedules of an atomic-mkdir model + stubbed/real-FS/racing-process correspondence",
  ref="4/C20"),
}

NOT_YET = {}


def main():
    checks = []
    for pid in sorted(CHECKS):
        c = CHECKS[pid]
        checks.append({
            "property_id": pid,
            "quick_cmd": f"./check {pid} --tier quick",
            "thorough_cmd": f"./check {pid} --tier thorough",
            "evidence_file": f"/verif/evidence/{pid}.json",
            "replay_cmd_template": f"./check {pid} --replay {{path}}",
            "engine": "coq-model+correspondence",
            "level_claimed": {"category": c.get("cat", "proof"), "text": c["text"],
                              "design_ref": "DESIGN.md section " + c["ref"]},
            "level_note": c["note"],
            "technique": c["tech"],
        })
    na = [{"property_id": "C%02d" % i, "reason": NOT_YET.get("C%02d" % i,
           "check not built yet (build in progress; see DESIGN.md section 7)")}
          for i in range(1, 21) if "C%02d" % i not in CHECKS]
    m = {
        "version": 1,
        "setup_cmd": "tools/build.sh",
        "hooks": {"guard": "MOZILLASECURITY_LITHIUM_VERIF",
                  "enable": "no hooks: all observation is from outside the repository code (scripted test "
                            "object, audit hook, clock shim)",
                  "baseline_off_cmd": "cd /repo && /venv/bin/python -m pytest -ra -q -p no:cacheprovider --timeout=900",
                  "source_commits": [], "add_only": True},
        "engines": [{"name": "coq-model+correspondence", "path": "/verif/check",
                     "serves_properties": sorted(CHECKS),
                     "kind_free_text": "Coq 8.16 development (coq/) re-built on every run against definitions "
                                       "regenerated from /repo; model extracted to OCaml and diffed against the "
                                       "implementation on generated cases; direct oracles search for failing inputs"}],
        "checks": checks,
        "not_applicable": na,
        "notes": "fix: commits in /repo repair genuine defects found by these checks; see known_findings.json and DESIGN.md section 5.",
    }
    json.dump(m, open(os.path.join(V, "MANIFEST.json"), "w"), indent=1)


if __name__ == "__main__":
    main()
