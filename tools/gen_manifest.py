#!/usr/bin/env python3
"""Writes /verif/MANIFEST.json from the table below (kept here so that it stays consistent)."""
import json
import os

V = os.path.dirname(os.path.dirname(os.path.abspath(__file__)))
TB = ("Trusted base: Coq 8.16.1 kernel (vm_compute in Examples/witnesses, no native_compute); no axioms "
      "(every Print Assumptions under coq/Props must be 'Closed under the global context'); the "
      "fail-closed translator tools/translate.py + gen_tables.py; extraction with ExtrOcamlBasic only "
      "and coq/Extract/driver.ml; the Python correspondence harness. ")

CHECKS = {
 "C01": dict(
  text="Theorems C01_final_is_last_accepted / C01_basis / C01_test_sees_candidate / C01_loop_follows_lsteps are "
       "proved in Coq for EVERY strategy (any resumption talking to the driver through try_testcase/feedback), "
       "every verdict function (incl. non-deterministic, non-monotone, raising) and every input, by invariants "
       "of the driver loop with no bound on the number of tests. The hand-written driver model is tied to the "
       "code by running model (extracted to OCaml) and implementation on the same inputs and verdict histories "
       "and diffing complete event traces (exhaustive DFS over verdict sequences on small inputs, all 7 "
       "strategies + move; random beyond).",
  note=TB + "Assumes content(tc0) = bytes on disk (proved as C06 for the loaders); the test sees only file/args/prefix; "
       "SHA-512 collision-freeness (model de-duplicates on content). Strategies without a concrete model drive the "
       "model driver through their recorded proposal list.",
  tech="Coq proof (driver-loop invariant, all strategies) + extracted-model vs implementation trace correspondence",
  ref="4/C01"),
 "C02": dict(
  text="C02_abort_restores, C02_hooks_finished and C02_kill_tempdir are Coq theorems over the generic driver model: "
       "for every strategy, verdict function and abort point the file is restored to the last accepted version and "
       "init/cleanup run exactly once around all tests; for every cut of the trace inside a test the highest "
       "'*-interesting' copy (else 'original') equals the last accepted version. One corner (a strategy that "
       "writes the file itself and raises before any candidate was tested) is proved NOT restored "
       "(C02_abort_restores_unrestricted_refuted) and shown unreachable for shipped strategies. Correspondence: "
       "aborts with 6 exception classes at every test index of explored runs.",
  note=TB + "Durability of already-written temp files under SIGKILL and the atomicity of writes are OS behaviour the model "
       "assumes (partial for the kill half); cleanup() itself raising is outside the property.",
  tech="Coq proof (driver-loop invariant incl. finally/hooks/temp-dir) + trace correspondence with injected exceptions",
  ref="4/C02"),
 "C07": dict(
  text="C07_rmslice_spec etc.: rmslice/_slice_xlat/__len__/copy are REGENERATED from testcases.py on every run by "
       "tools/translate.py, proved equal to the model (GenEq), and the model is proved to delete exactly the "
       "reducible atoms of rank [clamp a, clamp b) for all layouts and all integers a,b (induction, no bound). "
       "Additionally model and implementation are compared on every flag layout up to length 7/9 x all index pairs.",
  note=TB + "Aliasing/object identity of copy() is outside the functional model and checked on the implementation only.",
  tech="Coq proof over a model regenerated from the Python source (translator + GenEq) + exhaustive correspondence",
  ref="4/C07"),
 "C11": dict(
  text="C11_rejected_original / C11_nothing_to_reduce / C11_status / C11_check_only are Coq theorems over the generic "
       "driver model for every strategy and verdict function: a rejected original means exactly one test, no write, "
       "non-zero status; status 0 iff a later candidate was accepted (or nothing to reduce); check-only runs one "
       "test and never writes. Tied to the code by trace correspondence including write events observed with an "
       "audit hook.",
  note=TB + "Write detection on the implementation relies on CPython audit events for open/rename/remove on the testcase path.",
  tech="Coq proof (case analysis + trace invariant) + trace correspondence with write observation",
  ref="4/C11"),
 "C12": dict(
  text="C12_log and C12_no_duplicates are Coq theorems over the generic driver model: for every strategy, verdict "
       "function and run (finished or aborted) the temp dir is exactly original + one correctly tagged, "
       "correctly numbered copy per answered test holding the bytes the file had during that test, prefixes are "
       "1,2,3..., test_count equals the number of tests, and tests after the first see pairwise distinct files. "
       "Tied to the code by comparing temp-dir listings, file bytes, prefixes and counters of real runs with the model.",
  note=TB + "SHA-512 collision-freeness is assumed (the model de-duplicates on content equality).",
  tech="Coq proof (counter and tried-set invariants) + temp-dir/trace correspondence",
  ref="4/C12"),
}

NOT_YET = {}


def main():
    checks = []
    for pid in sorted(CHECKS):
        c = CHECKS[pid]
        checks.append({
            "property_id": pid,
            "quick_cmd": f"./check {pid} --tier quick",
            "thorough_cmd": f"./check {pid} --tier thorough",
            "evidence_file": f"/verif/evidence/{pid}.json",
            "replay_cmd_template": f"./check {pid} --replay {{path}}",
            "engine": "coq-model+correspondence",
            "level_claimed": {"category": c.get("cat", "proof"), "text": c["text"],
                              "design_ref": "DESIGN.md section " + c["ref"]},
            "level_note": c["note"],
            "technique": c["tech"],
        })
    na = [{"property_id": "C%02d" % i, "reason": NOT_YET.get("C%02d" % i,
           "check not built yet (build in progress; see DESIGN.md section 7)")}
          for i in range(1, 21) if "C%02d" % i not in CHECKS]
    m = {
        "version": 1,
        "setup_cmd": "tools/build.sh",
        "hooks": {"guard": "MOZILLASECURITY_LITHIUM_VERIF",
                  "enable": "no hooks: all observation is from outside the repository code (scripted test "
                            "object, audit hook, clock shim)",
                  "baseline_off_cmd": "cd /repo && /venv/bin/python -m pytest -ra -q -p no:cacheprovider --timeout=900",
                  "source_commits": [], "add_only": True},
        "engines": [{"name": "coq-model+correspondence", "path": "/verif/check",
                     "serves_properties": sorted(CHECKS),
                     "kind_free_text": "Coq 8.16 development (coq/) re-built on every run against definitions "
                                       "regenerated from /repo; model extracted to OCaml and diffed against the "
                                       "implementation on generated cases; direct oracles search for failing inputs"}],
        "checks": checks,
        "not_applicable": na,
        "notes": "fix: commits in /repo repair genuine defects found by these checks; see known_findings.json and DESIGN.md section 5.",
    }
    json.dump(m, open(os.path.join(V, "MANIFEST.json"), "w"), indent=1)


if __name__ == "__main__":
    main()
