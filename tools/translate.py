#!/usr/bin/env python3
"""Fail-closed translator: a small Python subset (as used by lithium's util.py, the
slice operations of testcases.Testcase and the exit-status chain of timed_run) -> Gallina
over coq/Lib/PyBase.v, plus tables of constants / regex literals.

Usage: translate.py <repo> <outdir>
Writes <outdir>/GenUtil.v GenTestcase.v GenStatus.v GenTables.v (write-if-changed).
Any construct outside the subset raises Unsupported -> exit status 3 (the tie is broken).
"""
import ast
import os
import sys


class Unsupported(Exception):
    pass


def bad(node, why=""):
    raise Unsupported(
        f"line {getattr(node, 'lineno', '?')}: {type(node).__name__} {why}: "
        f"{ast.unparse(node) if isinstance(node, ast.AST) else node}"
    )


FIELDS = {"before": "tc_before", "after": "tc_after", "parts": "tc_parts",
          "reducible": "tc_red"}
IGNORED_FIELDS = {"filename", "extension"}
KEYWORDS = {"default": "default_", "end": "end_", "match": "match_", "fun": "fun_",
            "in": "in_", "let": "let_", "then": "then_", "else": "else_", "at": "at_",
            "as": "as_", "fix": "fix_", "with": "with_", "return": "return_",
            "stop": "stop", "start": "start"}


def ident(n):
    return KEYWORDS.get(n, n)


def ann_type(a):
    if a is None:
        return "Z"
    s = ast.unparse(a)
    return {"int": "Z", "bool": "bool", "Optional[int]": "option Z",
            "bytes": "bytes", "List[bytes]": "list bytes",
            "List[bool]": "list bool"}.get(s) or bad(a, "annotation")


class Fn:
    """Translate one function body to a Gallina term of type `res T`."""

    def __init__(self, methods, objvars=("self",)):
        self.fresh = 0
        self.methods = methods  # python name -> coq name of translated user functions
        self.types = {}  # var -> 'Z' | 'bool' | 'list' | 'opt' | 'obj' | 'fn'
        self.objs = {}  # object var -> {field: coq expr}
        for o in objvars:
            self.objs[o] = {f: f"({c} {o})" for f, c in FIELDS.items()}
            self.types[o] = "obj"
        self.mutated = set()

    def tmp(self):
        self.fresh += 1
        return f"v{self.fresh}"

    # ---- expressions: return (binds, code, type); binds = [(pattern, monadic code)]
    def expr(self, n):
        if isinstance(n, ast.Constant):
            if n.value is True:
                return [], "true", "bool"
            if n.value is False:
                return [], "false", "bool"
            if n.value is None:
                return [], "None", "opt"
            if isinstance(n.value, int):
                return [], (f"{n.value}" if n.value >= 0 else f"({n.value})"), "Z"
            bad(n, "constant")
        if isinstance(n, ast.Name):
            if n.id not in self.types:
                bad(n, "unknown name")
            return [], ident(n.id), self.types[n.id]
        if isinstance(n, ast.Attribute):
            if isinstance(n.value, ast.Name) and n.value.id in self.objs:
                if n.attr in FIELDS:
                    return [], self.objs[n.value.id][n.attr], "list" if n.attr in (
                        "parts", "reducible") else "bytes"
            bad(n, "attribute")
        if isinstance(n, ast.List):
            bs, cs = [], []
            for e in n.elts:
                b, c, _ = self.expr(e)
                bs += b
                cs.append(c)
            return bs, "[" + "; ".join(cs) + "]", "list"
        if isinstance(n, ast.Tuple):
            bs, cs = [], []
            for e in n.elts:
                b, c, _ = self.expr(e)
                bs += b
                cs.append(c)
            return bs, "(" + ", ".join(cs) + ")", "tuple"
        if isinstance(n, ast.UnaryOp):
            b, c, t = self.expr(n.operand)
            if isinstance(n.op, ast.Not):
                return b, f"(negb {self.truth(c, t, n)})", "bool"
            if isinstance(n.op, ast.USub) and t == "Z":
                return b, f"(- {c})", "Z"
            bad(n, "unary")
        if isinstance(n, ast.BinOp):
            bl, cl, tl = self.expr(n.left)
            br, cr, tr = self.expr(n.right)
            op = n.op
            if isinstance(op, ast.Add):
                if tl == "list" or tr == "list":
                    return bl + br, f"({cl} ++ {cr})", "list"
                if tl == "Z" and tr == "Z":
                    return bl + br, f"({cl} + {cr})", "Z"
            if isinstance(op, ast.Sub) and tl == tr == "Z":
                return bl + br, f"({cl} - {cr})", "Z"
            if isinstance(op, ast.Mult):
                if tl == tr == "Z":
                    return bl + br, f"({cl} * {cr})", "Z"
                if (tl == "list" and tr == "Z" and isinstance(n.left, ast.List)
                        and len(n.left.elts) == 1):
                    _, c1, _ = self.expr(n.left.elts[0])
                    return bl + br, f"(py_repeat {c1} {cr})", "list"
            if isinstance(op, ast.LShift) and tl == tr == "Z":
                return bl + br, f"(py_shl {cl} {cr})", "Z"
            if isinstance(op, ast.RShift) and tl == tr == "Z":
                return bl + br, f"(py_shr {cl} {cr})", "Z"
            bad(n, "binop")
        if isinstance(n, ast.BoolOp):
            bs, cs = [], []
            for v in n.values:
                b, c, t = self.expr(v)
                if b:
                    bad(n, "effect under short-circuit operator")
                cs.append(self.truth(c, t, v))
            op = " && " if isinstance(n.op, ast.And) else " || "
            return bs, "(" + op.join(cs) + ")", "bool"
        if isinstance(n, ast.Compare):
            bs = []
            items = [n.left] + n.comparators
            codes = []
            for it in items:
                b, c, t = self.expr(it)
                bs += b
                codes.append((c, t))
            outs = []
            for (l, tl), op, (r, tr) in zip(codes, n.ops, codes[1:]):
                if isinstance(op, (ast.Is, ast.IsNot)):
                    bad(n, "is / is not only as an `if` guard")
                if tl != "Z" or tr != "Z":
                    bad(n, "non-integer comparison")
                sym = {ast.Lt: "<?", ast.LtE: "<=?", ast.Gt: ">?", ast.GtE: ">=?",
                       ast.Eq: "=?"}.get(type(op))
                if sym:
                    outs.append(f"({l} {sym} {r})")
                elif isinstance(op, ast.NotEq):
                    outs.append(f"(negb ({l} =? {r}))")
                else:
                    bad(n, "comparison")
            return bs, outs[0] if len(outs) == 1 else "(" + " && ".join(outs) + ")", "bool"
        if isinstance(n, ast.IfExp):
            bt, ct, tt = self.expr(n.test)
            bb, cb, tb = self.expr(n.body)
            bo, co, to = self.expr(n.orelse)
            if bb or bo:
                bad(n, "effect in conditional expression")
            return bt, f"(if {self.truth(ct, tt, n.test)} then {cb} else {co})", tb
        if isinstance(n, ast.Subscript):
            bv, cv, tv = self.expr(n.value)
            if isinstance(n.slice, ast.Slice):
                if n.slice.step is not None:
                    bad(n, "slice step")
                bs = list(bv)
                parts = []
                for bound in (n.slice.lower, n.slice.upper):
                    if bound is None:
                        parts.append("None")
                    else:
                        b, c, t = self.expr(bound)
                        if t != "Z":
                            bad(n, "slice bound type")
                        bs += b
                        parts.append(f"(Some {c})")
                return bs, f"(py_slice {cv} {parts[0]} {parts[1]})", "list"
            bi, ci, ti = self.expr(n.slice)
            if ti != "Z":
                bad(n, "index type")
            v = self.tmp()
            et = self.elem_type(n.value)
            self.types[v] = et
            return bv + bi + [(v, f"py_index {cv} {ci}")], v, et
        if isinstance(n, ast.Call):
            return self.call(n)
        if isinstance(n, ast.ListComp):
            return self.listcomp(n)
        bad(n, "expression")

    def elem_type(self, v):
        if isinstance(v, ast.Attribute) and v.attr == "reducible":
            return "bool"
        if isinstance(v, ast.Attribute) and v.attr == "parts":
            return "bytes"
        return "Z"

    def truth(self, c, t, n):
        if t == "bool":
            return c
        if t == "Z":
            return f"(truthy_Z {c})"
        bad(n, "truthiness of " + t)

    def call(self, n):
        f = n.func
        if n.keywords:
            bad(n, "keyword args")
        args = [self.expr(a) for a in n.args]
        bs = [b for a in args for b in a[0]]
        cs = [a[1] for a in args]
        ts = [a[2] for a in args]
        if isinstance(f, ast.Name):
            if f.id == "len" and len(args) == 1:
                if ts[0] == "obj":
                    v = self.tmp()
                    self.types[v] = "Z"
                    return bs + [(v, f"{self.methods['__len__']} {cs[0]}")], v, "Z"
                return bs, f"(zlen {cs[0]})", "Z"
            if f.id in ("max", "min") and len(args) == 2 and ts == ["Z", "Z"]:
                return bs, f"(Z.{f.id} {cs[0]} {cs[1]})", "Z"
            if f.id == "range" and len(args) == 1:
                return bs, f"(py_range {cs[0]})", "list"
            if f.id == "enumerate" and len(args) == 1:
                return bs, f"(py_enumerate {cs[0]})", "list"
            if f.id == "divmod" and len(args) == 2:
                v = self.tmp()
                self.types[v] = "tuple"
                return bs + [(v, f"py_divmod {cs[0]} {cs[1]}")], v, "tuple"
            if f.id in self.types and self.types[f.id] == "fn":
                v = self.tmp()
                self.types[v] = "Z"
                return bs + [(v, f"{ident(f.id)} " + " ".join(cs))], v, "Z"
            bad(n, "call")
        if isinstance(f, ast.Attribute):
            if f.attr == "bit_length" and not args:
                b, c, t = self.expr(f.value)
                if t == "Z":
                    return b, f"(bit_length {c})", "Z"
            if (f.attr == "count" and len(args) == 1 and cs[0] == "false"
                    and isinstance(f.value, ast.Attribute) and f.value.attr == "reducible"):
                b, c, t = self.expr(f.value)
                return b, f"(count_false {c})", "Z"
            if (isinstance(f.value, ast.Name) and f.value.id in self.objs
                    and f.attr in self.methods):
                sig = SIGS.get(f.attr, [])
                if len(sig) != len(cs):
                    bad(n, "arity")
                cs = [f"(Some {c})" if (want.startswith("option") and t == "Z") else c
                      for c, t, want in zip(cs, ts, sig)]
                v = self.tmp()
                self.types[v] = "tuple"
                return bs + [(v, f"{self.methods[f.attr]} {f.value.id} " + " ".join(cs))], v, "tuple"
        bad(n, "call")

    def listcomp(self, n):
        if len(n.generators) != 1:
            bad(n, "comprehension generators")
        g = n.generators[0]
        if g.is_async or len(g.ifs) > 1:
            bad(n, "comprehension form")
        bi, ci, ti = self.expr(g.iter)
        enum = isinstance(g.iter, ast.Call) and isinstance(g.iter.func, ast.Name) \
            and g.iter.func.id == "enumerate"
        saved = dict(self.types)
        if isinstance(g.target, ast.Name):
            pat = ident(g.target.id)
            self.types[g.target.id] = "Z" if not enum else "tuple"
        elif isinstance(g.target, ast.Tuple) and enum and len(g.target.elts) == 2:
            a, b = g.target.elts
            self.types[a.id] = "Z"
            self.types[b.id] = "bytes"
            pat = f"'({ident(a.id)}, {ident(b.id)})"
        else:
            bad(n, "comprehension target")
        be, ce, te = self.expr(n.elt)
        inner = f"Ok [{ce}]"
        if g.ifs:
            bc, cc, tc = self.expr(g.ifs[0])
            inner = f"if {self.truth(cc, tc, g.ifs[0])} then {inner} else Ok []"
            inner = self.wrap(bc, inner)
        inner = self.wrap(be, inner) if be else inner
        self.types = saved
        v = self.tmp()
        self.types[v] = "list"
        return bi + [(v, f"flat_mapM (fun {pat} => {inner}) {ci}")], v, "list"

    @staticmethod
    def wrap(binds, code):
        for pat, m in reversed(binds):
            p = pat if pat.startswith("'") else pat
            code = f"{p} <- {m} ;; {code}"
        return code

    # ---- statements
    def block(self, stmts, final):
        """Translate a statement list; `final()` gives the code when control falls off
        the end."""
        if not stmts:
            return final()
        s, rest = stmts[0], stmts[1:]
        k = lambda: self.block(rest, final)  # noqa: E731
        if isinstance(s, ast.Expr) and isinstance(s.value, ast.Constant):
            return k()  # docstring
        if isinstance(s, ast.Return):
            if s.value is None:
                return final()
            if isinstance(s.value, ast.Name) and s.value.id in self.objs:
                return self.record(s.value.id)
            b, c, _ = self.expr(s.value)
            return self.wrap(b, f"Ok {c}")
        if isinstance(s, ast.Assign) or isinstance(s, ast.AnnAssign):
            tgt = s.targets[0] if isinstance(s, ast.Assign) else s.target
            if isinstance(s, ast.Assign) and len(s.targets) != 1:
                bad(s, "multi-assign")
            if self.is_new_object(s.value):
                if not isinstance(tgt, ast.Name):
                    bad(s)
                self.objs[tgt.id] = {"before": "[]", "after": "[]", "parts": "[]",
                                     "reducible": "[]"}
                self.types[tgt.id] = "obj"
                return k()
            if (isinstance(tgt, ast.Attribute) and isinstance(tgt.value, ast.Name)
                    and tgt.value.id in self.objs and tgt.attr in IGNORED_FIELDS
                    and isinstance(s.value, ast.Attribute)
                    and isinstance(s.value.value, ast.Name)
                    and s.value.value.id in self.objs and s.value.attr == tgt.attr):
                return k()  # new.filename = self.filename: not part of the record
            b, c, t = self.expr(s.value)
            if isinstance(tgt, ast.Name):
                self.types[tgt.id] = t
                return self.wrap(b, f"let {ident(tgt.id)} := {c} in\n  {k()}")
            if isinstance(tgt, ast.Tuple) and all(isinstance(e, ast.Name) for e in tgt.elts):
                for e in tgt.elts:
                    self.types[e.id] = "Z"
                pat = "'(" + ", ".join(ident(e.id) for e in tgt.elts) + ")"
                return self.wrap(b, f"let {pat} := {c} in\n  {k()}")
            if (isinstance(tgt, ast.Attribute) and isinstance(tgt.value, ast.Name)
                    and tgt.value.id in self.objs):
                if tgt.attr in IGNORED_FIELDS:
                    return k()
                if tgt.attr not in FIELDS:
                    bad(s, "unknown field")
                var = f"{tgt.value.id}_{tgt.attr}"
                self.objs[tgt.value.id][tgt.attr] = var
                self.mutated.add(tgt.value.id)
                return self.wrap(b, f"let {var} := {c} in\n  {k()}")
            bad(s, "assignment target")
        if isinstance(s, ast.AugAssign) and isinstance(s.target, ast.Name):
            fake = ast.BinOp(left=ast.Name(id=s.target.id, ctx=ast.Load()), op=s.op,
                             right=s.value)
            ast.copy_location(fake, s)
            b, c, t = self.expr(fake)
            return self.wrap(b, f"let {ident(s.target.id)} := {c} in\n  {k()}")
        if isinstance(s, ast.FunctionDef):
            sub = Fn(self.methods, objvars=())
            sub.types = dict(self.types)
            sub.objs = self.objs
            params = []
            for a in s.args.args:
                ty = ann_type(a.annotation)
                sub.types[a.arg] = "opt" if ty.startswith("option") else (
                    "bool" if ty == "bool" else "Z")
                params.append(f"({ident(a.arg)} : {ty})")
            body = sub.block(s.body, lambda: bad(s, "falls off the end"))
            self.types[s.name] = "fn"
            return f"let {ident(s.name)} := fun {' '.join(params)} =>\n    {body} in\n  {k()}"
        if isinstance(s, ast.If):
            t = s.test
            # `if x is None: return d`  ->  match
            if (isinstance(t, ast.Compare) and len(t.ops) == 1 and isinstance(t.ops[0], ast.Is)
                    and isinstance(t.left, ast.Name)
                    and isinstance(t.comparators[0], ast.Constant)
                    and t.comparators[0].value is None and not s.orelse
                    and self.types.get(t.left.id) == "opt"):
                none_code = self.block(s.body, lambda: bad(s, "None branch must return"))
                x = ident(t.left.id)
                self.types[t.left.id] = "Z"
                return f"match {x} with None => {none_code} | Some {x} => {k()} end"
            b, c, ty = self.expr(t)
            cond = self.truth(c, ty, t)
            if self.returns(s.body) and not s.orelse:
                saved = (dict(self.types), {o: dict(f) for o, f in self.objs.items()})
                then = self.block(s.body, lambda: bad(s, "then-branch must return"))
                self.types, self.objs = saved
                return self.wrap(b, f"if {cond} then {then} else\n  {k()}")
            if s.orelse and self.returns(s.body) and self.returns(s.orelse):
                saved = (dict(self.types), {o: dict(f) for o, f in self.objs.items()})
                then = self.block(s.body, lambda: bad(s))
                self.types, self.objs = ({**saved[0]}, {o: dict(f) for o, f in saved[1].items()})
                els = self.block(s.orelse, lambda: bad(s))
                return self.wrap(b, f"if {cond} then {then} else {els}")
            # assignment-only branch without else: rebind the assigned names
            names = self.assigned(s.body)
            if names and not s.orelse:
                sub = self.block(s.body, lambda: "Ok (" + ", ".join(map(ident, names)) + ")"
                                 if len(names) > 1 else f"Ok {ident(names[0])}")
                pat = ("'(" + ", ".join(map(ident, names)) + ")") if len(names) > 1 \
                    else ident(names[0])
                cur = ("(" + ", ".join(map(ident, names)) + ")") if len(names) > 1 \
                    else ident(names[0])
                return self.wrap(b, f"{pat} <- (if {cond} then {sub} else Ok {cur}) ;;\n  {k()}")
            bad(s, "if form")
        if isinstance(s, ast.Pass):
            return k()
        bad(s, "statement")

    def is_new_object(self, v):
        return (isinstance(v, ast.Call) and not v.args and isinstance(v.func, ast.Call)
                and isinstance(v.func.func, ast.Name) and v.func.func.id == "type"
                and len(v.func.args) == 1 and isinstance(v.func.args[0], ast.Name)
                and v.func.args[0].id == "self")

    def returns(self, body):
        return bool(body) and isinstance(body[-1], ast.Return)

    def assigned(self, body):
        out = []
        for s in body:
            if isinstance(s, ast.Assign) and len(s.targets) == 1 and isinstance(
                    s.targets[0], ast.Name):
                out.append(s.targets[0].id)
            elif isinstance(s, ast.AugAssign) and isinstance(s.target, ast.Name):
                out.append(s.target.id)
            else:
                return []
        seen = []
        for o in out:
            if o not in seen:
                seen.append(o)
        return seen

    def record(self, obj):
        f = self.objs[obj]
        return ("Ok {| tc_before := %s; tc_parts := %s; tc_red := %s; tc_after := %s |}"
                % (f["before"], f["parts"], f["reducible"], f["after"]))


def find_func(tree, name, cls=None):
    body = tree.body
    if cls:
        for n in body:
            if isinstance(n, ast.ClassDef) and n.name == cls:
                body = n.body
                break
        else:
            raise Unsupported(f"class {cls} not found")
    for n in body:
        if isinstance(n, ast.FunctionDef) and n.name == name:
            return n
    raise Unsupported(f"function {cls + '.' if cls else ''}{name} not found")


SIGS = {}


def tr_function(fn, coqname, methods, rettype, mutator=False, selftype="tcase"):
    SIGS[fn.name] = [ann_type(a.annotation) for a in fn.args.args if a.arg != "self"]
    t = Fn(methods, objvars=("self",) if fn.args.args and fn.args.args[0].arg == "self" else ())
    params = []
    for a in fn.args.args:
        if a.arg == "self":
            params.append(f"(self : {selftype})")
            continue
        ty = ann_type(a.annotation)
        t.types[a.arg] = "opt" if ty.startswith("option") else ("bool" if ty == "bool" else "Z")
        params.append(f"({ident(a.arg)} : {ty})")
    if fn.args.vararg or fn.args.kwarg or fn.args.kwonlyargs:
        bad(fn, "signature")
    final = (lambda: t.record("self")) if mutator else (lambda: bad(fn, "falls off the end"))
    body = t.block(fn.body, final)
    return f"Definition {coqname} {' '.join(params)} : res ({rettype}) :=\n  {body}.\n"


HEADER = """(* GENERATED by tools/translate.py from %s -- do not edit. *)
From Coq Require Import ZArith NArith List Bool.
From Lithium Require Import PyBase%s.
Import ListNotations.
Open Scope Z_scope.

"""


def gen_util(repo):
    src = os.path.join(repo, "src/lithium/util.py")
    tree = ast.parse(open(src).read())
    out = HEADER % ("src/lithium/util.py", "")
    out += "Module GenUtil.\n"
    for name, ret in (("divide_rounding_up", "Z"), ("is_power_of_two", "bool"),
                      ("largest_power_of_two_smaller_than", "Z")):
        out += tr_function(find_func(tree, name), name, {}, ret)
    out += "End GenUtil.\n"
    return out


def gen_testcase(repo):
    src = os.path.join(repo, "src/lithium/testcases.py")
    tree = ast.parse(open(src).read())
    methods = {"__len__": "tc_len", "_slice_xlat": "slice_xlat", "rmslice": "rmslice",
               "copy": "copy"}
    out = HEADER % ("src/lithium/testcases.py (class Testcase)", " TcRecord")
    out += "Module GenTestcase.\n"
    out += tr_function(find_func(tree, "__len__", "Testcase"), "tc_len", methods, "Z")
    out += tr_function(find_func(tree, "_slice_xlat", "Testcase"), "slice_xlat", methods,
                       "Z * Z")
    # rmslice takes plain ints
    fn = find_func(tree, "rmslice", "Testcase")
    code = tr_function(fn, "rmslice", methods, "tcase", mutator=True)
    out += code
    out += tr_function(find_func(tree, "copy", "Testcase"), "copy", methods, "tcase")
    out += "End GenTestcase.\n"
    return out


def write_if_changed(path, text):
    if os.path.exists(path) and open(path).read() == text:
        return False
    with open(path, "w") as f:
        f.write(text)
    return True


def main():
    repo, outdir = sys.argv[1], sys.argv[2]
    os.makedirs(outdir, exist_ok=True)
    import gen_tables  # noqa: WPS433 (sibling module)
    jobs = [("GenUtil.v", gen_util), ("GenTestcase.v", gen_testcase)]
    jobs += gen_tables.JOBS
    status = 0
    for name, fn in jobs:
        try:
            text = fn(repo)
        except (Unsupported, gen_tables.Unsupported, SyntaxError, OSError, KeyError, AttributeError, IndexError,
                ValueError, TypeError) as exc:
            # fail closed: emit a file that cannot compile and say why
            text = ("(* GENERATED: translation FAILED -- %s *)\n"
                    "Definition translation_failed : False := I.\n" % str(exc).replace("*)", "* )"))
            print(f"translate: {name}: {exc}", file=sys.stderr)
            status = 3
        write_if_changed(os.path.join(outdir, name), text)
    return status


if __name__ == "__main__":
    sys.path.insert(0, os.path.dirname(os.path.abspath(__file__)))
    sys.exit(main())
