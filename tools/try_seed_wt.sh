#!/bin/bash
# tools/try_seed_wt.sh <worktree with the change applied> <dir with demo.py> <property id>...
# Like try_seed.sh but never touches /repo: the checks are pointed at the worktree with VERIF_REPO.
set -u
W="$1"; D="$2"; shift; shift
echo "== tests in worktree"
( cd "$W" && PYTHONPATH="$W/src" timeout -s KILL 900 /venv/bin/python -m pytest -q -p no:cacheprovider --timeout=900 2>&1 | tail -1 )
echo "== demo on /repo (clean)"
( cd "$D" && PYTHONPATH=/repo/src timeout -s KILL 300 /venv/bin/python demo.py >/tmp/seed_demo_clean.log 2>&1 ); echo "demo clean exit $?"
echo "== demo on worktree (patched)"
( cd "$D" && PYTHONPATH="$W/src" timeout -s KILL 300 /venv/bin/python demo.py >/tmp/seed_demo_patch.log 2>&1 ); echo "demo patched exit $?"; tail -2 /tmp/seed_demo_patch.log | cut -c1-300
for P in "$@"; do
  echo "== check $P against the worktree"
  ( cd /verif && VERIF_REPO="$W" timeout -s KILL 1800 ./check "$P" --tier quick 2>&1 | grep -v "^\[\|INFO\|Interesting\|Uninteresting\|Warning\|re.compile\|KNOWN-FINDING\|Lithium result\|timed out" | tail -4 | cut -c1-300 )
done
