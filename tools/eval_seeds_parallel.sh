#!/bin/bash
# tools/eval_seeds_parallel.sh [-j N] <seed>[:<prop>[,<prop>...]] ...
#   seed = a directory name under seeded/ (e.g. C04-3); props default to the seed's own property.
# Each seed is evaluated in its OWN copy of /verif under /tmp (so builds do not collide) against its own
# scratch worktree of /repo's HEAD with the stored patch applied; /repo and this /verif are never touched.
# Prints, per seed: tests / demo status and the last lines of each check.  Everything under /tmp is removed.
set -u
V="$(cd "$(dirname "$0")/.." && pwd)"
J=5
if [ "${1:-}" = "-j" ]; then J="$2"; shift; shift; fi
ROOT="$(mktemp -d /tmp/vpar.XXXXXX)"
one() {
  spec="$1"; S="${spec%%:*}"; PR="${spec#*:}"; [ "$PR" = "$spec" ] && PR="${S%%-*}"
  C="$ROOT/$S/verif"; W="$ROOT/$S/wt"; mkdir -p "$ROOT/$S"
  rsync -a --exclude .git --exclude 'build/.lock' --exclude 'build/.check.lock' "$V/" "$C/"
  git -C /repo worktree add --detach -q "$W" HEAD 2>/dev/null || { echo "[$S] worktree failed"; return; }
  if ! git -C "$W" apply -3 "$V/seeded/$S/patch.diff" 2>"$ROOT/$S/apply.err"; then
    echo "[$S] PATCH DOES NOT APPLY: $(head -2 "$ROOT/$S/apply.err" | tr '\n' ' ')"
  else
    git -C "$W" reset -q
    t=$(cd "$W" && PYTHONPATH="$W/src" timeout -s KILL 900 /venv/bin/python -m pytest -q -p no:cacheprovider --timeout=900 2>&1 | tail -1)
    (cd "$V/seeded/$S" && PYTHONPATH=/repo/src timeout -s KILL 300 /venv/bin/python demo.py >/dev/null 2>&1); dc=$?
    (cd "$V/seeded/$S" && PYTHONPATH="$W/src" timeout -s KILL 300 /venv/bin/python demo.py >/dev/null 2>&1); dp=$?
    echo "[$S] tests: $t | demo clean=$dc patched=$dp"
    for P in ${PR//,/ }; do
      out=$(cd "$C" && VERIF_REPO="$W" VERIF_BUDGET=2000 timeout -s KILL 2400 ./check "$P" --tier quick 2>&1 | grep "VIOLATION property\|^  \|rc=" | grep -v "^  proof\|KNOWN" | tail -4 | cut -c1-260)
      echo "$out" | sed "s/^/[$S] /"
    done
  fi
  git -C /repo worktree remove --force "$W" 2>/dev/null
  rm -rf "$ROOT/$S"
}
export -f one; export V ROOT
printf '%s\n' "$@" | xargs -P "$J" -I{} bash -c 'one "$@"' _ {}
git -C /repo worktree prune
rm -rf "$ROOT"
