#!/usr/bin/env python3
"""tools/gen_baseline_constants.py [repo]  ->  harness/baseline_constants.json
The integer and string/bytes constants of the REVIEWED lithium source (constant expressions such as `1 << 20` folded).
harness/boundaries.py compares the current source with this list: constants that are new in a changed tree are where
limits, block sizes, give-up counters and special-cased texts of that change sit, and the boundary sweeps add them
(c-1, c, c+1, ...) to the values they try.  Re-run after every reviewed change of /repo (a `fix:` commit)."""
import json
import os
import sys

sys.path.insert(0, os.path.join(os.path.dirname(os.path.abspath(__file__)), "..", "harness"))
from boundaries import source_constants  # noqa: E402

repo = sys.argv[1] if len(sys.argv) > 1 else "/repo"
ints, strs = source_constants(repo)
out = os.path.join(os.path.dirname(os.path.abspath(__file__)), "..", "harness", "baseline_constants.json")
json.dump({"ints": sorted(ints), "strs": sorted(strs)}, open(out, "w"), indent=0)
print(len(ints), "integer constants,", len(strs), "text constants ->", out)
