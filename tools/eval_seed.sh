#!/bin/bash
# tools/eval_seed.sh <seed dir name under seeded/, e.g. C04-3> [property ids...]
# Evaluates a stored seeded change without touching /repo: scratch worktree of /repo's HEAD under /tmp,
# the patch applied there (3-way, the patches were written against older fix commits), the checks pointed
# at it with VERIF_REPO, the worktree removed afterwards.
set -u
S="$1"; shift
V="$(cd "$(dirname "$0")/.." && pwd)"
P="${1:-${S%%-*}}"; [ $# -gt 0 ] && shift
W="$(mktemp -d /tmp/evalseed.XXXXXX)"; rmdir "$W"
git -C /repo worktree add --detach -q "$W" HEAD || exit 2
if ! git -C "$W" apply -3 "$V/seeded/$S/patch.diff" 2>/tmp/evalseed.err; then
  echo "patch does not apply to HEAD: $(head -3 /tmp/evalseed.err)"; git -C /repo worktree remove --force "$W"; exit 3
fi
git -C "$W" reset -q
"$V/tools/try_seed_wt.sh" "$W" "$V/seeded/$S" "$P" "$@"
git -C /repo worktree remove --force "$W"; git -C /repo worktree prune
