"""Tables generated from the source: constants, regex literals, option defaults.
Each job is (filename, fn(repo) -> text)."""
JOBS = []
