#!/bin/bash
# tools/try_seed.sh <dir with patch.diff + demo.py> <property id> [more ids...]
# Applies the patch to /repo, confirms: baseline tests still pass, demo fails with / passes without the patch,
# runs the given checks (quick), and ALWAYS restores /repo.
set -u
D="$1"; shift
cd /repo || exit 2
if ! git diff --quiet; then echo "repo dirty"; exit 2; fi
echo "== demo on clean tree"
( cd "$D" && PYTHONPATH=/repo/src timeout -s KILL 300 /venv/bin/python demo.py >/tmp/seed_demo_clean.log 2>&1 ); echo "demo clean exit $?"
git apply "$D/patch.diff" || { echo "patch does not apply"; exit 2; }
trap 'git -C /repo checkout -- . ; echo restored' EXIT
echo "== tests with patch"
timeout -s KILL 900 /venv/bin/python -m pytest -q -p no:cacheprovider --timeout=900 2>&1 | tail -1
echo "== demo with patch"
( cd "$D" && PYTHONPATH=/repo/src timeout -s KILL 300 /venv/bin/python demo.py >/tmp/seed_demo_patch.log 2>&1 ); echo "demo patched exit $?"; tail -2 /tmp/seed_demo_patch.log
for P in "$@"; do
  echo "== check $P with patch"
  ( cd /verif && timeout -s KILL 1800 ./check "$P" --tier quick 2>&1 | grep -v "^\[\|INFO\|Interesting\|Uninteresting\|Warning\|re.compile\|KNOWN-FINDING\|Lithium result\|timed out" | tail -4 | cut -c1-300 )
done
