#!/bin/bash
# run every registered check once (tier from $1, default quick); summary at the end
cd "$(dirname "$0")/.."
tier="${1:-quick}"
mkdir -p build
for i in $(seq -w 1 20); do
  ./check C$i --tier "$tier" > build/run_C$i.log 2>&1; rc=$?
  echo "C$i rc=$rc $(tail -1 build/run_C$i.log | cut -c1-160)"
done
