#!/bin/bash
# Rebuild everything the checks need from /repo's current working tree:
#   1. regenerate coq/Gen/*.v from the source (tools/translate.py, fail-closed)
#   2. full .vo build of the Coq development (make -k: one broken proof does not hide the others)
#   3. extraction of the model + OCaml driver
# Serialised with flock; incremental when nothing changed.  Always exits 0 unless the
# infrastructure itself is broken; per-target status is queried by ./check afterwards.
set -u
V="$(cd "$(dirname "$0")/.." && pwd)"
REPO="${VERIF_REPO:-/repo}"
mkdir -p "$V/build"
exec 9>"$V/build/.lock"
flock 9
cd "$V"
python3 tools/translate.py "$REPO" coq/Gen >build/translate.log 2>&1
echo $? >build/translate.status
cd "$V/coq"
{
  echo "-Q Lib Lithium"; echo "-Q Gen Lithium"; echo "-Q Model Lithium"
  echo "-Q Proofs Lithium"; echo "-Q GenEq Lithium"; echo "-Q Props Lithium"
  ls Lib/*.v Gen/*.v Model/*.v Proofs/*.v GenEq/*.v Props/*.v 2>/dev/null
} >_CoqProject.new
if ! cmp -s _CoqProject.new _CoqProject || [ ! -f Makefile ]; then
  mv _CoqProject.new _CoqProject
  coq_makefile -f _CoqProject -o Makefile >/dev/null 2>&1
else
  rm -f _CoqProject.new
fi
timeout 3000 make -k -j"${VERIF_JOBS:-16}" >"$V/build/make.log" 2>&1
echo $? >"$V/build/make.status"
# extraction + driver (depends on Lib/ and Model/ only, never on a proof)
cd "$V/coq/Extract"
need=0
[ -x driver ] || need=1
for f in ../Lib/*.vo ../Model/*.vo Extract.v driver.ml; do
  [ "$f" -nt driver ] && need=1
done
if [ $need = 1 ]; then
  {
    timeout 600 coqc -Q ../Lib Lithium -Q ../Model Lithium Extract.v &&
      ocamlfind ocamlopt -w -a model.mli model.ml driver.ml -o driver.new && mv driver.new driver
  } >"$V/build/extract.log" 2>&1
  echo $? >"$V/build/extract.status"
fi
exit 0
