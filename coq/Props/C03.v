(* C03 - minimize ends with a 1-minimal file (deterministic test, not nec. monotone). *)
From Coq Require Import ZArith NArith List Bool.
From Lithium Require Import PyBase TcRecord Util Testcase Spec Driver TraceSpec Minimize StratSpec
  MinimizeMinimal.
Import ListNotations.
Open Scope Z_scope.

Definition one_minimal (f : bytes -> bool) (tf : tcase) : Prop :=
  forall i t', 0 <= i < tc_len tf -> rmslice tf i (i + 1) = Ok t' -> f (content t') = false.

Theorem C03_one_minimal :
  forall cfg clk f tc0 file0 fuel,
    wf tc0 -> Forall (fun p => p <> []) (tc_parts tc0) -> content tc0 = file0 ->
    c_min cfg = 1 -> is_power_of_two (c_max cfg) = true -> c_repeat cfg <> Never ->
    c_limit cfg = None ->
    f file0 = true -> tc_len tc0 <> 0 ->
    (Z.to_nat (2 * c09_bound (tc_len tc0)) <= fuel)%nat ->
    exists rc w tf,
      run (minimize cfg clk no_post) (det f) fuel tc0 file0 = Finished rc w /\
      sub_reducible tc0 tf /\ w_file w = content tf /\ f (content tf) = true /\
      one_minimal f tf.
Proof. exact minimize_one_minimal. Qed.

(* consequently a follow-up run with --chunk-size=1 (min = max = 1, repeat never) on a
   1-minimal interesting file accepts nothing and leaves the file unchanged *)
Theorem C03_second_run_noop :
  forall clk f tf fuel,
    wf tf -> Forall (fun p => p <> []) (tc_parts tf) -> f (content tf) = true ->
    one_minimal f tf -> tc_len tf <> 0 ->
    (Z.to_nat (2 * c09_bound (tc_len tf)) <= fuel)%nat ->
    let cfg := {| c_min := 1; c_max := 1; c_repeat := Never; c_first := false; c_limit := None |} in
    exists w, run (minimize cfg clk no_post) (det f) fuel tf (content tf) = Finished 1 w /\
              w_file w = content tf /\
              (forall k p g, In (ETest k p g Yes) (chron w) -> k = 1).
Proof. exact chunk_size_one_rerun_noop. Qed.

Print Assumptions C03_one_minimal.
Print Assumptions C03_second_run_noop.
