(* C20 - Each run gets a fresh temp directory, even under races and faults. *)
From Coq Require Import ZArith List Bool.
From Lithium Require Import TempDir TempDirProofs.
Import ListNotations.
Open Scope Z_scope.

(* alone and without faults: the lowest free N >= 1; nothing that existed is touched *)
Theorem C20_lowest_free :
  forall fs fuel, (length fs < fuel)%nat ->
    exists n, create_temp_dir fuel (fun _ => None) fs = Dir n (n :: fs) /\
              1 <= n /\ mem_z n fs = false /\ (forall m, 1 <= m < n -> mem_z m fs = true).
Proof. exact ctd_lowest_free. Qed.

(* k concurrently starting runs under EVERY schedule: the directories handed out are pairwise
   distinct, none existed before, and the directory afterwards is the old one plus exactly the
   directories handed out (no pre-existing entry reused, emptied or removed) *)
Theorem C20_concurrent :
  forall sched fs k,
    let '(fs', procs) := run_sched sched fs (repeat proc0 k) in
    NoDup (results procs) /\
    (forall n, In n (results procs) -> mem_z n fs = false /\ 1 <= n) /\
    (forall n, mem_z n fs' = true <-> (mem_z n fs = true \/ In n (results procs))).
Proof. exact sched_distinct_dirs. Qed.

(* every process that keeps being scheduled finishes: after enough steps of p, p is done *)
Theorem C20_concurrent_progress :
  forall sched fs k p,
    (p < k)%nat -> (length fs + k < count_occ Nat.eq_dec sched p)%nat ->
    let '(_, procs) := run_sched sched fs (repeat proc0 k) in
    exists pr n, nth_error procs p = Some pr /\ pr_done pr = Some n.
Proof. exact sched_progress. Qed.

(* a failure other than "name taken" stops the run with that error - no retry *)
Theorem C20_fault_stops :
  forall fault fs fuel n e, (length fs < fuel)%nat ->
    create_temp_dir fuel (fun _ => None) fs = Dir n (n :: fs) ->
    fault n = Some e ->
    create_temp_dir fuel fault fs = Failed e fs.
Proof. exact ctd_fault_stops. Qed.

(* it never spins: with fuel > |fs| the loop always ends *)
Theorem C20_terminates :
  forall fault fs fuel, (length fs < fuel)%nat -> create_temp_dir fuel fault fs <> Spinning.
Proof. exact ctd_terminates. Qed.

Example C20_example :
  create_temp_dir 10 (fun _ => None) [1; 2; 4] = Dir 3 [3; 1; 2; 4] /\
  create_temp_dir 10 (fun i => if i =? 3 then Some ENOENT else None) [1; 2; 4] = Failed ENOENT [1; 2; 4].
Proof. split; reflexivity. Qed.

(* "each run": a run started through main() without --tempdir creates the lowest free tmpN whatever
   directory the same Lithium object used before (`before`), and with --tempdir creates nothing *)
Theorem C20_each_main_fresh :
  forall before fs fuel, (length fs < fuel)%nat ->
    exists n, main_temp_dir fuel (fun _ => None) fs before None = (Some (TNum n), Dir n (n :: fs)) /\
              1 <= n /\ mem_z n fs = false /\ (forall m, 1 <= m < n -> mem_z m fs = true).
Proof. exact main_fresh. Qed.

Theorem C20_given_dir_creates_nothing :
  forall before fs fuel fault p,
    main_temp_dir fuel fault fs before (Some p) = (Some (TGiven p), Dir 0 fs).
Proof. exact main_given. Qed.

Print Assumptions C20_lowest_free.
Print Assumptions C20_concurrent.
Print Assumptions C20_concurrent_progress.
Print Assumptions C20_fault_stops.
Print Assumptions C20_terminates.
Print Assumptions C20_each_main_fresh.
Print Assumptions C20_given_dir_creates_nothing.
