(* C10 - Monotone tests: exact core in O(m log n) tests. *)
From Coq Require Import ZArith NArith List Bool.
From Lithium Require Import PyBase TcRecord Util Testcase Spec Driver TraceSpec Minimize StratSpec
  MonotoneProofs.
Import ListNotations.
Open Scope Z_scope.

(* "interesting exactly when the file still contains the m core atoms", on the testcases reachable
   from tc0 by deleting atoms; the n atoms of tc0 are pairwise distinct and all reducible *)
Definition has_atom (t : tcase) (c : bytes) : bool := existsb (bytes_eqb c) (tc_parts t).
Definition core_test (f : bytes -> bool) (tc0 : tcase) (core : list bytes) : Prop :=
  forall t, sub_reducible tc0 t -> f (content t) = forallb (has_atom t) core.

Theorem C10_exact_core :
  forall cfg clk f tc0 core fuel,
    wf tc0 -> Forall (fun p => p <> []) (tc_parts tc0) -> NoDup (tc_parts tc0) ->
    Forall (fun r => r = true) (tc_red tc0) ->
    (forall c, In c core -> In c (tc_parts tc0)) -> core_test f tc0 core ->
    cfg = default_cfg -> tc_len tc0 <> 0 ->
    (Z.to_nat (2 * c09_bound (tc_len tc0)) <= fuel)%nat ->
    exists rc w tf,
      run (minimize cfg clk no_post) (det f) fuel tc0 (content tc0) = Finished rc w /\
      w_file w = content tf /\ sub_reducible tc0 tf /\
      tc_parts tf = filter (fun p => existsb (bytes_eqb p) core) (tc_parts tc0).
Proof. exact minimize_exact_core. Qed.

(* number of tests, including the initial check: n atoms, m = number of distinct core atoms *)
Definition c10_bound (n m : Z) : Z := (2 * m + 1) * clog2 n + 5 * m + 8.

(* proved for n <= 2^31 atoms.  Beyond that the statement is FALSE of the code: the default
   --max is 2^30, so the first sweep of a file with more than 2^31 atoms makes n / 2^30
   proposals (C10_test_count_unbounded_n_refuted; n = 50 * 2^30 atoms, empty core: 51 tests
   against a bound of 44).  Such an input cannot be replayed on the implementation (tens of
   gigabytes), so this is recorded in DESIGN.md and not as a known finding. *)
Theorem C10_test_count :
  forall cfg clk f tc0 core fuel,
    wf tc0 -> Forall (fun p => p <> []) (tc_parts tc0) -> NoDup (tc_parts tc0) ->
    Forall (fun r => r = true) (tc_red tc0) ->
    NoDup core -> (forall c, In c core -> In c (tc_parts tc0)) -> core_test f tc0 core ->
    cfg = default_cfg -> tc_len tc0 <> 0 -> tc_len tc0 <= 2 ^ 31 ->
    (Z.to_nat (2 * c09_bound (tc_len tc0)) <= fuel)%nat ->
    n_tests (chron (result_world (run (minimize cfg clk no_post) (det f) fuel tc0 (content tc0))))
      <= c10_bound (tc_len tc0) (zlen core).
Proof. exact minimize_monotone_test_count_corrected. Qed.

Theorem C10_test_count_unbounded_n_refuted :
  ~ (forall cfg clk f tc0 core fuel,
    wf tc0 -> Forall (fun p => p <> []) (tc_parts tc0) -> NoDup (tc_parts tc0) ->
    Forall (fun r => r = true) (tc_red tc0) ->
    NoDup core -> (forall c, In c core -> In c (tc_parts tc0)) -> core_test f tc0 core ->
    cfg = default_cfg -> tc_len tc0 <> 0 ->
    (Z.to_nat (2 * c09_bound (tc_len tc0)) <= fuel)%nat ->
    n_tests (chron (result_world (run (minimize cfg clk no_post) (det f) fuel tc0 (content tc0))))
      <= c10_bound (tc_len tc0) (zlen core)).
Proof. exact minimize_monotone_test_count_false. Qed.

Print Assumptions C10_exact_core.
Print Assumptions C10_test_count.
Print Assumptions C10_test_count_unbounded_n_refuted.
