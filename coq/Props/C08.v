(* C08 - DDBEGIN/DDEND select exactly the lines between the marker lines. *)
From Coq Require Import ZArith NArith List Bool.
From Lithium Require Import PyBase TcRecord PyLines Markers Splitters SplitSpec SplitProofs.
Import ListNotations.

(* line.find(word) != -1  is "word occurs in line" *)
Theorem C08_contains : forall n h, contains n h = true <-> exists a b, h = a ++ n ++ b.
Proof. exact contains_spec. Qed.

Theorem C08_first_index :
  forall A (p : A -> bool) l i, first_index p l = Some i <->
    (i < length l)%nat /\ (exists x, nth_error l i = Some x /\ p x = true) /\
    forall j x, (j < i)%nat -> nth_error l j = Some x -> p x = false.
Proof. exact first_index_spec. Qed.

(* the two scanning loops compute exactly the specification *)
Theorem C08_spec : forall d, find_markers d = markers_spec d.
Proof. exact find_markers_spec. Qed.

(* a line with both words opens the region when none is open and closes it when one is *)
Theorem C08_both_words_open :
  forall pre l rest, has_begin l = true -> has_end l = true ->
    existsb has_begin pre = false -> existsb has_end pre = false ->
    scan_begin [] (pre ++ l :: rest) =
      match scan_end [] rest with
      | Some (region, after) => Marked (concat (pre ++ [l])) region after
      | None => MarkerError
      end.
Proof. exact both_words_open. Qed.

Theorem C08_both_words_close :
  forall mid l rest, has_end l = true -> existsb has_end mid = false ->
    scan_end [] (mid ++ l :: rest) = Some (concat mid, l ++ concat rest).
Proof. exact both_words_close. Qed.

(* a marker error is raised before split_parts is called, whatever the splitter *)
Theorem C08_error_is_early :
  forall sp d, find_markers d = MarkerError -> load sp d = Err LithiumError.
Proof. exact marker_error_early. Qed.

(* no markers: the whole file is handed to the splitter *)
Theorem C08_no_markers :
  forall sp d, existsb has_begin (splitlines d) = false -> existsb has_end (splitlines d) = false ->
    load sp d = (s <- sp d ;; Ok {| tc_before := sp_before s; tc_parts := sp_parts s;
                                     tc_red := sp_red s; tc_after := sp_after s |}).
Proof. exact no_markers_whole. Qed.

Print Assumptions C08_contains.
Print Assumptions C08_first_index.
Print Assumptions C08_spec.
Print Assumptions C08_both_words_open.
Print Assumptions C08_both_words_close.
Print Assumptions C08_error_is_early.
Print Assumptions C08_no_markers.
