(* C09 - Every strategy terminates within a bounded number of tests.
   This file: minimize and minimize-collapse-brace (minimize + post-round callback).
   Quantification: every verdict function (no consistency assumed), every clock, every valid
   option setting, every input. *)
From Coq Require Import ZArith NArith List Bool.
From Lithium Require Import PyBase TcRecord Util Testcase Spec Driver TraceSpec Minimize StratSpec
  MinimizeBound Pairs PairsBound PyLines Markers Splitters Collapse CollapseBound Rewriters RewritersProofs.
Import ListNotations.
Open Scope Z_scope.

Theorem C09_minimize_like :
  forall cfg clk post verdict tc0 file0 fuel,
    wf tc0 -> valid_cfg cfg -> post_ok post ->
    (Z.to_nat (2 * c09_bound (tc_len tc0)) <= fuel)%nat ->
    let r := run (minimize cfg clk post) verdict fuel tc0 file0 in
    (forall w, r <> NoFuel w) /\ (forall e w, r <> Aborted (Some e) w) /\
    n_tests (chron (result_world r)) <= c09_bound (tc_len tc0).
Proof. exact minimize_bounded. Qed.

Theorem C09_minimize :
  forall cfg clk verdict tc0 file0 fuel,
    wf tc0 -> valid_cfg cfg ->
    (Z.to_nat (2 * c09_bound (tc_len tc0)) <= fuel)%nat ->
    let r := run (minimize cfg clk no_post) verdict fuel tc0 file0 in
    (forall w, r <> NoFuel w) /\ (forall e w, r <> Aborted (Some e) w) /\
    n_tests (chron (result_world r)) <= c09_bound (tc_len tc0).
Proof. exact minimize_bounded_no_post. Qed.

(* minimize-around / minimize-balanced (experimental move off): no internal error (the assert of
   minimize-balanced holds, no index error, the non-proposing transitions are bounded) and the
   same bound on the number of tests *)
Theorem C09_pairs :
  forall kind cfg clk verdict tc0 file0 fuel,
    wf tc0 -> valid_cfg cfg ->
    (Z.to_nat (2 * c09_bound (tc_len tc0)) <= fuel)%nat ->
    let r := run (pairs kind cfg clk) verdict fuel tc0 file0 in
    (forall w, r <> NoFuel w) /\ (forall e w, r <> Aborted (Some e) w) /\
    n_tests (chron (result_world r)) <= c09_bound (tc_len tc0).
Proof. exact pairs_bounded. Qed.

(* minimize-collapse-brace in line mode, end to end on a loaded file: the side condition of
   C09_minimize_like (the re-split never fails and never adds atoms) holds along the whole run
   because the atoms stay lines *)
Theorem C09_collapse_line :
  forall cfg clk verdict d tc0 fuel,
    load_line d = Ok tc0 -> valid_cfg cfg ->
    (Z.to_nat (2 * c09_bound (tc_len tc0)) <= fuel)%nat ->
    let r := Driver.run (collapse_brace cfg clk split_line) verdict fuel tc0 d in
    (forall w, r <> NoFuel w) /\ (forall e w, r <> Aborted (Some e) w) /\
    n_tests (chron (result_world r)) <= c09_bound (tc_len tc0).
Proof. exact collapse_line_bounded. Qed.

(* ---- the rewriting strategies: only their OUTER loops are modelled (Rewriters.v), over an abstract pass.
   replace-properties: RELATIVE to two interface facts about try_making_globals (a pass yields at most K
   candidates; an accepted candidate removes at least `maybe_removed` >= 1 bytes) the number of tests is
   bounded: the chunk size is halved at most log2 c0 + 1 times and a size is repeated only after bytes
   were removed.  The interface facts are monitored on the implementation, not proved of it: PARTIAL. *)
Theorem C09_replace_properties_partial :
  forall PS (pass_start : Z -> tcase -> PS) pass_next cfg verdict tc0 file0 fuel K,
    (forall c best, pass_le PS pass_next K (pass_start c best)) ->
    shrinking PS pass_next ->
    let c0 := r_chunk PS (props_start PS cfg tc0) in
    let passes := Z.log2 (Z.max 1 c0) + 2 + chars tc0 in
    (Z.to_nat ((Z.of_nat K + 2) * passes + 4) <= fuel)%nat ->
    let r := Driver.run (replace_properties PS pass_start pass_next cfg) verdict fuel tc0 file0 in
    (forall w, r <> NoFuel w) /\ (forall e w, r <> Aborted (Some e) w) /\
    n_tests (chron (result_world r)) <= 1 + Z.of_nat K * passes.
Proof. exact replace_properties_bounded. Qed.

(* replace-arguments: the outer loop repeats while a pass accepted something and nothing decreases: with a
   pass that always offers one (longer) candidate and a test that always answers Yes the number of tests
   exceeds every bound.  The concrete replay on the implementation is the known finding
   replace-arguments-unbounded. *)
Theorem C09_replace_arguments_refuted :
  exists PS (pass_start : Z -> tcase -> PS) pass_next tc0,
    forall N : Z, exists fuel,
      N <= n_tests (chron (result_world
             (Driver.run (replace_arguments PS pass_start pass_next default_cfg) (fun _ _ => Yes) fuel tc0
                         (content tc0)))).
Proof. exact replace_arguments_unbounded. Qed.

Print Assumptions C09_minimize_like.
Print Assumptions C09_replace_properties_partial.
Print Assumptions C09_replace_arguments_refuted.
Print Assumptions C09_collapse_line.
Print Assumptions C09_pairs.
Print Assumptions C09_minimize.

(* ---- replace-properties-by-globals with the CONCRETE pass (Model/ReplaceProps.v: the two regular expressions
   as byte scanners, the words dictionary, the grouping by chunk, the substitution): no interface facts are
   assumed any more.  B = bytes in the parts; a pass offers at most B/2 candidates (every match of
   (?<=\w)\.(\w+) takes at least two bytes of its own), an accepted candidate with maybe_removed > 0 is
   shorter, and a chunk size is repeated only after something was removed. *)
From Lithium Require Import ReplaceProps ReplacePropsProofs.

Theorem C09_replace_properties :
  forall cfg verdict tc0 file0 fuel,
    wf tc0 -> 1 <= c_max cfg ->
    let B := chars tc0 in
    let c0 := r_chunk (list (bytes * list Z)) (props_start (list (bytes * list Z)) cfg tc0) in
    let passes := Z.log2 (Z.max 1 c0) + 2 + B in
    (Z.to_nat ((B / 2 + 2) * passes + 4) <= fuel)%nat ->
    let r := Driver.run (replace_properties_concrete cfg) verdict fuel tc0 file0 in
    (forall w, r <> NoFuel w) /\ (forall e w, r <> Aborted (Some e) w) /\
    n_tests (chron (result_world r)) <= 1 + (B / 2) * passes.
Proof. exact replace_properties_concrete_bounded. Qed.

(* the bound of the property text, (B+2)^2, whenever there are no more parts than bytes (every splitter
   produces non-empty parts: C06) *)
Theorem C09_replace_properties_square :
  forall cfg verdict tc0 file0 fuel,
    wf tc0 -> 1 <= c_max cfg ->
    zlen (tc_parts tc0) <= chars tc0 ->
    let B := chars tc0 in
    (Z.to_nat ((B + 2) * (B + 2) + 4) <= fuel)%nat ->
    let r := Driver.run (replace_properties_concrete cfg) verdict fuel tc0 file0 in
    (forall w, r <> NoFuel w) /\ (forall e w, r <> Aborted (Some e) w) /\
    n_tests (chron (result_world r)) <= (B + 2) * (B + 2).
Proof. exact replace_properties_concrete_square. Qed.

(* the regex scanners meet their specifications *)
Theorem C09_props_of_count : forall line, 2 * zlen (props_of line) <= zlen line.
Proof. exact props_of_count. Qed.

Theorem C09_sub_word_shrinks : forall word line, zlen (sub_word word line) <= zlen line.
Proof. exact sub_word_le. Qed.

Print Assumptions C09_replace_properties.
Print Assumptions C09_replace_properties_square.
Print Assumptions C09_props_of_count.
Print Assumptions C09_sub_word_shrinks.

(* ---- collapse-brace beyond line mode *)
From Lithium Require Import CollapseCharProofs.

(* minimize-collapse-brace in CHAR mode, end to end on a loaded file: the atoms stay single bytes and
   collapsing `{\s+}` to `{ }` never lengthens the region, so the re-split never adds atoms *)
Theorem C09_collapse_char :
  forall cfg clk verdict d tc0 fuel,
    load_char d = Ok tc0 -> valid_cfg cfg ->
    (Z.to_nat (2 * c09_bound (tc_len tc0)) <= fuel)%nat ->
    let r := Driver.run (collapse_brace cfg clk split_char) verdict fuel tc0 d in
    (forall w, r <> NoFuel w) /\ (forall e w, r <> Aborted (Some e) w) /\
    n_tests (chron (result_world r)) <= c09_bound (tc_len tc0).
Proof. exact collapse_char_bounded. Qed.

Theorem C09_collapse_never_longer : forall raw, zlen (collapse raw) <= zlen raw.
Proof. exact collapse_le. Qed.

(* the side condition is not automatic: with user-supplied symbol delimiters the re-split after a
   collapse CAN produce more atoms than before (cut-after = {space}: the one atom `{\n}` becomes
   `{ ` and `}`), so for the symbol splitter with arbitrary sets the bound is explored, not proved *)
Theorem C09_collapse_symbol_custom_post_refuted :
  exists bs afs, ~ post_ok (collapse_post (split_symbol bs afs)).
Proof. exact collapse_symbol_custom_post_refuted. Qed.

Print Assumptions C09_collapse_char.
Print Assumptions C09_collapse_never_longer.
Print Assumptions C09_collapse_symbol_custom_post_refuted.
