(* C09 - Every strategy terminates within a bounded number of tests.
   This file: minimize and minimize-collapse-brace (minimize + post-round callback).
   Quantification: every verdict function (no consistency assumed), every clock, every valid
   option setting, every input. *)
From Coq Require Import ZArith NArith List Bool.
From Lithium Require Import PyBase TcRecord Util Testcase Spec Driver TraceSpec Minimize StratSpec
  MinimizeBound Pairs PairsBound PyLines Markers Splitters Collapse CollapseBound Rewriters RewritersProofs.
Import ListNotations.
Open Scope Z_scope.

Theorem C09_minimize_like :
  forall cfg clk post verdict tc0 file0 fuel,
    wf tc0 -> valid_cfg cfg -> post_ok post ->
    (Z.to_nat (2 * c09_bound (tc_len tc0)) <= fuel)%nat ->
    let r := run (minimize cfg clk post) verdict fuel tc0 file0 in
    (forall w, r <> NoFuel w) /\ (forall e w, r <> Aborted (Some e) w) /\
    n_tests (chron (result_world r)) <= c09_bound (tc_len tc0).
Proof. exact minimize_bounded. Qed.

Theorem C09_minimize :
  forall cfg clk verdict tc0 file0 fuel,
    wf tc0 -> valid_cfg cfg ->
    (Z.to_nat (2 * c09_bound (tc_len tc0)) <= fuel)%nat ->
    let r := run (minimize cfg clk no_post) verdict fuel tc0 file0 in
    (forall w, r <> NoFuel w) /\ (forall e w, r <> Aborted (Some e) w) /\
    n_tests (chron (result_world r)) <= c09_bound (tc_len tc0).
Proof. exact minimize_bounded_no_post. Qed.

(* minimize-around / minimize-balanced (experimental move off): no internal error (the assert of
   minimize-balanced holds, no index error, the non-proposing transitions are bounded) and the
   same bound on the number of tests *)
Theorem C09_pairs :
  forall kind cfg clk verdict tc0 file0 fuel,
    wf tc0 -> valid_cfg cfg ->
    (Z.to_nat (2 * c09_bound (tc_len tc0)) <= fuel)%nat ->
    let r := run (pairs kind cfg clk) verdict fuel tc0 file0 in
    (forall w, r <> NoFuel w) /\ (forall e w, r <> Aborted (Some e) w) /\
    n_tests (chron (result_world r)) <= c09_bound (tc_len tc0).
Proof. exact pairs_bounded. Qed.

(* minimize-collapse-brace in line mode, end to end on a loaded file: the side condition of
   C09_minimize_like (the re-split never fails and never adds atoms) holds along the whole run
   because the atoms stay lines *)
Theorem C09_collapse_line :
  forall cfg clk verdict d tc0 fuel,
    load_line d = Ok tc0 -> valid_cfg cfg ->
    (Z.to_nat (2 * c09_bound (tc_len tc0)) <= fuel)%nat ->
    let r := Driver.run (collapse_brace cfg clk split_line) verdict fuel tc0 d in
    (forall w, r <> NoFuel w) /\ (forall e w, r <> Aborted (Some e) w) /\
    n_tests (chron (result_world r)) <= c09_bound (tc_len tc0).
Proof. exact collapse_line_bounded. Qed.

(* ---- the rewriting strategies: only their OUTER loops are modelled (Rewriters.v), over an abstract pass.
   replace-properties: RELATIVE to two interface facts about try_making_globals (a pass yields at most K
   candidates; an accepted candidate removes at least `maybe_removed` >= 1 bytes) the number of tests is
   bounded: the chunk size is halved at most log2 c0 + 1 times and a size is repeated only after bytes
   were removed.  The interface facts are monitored on the implementation, not proved of it: PARTIAL. *)
Theorem C09_replace_properties_partial :
  forall PS (pass_start : Z -> tcase -> PS) pass_next cfg verdict tc0 file0 fuel K,
    (forall c best, pass_le PS pass_next K (pass_start c best)) ->
    shrinking PS pass_next ->
    let c0 := r_chunk PS (props_start PS cfg tc0) in
    let passes := Z.log2 (Z.max 1 c0) + 2 + chars tc0 in
    (Z.to_nat ((Z.of_nat K + 2) * passes + 4) <= fuel)%nat ->
    let r := Driver.run (replace_properties PS pass_start pass_next cfg) verdict fuel tc0 file0 in
    (forall w, r <> NoFuel w) /\ (forall e w, r <> Aborted (Some e) w) /\
    n_tests (chron (result_world r)) <= 1 + Z.of_nat K * passes.
Proof. exact replace_properties_bounded. Qed.

(* replace-arguments: the outer loop repeats while a pass accepted something and nothing decreases: with a
   pass that always offers one (longer) candidate and a test that always answers Yes the number of tests
   exceeds every bound.  The concrete replay on the implementation is the known finding
   replace-arguments-unbounded. *)
Theorem C09_replace_arguments_refuted :
  exists PS (pass_start : Z -> tcase -> PS) pass_next tc0,
    forall N : Z, exists fuel,
      N <= n_tests (chron (result_world
             (Driver.run (replace_arguments PS pass_start pass_next default_cfg) (fun _ _ => Yes) fuel tc0
                         (content tc0)))).
Proof. exact replace_arguments_unbounded. Qed.

Print Assumptions C09_minimize_like.
Print Assumptions C09_replace_properties_partial.
Print Assumptions C09_replace_arguments_refuted.
Print Assumptions C09_collapse_line.
Print Assumptions C09_pairs.
Print Assumptions C09_minimize.
