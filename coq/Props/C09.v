(* C09 - Every strategy terminates within a bounded number of tests.
   This file: minimize and minimize-collapse-brace (minimize + post-round callback).
   Quantification: every verdict function (no consistency assumed), every clock, every valid
   option setting, every input. *)
From Coq Require Import ZArith NArith List Bool.
From Lithium Require Import PyBase TcRecord Util Testcase Spec Driver TraceSpec Minimize StratSpec
  MinimizeBound Pairs PairsBound.
Import ListNotations.
Open Scope Z_scope.

Theorem C09_minimize_like :
  forall cfg clk post verdict tc0 file0 fuel,
    wf tc0 -> valid_cfg cfg -> post_ok post ->
    (Z.to_nat (2 * c09_bound (tc_len tc0)) <= fuel)%nat ->
    let r := run (minimize cfg clk post) verdict fuel tc0 file0 in
    (forall w, r <> NoFuel w) /\ (forall e w, r <> Aborted (Some e) w) /\
    n_tests (chron (result_world r)) <= c09_bound (tc_len tc0).
Proof. exact minimize_bounded. Qed.

Theorem C09_minimize :
  forall cfg clk verdict tc0 file0 fuel,
    wf tc0 -> valid_cfg cfg ->
    (Z.to_nat (2 * c09_bound (tc_len tc0)) <= fuel)%nat ->
    let r := run (minimize cfg clk no_post) verdict fuel tc0 file0 in
    (forall w, r <> NoFuel w) /\ (forall e w, r <> Aborted (Some e) w) /\
    n_tests (chron (result_world r)) <= c09_bound (tc_len tc0).
Proof. exact minimize_bounded_no_post. Qed.

(* minimize-around / minimize-balanced (experimental move off): no internal error (the assert of
   minimize-balanced holds, no index error, the non-proposing transitions are bounded) and the
   same bound on the number of tests *)
Theorem C09_pairs :
  forall kind cfg clk verdict tc0 file0 fuel,
    wf tc0 -> valid_cfg cfg ->
    (Z.to_nat (2 * c09_bound (tc_len tc0)) <= fuel)%nat ->
    let r := run (pairs kind cfg clk) verdict fuel tc0 file0 in
    (forall w, r <> NoFuel w) /\ (forall e w, r <> Aborted (Some e) w) /\
    n_tests (chron (result_world r)) <= c09_bound (tc_len tc0).
Proof. exact pairs_bounded. Qed.

Print Assumptions C09_minimize_like.
Print Assumptions C09_pairs.
Print Assumptions C09_minimize.
