(* C12 - The temp directory is a faithful, duplicate-free log of all tests. *)
From Coq Require Import ZArith NArith List Bool.
From Lithium Require Import PyBase TcRecord Testcase Driver TraceSpec DriverProofs.
Import ListNotations.
Open Scope Z_scope.

(* for a finished or aborted run: temp dir = original + one tagged copy per answered test,
   each holding the bytes the file had during that test; tests and prefixes are numbered
   1,2,3,...; the reported number of tests is the number of test events *)
Theorem C12_log :
  forall S (strat : strategy S) verdict fuel tc0 file0,
    content tc0 = file0 ->
    let w := result_world (run strat verdict fuel tc0 file0) in
    rev (w_temp w) = (Original, file0) :: expected_temp (chron w) /\
    numbered_from 1 (tests_of (chron w)) /\
    w_tests w = n_tests (chron w) /\
    w_tfc w = n_tests (chron w) + 1 - (if existsb (fun e => match e with ETest _ _ _ Raise => true | _ => false end) (chron w) then 1 else 0).
Proof. exact run_temp_log. Qed.

(* no two tests after the initial check see byte-identical files *)
Theorem C12_no_duplicates :
  forall S (strat : strategy S) verdict fuel tc0 file0,
    let w := result_world (run strat verdict fuel tc0 file0) in
    NoDup (map test_file (tl (tests_of (chron w)))).
Proof. exact run_no_duplicate_tests. Qed.

Print Assumptions C12_log.
Print Assumptions C12_no_duplicates.
