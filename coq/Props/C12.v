(* C12 - The temp directory is a faithful, duplicate-free log of all tests. *)
From Coq Require Import ZArith NArith List Bool.
From Lithium Require Import PyBase TcRecord Testcase Driver TraceSpec DriverProofs.
Import ListNotations.
Open Scope Z_scope.

(* for a finished or aborted run: temp dir = original + one tagged copy per answered test,
   each holding the bytes the file had during that test; tests and prefixes are numbered
   1,2,3,...; the reported number of tests is the number of test events *)
Theorem C12_log :
  forall S (strat : strategy S) verdict fuel tc0 file0,
    content tc0 = file0 ->
    let w := result_world (run strat verdict fuel tc0 file0) in
    rev (w_temp w) = (Original, file0) :: expected_temp (chron w) /\
    numbered_from 1 (tests_of (chron w)) /\
    w_tests w = n_tests (chron w) /\
    w_tfc w = n_tests (chron w) + 1 - (if existsb (fun e => match e with ETest _ _ _ Raise => true | _ => false end) (chron w) then 1 else 0).
Proof. exact run_temp_log. Qed.

(* no two tests after the initial check see byte-identical files *)
Theorem C12_no_duplicates :
  forall S (strat : strategy S) verdict fuel tc0 file0,
    let w := result_world (run strat verdict fuel tc0 file0) in
    NoDup (map test_file (tl (tests_of (chron w)))).
Proof. exact run_no_duplicate_tests. Qed.

Print Assumptions C12_log.
Print Assumptions C12_no_duplicates.

(* ---- a following run() on a RE-USED Lithium object sharing the temp dir (Model/Session.v): the directory
   is the previous directory plus `original` plus one copy per answered test of this run, named by prefix
   numbers that continue where the previous run stopped - so nothing a previous run left is overwritten *)
From Lithium Require Import Session SessionProofs SessionLogProofs.

Theorem C12_session_log :
  forall S (strat : strategy S) verdict fuel tc0 file0 prev,
    content tc0 = file0 ->
    let w := result_world (run_on strat verdict fuel tc0 (carry true prev file0)) in
    w_temp w = rev ((Original, file0) :: expected_temp_p (chron w)) ++ w_temp prev /\
    numbered_from2 (w_tests prev + 1) (w_tfc prev) (tests_of (chron w)) /\
    w_tests w = w_tests prev + n_tests (chron w) /\
    w_tfc w = w_tfc prev + n_tests (chron w)
              - (if existsb (fun e => match e with ETest _ _ _ Raise => true | _ => false end) (chron w) then 1 else 0).
Proof. exact session_temp_log. Qed.

Theorem C12_session_no_overwrite :
  forall S (strat : strategy S) verdict fuel tc0 file0 prev,
    content tc0 = file0 ->
    names_below (w_temp prev) (w_tfc prev) ->
    let w := result_world (run_on strat verdict fuel tc0 (carry true prev file0)) in
    (forall p tag b, In (Numbered p tag, b) (expected_temp_p (chron w)) -> w_tfc prev <= p) /\
    names_below (w_temp w) (w_tfc w).
Proof. exact session_no_overwrite. Qed.

Print Assumptions C12_session_log.
Print Assumptions C12_session_no_overwrite.

(* ---- a test that CHANGES the testcase file while it runs (Model/Scribble.v: `scr k file` = what test k leaves at
   the path; run_s = run with such a test).  Lithium never reads the file back, so the run is the same run; what it
   keeps, logs and restores is the candidate it wrote, never what the test left behind ---- *)
From Lithium Require Import Scribble ScribbleProofs.

(* C02 (kill) / C12 for such tests: the temp dir is the log of the CANDIDATES, not of what the test left *)
Theorem C12_log_test_changes_file :
  forall S (strat : strategy S) verdict scr fuel tc0 file0,
    content tc0 = file0 ->
    let w := result_world (run_s strat verdict scr fuel tc0 file0) in
    rev (w_temp w) = (Original, file0) :: expected_temp (chron w) /\
    numbered_from 1 (tests_of (chron w)) /\
    w_tests w = n_tests (chron w).
Proof. exact run_s_temp_log. Qed.

Print Assumptions C12_log_test_changes_file.
