(* C14 - Chunk-size, repeat and time-limit options are honoured (minimize). *)
From Coq Require Import ZArith NArith List Bool.
From Lithium Require Import PyBase TcRecord Util Testcase Spec Driver TraceSpec Minimize StratSpec
  MinimizeProofs Pairs PairsDeadline Cli CliValidation.
Import ListNotations.
Open Scope Z_scope.

(* helpers of util.py mean what their names say, for every integer *)
Theorem C14_is_power_of_two : forall x, is_power_of_two x = true <-> pow2 x.
Proof. exact is_power_of_two_spec. Qed.

Theorem C14_largest_power_of_two_smaller_than :
  forall n, 2 <= n ->
    pow2 (largest_power_of_two_smaller_than n) /\
    largest_power_of_two_smaller_than n < n <= 2 * largest_power_of_two_smaller_than n.
Proof. exact lpo2st_spec. Qed.

(* every candidate, in every reachable state of every run: one contiguous block [s,e) of
   reducible atoms of the current best; its size is the chunk size c in force (a power of two,
   at most the effective maximum, not larger than any earlier chunk size) unless the block is
   the entire remainder; it is below --min only once at most --min atoms remain *)
Theorem C14_blocks :
  forall cfg clk verdict tc0 file0 st it w t k,
    wf tc0 -> valid_cfg cfg -> c_min cfg <= c_max cfg ->
    reachable (minimize cfg clk no_post) verdict tc0 file0 st it w ->
    mnext cfg clk no_post st (it_best it) = Propose t k ->
    exists s e c,
      rmslice (it_best it) s e = Ok t /\ 0 <= s < e /\ e <= tc_len (it_best it) /\
      pow2 c /\ c <= eff_max cfg (tc_len tc0) /\ c <= m_chunk_size st /\
      (forall o, m_chunk_size (k o) = c) /\
      (e - s = c \/ (s = 0 /\ e = tc_len (it_best it) /\ e < c)) /\
      (e - s < c_min cfg -> tc_len (it_best it) <= c_min cfg).
Proof. exact minimize_blocks. Qed.

(* the round-end decision: the size never grows, and it stays the same only after a sweep
   that removed something and only where the repeat mode allows it *)
Theorem C14_repeat :
  forall cfg s best s',
    1 <= m_min_chunk s -> pow2 (m_chunk_size s) ->
    decide_state cfg s best = Some s' ->
    m_chunk_size s' <= m_chunk_size s /\ pow2 (m_chunk_size s') /\
    (m_chunk_size s' = m_chunk_size s ->
       m_removed s = true /\
       match c_repeat cfg with
       | Never => False
       | Last => m_chunk_size s <= m_min_chunk s
       | Always => True
       end).
Proof. exact decide_repeat. Qed.

(* --chunk-size=n (min = max = n, repeat never): a single sweep *)
Theorem C14_single_sweep :
  forall cfg s best, c_repeat cfg = Never -> m_chunk_size s <= m_min_chunk s ->
    decide_state cfg s best = None.
Proof. exact decide_never_stops. Qed.

Theorem C14_chunk_size_option_state :
  forall cfg clk tc0, c_min cfg = c_max cfg -> 1 <= c_max cfg ->
    m_chunk_size (mstart cfg clk tc0) = m_min_chunk (mstart cfg clk tc0).
Proof. exact mstart_min_eq_max. Qed.

(* time limit: the deadline is start + limit, it is checked at the head of every iteration
   (every candidate of minimize is proposed from phase PHead), and once a clock reading
   exceeds it no further candidate is proposed *)
Theorem C14_deadline :
  forall cfg clk post s best d,
    m_phase s = PHead -> m_deadline s = Some d -> clk (m_reads s) > d ->
    mnext cfg clk post s best = Done.
Proof. exact mnext_deadline. Qed.

Theorem C14_deadline_start :
  forall cfg clk tc0 l, c_limit cfg = Some l ->
    m_deadline (mstart cfg clk tc0) = Some (clk O + l) /\ m_phase (mstart cfg clk tc0) = PHead.
Proof. exact mstart_deadline. Qed.

Theorem C14_always_head :
  forall cfg clk verdict tc0 file0 st it w,
    reachable (minimize cfg clk no_post) verdict tc0 file0 st it w -> m_phase st = PHead.
Proof. exact minimize_phase_head. Qed.

(* minimize-around / minimize-balanced: the deadline is start + limit; once the clock stays
   beyond it (time does not go back) the strategy proposes nothing more *)
Theorem C14_pairs_deadline :
  forall kind cfg clk s best d,
    p_deadline s = Some d -> (forall i, (p_reads s <= i)%nat -> clk i > d) ->
    pnext kind cfg clk s best = Done \/ exists e, pnext kind cfg clk s best = Fail e.
Proof. exact pairs_deadline_stops. Qed.

Theorem C14_pairs_deadline_start :
  forall cfg clk tc0 l, c_limit cfg = Some l ->
    p_deadline (pstart cfg clk tc0) = Some (clk O + l) /\ p_reads (pstart cfg clk tc0) = 1%nat.
Proof. exact pairs_deadline_start. Qed.

(* the deadline never changes during a run *)
Theorem C14_pairs_deadline_constant :
  forall kind cfg clk s best t k o,
    pnext kind cfg clk s best = Propose t k -> p_deadline (k o) = p_deadline s /\ (p_reads s <= p_reads (k o))%nat.
Proof. exact pairs_deadline_constant. Qed.

(* start-up validation (Minimize.process_args as modelled in Cli.v, pinned to the source text): accepted
   settings have power-of-two min and max, --chunk-size n means min = max = n with repeat never; anything
   else is refused *)
Theorem C14_validation_accepts :
  forall c c', finish_minimize c = Ok c' ->
    pow2 (cf_min c') /\ pow2 (cf_max c') /\
    match cf_chunk c with
    | Some n => cf_min c' = n /\ cf_max c' = n /\ cf_repeat c' = RNever
    | None => cf_min c' = cf_min c /\ cf_max c' = cf_max c /\ cf_repeat c' = cf_repeat c
    end /\
    cf_limit c' = cf_limit c.
Proof. exact finish_minimize_spec. Qed.

Theorem C14_validation_refuses :
  forall c,
    (match cf_chunk c with
     | Some n => ~ pow2 n
     | None => ~ pow2 (cf_min c) \/ ~ pow2 (cf_max c)
     end) ->
    exists e, finish_minimize c = Err e.
Proof. exact finish_minimize_refuses. Qed.

Print Assumptions C14_is_power_of_two.
Print Assumptions C14_validation_accepts.
Print Assumptions C14_validation_refuses.
Print Assumptions C14_pairs_deadline.
Print Assumptions C14_pairs_deadline_start.
Print Assumptions C14_pairs_deadline_constant.
Print Assumptions C14_largest_power_of_two_smaller_than.
Print Assumptions C14_blocks.
Print Assumptions C14_repeat.
Print Assumptions C14_single_sweep.
Print Assumptions C14_chunk_size_option_state.
Print Assumptions C14_deadline.
Print Assumptions C14_deadline_start.
Print Assumptions C14_always_head.
