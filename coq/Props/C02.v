(* C02 - Interrupts, errors and kills never lose the last accepted version.
   Statements only.  An abort is `Aborted None` (the test raised: the model does not
   distinguish exception classes, `finally` runs for all of them) or `Aborted (Some e)`
   (the strategy failed internally). *)
From Coq Require Import ZArith NArith List Bool.
From Lithium Require Import PyBase TcRecord Testcase Driver TraceSpec DriverProofs.
Import ListNotations.
Open Scope Z_scope.

Theorem C02_abort_restores :
  forall S (strat : strategy S) verdict fuel tc0 file0 e w,
    content tc0 = file0 ->
    run strat verdict fuel tc0 file0 = Aborted e w ->
    w_file w = last_accepted (chron w) file0 /\ hooks_ok (chron w).
Proof. exact run_abort_restores. Qed.

(* hooks are also exactly-once on normal termination *)
Theorem C02_hooks_finished :
  forall S (strat : strategy S) verdict fuel tc0 file0 rc w,
    run strat verdict fuel tc0 file0 = Finished rc w -> hooks_ok (chron w).
Proof. exact run_finished_hooks. Qed.

(* SIGKILL while test k is running = cut the trace right after some ETest event:
   the highest-numbered interesting copy (else `original`) written before that moment is the
   last version accepted before that moment *)
Theorem C02_kill_tempdir :
  forall S (strat : strategy S) verdict fuel tc0 file0 pre k p f a post,
    content tc0 = file0 ->
    chron (result_world (run strat verdict fuel tc0 file0)) = pre ++ ETest k p f a :: post ->
    best_tagged (copies pre) None = Some (last_accepted pre file0).
Proof. exact kill_tempdir. Qed.

Print Assumptions C02_abort_restores.
Print Assumptions C02_hooks_finished.
Print Assumptions C02_kill_tempdir.
