(* C02 - Interrupts, errors and kills never lose the last accepted version.
   Statements only.  An abort is `Aborted None` (the test raised: the model does not
   distinguish exception classes, `finally` runs for all of them) or `Aborted (Some e)`
   (the strategy failed internally). *)
From Coq Require Import ZArith NArith List Bool.
From Lithium Require Import PyBase TcRecord Testcase Driver TraceSpec Minimize DriverProofs RestoreProofs.
Import ListNotations.
Open Scope Z_scope.

(* The file is restored whenever the test raised (e = None), or at least one candidate had been
   tested, or nothing was ever written.  The single case left out - a strategy that writes the
   testcase file ITSELF (RawWrite) and then raises before any of its candidates was tested -
   is genuinely not restored by the code (Lithium.testcase_written is only set by
   Lithium.interesting); see C02_abort_restores_unrestricted_refuted.  No shipped strategy can
   reach it: the only raw writer, minimize-collapse-brace, writes at the end of a sweep, i.e.
   after its first candidate, which is never de-duplicated (C02_minimize_like_restores). *)
Theorem C02_abort_restores :
  forall S (strat : strategy S) verdict fuel tc0 file0 e w,
    content tc0 = file0 ->
    run strat verdict fuel tc0 file0 = Aborted e w ->
    (e = None \/ 1 < n_tests (chron w) \/ no_writes (chron w) ->
     w_file w = last_accepted (chron w) file0) /\
    hooks_ok (chron w).
Proof. exact run_abort_restores_corrected. Qed.

Theorem C02_abort_restores_unrestricted_refuted :
  ~ (forall S (strat : strategy S) verdict fuel tc0 file0 e w,
       content tc0 = file0 ->
       run strat verdict fuel tc0 file0 = Aborted e w ->
       w_file w = last_accepted (chron w) file0 /\ hooks_ok (chron w)).
Proof. exact run_abort_restores_counterexample. Qed.

(* minimize and minimize-collapse-brace (any post-round callback): the raw write happens only at
   the end of a sweep, i.e. after the first candidate - which is never de-duplicated - was
   tested, so for these strategies the file is restored after EVERY abort *)
Theorem C02_minimize_like_restores :
  forall cfg clk post verdict fuel tc0 file0 e w,
    wf tc0 -> content tc0 = file0 ->
    run (minimize cfg clk post) verdict fuel tc0 file0 = Aborted e w ->
    w_file w = last_accepted (chron w) file0 /\ hooks_ok (chron w).
Proof. exact minimize_like_abort_restores_corrected. Qed.

(* hooks are also exactly-once on normal termination *)
Theorem C02_hooks_finished :
  forall S (strat : strategy S) verdict fuel tc0 file0 rc w,
    run strat verdict fuel tc0 file0 = Finished rc w -> hooks_ok (chron w).
Proof. exact run_finished_hooks. Qed.

(* SIGKILL while test k is running = cut the trace right after some ETest event:
   the highest-numbered interesting copy (else `original`) written before that moment is the
   last version accepted before that moment *)
Theorem C02_kill_tempdir :
  forall S (strat : strategy S) verdict fuel tc0 file0 pre k p f a post,
    content tc0 = file0 ->
    chron (result_world (run strat verdict fuel tc0 file0)) = pre ++ ETest k p f a :: post ->
    best_tagged (copies pre) None = Some (last_accepted pre file0).
Proof. exact kill_tempdir. Qed.

Print Assumptions C02_abort_restores.
Print Assumptions C02_minimize_like_restores.
Print Assumptions C02_abort_restores_unrestricted_refuted.
Print Assumptions C02_hooks_finished.
Print Assumptions C02_kill_tempdir.

(* ---- a following run() on a RE-USED Lithium object (Model/Session.v): same statements for EVERY previous
   world (any counters, temp dir, stale last_interesting, written flag) *)
From Lithium Require Import Session SessionProofs.

(* the abort half (C02): whatever way the following run ends - finished, test raised, strategy
   raised - the file is the last accepted version of THIS run (same side condition as C02_abort_restores) *)
Theorem C02_session_abort_restores :
  forall S (strat : strategy S) verdict fuel tc0 file0 prev e w,
    content tc0 = file0 ->
    run_on strat verdict fuel tc0 (carry true prev file0) = Aborted e w ->
    (e = None \/ 1 < n_tests (chron w) \/ no_writes (chron w)) ->
    w_file w = last_accepted (chron w) file0.
Proof. exact session_abort_restores. Qed.

Print Assumptions C02_session_abort_restores.

(* ---- a test that CHANGES the testcase file while it runs (Model/Scribble.v: `scr k file` = what test k leaves at
   the path; run_s = run with such a test).  Lithium never reads the file back, so the run is the same run; what it
   keeps, logs and restores is the candidate it wrote, never what the test left behind ---- *)
From Lithium Require Import Scribble ScribbleProofs.

(* 1. Lithium never reads the testcase file back: whatever the test leaves there, the run - answers,
   trace (every file handed to a test, every write, every temp copy), counters, temp dir, status -
   is the run against the same test leaving the file alone; only the bytes at the path may differ *)
Theorem scribble_invisible :
  forall S (strat : strategy S) verdict scr fuel tc0 file0,
    same_result_but_file (run_s strat verdict scr fuel tc0 file0) (run strat verdict fuel tc0 file0).
Proof. exact run_s_same_but_file. Qed.

(* 2. and once Lithium has written a candidate, the bytes at the path at the end of the run are the
   same too (the final dump / the restoring dump overwrite what the test left) *)
Theorem scribble_final_file :
  forall S (strat : strategy S) verdict scr fuel tc0 file0,
    match run_s strat verdict scr fuel tc0 file0, run strat verdict fuel tc0 file0 with
    | Finished _ w1, Finished _ w2 => w_dirty w2 = true \/ scr 1 file0 = None \/ tc_len tc0 = 0 -> w_file w1 = w_file w2
    | Aborted _ w1, Aborted _ w2 => w_dirty w2 = true \/ scr 1 file0 = None -> w_file w1 = w_file w2
    | _, _ => True
    end.
Proof. exact run_s_final_file. Qed.

(* C02 for such tests: after an abort the file is restored as soon as one candidate had been written *)
Theorem C02_abort_restores_test_changes_file :
  forall S (strat : strategy S) verdict scr fuel tc0 file0 e w,
    content tc0 = file0 ->
    run_s strat verdict scr fuel tc0 file0 = Aborted e w ->
    1 < n_tests (chron w) ->
    w_file w = last_accepted (chron w) file0 /\ hooks_ok (chron w).
Proof. exact run_s_abort_restores. Qed.

Theorem C02_kill_tempdir_test_changes_file :
  forall S (strat : strategy S) verdict scr fuel tc0 file0 pre k p f a post,
    content tc0 = file0 ->
    chron (result_world (run_s strat verdict scr fuel tc0 file0)) = pre ++ ETest k p f a :: post ->
    best_tagged (copies pre) None = Some (last_accepted pre file0).
Proof. exact run_s_kill_tempdir. Qed.

Print Assumptions scribble_invisible.
Print Assumptions scribble_final_file.
Print Assumptions C02_abort_restores_test_changes_file.
Print Assumptions C02_kill_tempdir_test_changes_file.
