(* C02 - Interrupts, errors and kills never lose the last accepted version.
   Statements only.  An abort is `Aborted None` (the test raised: the model does not
   distinguish exception classes, `finally` runs for all of them) or `Aborted (Some e)`
   (the strategy failed internally). *)
From Coq Require Import ZArith NArith List Bool.
From Lithium Require Import PyBase TcRecord Testcase Driver TraceSpec Minimize DriverProofs RestoreProofs.
Import ListNotations.
Open Scope Z_scope.

(* The file is restored whenever the test raised (e = None), or at least one candidate had been
   tested, or nothing was ever written.  The single case left out - a strategy that writes the
   testcase file ITSELF (RawWrite) and then raises before any of its candidates was tested -
   is genuinely not restored by the code (Lithium.testcase_written is only set by
   Lithium.interesting); see C02_abort_restores_unrestricted_refuted.  No shipped strategy can
   reach it: the only raw writer, minimize-collapse-brace, writes at the end of a sweep, i.e.
   after its first candidate, which is never de-duplicated (C02_minimize_like_restores). *)
Theorem C02_abort_restores :
  forall S (strat : strategy S) verdict fuel tc0 file0 e w,
    content tc0 = file0 ->
    run strat verdict fuel tc0 file0 = Aborted e w ->
    (e = None \/ 1 < n_tests (chron w) \/ no_writes (chron w) ->
     w_file w = last_accepted (chron w) file0) /\
    hooks_ok (chron w).
Proof. exact run_abort_restores_corrected. Qed.

Theorem C02_abort_restores_unrestricted_refuted :
  ~ (forall S (strat : strategy S) verdict fuel tc0 file0 e w,
       content tc0 = file0 ->
       run strat verdict fuel tc0 file0 = Aborted e w ->
       w_file w = last_accepted (chron w) file0 /\ hooks_ok (chron w)).
Proof. exact run_abort_restores_counterexample. Qed.

(* minimize and minimize-collapse-brace (any post-round callback): the raw write happens only at
   the end of a sweep, i.e. after the first candidate - which is never de-duplicated - was
   tested, so for these strategies the file is restored after EVERY abort *)
Theorem C02_minimize_like_restores :
  forall cfg clk post verdict fuel tc0 file0 e w,
    wf tc0 -> content tc0 = file0 ->
    run (minimize cfg clk post) verdict fuel tc0 file0 = Aborted e w ->
    w_file w = last_accepted (chron w) file0 /\ hooks_ok (chron w).
Proof. exact minimize_like_abort_restores_corrected. Qed.

(* hooks are also exactly-once on normal termination *)
Theorem C02_hooks_finished :
  forall S (strat : strategy S) verdict fuel tc0 file0 rc w,
    run strat verdict fuel tc0 file0 = Finished rc w -> hooks_ok (chron w).
Proof. exact run_finished_hooks. Qed.

(* SIGKILL while test k is running = cut the trace right after some ETest event:
   the highest-numbered interesting copy (else `original`) written before that moment is the
   last version accepted before that moment *)
Theorem C02_kill_tempdir :
  forall S (strat : strategy S) verdict fuel tc0 file0 pre k p f a post,
    content tc0 = file0 ->
    chron (result_world (run strat verdict fuel tc0 file0)) = pre ++ ETest k p f a :: post ->
    best_tagged (copies pre) None = Some (last_accepted pre file0).
Proof. exact kill_tempdir. Qed.

Print Assumptions C02_abort_restores.
Print Assumptions C02_minimize_like_restores.
Print Assumptions C02_abort_restores_unrestricted_refuted.
Print Assumptions C02_hooks_finished.
Print Assumptions C02_kill_tempdir.

(* ---- a following run() on a RE-USED Lithium object (Model/Session.v): same statements for EVERY previous
   world (any counters, temp dir, stale last_interesting, written flag) *)
From Lithium Require Import Session SessionProofs.

(* the abort half (C02): whatever way the following run ends - finished, test raised, strategy
   raised - the file is the last accepted version of THIS run (same side condition as C02_abort_restores) *)
Theorem C02_session_abort_restores :
  forall S (strat : strategy S) verdict fuel tc0 file0 prev e w,
    content tc0 = file0 ->
    run_on strat verdict fuel tc0 (carry true prev file0) = Aborted e w ->
    (e = None \/ 1 < n_tests (chron w) \/ no_writes (chron w)) ->
    w_file w = last_accepted (chron w) file0.
Proof. exact session_abort_restores. Qed.

Print Assumptions C02_session_abort_restores.
