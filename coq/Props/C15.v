(* C15 - Line, char and symbol atoms follow their documented boundaries. *)
From Coq Require Import ZArith NArith List Bool.
From Lithium Require Import PyBase TcRecord PyLines Markers Splitters SplitSpec SplitProofs.
Import ListNotations.

(* line atoms are exactly the lines *)
Theorem C15_line_parts :
  forall d s, split_line d = Ok s -> sp_parts s = splitlines d /\ sp_red s = map (fun _ => true) (splitlines d).
Proof. exact split_line_parts. Qed.

(* every line but the last ends with a line terminator *)
Theorem C15_line_terminated :
  forall d l, In l (removelast (splitlines d)) -> ends_with_terminator l.
Proof. exact lines_terminated. Qed.

(* a line feed (and VT FF FS GS RS) occurs only as the final byte of a line *)
Theorem C15_line_lf_last :
  forall d l b, In l (splitlines d) -> simple_term b = true -> ~ In b (removelast l).
Proof. exact lines_simple_term_last. Qed.

(* a CR-LF pair is never split *)
Theorem C15_line_crlf :
  forall d l1 l2, In (l1, l2) (adjacent (splitlines d)) ->
    ~ (ends_with [13%N] l1 /\ exists r, l2 = 10%N :: r).
Proof. exact lines_crlf_not_split. Qed.

(* char atoms are single bytes *)
Theorem C15_char_parts :
  forall d s, split_char d = Ok s -> sp_parts s = map (fun b => [b]) d.
Proof. exact split_char_parts. Qed.

Theorem C15_char_loaded :
  forall d t, load_char d = Ok t -> Forall (fun p => length p = 1%nat) (tc_parts t).
Proof. exact load_char_single_bytes. Qed.

(* symbol atoms: the atoms tile the data and the boundaries between atoms are exactly the
   positions right after a cut-after byte or right before a cut-before byte
   (sets with an empty intersection; for a byte in both sets see C15_symbol_overlap_refuted) *)
Theorem C15_symbol_cuts :
  forall bs afs d s, disjoint_sets bs afs -> split_symbol bs afs d = Ok s ->
    concat (sp_parts s) = d /\ boundaries 0 (sp_parts s) = cut_positions bs afs d.
Proof. exact symbol_cut_positions. Qed.

Theorem C15_symbol_overlap_refuted :
  exists bs afs d s, split_symbol bs afs d = Ok s /\ boundaries 0 (sp_parts s) <> cut_positions bs afs d.
Proof. exact symbol_overlap_counterexample. Qed.

Example C15_defaults_disjoint : disjoint_sets DEFAULT_CUT_BEFORE DEFAULT_CUT_AFTER.
Proof. exact defaults_disjoint. Qed.

Print Assumptions C15_line_parts.
Print Assumptions C15_line_terminated.
Print Assumptions C15_line_lf_last.
Print Assumptions C15_line_crlf.
Print Assumptions C15_char_parts.
Print Assumptions C15_char_loaded.
Print Assumptions C15_symbol_cuts.
Print Assumptions C15_symbol_overlap_refuted.
