(* C18 - Child outcome classification is exact (decision function; the runtime half - timeouts,
   kill/reap, byte-exact capture - is explored by the correspondence harness, see DESIGN.md). *)
From Coq Require Import ZArith List Bool.
From Lithium Require Import StatusTypes Status StatusProofs.
Open Scope Z_scope.

(* TIMEOUT exactly when the child was still running at the limit *)
Theorem C18_timeout : forall t rc, classify t rc = TIMEOUT <-> t = true.
Proof. exact classify_timeout. Qed.

(* for a child that ended: total over all integers *)
Theorem C18_finished : forall rc,
  (classify false rc = NORMAL <-> rc = 0) /\
  (classify false rc = CRASH <-> rc < 0 \/ rc = 77 \/ 2 ^ 31 <= rc) /\
  (classify false rc = ABNORMAL <-> 0 < rc < 2 ^ 31 /\ rc <> 77).
Proof. exact classify_finished. Qed.

(* on POSIX the return code is -signal or an exit code 0..255: CRASH exactly for death by a
   signal or the sanitizer exit code *)
Theorem C18_posix : forall rc, -64 <= rc <= 255 ->
  (classify false rc = CRASH <-> rc < 0 \/ rc = 77).
Proof. exact classify_posix. Qed.

(* no exit code is reported on a timeout, the real one otherwise *)
Theorem C18_reported_code : forall t rc,
  reported_code (classify t rc) rc = if t then None else Some rc.
Proof. exact code_reported. Qed.

Theorem C18_crashes : forall st, crashes_verdict st = true <-> st = CRASH.
Proof. exact crashes_iff. Qed.

Theorem C18_hangs : forall st, hangs_verdict st = true <-> st = TIMEOUT.
Proof. exact hangs_iff. Qed.

Example C18_example : classify false (-11) = CRASH /\ classify false 77 = CRASH /\
  classify false 1 = ABNORMAL /\ classify false 0 = NORMAL /\ classify true 0 = TIMEOUT.
Proof. repeat split. Qed.

Print Assumptions C18_timeout.
Print Assumptions C18_finished.
Print Assumptions C18_posix.
Print Assumptions C18_reported_code.
Print Assumptions C18_crashes.
Print Assumptions C18_hangs.
