(* C06 - Splitting a file and writing it back is the identity.
   For ALL byte strings d (any length, any bytes). *)
From Coq Require Import ZArith NArith List Bool.
From Lithium Require Import PyBase TcRecord PyLines Markers Splitters SplitJs SplitAttrs SplitSpec
  SplitProofs SplitMore.
Import ListNotations.

Theorem C06_splitlines_concat : forall d, concat (splitlines d) = d.
Proof. exact splitlines_concat. Qed.

Theorem C06_splitlines_nonempty : forall d, Forall (fun l => l <> []) (splitlines d).
Proof. exact splitlines_nonempty. Qed.

(* the marker scan only partitions the file *)
Theorem C06_markers_partition :
  forall d, match find_markers d with
            | NoMarkers w => w = d
            | Marked b r a => b ++ r ++ a = d
            | MarkerError => True
            end.
Proof. exact find_markers_partition. Qed.

(* any splitter that tiles its input gives a loss-free loader; the only error is LithiumError *)
Theorem C06_load_generic : forall sp, splitter_ok sp -> loader_ok (load sp).
Proof. exact load_generic_ok. Qed.

Theorem C06_load_errors :
  forall sp, (forall d e, sp d = Err e -> e = LithiumError) -> only_lithium_error (load sp).
Proof. exact load_generic_errors. Qed.

Theorem C06_line : loader_ok load_line /\ only_lithium_error load_line.
Proof. exact load_line_ok. Qed.

Theorem C06_char : loader_ok load_char /\ only_lithium_error load_char.
Proof. exact load_char_ok. Qed.

Theorem C06_symbol : forall bs afs, loader_ok (load_symbol bs afs) /\ only_lithium_error (load_symbol bs afs).
Proof. exact load_symbol_ok. Qed.

Theorem C06_jsstr : loader_ok load_jsstr /\ only_lithium_error load_jsstr.
Proof. exact load_jsstr_ok. Qed.

Theorem C06_attrs : loader_ok load_attrs /\ only_lithium_error load_attrs.
Proof. exact load_attrs_ok. Qed.

(* non-vacuity: the input that the unfixed code corrupted *)
Example C06_char_example :
  load_char [68;68;66;69;71;73;78;10;97;98;13;68;68;69;78;68;10]%N =
  Ok {| tc_before := [68;68;66;69;71;73;78;10]%N; tc_parts := [[97]; [98]]%N; tc_red := [true; true];
        tc_after := [13;68;68;69;78;68;10]%N |}.
Proof. vm_compute. reflexivity. Qed.

Print Assumptions C06_splitlines_concat.
Print Assumptions C06_splitlines_nonempty.
Print Assumptions C06_markers_partition.
Print Assumptions C06_load_generic.
Print Assumptions C06_load_errors.
Print Assumptions C06_line.
Print Assumptions C06_char.
Print Assumptions C06_symbol.
Print Assumptions C06_jsstr.
Print Assumptions C06_attrs.
