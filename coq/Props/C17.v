(* C17 - Command line: test arguments are isolated; the test name resolves predictably.
   Over the model of argparse/importlib AS CONFIGURED by Lithium (Model/Cli.v; token domain:
   full option names, no abbreviations, no "--", no clustered short flags). *)
From Coq Require Import ZArith NArith List Bool String.
From Lithium Require Import PyBase Cli CliProofs.
Import ListNotations.

(* once the first positional (the test name) is reached, everything after it is copied *)
Theorem C17_scan_isolation :
  forall tbl lenient pre items name rest,
    scan tbl lenient pre [] = Ok (items, []) -> is_dash name = false ->
    scan tbl lenient (pre ++ name :: rest) [] = Ok (items, name :: rest).
Proof. exact scan_isolation. Qed.

(* nothing behind the test name changes Lithium's configuration, whatever it looks like; the
   test gets its arguments verbatim and in order; the file is --testcase or the last argument *)
Theorem C17_isolation :
  forall pre ie name rest rest',
    scan early_table true pre [] = Ok (ie, []) -> is_dash name = false ->
    match process_args early_table (pre ++ name :: rest), process_args early_table (pre ++ name :: rest') with
    | Ok p, Ok p' =>
        pa_config p = pa_config p' /\ pa_test p = name /\ pa_test p' = name /\
        pa_test_args p = rest /\ pa_test_args p' = rest' /\
        pa_file p = match cf_testcase (pa_config p) with Some f => f | None => last (name :: rest) name end
    | Err _, Err _ => True
    | _, _ => False
    end.
Proof. exact process_args_isolation. Qed.

(* Lithium's options before the name take effect: whenever the main parser accepts the command
   line, the early parser (which knows every option) saw the same options, so the strategy and
   atom type it chose are the ones the main parser's own items name *)
Theorem C17_options_take_effect :
  forall s a argv items extra,
    scan (main_table s a) false argv [] = Ok (items, extra) ->
    scan early_table true argv [] = Ok (items, extra) /\
    early_choice early_table argv = (pick_strategy items SMinimize, pick_atom items ALine).
Proof. exact early_sees_main_items. Qed.

(* the early parser as it was before the fix did not: a value-taking option it did not know
   ended its parse at the option's value *)
Theorem C17_old_early_parser_refuted :
  exists argv items extra,
    scan (main_table SCheckOnly ALine) false argv [] = Ok (items, extra) /\
    pick_strategy items SMinimize = SCheckOnly /\
    early_choice old_early_table argv = (SMinimize, ALine).
Proof. exact old_early_parser_counterexample. Qed.

(* resolution of the test name against an arbitrary import oracle *)
Theorem C17_resolution :
  forall origin (loaded : bytes -> option origin) in_dir builtin syspath cwd name,
    loaded name = None ->
    (forall d o, in_dir d name = Some o ->
       fst (rel_or_abs_import origin loaded in_dir builtin syspath cwd (Some d) name) = Some o) /\
    (forall o, in_dir cwd name = Some o ->
       fst (rel_or_abs_import origin loaded in_dir builtin syspath cwd None name) = Some o) /\
    (in_dir cwd name = None -> find_on_path origin in_dir syspath name = None ->
       fst (rel_or_abs_import origin loaded in_dir builtin syspath cwd None name) = builtin name) /\
    (forall d, in_dir d name = None -> find_on_path origin in_dir syspath name = None ->
       fst (rel_or_abs_import origin loaded in_dir builtin syspath cwd (Some d) name) = None).
Proof. exact import_resolution. Qed.

(* the module search path is left as it was *)
Theorem C17_syspath_restored :
  forall origin (loaded : bytes -> option origin) in_dir builtin syspath cwd dir name,
    snd (rel_or_abs_import origin loaded in_dir builtin syspath cwd dir name) = syspath.
Proof. exact syspath_restored. Qed.

(* known finding: a name that is already imported wins over the file at the given path *)
Theorem C17_sys_modules_shadow :
  forall origin (loaded : bytes -> option origin) in_dir builtin syspath cwd dir name o,
    loaded name = Some o ->
    fst (rel_or_abs_import origin loaded in_dir builtin syspath cwd dir name) = Some o.
Proof. exact sys_modules_shadow. Qed.

Print Assumptions C17_scan_isolation.
Print Assumptions C17_isolation.
Print Assumptions C17_options_take_effect.
Print Assumptions C17_old_early_parser_refuted.
Print Assumptions C17_resolution.
Print Assumptions C17_syspath_restored.
Print Assumptions C17_sys_modules_shadow.
