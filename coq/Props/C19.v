(* C19 - outputs, diff_test and repeat decide exactly what they document (decision logic). *)
From Coq Require Import ZArith NArith List Bool.
From Lithium Require Import PyBase Markers Interest InterestProofs.
Import ListNotations.
Open Scope Z_scope.

(* outputs: the search text (or a regex match) occurs in stdout or stderr - in both capture
   modes, for every notion `matches` of regex matching *)
Theorem C19_outputs_spec :
  forall matches is_regex search out err,
    outputs_mem matches is_regex search out err =
      (if is_regex then matches search out || matches search err
       else contains search out || contains search err) /\
    outputs_file matches is_regex search out err =
      (if is_regex then matches search out || matches search err
       else contains search out || contains search err).
Proof. exact outputs_spec. Qed.

Theorem C19_outputs_modes_agree :
  forall matches is_regex search out err,
    outputs_mem matches is_regex search out err = outputs_file matches is_regex search out err.
Proof. exact outputs_modes_agree. Qed.

(* `contains` is "occurs as a substring" (C08_contains) *)

(* diff_test: exit status (None = timed out), stdout or stderr differ *)
Theorem C19_diff_spec :
  forall ra rb oa ea ob eb,
    diff_mem ra rb oa ea ob eb = true <-> (ra <> rb \/ oa <> ob \/ ea <> eb).
Proof. exact diff_mem_spec. Qed.

Theorem C19_diff_modes_agree :
  forall ra rb oa ea ob eb, diff_file ra rb oa ea ob eb = diff_mem ra rb oa ea ob eb.
Proof. exact diff_modes_agree. Qed.

(* repeat: interesting iff one of the runs 1..n is; stops at the first success; run i gets the
   arguments with the cookie replaced by str(i) *)
Definition sub_args (cookie : bytes) (args : list bytes) (i : Z) : list bytes :=
  map (replace cookie (dec i)) args.

Theorem C19_repeat :
  forall inner cookie args n, 0 <= n ->
    let '(r, calls) := repeat_loop inner cookie args n in
    (r = true <-> exists i, 1 <= i <= n /\ inner i (sub_args cookie args i) = true) /\
    (exists m, 0 <= m <= n /\ calls = map (sub_args cookie args) (map Z.of_nat (seq 1 (Z.to_nat m))) /\
               (forall i, 1 <= i < m -> inner i (sub_args cookie args i) = false) /\
               (r = true -> 1 <= m /\ inner m (sub_args cookie args m) = true) /\
               (r = false -> m = n)).
Proof. exact repeat_spec. Qed.

(* str.replace: no occurrence = unchanged; the cookie itself becomes the number; occurrences
   inside other text are replaced in place *)
Theorem C19_replace_absent :
  forall old new s, old <> [] -> contains old s = false -> replace old new s = s.
Proof. exact replace_absent. Qed.

Theorem C19_replace_concat :
  forall old new a b, old <> [] ->
    contains old (a ++ firstn (length old - 1)%nat old) = false ->
    replace old new (a ++ old ++ b) = a ++ new ++ replace old new b.
Proof. exact replace_concat. Qed.

Example C19_replace_example :
  replace [67;79]%N (dec 12) [120;67;79;121;67;79;67]%N = [120;49;50;121;49;50;67]%N.
Proof. vm_compute. reflexivity. Qed.

Theorem C19_dec_small : map dec [1; 9; 10; 42; 100; 65535] =
  [[49]; [57]; [49;48]; [52;50]; [49;48;48]; [54;53;53;51;53]]%N.
Proof. vm_compute. reflexivity. Qed.

Print Assumptions C19_outputs_spec.
Print Assumptions C19_outputs_modes_agree.
Print Assumptions C19_diff_spec.
Print Assumptions C19_diff_modes_agree.
Print Assumptions C19_repeat.
Print Assumptions C19_replace_absent.
Print Assumptions C19_replace_concat.
