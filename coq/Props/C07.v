(* C07 - Deleting an index range deletes exactly those reducible atoms.
   This file holds statements only; every proof is `exact <lemma from Proofs/>`. *)
From Coq Require Import ZArith NArith List Bool.
From Lithium Require Import PyBase TcRecord Testcase Spec TestcaseProofs SliceCorollaries.
Import ListNotations.
Open Scope Z_scope.

(* the index translation never raises IndexError on a well-formed testcase *)
Theorem C07_xlat_total : forall t (a b : option Z), wf t ->
  exists i j, slice_xlat t a b = Ok (i, j).
Proof. exact slice_xlat_total. Qed.

Theorem C07_rmslice_total : forall t (a b : Z), wf t -> exists t', rmslice t a b = Ok t'.
Proof. exact rmslice_total. Qed.

(* the clamp used by the code is Python's rule for slice bounds on len(t) *)
Theorem C07_clamp : forall t (x : Z), wf t ->
  clamp (tc_len t) (Some x) 0 = py_clamp (tc_len t) x /\
  0 <= py_clamp (tc_len t) x <= tc_len t /\
  tc_len t = n_reducible (zipped t).
Proof. exact clamp_is_python. Qed.

(* main statement: exactly the reducible atoms of rank [lo,hi) disappear; all other atoms,
   all non-reducible parts, before and after keep bytes, flags and order *)
Theorem C07_rmslice_spec : forall t (a b : Z) t', wf t -> rmslice t a b = Ok t' ->
  let lo := py_clamp (tc_len t) a in
  let hi := py_clamp (tc_len t) b in
  lo <= hi ->
  wf t' /\
  zipped t' = spec_rm lo hi 0 (zipped t) /\
  tc_before t' = tc_before t /\ tc_after t' = tc_after t /\
  tc_len t' = tc_len t - (hi - lo).
Proof. exact rmslice_spec. Qed.

(* the two ends of the range scale.  An empty range [x,x) - whatever integers a, b clamp to the
   same rank - returns an object equal to the source in every field, not merely in its bytes *)
Theorem C07_empty_range_identity : forall t (a b : Z) t', wf t -> rmslice t a b = Ok t' ->
  py_clamp (tc_len t) a = py_clamp (tc_len t) b -> t' = t.
Proof. exact rmslice_empty_range_id. Qed.

(* the full range [0,len) leaves exactly the non-reducible parts, in their order, and nothing
   reducible; before/after untouched *)
Theorem C07_full_range : forall t t', wf t -> rmslice t 0 (tc_len t) = Ok t' ->
  zipped t' = filter (fun x => negb (snd x)) (zipped t) /\ tc_len t' = 0 /\
  tc_before t' = tc_before t /\ tc_after t' = tc_after t.
Proof. exact rmslice_full_range. Qed.

(* len() after a removal: never negative, never larger, and exactly the width smaller *)
Theorem C07_len_after : forall t (a b : Z) t', wf t -> rmslice t a b = Ok t' ->
  py_clamp (tc_len t) a <= py_clamp (tc_len t) b ->
  0 <= tc_len t' <= tc_len t /\
  tc_len t' = tc_len t - (py_clamp (tc_len t) b - py_clamp (tc_len t) a).
Proof. exact rmslice_len. Qed.

(* the bytes written back after a removal: prefix, the surviving atoms' bytes in order, suffix *)
Theorem C07_content_after : forall t (a b : Z) t', wf t -> rmslice t a b = Ok t' ->
  py_clamp (tc_len t) a <= py_clamp (tc_len t) b ->
  content t' = tc_before t ++
               concat (map fst (spec_rm (py_clamp (tc_len t) a) (py_clamp (tc_len t) b) 0 (zipped t))) ++
               tc_after t.
Proof. exact rmslice_content. Qed.

(* sequences of removals on one lineage (what a strategy run does): as long as each pair of bounds
   is ordered after clamping, the chain never raises, and the result is the chain of the
   specification on the atom list alone; prefix and suffix never change, len() never grows *)
Theorem C07_sequence : forall ops t, wf t -> ordered_seq (zipped t) ops = true ->
  exists t', rm_seq t ops = Ok t' /\ wf t' /\
    zipped t' = spec_seq (zipped t) ops /\
    tc_before t' = tc_before t /\ tc_after t' = tc_after t /\
    tc_len t' <= tc_len t.
Proof. exact rm_seq_spec. Qed.

Example C07_sequence_example :
  let t := {| tc_before := [1%N]; tc_parts := [[10%N]; [11%N]; [12%N]; [13%N]; [14%N]];
              tc_red := [false; true; true; false; true]; tc_after := [2%N] |} in
  ordered_seq (zipped t) [(1, -1); (-5, 1); (0, 7)] = true /\
  rm_seq t [(1, -1); (-5, 1); (0, 7)] =
    Ok {| tc_before := [1%N]; tc_parts := [[10%N]; [13%N]];
          tc_red := [false; false]; tc_after := [2%N] |}.
Proof. split; reflexivity. Qed.

(* whoever only calls rmslice with ordered bounds - any strategy, present or future - can only
   delete reducible atoms (the data-level half of C04, independent of any strategy model) *)
Theorem C07_sequence_only_deletes : forall ops t t', wf t -> ordered_seq (zipped t) ops = true ->
  rm_seq t ops = Ok t' -> sub_reducible t t'.
Proof. exact rm_seq_sub_reducible. Qed.

(* the specification is compositional: removing ranks [lo,mid) and then, in the new numbering,
   [lo,lo+w) is removing [lo,mid+w) at once (what chunk-by-chunk deletion relies on) *)
Theorem C07_adjacent_ranges : forall lo mid w l, 0 <= lo <= mid -> 0 <= w ->
  spec_rm lo (lo + w) 0 (spec_rm lo mid 0 l) = spec_rm lo (mid + w) 0 l.
Proof. exact spec_rm_adjacent. Qed.

(* ... and on testcase objects: deleting a window in two adjacent steps or in one step gives
   the same object, field for field *)
Theorem C07_adjacent_objects : forall t lo mid w t1 t2 t3, wf t ->
  0 <= lo <= mid -> 0 <= w -> mid + w <= tc_len t ->
  rmslice t lo mid = Ok t1 -> rmslice t1 lo (lo + w) = Ok t2 ->
  rmslice t lo (mid + w) = Ok t3 -> t2 = t3.
Proof. exact rmslice_adjacent. Qed.

(* every non-reducible part survives a removal, in its place among the non-reducible parts *)
Theorem C07_protected_survive : forall t (a b : Z) t', wf t -> rmslice t a b = Ok t' ->
  py_clamp (tc_len t) a <= py_clamp (tc_len t) b ->
  filter (fun x => negb (snd x)) (zipped t') = filter (fun x => negb (snd x)) (zipped t).
Proof. exact rmslice_keeps_nonred. Qed.

(* in the functional model copy is the identity (aliasing is covered by the
   correspondence check, which compares the source object after every operation) *)
Theorem C07_copy : forall t, copy t = t.
Proof. exact copy_id. Qed.

(* why the property says a <= b: with the bounds in the wrong order atoms are duplicated *)
Theorem C07_precondition_needed_refuted :
  exists t a b t', wf t /\ rmslice t a b = Ok t' /\
    py_clamp (tc_len t) a > py_clamp (tc_len t) b /\
    (length (tc_parts t') > length (tc_parts t))%nat.
Proof. exact rmslice_wrong_order_duplicates. Qed.

(* non-vacuity: a concrete layout with non-reducible parts *)
Example C07_example :
  let t := {| tc_before := [1%N]; tc_parts := [[10%N]; [11%N]; [12%N]; [13%N]; [14%N]];
              tc_red := [false; true; true; false; true]; tc_after := [2%N] |} in
  wf t /\ rmslice t 1 (-1) = Ok {| tc_before := [1%N]; tc_parts := [[10%N]; [11%N]; [13%N]; [14%N]];
              tc_red := [false; true; false; true]; tc_after := [2%N] |}.
Proof. split; reflexivity. Qed.

Print Assumptions C07_xlat_total.
Print Assumptions C07_rmslice_total.
Print Assumptions C07_clamp.
Print Assumptions C07_rmslice_spec.
Print Assumptions C07_empty_range_identity.
Print Assumptions C07_full_range.
Print Assumptions C07_len_after.
Print Assumptions C07_content_after.
Print Assumptions C07_sequence.
Print Assumptions C07_sequence_only_deletes.
Print Assumptions C07_adjacent_ranges.
Print Assumptions C07_adjacent_objects.
Print Assumptions C07_protected_survive.
Print Assumptions C07_copy.
Print Assumptions C07_precondition_needed_refuted.
