(* C05 - Text outside the DDBEGIN/DDEND region is never modified. *)
From Coq Require Import ZArith NArith List Bool.
From Lithium Require Import PyBase TcRecord Util Testcase Spec PyLines Markers Splitters SplitJs SplitAttrs
  SplitSpec Driver TraceSpec Minimize StratSpec Pairs Collapse FrameSpec FrameProofs.
Import ListNotations.
Open Scope Z_scope.

(* EVERY strategy whose candidates keep the frame (this is what replace-* and the experimental
   move are monitored for): every file the test sees and the final file are P ++ m ++ S *)
Theorem C05_generic :
  forall St (strat : strategy St) (I : St -> tcase -> Prop) P S verdict fuel tc0 file0,
    wf tc0 -> content tc0 = file0 -> framed P S tc0 ->
    I (s_start strat tc0) tc0 -> frame_preserving strat I P S ->
    let w := result_world (run strat verdict fuel tc0 file0) in
    tests_in_frame P S (chron w) /\ in_frame P S (w_file w).
Proof. exact frame_runs_keep_frame. Qed.

(* deleting strategies (minimize, minimize-around, minimize-balanced: C04) keep any frame *)
Theorem C05_deleting :
  forall St (strat : strategy St) (I : St -> tcase -> Prop) P S,
    deleting strat I -> frame_preserving strat I P S.
Proof. exact deleting_is_frame_preserving. Qed.

(* minimize-collapse-brace, with ANY split_parts that tiles its input, keeps any frame: both its
   raw write and the re-split candidate *)
Theorem C05_collapse :
  forall cfg clk sp P S, 1 <= c_max cfg -> splitter_ok sp ->
    exists I : mstate -> tcase -> Prop, (forall tc0, I (mstart cfg clk tc0) tc0) /\
              frame_preserving (collapse_brace cfg clk sp) I P S.
Proof. exact collapse_is_frame_preserving. Qed.

(* a loaded file with markers is framed by the marker lines *)
Theorem C05_loaded :
  forall sp d t P r S, load sp d = Ok t -> find_markers d = Marked P r S -> framed P S t.
Proof. exact loaded_is_framed. Qed.

(* char mode additionally protects the byte right before the DDEND line *)
Theorem C05_loaded_char :
  forall d t P r S c, load_char d = Ok t -> find_markers d = Marked P (r ++ [c]) S ->
    framed P (c :: S) t.
Proof. exact loaded_char_is_framed. Qed.

(* end to end for the chunk-removal strategies and collapse-brace on a loaded marker file *)
Theorem C05_minimize_loaded :
  forall sp cfg clk verdict fuel d tc0 P r S,
    splitter_ok sp -> load sp d = Ok tc0 -> find_markers d = Marked P r S -> 1 <= c_max cfg ->
    let w := result_world (run (minimize cfg clk no_post) verdict fuel tc0 d) in
    tests_in_frame P S (chron w) /\ in_frame P S (w_file w).
Proof. exact minimize_loaded_keeps_frame. Qed.

Theorem C05_pairs_loaded :
  forall sp kind cfg clk verdict fuel d tc0 P r S,
    splitter_ok sp -> load sp d = Ok tc0 -> find_markers d = Marked P r S -> 1 <= c_max cfg ->
    let w := result_world (run (pairs kind cfg clk) verdict fuel tc0 d) in
    tests_in_frame P S (chron w) /\ in_frame P S (w_file w).
Proof. exact pairs_loaded_keeps_frame. Qed.

Theorem C05_collapse_loaded :
  forall sp cfg clk verdict fuel d tc0 P r S,
    splitter_ok sp -> load sp d = Ok tc0 -> find_markers d = Marked P r S -> 1 <= c_max cfg ->
    let w := result_world (run (collapse_brace cfg clk sp) verdict fuel tc0 d) in
    tests_in_frame P S (chron w) /\ in_frame P S (w_file w).
Proof. exact collapse_loaded_keeps_frame. Qed.

(* towards C09 for minimize-collapse-brace in line mode: on a testcase whose atoms are lines
   (all reducible, each part at most one line) the re-split never fails and never increases the
   number of atoms.  (For an ARBITRARY well-formed testcase this is false:
   C05_collapse_post_ok_unrestricted_refuted.) *)
Theorem C05_collapse_line_post_ok :
  forall best raw r,
    wf best -> Forall (fun b => b = true) (tc_red best) ->
    Forall (fun p => (length (splitlines p) <= 1)%nat) (tc_parts best) ->
    collapse_post split_line best = Some (raw, r) ->
    exists t', r = Ok t' /\ wf t' /\ tc_len t' <= tc_len best /\
               Forall (fun b => b = true) (tc_red t').
Proof. exact collapse_line_post_ok_corrected_lines. Qed.

Theorem C05_collapse_post_ok_unrestricted_refuted : ~ post_ok (collapse_post split_line).
Proof. exact collapse_line_post_ok_counterexample. Qed.

(* collapsing braces never increases the number of lines *)
Theorem C05_collapse_lines_le :
  forall d, (length (splitlines (collapse d)) <= length (splitlines d))%nat.
Proof. exact collapse_lines_le. Qed.

Print Assumptions C05_generic.
Print Assumptions C05_deleting.
Print Assumptions C05_collapse.
Print Assumptions C05_loaded.
Print Assumptions C05_loaded_char.
Print Assumptions C05_minimize_loaded.
Print Assumptions C05_pairs_loaded.
Print Assumptions C05_collapse_loaded.
Print Assumptions C05_collapse_line_post_ok.
Print Assumptions C05_collapse_post_ok_unrestricted_refuted.
Print Assumptions C05_collapse_lines_le.

(* ---- the concrete replace-properties model *)
From Lithium Require Import Rewriters ReplaceProps ReplacePropsFrame.

(* replace-properties-by-globals with its concrete pass (Model/ReplaceProps.v): every candidate is the
   current best with some parts rewritten - before / after are never touched - so the strategy keeps any
   frame; no monitoring assumption is needed for it any more *)
Theorem C05_replace_properties :
  forall cfg P S,
    frame_preserving (replace_properties_concrete cfg) (fun _ _ => True) P S.
Proof. exact replace_properties_is_frame_preserving. Qed.

Theorem C05_replace_properties_loaded :
  forall sp cfg verdict fuel d tc0 P r S,
    splitter_ok sp -> load sp d = Ok tc0 -> find_markers d = Marked P r S ->
    let w := result_world (run (replace_properties_concrete cfg) verdict fuel tc0 d) in
    tests_in_frame P S (chron w) /\ in_frame P S (w_file w).
Proof. exact replace_properties_loaded_keeps_frame. Qed.

(* and it never changes the NUMBER of parts or the flags' length (the candidates are substitutions inside
   parts; C04 excludes the rewriters because they do alter reducible bytes) *)
Theorem C05_replace_properties_candidate_shape :
  forall word starts best d t,
    wf best -> candidate word starts best = (d, t) ->
    wf t /\ tc_before t = tc_before best /\ tc_after t = tc_after best /\
    length (tc_parts t) = length (tc_parts best).
Proof. exact candidate_shape. Qed.

Print Assumptions C05_replace_properties.
Print Assumptions C05_replace_properties_loaded.
Print Assumptions C05_replace_properties_candidate_shape.

(* ---- the concrete model of the experimental move *)
From Lithium Require Import PairsMove PairsMoveFrame.

(* minimize-balanced WITH the experimental move (Model/PairsMove.v): its candidates are deletions of
   reducible atoms or permutations of parts (and of the flags alongside) - before / after are never
   touched - so it keeps any frame; no monitoring assumption is needed for the move any more *)
Theorem C05_move :
  forall cfg clk P S,
    frame_preserving (pairs_move cfg clk) (fun _ _ => True) P S.
Proof. exact pairs_move_is_frame_preserving. Qed.

Theorem C05_move_loaded :
  forall sp cfg clk verdict fuel d tc0 P r S,
    splitter_ok sp -> load sp d = Ok tc0 -> find_markers d = Marked P r S ->
    let w := result_world (run (pairs_move cfg clk) verdict fuel tc0 d) in
    tests_in_frame P S (chron w) /\ in_frame P S (w_file w).
Proof. exact pairs_move_loaded_keeps_frame. Qed.

(* a moved candidate is a permutation of the parts (nothing added, nothing lost), flags alongside *)
Theorem C05_move_candidate_is_permutation :
  forall best c ib start stop,
    wf best ->
    let ps := split5 (tc_parts best) c ib start stop in
    let fs := split5 (tc_red best) c ib start stop in
    0 <= ib -> ib <= start -> start <= stop -> 0 <= c ->
    Permutation.Permutation (tc_parts (moved best (parts_after ps) (parts_after fs))) (tc_parts best) /\
    Permutation.Permutation (tc_parts (moved best (parts_before ps) (parts_before fs))) (tc_parts best) /\
    wf (moved best (parts_after ps) (parts_after fs)) /\ wf (moved best (parts_before ps) (parts_before fs)).
Proof. exact moved_is_permutation. Qed.

Print Assumptions C05_move.
Print Assumptions C05_move_loaded.
Print Assumptions C05_move_candidate_is_permutation.
