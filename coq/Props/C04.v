(* C04 - Chunk-removal strategies only ever delete reducible atoms. *)
From Coq Require Import ZArith NArith List Bool.
From Lithium Require Import PyBase TcRecord Util Testcase Spec Driver TraceSpec Minimize StratSpec
  MinimizeProofs Pairs PairsProofs.
Import ListNotations.
Open Scope Z_scope.

(* for EVERY strategy whose proposals are deletions of the current best (invariant I) *)
Theorem C04_generic :
  forall S (strat : strategy S) (I : S -> tcase -> Prop) verdict fuel tc0 file0,
    wf tc0 -> content tc0 = file0 -> I (s_start strat tc0) tc0 -> deleting strat I ->
    let w := result_world (run strat verdict fuel tc0 file0) in
    tests_are_deletions tc0 (chron w) /\ exists t, sub_reducible tc0 t /\ w_file w = content t.
Proof. exact deleting_runs_only_delete. Qed.

(* minimize is such a strategy, for all option values with max >= 1 and every clock *)
Theorem C04_minimize_deleting :
  forall cfg clk tc0, 1 <= c_max cfg ->
    exists I, I (mstart cfg clk tc0) tc0 /\ deleting (minimize cfg clk no_post) I.
Proof. exact minimize_is_deleting. Qed.

Theorem C04_minimize :
  forall cfg clk verdict fuel tc0 file0,
    wf tc0 -> content tc0 = file0 -> 1 <= c_max cfg ->
    let w := result_world (run (minimize cfg clk no_post) verdict fuel tc0 file0) in
    tests_are_deletions tc0 (chron w) /\ exists t, sub_reducible tc0 t /\ w_file w = content t.
Proof. exact minimize_only_deletes. Qed.

(* minimize-around and minimize-balanced (experimental move off) are deleting strategies too *)
Theorem C04_pairs_deleting :
  forall kind cfg clk tc0, 1 <= c_max cfg ->
    exists I, I (pstart cfg clk tc0) tc0 /\ deleting (pairs kind cfg clk) I.
Proof. exact pairs_is_deleting. Qed.

Theorem C04_pairs :
  forall kind cfg clk verdict fuel tc0 file0,
    wf tc0 -> content tc0 = file0 -> 1 <= c_max cfg ->
    let w := result_world (run (pairs kind cfg clk) verdict fuel tc0 file0) in
    tests_are_deletions tc0 (chron w) /\ exists t, sub_reducible tc0 t /\ w_file w = content t.
Proof. exact pairs_only_deletes. Qed.

Print Assumptions C04_generic.
Print Assumptions C04_pairs_deleting.
Print Assumptions C04_pairs.
Print Assumptions C04_minimize_deleting.
Print Assumptions C04_minimize.
