(* C13 - Pair strategies stop only at their own fixpoint (deterministic test, smallest chunk
   size 1, repeat mode last or always, no time limit). *)
From Coq Require Import ZArith NArith List Bool.
From Lithium Require Import PyBase TcRecord Util Testcase Spec Driver TraceSpec Minimize StratSpec
  Pairs PairSpec PairsFixpoint.
Import ListNotations.
Open Scope Z_scope.

Definition around_fixpoint (f : bytes -> bool) (tf : tcase) : Prop :=
  forall i t', 1 <= i -> i + 1 < tc_len tf -> rm2 tf (i - 1) (i + 1) = Ok t' -> f (content t') = false.

Theorem C13_around :
  forall cfg clk f tc0 file0 fuel rc w,
    wf tc0 -> Forall (fun p => p <> []) (tc_parts tc0) -> content tc0 = file0 ->
    c_min cfg = 1 -> is_power_of_two (c_max cfg) = true -> c_repeat cfg <> Never ->
    c_limit cfg = None -> f file0 = true ->
    run (pairs KAround cfg clk) (det f) fuel tc0 file0 = Finished rc w ->
    exists tf, sub_reducible tc0 tf /\ w_file w = content tf /\ f (content tf) = true /\
               around_fixpoint f tf.
Proof. exact around_stops_at_fixpoint. Qed.

Definition balanced_fixpoint (f : bytes -> bool) (tf : tcase) : Prop :=
  2 <= tc_len tf ->
  (forall i p t', 0 <= i < tc_len tf -> nth_error (tc_parts tf) (Z.to_nat i) = Some p ->
      balanced_atom p = true -> rmslice tf i (i + 1) = Ok t' -> f (content t') = false) /\
  (forall i j t', 0 <= i < tc_len tf -> partner (tc_parts tf) i = Some j ->
      rm2 tf i j = Ok t' -> f (content t') = false).

Theorem C13_balanced :
  forall cfg clk f tc0 file0 fuel rc w,
    wf tc0 -> all_reducible tc0 -> Forall (fun p => p <> []) (tc_parts tc0) -> content tc0 = file0 ->
    c_min cfg = 1 -> is_power_of_two (c_max cfg) = true -> c_repeat cfg <> Never ->
    c_limit cfg = None -> f file0 = true ->
    run (pairs KBalanced cfg clk) (det f) fuel tc0 file0 = Finished rc w ->
    exists tf, sub_reducible tc0 tf /\ w_file w = content tf /\ f (content tf) = true /\
               balanced_fixpoint f tf.
Proof. exact balanced_stops_at_fixpoint. Qed.

Print Assumptions C13_around.
Print Assumptions C13_balanced.

(* ---- time limits that never pass; the experimental move *)
From Lithium Require Import PairsFixpointLimit PairsMove PairsMoveFixpoint.

(* the property text does not exempt runs with a time limit: a limit that is never exceeded by any reading of
   the clock (clk i <= clk 0 + l for every reading i) changes nothing - the run still ends at the fixpoint.
   (c_limit = None is the special case with no reading at all.) *)
Definition never_expires (cfg : mcfg) (clk : clock_t) : Prop :=
  forall l, c_limit cfg = Some l -> forall i : nat, clk i <= clk O + l.

Theorem C13_around_any_unexpired_limit :
  forall cfg clk f tc0 file0 fuel rc w,
    wf tc0 -> Forall (fun p => p <> []) (tc_parts tc0) -> content tc0 = file0 ->
    c_min cfg = 1 -> is_power_of_two (c_max cfg) = true -> c_repeat cfg <> Never ->
    never_expires cfg clk -> f file0 = true ->
    run (pairs KAround cfg clk) (det f) fuel tc0 file0 = Finished rc w ->
    exists tf, sub_reducible tc0 tf /\ w_file w = content tf /\ f (content tf) = true /\
               around_fixpoint f tf.
Proof. exact around_stops_at_fixpoint_limit. Qed.

Theorem C13_balanced_any_unexpired_limit :
  forall cfg clk f tc0 file0 fuel rc w,
    wf tc0 -> all_reducible tc0 -> Forall (fun p => p <> []) (tc_parts tc0) -> content tc0 = file0 ->
    c_min cfg = 1 -> is_power_of_two (c_max cfg) = true -> c_repeat cfg <> Never ->
    never_expires cfg clk -> f file0 = true ->
    run (pairs KBalanced cfg clk) (det f) fuel tc0 file0 = Finished rc w ->
    exists tf, sub_reducible tc0 tf /\ w_file w = content tf /\ f (content tf) = true /\
               balanced_fixpoint f tf.
Proof. exact balanced_stops_at_fixpoint_limit. Qed.

Print Assumptions C13_around_any_unexpired_limit.
Print Assumptions C13_balanced_any_unexpired_limit.

(* minimize-balanced WITH the experimental move (Model/PairsMove.v): the property text makes no exception for
   it.  A run that FINISHES (the unchanged code can also fail its own assertion after an accepted move: that is
   an Aborted run) ends at the same fixpoint; the final testcase is all-reducible, keeps before/after, and its
   atoms are atoms of the original (moves permute, deletions delete). *)
Theorem C13_balanced_with_move :
  forall cfg clk f tc0 file0 fuel rc w,
    wf tc0 -> all_reducible tc0 -> Forall (fun p => p <> []) (tc_parts tc0) -> content tc0 = file0 ->
    c_min cfg = 1 -> is_power_of_two (c_max cfg) = true -> c_repeat cfg <> Never ->
    never_expires cfg clk -> f file0 = true ->
    run (pairs_move cfg clk) (det f) fuel tc0 file0 = Finished rc w ->
    exists tf, wf tf /\ all_reducible tf /\ tc_before tf = tc_before tc0 /\ tc_after tf = tc_after tc0 /\
               (forall p, In p (tc_parts tf) -> In p (tc_parts tc0)) /\
               w_file w = content tf /\ f (content tf) = true /\ balanced_fixpoint f tf.
Proof. exact balanced_move_stops_at_fixpoint. Qed.

Print Assumptions C13_balanced_with_move.
