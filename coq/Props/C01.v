(* C01 - Final file is exactly the last version the test accepted.
   Statements only; proofs are `exact <lemma of Proofs/DriverProofs.v>`.
   Quantification: EVERY strategy (any state type S, any s_start/s_next), every verdict
   function (test number and bytes on disk -> Yes/No/Raise), every input, every fuel. *)
From Coq Require Import ZArith NArith List Bool.
From Lithium Require Import PyBase TcRecord Testcase Driver TraceSpec DriverProofs.
Import ListNotations.
Open Scope Z_scope.

(* hypothesis `content tc0 = file0`: the loaded testcase writes back to the bytes that were on
   disk (this is C06's theorem for every splitter) *)
Theorem C01_final_is_last_accepted :
  forall S (strat : strategy S) verdict fuel tc0 file0 rc w,
    content tc0 = file0 ->
    run strat verdict fuel tc0 file0 = Finished rc w ->
    w_file w = last_accepted (chron w) file0.
Proof. exact run_final_is_last_accepted. Qed.

(* every file handed to the test for a candidate is exactly the candidate's content, and the
   event records test number and prefix number from the counters *)
Theorem C01_test_sees_candidate :
  forall verdict w t w' a,
    interesting verdict w t true = (w', a) ->
    w_file w' = content t /\
    In (ETest (w_tests w + 1) (w_tfc w) (content t) a) (w_trace w').
Proof. exact interesting_tests_content. Qed.

(* a rejected candidate never becomes the basis of later candidates: in every loop state
   reachable during a run, the testcase the strategy is handed (iterator.testcase) is the last
   accepted version *)
Theorem C01_basis :
  forall S (strat : strategy S) verdict tc0 file0 st it w,
    content tc0 = file0 ->
    verdict 1 file0 = Yes ->
    lsteps strat verdict (loop_start strat verdict tc0 file0) (LS st it w) ->
    content (it_best it) = last_accepted (chron w) file0.
Proof. exact basis_is_last_accepted. Qed.

(* the function `loop` only visits states of `lsteps` (so C01_basis speaks about real runs) *)
Theorem C01_loop_follows_lsteps :
  forall S (strat : strategy S) verdict fuel st it w r,
    loop strat verdict fuel st it w = r ->
    exists st' it' w', lsteps strat verdict (LS st it w) (LS st' it' w') /\
      match r with
      | Finished rc wf => s_next strat st' (it_best it') = Done /\
                          wf = write_file (content (it_best it')) w' /\
                          rc = (if it_any it' then 0 else 1)
      | Aborted (Some e) wf => s_next strat st' (it_best it') = Fail e /\ wf = w'
      | Aborted None wf => exists t k, s_next strat st' (it_best it') = Propose t k /\
                            mem_bytes (content t) (it_tried it') = false /\
                            interesting verdict w' t true = (wf, Raise)
      | NoFuel wf => wf = w'
      end.
Proof. exact loop_follows_lsteps. Qed.

Print Assumptions C01_final_is_last_accepted.
Print Assumptions C01_test_sees_candidate.
Print Assumptions C01_basis.
Print Assumptions C01_loop_follows_lsteps.

(* ---- a following run() on a RE-USED Lithium object (Model/Session.v): same statements for EVERY previous
   world (any counters, temp dir, stale last_interesting, written flag) *)
From Lithium Require Import Session SessionProofs.

Theorem C01_session_final_is_last_accepted :
  forall S (strat : strategy S) verdict fuel tc0 file0 prev rc w,
    content tc0 = file0 ->
    run_on strat verdict fuel tc0 (carry true prev file0) = Finished rc w ->
    w_file w = last_accepted (chron w) file0.
Proof. exact session_final_is_last_accepted. Qed.

Print Assumptions C01_session_final_is_last_accepted.

(* ---- a test that CHANGES the testcase file while it runs (Model/Scribble.v: `scr k file` = what test k leaves at
   the path; run_s = run with such a test).  Lithium never reads the file back, so the run is the same run; what it
   keeps, logs and restores is the candidate it wrote, never what the test left behind ---- *)
From Lithium Require Import Scribble ScribbleProofs.

(* C01 for such tests: if the original was accepted (and there is something to reduce), the run ends
   with the last accepted version on disk *)
Theorem C01_final_is_last_accepted_test_changes_file :
  forall S (strat : strategy S) verdict scr fuel tc0 file0 rc w,
    content tc0 = file0 ->
    run_s strat verdict scr fuel tc0 file0 = Finished rc w ->
    (verdict 1 file0 = Yes /\ tc_len tc0 <> 0) \/ scr 1 file0 = None \/ tc_len tc0 = 0 ->
    w_file w = last_accepted (chron w) file0.
Proof. exact run_s_final_is_last_accepted. Qed.

(* the rejected original: nothing is written by Lithium, so what the test did to its own file stays
   (non-vacuity of the side condition in the C01 statement above) *)
Theorem scribble_rejected_original_stays :
  exists (strat : strategy unit) verdict scr tc0 file0 w,
    content tc0 = file0 /\ run_s strat verdict scr 5 tc0 file0 = Finished 1 w /\
    w_file w <> last_accepted (chron w) file0.
Proof. exact run_s_rejected_original_example. Qed.

Print Assumptions C01_final_is_last_accepted_test_changes_file.
Print Assumptions scribble_rejected_original_stays.
