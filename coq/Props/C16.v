(* C16 - JS-string and attribute atoms are exactly string characters / attributes. *)
From Coq Require Import ZArith NArith List Bool.
From Lithium Require Import PyBase TcRecord Markers SplitJs SplitAttrs SplitSpec Spec16 Split16Proofs.
Import ListNotations.

(* the token pattern cuts \uHHHH, \xHH, \u{H...} and backslash pairs whole *)
Theorem C16_tok_len_cases :
  forall d, d <> [] ->
    (1 <= tok_len d <= length d)%nat /\
    (forall r, d = 92%N :: r -> r <> [] -> (2 <= tok_len d)%nat) /\
    (forall h1 h2 r, d = 92%N :: 120%N :: h1 :: h2 :: r -> is_hex h1 = true -> is_hex h2 = true ->
        tok_len d = 4%nat) /\
    (forall h1 h2 h3 h4 r, d = 92%N :: 117%N :: h1 :: h2 :: h3 :: h4 :: r ->
        is_hex h1 = true -> is_hex h2 = true -> is_hex h3 = true -> is_hex h4 = true ->
        tok_len d = 6%nat) /\
    (forall hs r, d = 92%N :: 117%N :: 123%N :: hs ++ 125%N :: r -> hs <> [] ->
        forallb is_hex hs = true -> tok_len d = (4 + length hs)%nat).
Proof. exact tok_len_cases. Qed.

(* the splitter tiles its input, atoms are non-empty, one flag per atom, no internal error *)
Theorem C16_js_ok : splitter_ok split_jsstr /\ (forall d e, split_jsstr d = Err e -> False).
Proof. exact split_jsstr_ok. Qed.

(* the reducible atoms are exactly the tokens inside properly terminated strings, as found by
   the independent reference tokenizer: never a delimiting quote, never a fragment of an
   escape, never text outside a string; an unclosed quote is ordinary text *)
Theorem C16_js : forall d s, split_jsstr d = Ok s -> spans_of s = js_reference d.
Proof. exact split_jsstr_reference. Qed.

Theorem C16_attrs_ok : splitter_ok split_attrs /\ (forall d e, split_attrs d = Err e -> False).
Proof. exact split_attrs_ok. Qed.

(* every reducible atom is one complete attribute inside a tag; tag openers, closers and
   unparsable text are non-reducible *)
Theorem C16_attrs : forall d s, split_attrs d = Ok s -> attrs_walk false (sp_parts s) (sp_red s) = true.
Proof. exact split_attrs_walk. Qed.

Print Assumptions C16_tok_len_cases.
Print Assumptions C16_js_ok.
Print Assumptions C16_js.
Print Assumptions C16_attrs_ok.
Print Assumptions C16_attrs.
