(* C11 - Uninteresting original is left untouched; exit status tells the outcome. *)
From Coq Require Import ZArith NArith List Bool.
From Lithium Require Import PyBase TcRecord Testcase Driver TraceSpec DriverProofs.
Import ListNotations.
Open Scope Z_scope.

Theorem C11_rejected_original :
  forall S (strat : strategy S) verdict fuel tc0 file0,
    tc_len tc0 <> 0 -> verdict 1 file0 = No ->
    exists w, run strat verdict fuel tc0 file0 = Finished 1 w /\
              n_tests (chron w) = 1 /\ no_writes (chron w) /\ w_file w = file0.
Proof. exact run_rejected_original. Qed.

Theorem C11_nothing_to_reduce :
  forall S (strat : strategy S) verdict fuel tc0 file0,
    tc_len tc0 = 0 ->
    exists w, run strat verdict fuel tc0 file0 = Finished 0 w /\
              n_tests (chron w) = 0 /\ no_writes (chron w) /\ w_file w = file0.
Proof. exact run_nothing_to_reduce. Qed.

Theorem C11_status :
  forall S (strat : strategy S) verdict fuel tc0 file0 rc w,
    tc_len tc0 <> 0 -> verdict 1 file0 = Yes ->
    run strat verdict fuel tc0 file0 = Finished rc w ->
    (rc = 0 \/ rc = 1) /\
    (rc = 0 <-> exists k p f, 1 < k /\ In (ETest k p f Yes) (chron w)).
Proof. exact run_status. Qed.

Theorem C11_check_only :
  forall verdict tc0 file0,
    exists w, n_tests (chron w) = 1 /\ no_writes (chron w) /\ w_file w = file0 /\
      run_check_only verdict tc0 file0 =
        match verdict 1 file0 with
        | Yes => Finished 0 w | No => Finished 1 w | Raise => Aborted None w end.
Proof. exact check_only_spec. Qed.

Print Assumptions C11_rejected_original.
Print Assumptions C11_nothing_to_reduce.
Print Assumptions C11_status.
Print Assumptions C11_check_only.

(* ---- a following run() on a RE-USED Lithium object (Model/Session.v): same statements for EVERY previous
   world (any counters, temp dir, stale last_interesting, written flag) *)
From Lithium Require Import Session SessionProofs.

Theorem C11_session_rejected_original :
  forall S (strat : strategy S) verdict fuel tc0 file0 prev,
    tc_len tc0 <> 0 -> verdict (w_tests prev + 1) file0 = No ->
    exists w, run_on strat verdict fuel tc0 (carry true prev file0) = Finished 1 w /\
              n_tests (chron w) = 1 /\ no_writes (chron w) /\ w_file w = file0.
Proof. exact session_rejected_original. Qed.

Theorem C11_session_check_only :
  forall verdict tc0 file0 prev,
    exists w, n_tests (chron w) = 1 /\ no_writes (chron w) /\ w_file w = file0 /\
      run_check_only_on verdict tc0 (carry true prev file0) =
        match verdict (w_tests prev + 1) file0 with
        | Yes => Finished 0 w | No => Finished 1 w | Raise => Aborted None w end.
Proof. exact session_check_only_spec. Qed.

(* without the reset (the code before fix b8a6434) the statements are false: a previous run
   that wrote a candidate makes a following check-only run / rejected original rewrite the file,
   with the PREVIOUS run's content *)
Theorem C11_session_without_reset_refuted :
  exists verdict tc0 file0 prev w,
    run_check_only_on verdict tc0 (carry false prev file0) = Finished 0 w /\
    ~ no_writes (chron w).
Proof. exact session_without_reset_refuted. Qed.

Theorem C11_session_without_reset_clobbers :
  exists S (strat : strategy S) verdict fuel tc0 file0 prev w,
    tc_len tc0 <> 0 /\ verdict (w_tests prev + 1) file0 = No /\
    run_on strat verdict fuel tc0 (carry false prev file0) = Finished 1 w /\
    w_file w <> file0.
Proof. exact session_without_reset_clobbers. Qed.

Print Assumptions C11_session_rejected_original.
Print Assumptions C11_session_check_only.
Print Assumptions C11_session_without_reset_refuted.
Print Assumptions C11_session_without_reset_clobbers.

(* ---- known finding `move-assertion-error` (known_findings.json): with --with-experimental-move the strategy's own
   assertion fails right after a move was accepted, so the run ends with an exception - a traceback and a non-zero
   process status - although a candidate was accepted (and the file holds that accepted candidate).  C09 exempts the
   experimental move from "no internal error"; C11's status clause has no such exemption.  The concrete model of the
   move (Model/PairsMove.v) reproduces the failure: *)
From Lithium Require Import Minimize PairsMove MoveWitness.
Theorem C11_move_assertion_known_finding :
  exists verdict tc0 w,
    run (pairs_move default_cfg (fun _ => 0)) verdict 200%nat tc0 (content tc0) = Aborted (Some AssertionError) w /\
    (exists k p f, In (ETest k p f Yes) (chron w) /\ 1 < k) /\
    w_file w = last_accepted (chron w) (content tc0) /\ w_file w <> content tc0.
Proof. exact move_assertion_witness. Qed.

Print Assumptions C11_move_assertion_known_finding.
