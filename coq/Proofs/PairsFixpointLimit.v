(* The pair strategies (Model/Pairs.v) stop only at a fixpoint of their own move also when a time
   limit is configured, provided no reading of the clock ever exceeds the deadline
   (forall i, clk i <= clk 0 + l).  Used by Props/C13l.v.  No axioms.

   Proofs/PairsFixpoint.v proves the same under `c_limit cfg = None`; its invariants contain
   `p_deadline s = None`.  Instead of copying that development, this file shows that a run with a
   deadline that never expires is a run without a deadline up to the two fields the clock touches:

     - `erase s` forgets p_deadline and p_reads;
     - `DL clk s` says that no reading of the clock exceeds the deadline stored in s (if any);
     - under `DL clk s`, `pdrive .. s best` and `pdrive .. (erase s) best` end the same way, and the
       continuations of a proposal agree up to `erase` and preserve `DL` (pdrive_erase).

   The invariant handed to `generic_fixpoint` is then `DL clk s /\ AI f (erase s) best`
   (resp. `BI`), and every step obligation is discharged by the lemmas of PairsFixpoint.v applied
   to the erased state. *)
From Coq Require Import ZArith NArith List Bool Lia ZifyBool.
From Lithium Require Import PyBase TcRecord Util Testcase Spec Driver TraceSpec Minimize StratSpec
  Pairs PairSpec TestcaseProofs DriverProofs MinimizeMinimal PairsFixpoint.
Import ListNotations.
Open Scope Z_scope.

(* ------------------------------------------------------------------ *)
(* 1. erasing the clock fields                                         *)
(* ------------------------------------------------------------------ *)

Definition erase (s : pstate) : pstate :=
  {| p_chunk_size := p_chunk_size s; p_final := p_final s; p_deadline := None;
     p_reads := O; p_any := p_any s; p_phase := p_phase s; p_summary := p_summary s;
     p_chunk_start := p_chunk_start s; p_i1 := p_i1 s; p_i2 := p_i2 s; p_i3 := p_i3 s;
     p_tables := p_tables s |}.

Ltac ecbn := cbn [erase upd set_pp p_chunk_size p_final p_deadline p_reads p_any p_phase p_summary
                  p_chunk_start p_i1 p_i2 p_i3 p_tables].
Ltac ecbn_in H := cbn [erase upd set_pp p_chunk_size p_final p_deadline p_reads p_any p_phase
                       p_summary p_chunk_start p_i1 p_i2 p_i3 p_tables] in H.

Section Sim.
Variable clk : clock_t.

(* no reading of the clock exceeds the stored deadline *)
Definition DL (s : pstate) : Prop :=
  forall d, p_deadline s = Some d -> forall i : nat, clk i <= d.

Lemma read_clock_unexpired : forall s, DL s ->
  exists s1, read_clock clk s = (false, s1) /\ DL s1 /\ erase s1 = erase s.
Proof.
  intros s HD. unfold read_clock. destruct (p_deadline s) as [d|] eqn:Ed.
  - assert (E : (clk (p_reads s) >? d) = false).
    { rewrite Z.gtb_ltb. apply Z.ltb_ge. exact (HD d Ed (p_reads s)). }
    rewrite E. eexists. split; [reflexivity|]. split; [|reflexivity].
    intros d' Hd' i. ecbn_in Hd'. injection Hd' as Hd'. subst d'. exact (HD d Ed i).
  - exists s. split; [reflexivity|]. split; [exact HD | reflexivity].
Qed.

Lemma pass_start_erase : forall kind s best,
  pass_start kind (erase s) best =
  match pass_start kind s best with Ok s' => Ok (erase s') | Err e => Err e end.
Proof.
  intros kind s best. unfold pass_start. ecbn.
  destruct (divide_rounding_up (tc_len best) (p_chunk_size s)) as [v|e]; cbn [bind];
    [|reflexivity].
  destruct kind.
  - destruct (v <? 3); reflexivity.
  - destruct (v <? 2); [reflexivity|].
    match goal with |- context [flat_mapM ?F ?L] => destruct (flat_mapM F L) as [tb|e] end;
      reflexivity.
Qed.

Lemma pass_start_deadline : forall kind s best s',
  pass_start kind s best = Ok s' -> p_deadline s' = p_deadline s.
Proof.
  intros kind s best s' H. unfold pass_start in H.
  destruct (divide_rounding_up (tc_len best) (p_chunk_size s)) as [v|e]; cbn [bind] in H;
    [|discriminate H].
  destruct kind.
  - destruct (v <? 3); injection H as H; subst s'; reflexivity.
  - destruct (v <? 2); [injection H as H; subst s'; reflexivity|].
    match type of H with context [flat_mapM ?F ?L] =>
      destruct (flat_mapM F L) as [tb|e] end; cbn [bind] in H; [|discriminate H].
    injection H as H. subst s'. reflexivity.
Qed.

(* two steps that agree up to the clock fields *)
Definition sim_step (a b : step pstate) : Prop :=
  match a with
  | Propose t k => exists k', b = Propose t k' /\ forall o, DL (k o) /\ erase (k o) = k' o
  | RawWrite _ _ => False
  | Done => b = Done
  | Fail e => b = Fail e
  end.

Definition sim_iter (a b : iter_res) : Prop :=
  match a with
  | IStep st => exists st', b = IStep st' /\ sim_step st st'
  | ICont s2 => b = ICont (erase s2) /\ DL s2
  end.

(* every continuation is an `upd` of the state chosen by matches on s_index / s_rindex *)
Ltac fin_k HD :=
  unfold bal_next; ecbn;
  repeat match goal with
         | |- context [match ?x with Some _ => _ | None => _ end] => destruct x
         end;
  (split; [exact HD | reflexivity]).

Lemma around_propose_erase : forall s best, DL s ->
  sim_step (around_propose s best) (around_propose (erase s) best).
Proof.
  intros s best HD. unfold around_propose. ecbn.
  match goal with |- context [match ?m with Ok _ => _ | Err _ => _ end] => destruct m as [t|e] end;
    cbn [sim_step]; [|reflexivity].
  eexists. split; [reflexivity|].
  intros o. destruct o as [|[|]]; cbv beta iota; fin_k HD.
Qed.

Lemma balanced_body_erase : forall s best, DL s ->
  sim_iter (balanced_body s best) (balanced_body (erase s) best).
Proof.
  intros s best HD. unfold balanced_body. ecbn.
  match goal with |- context [if negb ?c then _ else _] => destruct (negb c) end;
    [cbn [sim_iter]; eexists; split; reflexivity|].
  destruct (nth_table (p_tables s) (p_i1 s)) as [n0|e];
    [|cbn [sim_iter]; eexists; split; reflexivity].
  destruct (zero3 n0).
  - match goal with |- context [match ?m with Ok _ => _ | Err _ => _ end] => destruct m as [t|e] end;
      cbn [sim_iter]; (eexists; split; [reflexivity|]); cbn [sim_step]; [|reflexivity].
    eexists. split; [reflexivity|].
    intros o. destruct o as [|[|]]; cbv beta iota; fin_k HD.
  - match goal with |- context [partner_scan ?a ?b ?c ?d] =>
      destruct (partner_scan a b c d) as [rhs n] end.
    destruct (negb (zero3 n)).
    + cbn [sim_iter]. unfold bal_next. ecbn.
      destruct (s_index (p_summary s) (p_i1 s + 1)); (split; [reflexivity | exact HD]).
    + match goal with |- context [match ?m with Ok _ => _ | Err _ => _ end] => destruct m as [t|e] end;
        cbn [sim_iter]; (eexists; split; [reflexivity|]); cbn [sim_step]; [|reflexivity].
      eexists. split; [reflexivity|].
      intros o. destruct o as [|[|]]; cbv beta iota; fin_k HD.
Qed.

Lemma after_pass_erase : forall cfg s, DL s ->
  match after_pass cfg clk s with
  | Some s' => after_pass cfg clk (erase s) = Some (erase s') /\ DL s'
  | None => after_pass cfg clk (erase s) = None
  end.
Proof.
  intros cfg s HD. unfold after_pass.
  change (read_clock clk (erase s)) with (false, erase s).
  destruct (read_clock_unexpired s HD) as (s1 & E1 & HD1 & Ee). rewrite E1.
  cbv beta iota zeta. rewrite <- Ee. ecbn.
  destruct (p_any s1); destruct (c_repeat cfg); destruct (p_chunk_size s1 <=? p_final s1);
    cbn [andb]; first [reflexivity | split; [reflexivity | exact HD1]].
Qed.

Lemma pdrive_erase : forall cfg fuel kind s best, DL s ->
  sim_step (pdrive fuel kind cfg clk s best) (pdrive fuel kind cfg clk (erase s) best).
Proof.
  intros cfg fuel kind. induction fuel as [|fuel IH]; intros s best HD; cbn [pdrive];
    [reflexivity|].
  ecbn. destruct (p_phase s) eqn:Hph.
  - (* start of a pass *)
    rewrite pass_start_erase.
    destruct (pass_start kind s best) as [s'|e] eqn:Eps; [|reflexivity].
    apply IH. intros d Hd. rewrite (pass_start_deadline _ _ _ _ Eps) in Hd. exact (HD d Hd).
  - (* head of the pass loop *)
    match goal with |- context [if negb ?c then _ else _] => destruct (negb c) end.
    + exact (IH (set_pp PAfter s) best HD).
    + change (read_clock clk (erase s)) with (false, erase s).
      destruct (read_clock_unexpired s HD) as (s1 & E1 & HD1 & Ee). rewrite E1.
      cbv beta iota. rewrite <- Ee. destruct kind.
      * apply around_propose_erase. exact HD1.
      * pose proof (balanced_body_erase s1 best HD1) as Hb.
        destruct (balanced_body s1 best) as [st|s2]; cbn [sim_iter] in Hb.
        -- destruct Hb as (st' & Eb & Hs). rewrite Eb. exact Hs.
        -- destruct Hb as [Eb HD2]. rewrite Eb. apply IH. exact HD2.
  - (* post-pass logic *)
    pose proof (after_pass_erase cfg s HD) as Ha.
    destruct (after_pass cfg clk s) as [s'|].
    + destruct Ha as [Ea HD']. rewrite Ea. apply IH. exact HD'.
    + rewrite Ha. reflexivity.
Qed.

Lemma pstart_DL : forall cfg tc0,
  (forall l, c_limit cfg = Some l -> forall i : nat, clk i <= clk O + l) ->
  DL (pstart cfg clk tc0).
Proof.
  intros cfg tc0 Hnev d. unfold pstart. ecbn.
  destruct (c_limit cfg) as [l|]; intros Hd i; [|discriminate Hd].
  injection Hd as Hd. subst d. exact (Hnev l eq_refl i).
Qed.

Lemma pstart_erase_PB : forall cfg tc0,
  c_min cfg = 1 -> is_power_of_two (c_max cfg) = true -> PB (erase (pstart cfg clk tc0)).
Proof.
  intros cfg tc0 Hmin Hmax.
  pose proof (mm_ipot_ge1 _ Hmax) as H1. pose proof (mm_lpot_ge1 (tc_len tc0)) as H2.
  constructor; unfold pstart; ecbn; [reflexivity | lia | rewrite Hmin; reflexivity].
Qed.

End Sim.

(* ------------------------------------------------------------------ *)
(* 2. minimize-around                                                  *)
(* ------------------------------------------------------------------ *)

Definition AIL (clk : clock_t) (f : bytes -> bool) (s : pstate) (best : tcase) : Prop :=
  DL clk s /\ AI f (erase s) best.

Theorem around_stops_at_fixpoint_limit :
  forall cfg clk f tc0 file0 fuel rc w,
    wf tc0 -> Forall (fun p => p <> []) (tc_parts tc0) -> content tc0 = file0 ->
    c_min cfg = 1 -> is_power_of_two (c_max cfg) = true -> c_repeat cfg <> Never ->
    (forall l, c_limit cfg = Some l -> forall i : nat, clk i <= clk O + l) -> f file0 = true ->
    run (pairs KAround cfg clk) (det f) fuel tc0 file0 = Finished rc w ->
    exists tf, sub_reducible tc0 tf /\ w_file w = content tf /\ f (content tf) = true /\
               pf_around_fixpoint f tf.
Proof.
  intros cfg clk f tc0 file0 fuel rc w Hwf Hne Hc Hmin Hmax Hrep Hnev Hf Hrun.
  apply (generic_fixpoint f pstate (pairs KAround cfg clk) (AIL clk f) (fun _ => True)
           (pf_around_fixpoint f)) with (file0 := file0) (fuel := fuel) (rc := rc);
    try assumption.
  - intros t t' _ _ _. exact I.
  - intros st best [HD HI] Hwfb Hneb _.
    change (s_next (pairs KAround cfg clk) st best)
      with (pdrive (pairs_fuel st best) KAround cfg clk st best).
    pose proof (pdrive_erase clk cfg (pairs_fuel st best) KAround st best HD) as Hsim.
    pose proof (around_pdrive f cfg clk Hrep (pairs_fuel st best) (erase st) best HI Hwfb) as Hd.
    destruct (pdrive (pairs_fuel st best) KAround cfg clk st best) as [t k|b s'| |e];
      cbn [sim_step] in Hsim.
    + destruct Hsim as (k' & Ek & Hk). rewrite Ek in Hd.
      destruct Hd as (s1 & HI1 & Hph & Hcond & Hp).
      destruct (around_step f s1 best t k' HI1 Hph Hcond Hwfb Hneb Hp) as (Hsub & Hrej & Hacc).
      split; [exact Hsub|]. split.
      * intros o Ho Hfo. destruct (Hk o) as [HDo Eo]. split; [exact HDo|].
        rewrite Eo. exact (Hrej o Ho Hfo).
      * destruct (Hk (Tested true)) as [HDo Eo]. split; [exact HDo|]. rewrite Eo. exact Hacc.
    + destruct Hsim.
    + rewrite Hsim in Hd. exact Hd.
    + exact I.
  - exact I.
  - change (s_start (pairs KAround cfg clk) tc0) with (pstart cfg clk tc0).
    split; [exact (pstart_DL clk cfg tc0 Hnev)|].
    split; [exact (pstart_erase_PB clk cfg tc0 Hmin Hmax) | exact I].
  - intros Hl i t' Hi1 Hi2. lia.
Qed.

(* ------------------------------------------------------------------ *)
(* 3. minimize-balanced                                                *)
(* ------------------------------------------------------------------ *)

Definition BIL (clk : clock_t) (f : bytes -> bool) (s : pstate) (best : tcase) : Prop :=
  DL clk s /\ BI f (erase s) best.

Theorem balanced_stops_at_fixpoint_limit :
  forall cfg clk f tc0 file0 fuel rc w,
    wf tc0 -> all_reducible tc0 -> Forall (fun p => p <> []) (tc_parts tc0) -> content tc0 = file0 ->
    c_min cfg = 1 -> is_power_of_two (c_max cfg) = true -> c_repeat cfg <> Never ->
    (forall l, c_limit cfg = Some l -> forall i : nat, clk i <= clk O + l) -> f file0 = true ->
    run (pairs KBalanced cfg clk) (det f) fuel tc0 file0 = Finished rc w ->
    exists tf, sub_reducible tc0 tf /\ w_file w = content tf /\ f (content tf) = true /\
               pf_balanced_fixpoint f tf.
Proof.
  intros cfg clk f tc0 file0 fuel rc w Hwf Hall Hne Hc Hmin Hmax Hrep Hnev Hf Hrun.
  apply (generic_fixpoint f pstate (pairs KBalanced cfg clk) (BIL clk f) all_reducible
           (pf_balanced_fixpoint f)) with (file0 := file0) (fuel := fuel) (rc := rc);
    try assumption.
  - exact all_red_sub.
  - intros st best [HD HI] Hwfb Hneb Hallb.
    change (s_next (pairs KBalanced cfg clk) st best)
      with (pdrive (pairs_fuel st best) KBalanced cfg clk st best).
    pose proof (pdrive_erase clk cfg (pairs_fuel st best) KBalanced st best HD) as Hsim.
    pose proof (balanced_pdrive f cfg clk Hrep (pairs_fuel st best) (erase st) best HI Hwfb Hallb
                  Hneb) as Hd.
    destruct (pdrive (pairs_fuel st best) KBalanced cfg clk st best) as [t k|b s'| |e];
      cbn [sim_step] in Hsim.
    + destruct Hsim as (k' & Ek & Hk). rewrite Ek in Hd. destruct Hd as (Hsub & Hrej & Hacc).
      split; [exact Hsub|]. split.
      * intros o Ho Hfo. destruct (Hk o) as [HDo Eo]. split; [exact HDo|].
        rewrite Eo. exact (Hrej o Ho Hfo).
      * destruct (Hk (Tested true)) as [HDo Eo]. split; [exact HDo|]. rewrite Eo. exact Hacc.
    + destruct Hsim.
    + rewrite Hsim in Hd. exact Hd.
    + exact I.
  - change (s_start (pairs KBalanced cfg clk) tc0) with (pstart cfg clk tc0).
    split; [exact (pstart_DL clk cfg tc0 Hnev)|].
    split; [exact (pstart_erase_PB clk cfg tc0 Hmin Hmax) | exact I].
  - intros Hl H2. lia.
Qed.

Print Assumptions around_stops_at_fixpoint_limit.
Print Assumptions balanced_stops_at_fixpoint_limit.
