(* Proofs for C19 (decision logic of outputs, diff_test, repeat).  Every lemma used by
   Props/C19.v is here. *)
From Coq Require Import ZArith NArith List Bool Lia ZifyBool Arith.
From Lithium Require Import PyBase Markers Interest.
Import ListNotations.
Open Scope Z_scope.

(* ------------------------------------------------------------------------------------ *)
(* outputs                                                                              *)
(* ------------------------------------------------------------------------------------ *)

Lemma outputs_spec :
  forall matches is_regex search out err,
    outputs_mem matches is_regex search out err =
      (if is_regex then matches search out || matches search err
       else contains search out || contains search err) /\
    outputs_file matches is_regex search out err =
      (if is_regex then matches search out || matches search err
       else contains search out || contains search err).
Proof.
  intros matches is_regex search out err.
  unfold outputs_mem, outputs_file, file_contains, file_contains_regex, file_contains_str.
  cbn [first_stream existsb]. unfold found_mem.
  destruct is_regex.
  - destruct (matches search out); destruct (matches search err); split; reflexivity.
  - destruct (contains search out); destruct (contains search err); split; reflexivity.
Qed.

Lemma outputs_modes_agree :
  forall matches is_regex search out err,
    outputs_mem matches is_regex search out err = outputs_file matches is_regex search out err.
Proof.
  intros matches is_regex search out err.
  destruct (outputs_spec matches is_regex search out err) as [Hmem Hfile].
  rewrite Hmem, Hfile. reflexivity.
Qed.

(* ------------------------------------------------------------------------------------ *)
(* diff_test                                                                            *)
(* ------------------------------------------------------------------------------------ *)

Lemma bytes_eqb_iff : forall a b : bytes, bytes_eqb a b = true <-> a = b.
Proof.
  induction a as [|x a IH]; intros [|y b]; cbn [bytes_eqb].
  - split; reflexivity.
  - split; discriminate.
  - split; discriminate.
  - rewrite andb_true_iff, N.eqb_eq, IH. split.
    + intros [Hx Ha]. subst y b. reflexivity.
    + intros E. injection E as Hx Ha. split; assumption.
Qed.

Lemma bytes_eqb_false_iff : forall a b : bytes, bytes_eqb a b = false <-> a <> b.
Proof.
  intros a b. pose proof (bytes_eqb_iff a b) as H. destruct (bytes_eqb a b).
  - split; [discriminate|]. intros Hne. exfalso. apply Hne. apply H. reflexivity.
  - split; [|reflexivity]. intros _ E. apply H in E. discriminate E.
Qed.

Lemma optz_eqb_iff : forall a b, optz_eqb a b = true <-> a = b.
Proof.
  intros [x|] [y|]; cbn [optz_eqb].
  - rewrite Z.eqb_eq. split; [intros E; subst y; reflexivity | intros E; injection E as E; exact E].
  - split; discriminate.
  - split; discriminate.
  - split; reflexivity.
Qed.

Lemma optz_eqb_false_iff : forall a b, optz_eqb a b = false <-> a <> b.
Proof.
  intros a b. pose proof (optz_eqb_iff a b) as H. destruct (optz_eqb a b).
  - split; [discriminate|]. intros Hne. exfalso. apply Hne. apply H. reflexivity.
  - split; [|reflexivity]. intros _ E. apply H in E. discriminate E.
Qed.

Lemma diff_mem_spec :
  forall ra rb oa ea ob eb,
    diff_mem ra rb oa ea ob eb = true <-> (ra <> rb \/ oa <> ob \/ ea <> eb).
Proof.
  intros ra rb oa ea ob eb. unfold diff_mem.
  rewrite <- optz_eqb_false_iff, <- !bytes_eqb_false_iff.
  destruct (optz_eqb ra rb); destruct (bytes_eqb oa ob); destruct (bytes_eqb ea eb);
    cbn [negb orb]; split; intros H; try reflexivity; try discriminate H.
  - destruct H as [H|[H|H]]; discriminate H.
  - right. right. reflexivity.
  - right. left. reflexivity.
  - right. left. reflexivity.
  - left. reflexivity.
  - left. reflexivity.
  - left. reflexivity.
  - left. reflexivity.
Qed.

Lemma filecmp_deep_eq : forall a b, filecmp_deep a b = bytes_eqb a b.
Proof.
  intros a b. unfold filecmp_deep. destruct (Nat.eqb (length a) (length b)) eqn:Hlen; cbn [negb].
  - reflexivity.
  - destruct (bytes_eqb a b) eqn:E; [|reflexivity].
    apply bytes_eqb_iff in E. subst b. rewrite Nat.eqb_refl in Hlen. discriminate Hlen.
Qed.

Lemma diff_modes_agree :
  forall ra rb oa ea ob eb, diff_file ra rb oa ea ob eb = diff_mem ra rb oa ea ob eb.
Proof.
  intros ra rb oa ea ob eb. unfold diff_file, diff_mem. rewrite !filecmp_deep_eq. reflexivity.
Qed.

(* ------------------------------------------------------------------------------------ *)
(* repeat                                                                               *)
(* ------------------------------------------------------------------------------------ *)

Definition sub_args (cookie : bytes) (args : list bytes) (i : Z) : list bytes :=
  map (replace cookie (dec i)) args.

Lemma repeat_from_spec : forall inner cookie args k s,
  let '(r, calls) := repeat_from inner cookie args (Z.of_nat s) k in
  (r = true <-> exists j, Z.of_nat s <= j < Z.of_nat s + Z.of_nat k /\
                          inner j (sub_args cookie args j) = true) /\
  (exists m : nat, (m <= k)%nat /\
     calls = map (sub_args cookie args) (map Z.of_nat (seq s m)) /\
     (forall j, Z.of_nat s <= j < Z.of_nat s + Z.of_nat m - 1 ->
                inner j (sub_args cookie args j) = false) /\
     (r = true -> (1 <= m)%nat /\
                  inner (Z.of_nat s + Z.of_nat m - 1)
                        (sub_args cookie args (Z.of_nat s + Z.of_nat m - 1)) = true) /\
     (r = false -> m = k)).
Proof.
  intros inner cookie args. induction k as [|k IH]; intros s.
  - cbn [repeat_from]. split.
    + split; [discriminate|]. intros [j [Hj _]]. lia.
    + exists O. split; [lia|]. split; [reflexivity|]. split; [intros j Hj; lia|].
      split; [discriminate | reflexivity].
  - cbn [repeat_from].
    change (map (replace cookie (dec (Z.of_nat s))) args) with (sub_args cookie args (Z.of_nat s)).
    destruct (inner (Z.of_nat s) (sub_args cookie args (Z.of_nat s))) eqn:Hin.
    + split.
      * split; [|reflexivity]. intros _. exists (Z.of_nat s). split; [lia | exact Hin].
      * exists 1%nat. split; [lia|]. split; [reflexivity|]. split; [intros j Hj; lia|].
        split; [|discriminate]. intros _. split; [lia|].
        replace (Z.of_nat s + Z.of_nat 1 - 1) with (Z.of_nat s) by lia. exact Hin.
    + replace (Z.of_nat s + 1) with (Z.of_nat (S s)) by lia.
      specialize (IH (S s)).
      destruct (repeat_from inner cookie args (Z.of_nat (S s)) k) as [r calls].
      destruct IH as [Hr [m [Hmk [Hcalls [Hbefore [Htrue Hfalse]]]]]].
      split.
      * rewrite Hr. split.
        { intros [j [Hj Hinj]]. exists j. split; [lia | exact Hinj]. }
        { intros [j [Hj Hinj]]. exists j. split; [|exact Hinj].
          destruct (Z.eq_dec j (Z.of_nat s)) as [E|E]; [|lia].
          subst j. rewrite Hin in Hinj. discriminate Hinj. }
      * exists (S m). split; [lia|]. split.
        { cbn [seq map]. rewrite Hcalls. reflexivity. }
        split.
        { intros j Hj. destruct (Z.eq_dec j (Z.of_nat s)) as [E|E].
          - subst j. exact Hin.
          - apply Hbefore. lia. }
        split.
        { intros Hrt. destruct (Htrue Hrt) as [Hm1 Hinm]. split; [lia|].
          replace (Z.of_nat s + Z.of_nat (S m) - 1) with (Z.of_nat (S s) + Z.of_nat m - 1) by lia.
          exact Hinm. }
        { intros Hrf. rewrite (Hfalse Hrf). reflexivity. }
Qed.

Lemma repeat_spec :
  forall inner cookie args n, 0 <= n ->
    let '(r, calls) := repeat_loop inner cookie args n in
    (r = true <-> exists i, 1 <= i <= n /\ inner i (sub_args cookie args i) = true) /\
    (exists m, 0 <= m <= n /\ calls = map (sub_args cookie args) (map Z.of_nat (seq 1 (Z.to_nat m))) /\
               (forall i, 1 <= i < m -> inner i (sub_args cookie args i) = false) /\
               (r = true -> 1 <= m /\ inner m (sub_args cookie args m) = true) /\
               (r = false -> m = n)).
Proof.
  intros inner cookie args n Hn. unfold repeat_loop.
  pose proof (repeat_from_spec inner cookie args (Z.to_nat n) 1%nat) as H.
  change (Z.of_nat 1) with 1 in H.
  destruct (repeat_from inner cookie args 1 (Z.to_nat n)) as [r calls].
  destruct H as [Hr [m [Hmk [Hcalls [Hbefore [Htrue Hfalse]]]]]].
  split.
  - rewrite Hr. split.
    + intros [j [Hj Hinj]]. exists j. split; [lia | exact Hinj].
    + intros [j [Hj Hinj]]. exists j. split; [lia | exact Hinj].
  - exists (Z.of_nat m). split; [lia|]. split.
    { rewrite Nat2Z.id. exact Hcalls. }
    split.
    { intros i Hi. apply Hbefore. lia. }
    split.
    { intros Hrt. destruct (Htrue Hrt) as [Hm1 Hinm]. split; [lia|].
      replace (1 + Z.of_nat m - 1) with (Z.of_nat m) in Hinm by lia. exact Hinm. }
    { intros Hrf. rewrite (Hfalse Hrf). lia. }
Qed.

(* ------------------------------------------------------------------------------------ *)
(* str.replace                                                                          *)
(* ------------------------------------------------------------------------------------ *)

Lemma contains_cons' : forall n y h,
  contains n (y :: h) = starts_with n (y :: h) || contains n h.
Proof. destruct n; reflexivity. Qed.

Lemma py_replace_nil : forall f old new, py_replace f old new [] = [].
Proof. destruct f; reflexivity. Qed.

(* any fuel >= length s gives the same result *)
Lemma py_replace_fuel : forall old new, old <> [] ->
  forall f1 f2 s, (length s <= f1)%nat -> (length s <= f2)%nat ->
    py_replace f1 old new s = py_replace f2 old new s.
Proof.
  intros old new Hold. induction f1 as [|f1 IH]; intros f2 s H1 H2.
  - destruct s as [|c r]; [|cbn [length] in H1; lia].
    rewrite !py_replace_nil. reflexivity.
  - destruct s as [|c r]; [rewrite !py_replace_nil; reflexivity|].
    destruct f2 as [|f2]; [cbn [length] in H2; lia|].
    cbn [length] in H1, H2. cbn [py_replace].
    destruct (starts_with old (c :: r)).
    + f_equal. pose proof (skipn_length (length old) (c :: r)) as Hsk.
      assert (Hlo : (1 <= length old)%nat).
      { destruct old as [|o old']; [contradiction Hold; reflexivity | cbn [length]; lia]. }
      cbn [length] in Hsk. apply IH; lia.
    + f_equal. apply IH; lia.
Qed.

Lemma py_replace_absent : forall old new f s,
  contains old s = false -> py_replace f old new s = s.
Proof.
  intros old new. induction f as [|f IH]; intros s Hc; [reflexivity|].
  destruct s as [|c r]; [reflexivity|].
  rewrite contains_cons' in Hc. apply orb_false_iff in Hc. destruct Hc as [Hsw Hr].
  cbn [py_replace]. rewrite Hsw. f_equal. apply IH. exact Hr.
Qed.

Lemma replace_absent :
  forall old new s, old <> [] -> contains old s = false -> replace old new s = s.
Proof.
  intros old new s _ Hc. unfold replace. apply py_replace_absent. exact Hc.
Qed.

Lemma starts_with_self_app : forall p b, starts_with p (p ++ b) = true.
Proof.
  induction p as [|x p IH]; intros b; [reflexivity|].
  cbn [app starts_with]. rewrite N.eqb_refl, IH. reflexivity.
Qed.

Lemma skipn_length_app {A} : forall (p b : list A), skipn (length p) (p ++ b) = b.
Proof. induction p as [|x p IH]; intros b; [reflexivity|]. cbn [length app skipn]. apply IH. Qed.

(* a prefix match on d ++ x only looks at the first  |p| - |d|  elements of x *)
Lemma starts_with_app_firstn : forall p d x k,
  (length p <= length d + k)%nat ->
  starts_with p (d ++ x) = true -> starts_with p (d ++ firstn k x) = true.
Proof.
  induction p as [|a p IH]; intros d x k Hlen H; [reflexivity|].
  destruct d as [|y d].
  - cbn [app length] in *. destruct k as [|k]; [lia|].
    destruct x as [|z x]; [discriminate H|].
    cbn [firstn starts_with] in *. apply andb_true_iff in H. destruct H as [Haz Hp].
    rewrite Haz. cbn [andb]. apply (IH [] x k); [cbn [length]; lia | exact Hp].
  - cbn [app length starts_with] in *. apply andb_true_iff in H. destruct H as [Hay Hp].
    rewrite Hay. cbn [andb]. apply IH; [lia | exact Hp].
Qed.

Lemma py_replace_head : forall f old new s, s <> [] -> starts_with old s = true ->
  py_replace (S f) old new s = new ++ py_replace f old new (skipn (length old) s).
Proof.
  intros f old new s Hs Hsw. destruct s as [|c r]; [contradiction Hs; reflexivity|].
  cbn [py_replace]. rewrite Hsw. reflexivity.
Qed.

Lemma replace_concat :
  forall old new a b, old <> [] ->
    contains old (a ++ firstn (length old - 1)%nat old) = false ->
    replace old new (a ++ old ++ b) = a ++ new ++ replace old new b.
Proof.
  intros old new a b Hold. induction a as [|c a IH]; intros Hc.
  - cbn [app]. unfold replace.
    assert (Hlen : exists f, length (old ++ b) = S f /\ (length b <= f)%nat).
    { rewrite app_length. destruct old as [|o old']; [contradiction Hold; reflexivity|].
      cbn [length]. exists (length old' + length b)%nat. lia. }
    destruct Hlen as [f [Hf Hbf]]. rewrite Hf.
    rewrite py_replace_head.
    + rewrite skipn_length_app. f_equal. apply py_replace_fuel; [exact Hold | exact Hbf | lia].
    + destruct old as [|o old']; [contradiction Hold; reflexivity | discriminate].
    + apply starts_with_self_app.
  - cbn [app] in Hc. rewrite contains_cons' in Hc. apply orb_false_iff in Hc.
    destruct Hc as [Hsw Hrest].
    unfold replace. cbn [app length py_replace].
    destruct (starts_with old (c :: a ++ old ++ b)) eqn:Hhead.
    + exfalso.
      assert (Ht : starts_with old ((c :: a) ++ firstn (length old - 1)%nat old) = true).
      { assert (Hfn : firstn (length old - 1)%nat (old ++ b) = firstn (length old - 1)%nat old).
        { rewrite firstn_app.
          replace (length old - 1 - length old)%nat with O by lia.
          cbn [firstn]. apply app_nil_r. }
        rewrite <- Hfn.
        apply starts_with_app_firstn; [cbn [length]; lia|].
        exact Hhead. }
      cbn [app] in Ht. rewrite Hsw in Ht. discriminate Ht.
    + f_equal. apply IH. exact Hrest.
Qed.
