(* Proofs about the model of testcases.Testcase (Model/Testcase.v) against the
   independent specification (Model/Spec.v).  No axioms. *)
From Coq Require Import ZArith NArith List Bool Arith Lia ZifyBool.
From Lithium Require Import PyBase TcRecord Testcase Spec.
Import ListNotations.
Open Scope Z_scope.

(* ------------------------------------------------------------------ *)
(* 1. Auxiliary definitions (nat positions)                            *)
(* ------------------------------------------------------------------ *)

Definition nonred (x : bytes * bool) : bool := negb (snd x).
Definition nred (z : list (bytes * bool)) : nat := length (filter snd z).
Definition ntrue (l : list bool) : nat := length (filter (fun b : bool => b) l).

(* indices (offset by s) of the true flags *)
Fixpoint posf (s : nat) (l : list bool) : list nat :=
  match l with
  | [] => []
  | b :: l' => (if b then [s] else []) ++ posf (S s) l'
  end.
Definition positions (l : list bool) : list nat := posf 0 l.

(* the list `opts` of _slice_xlat, in nat *)
Definition optsN (l : list bool) : list nat := (0%nat :: tl (positions l)) ++ [length l].
Definition idx (l : list bool) (r : nat) : nat := nth r (optsN l) 0%nat.

(* ------------------------------------------------------------------ *)
(* 2. Generic list facts                                               *)
(* ------------------------------------------------------------------ *)

Lemma combine_fst_snd : forall (A B : Type) (z : list (A * B)),
  combine (map fst z) (map snd z) = z.
Proof.
  intros A B z. induction z as [|[x y] z IH]; simpl; [reflexivity|].
  rewrite IH. reflexivity.
Qed.

Lemma map_fst_combine_eq : forall (A B : Type) (a : list A) (b : list B),
  length a = length b -> map fst (combine a b) = a.
Proof.
  intros A B a. induction a as [|x a IH]; intros [|y b] H; simpl in *;
    try discriminate; try reflexivity.
  f_equal. apply IH. lia.
Qed.

Lemma map_snd_combine_eq : forall (A B : Type) (a : list A) (b : list B),
  length a = length b -> map snd (combine a b) = b.
Proof.
  intros A B a. induction a as [|x a IH]; intros [|y b] H; simpl in *;
    try discriminate; try reflexivity.
  f_equal. apply IH. lia.
Qed.

Lemma skipn_skipn_add : forall (A : Type) (a b : nat) (l : list A),
  skipn a (skipn b l) = skipn (b + a) l.
Proof.
  intros A a b. induction b as [|b IH]; intros l; simpl; [reflexivity|].
  destruct l as [|x l]; [destruct a; reflexivity|]. apply IH.
Qed.

Lemma nth_error_app_mid : forall (A : Type) (pre : list A) (b : A) (l : list A),
  nth_error (pre ++ b :: l) (length pre) = Some b.
Proof.
  intros A pre b l. rewrite nth_error_app2 by lia. rewrite Nat.sub_diag. reflexivity.
Qed.

(* split a list at S <= E *)
Lemma split3 : forall (A : Type) (z : list A) (S E : nat), (S <= E)%nat ->
  z = firstn S z ++ firstn (E - S) (skipn S z) ++ skipn E z.
Proof.
  intros A z S E HSE.
  rewrite <- (firstn_skipn S z) at 1. f_equal.
  rewrite <- (firstn_skipn (E - S) (skipn S z)) at 1. f_equal.
  rewrite skipn_skipn_add. f_equal. lia.
Qed.

Lemma firstn_split : forall (A : Type) (z : list A) (S E : nat), (S <= E)%nat ->
  firstn E z = firstn S z ++ firstn (E - S) (skipn S z).
Proof.
  intros A z S E HSE.
  rewrite <- (firstn_skipn S (firstn E z)) at 1.
  rewrite firstn_firstn, skipn_firstn_comm.
  replace (Nat.min S E) with S by lia. reflexivity.
Qed.

(* ------------------------------------------------------------------ *)
(* 3. PyBase facts: py_index, py_slice                                 *)
(* ------------------------------------------------------------------ *)

Lemma py_index_nat : forall (A : Type) (l : list A) (i : nat) (x : A),
  nth_error l i = Some x -> py_index l (Z.of_nat i) = Ok x.
Proof.
  intros A l i x H.
  assert (Hlt : (i < length l)%nat) by (apply nth_error_Some; congruence).
  unfold py_index, zlen. cbv zeta.
  assert (E1 : (Z.of_nat i <? 0) = false) by (apply Z.ltb_ge; lia).
  assert (E2 : (Z.of_nat (length l) <=? Z.of_nat i) = false) by (apply Z.leb_gt; lia).
  rewrite E1. rewrite E1, E2. cbn [orb].
  rewrite Nat2Z.id, H. reflexivity.
Qed.

Lemma py_index_mid : forall (A : Type) (pre : list A) (b : A) (l : list A),
  py_index (pre ++ b :: l) (zlen pre) = Ok b.
Proof.
  intros A pre b l. unfold zlen. apply py_index_nat. apply nth_error_app_mid.
Qed.

Lemma py_index_mid_eq : forall (A : Type) (red pre : list A) (b : A) (l : list A),
  red = pre ++ b :: l -> py_index red (zlen pre) = Ok b.
Proof. intros A red pre b l H. rewrite H. apply py_index_mid. Qed.

Lemma py_slice_to_nat : forall (A : Type) (l : list A) (s : nat),
  py_slice l None (Some (Z.of_nat s)) = firstn s l.
Proof.
  intros A l s. unfold py_slice, norm_bound, zlen. cbv zeta.
  assert (E1 : (Z.of_nat s <? 0) = false) by (apply Z.ltb_ge; lia).
  rewrite E1. change (Z.to_nat 0) with 0%nat. cbn [skipn].
  destruct (Nat.le_gt_cases s (length l)) as [Hle|Hgt].
  - f_equal. lia.
  - rewrite (firstn_all2 l (n := s)) by lia. apply firstn_all2. lia.
Qed.

Lemma py_slice_from_nat : forall (A : Type) (l : list A) (s : nat),
  py_slice l (Some (Z.of_nat s)) None = skipn s l.
Proof.
  intros A l s. unfold py_slice, norm_bound, zlen. cbv zeta.
  assert (E1 : (Z.of_nat s <? 0) = false) by (apply Z.ltb_ge; lia).
  rewrite E1.
  destruct (Nat.le_gt_cases s (length l)) as [Hle|Hgt].
  - replace (Z.to_nat (Z.min (Z.of_nat s) (Z.of_nat (length l)))) with s by lia.
    apply firstn_all2. rewrite skipn_length. lia.
  - replace (Z.to_nat (Z.min (Z.of_nat s) (Z.of_nat (length l)))) with (length l) by lia.
    rewrite skipn_all. rewrite (skipn_all2 l (n := s)) by lia. destruct (Z.to_nat _); reflexivity.
Qed.

Lemma py_slice_mid_nat : forall (A : Type) (l : list A) (s e : nat),
  (s <= length l)%nat -> (e <= length l)%nat ->
  py_slice l (Some (Z.of_nat s)) (Some (Z.of_nat e)) = firstn (e - s) (skipn s l).
Proof.
  intros A l s e Hs He. unfold py_slice, norm_bound, zlen. cbv zeta.
  assert (E1 : (Z.of_nat s <? 0) = false) by (apply Z.ltb_ge; lia).
  assert (E2 : (Z.of_nat e <? 0) = false) by (apply Z.ltb_ge; lia).
  rewrite E1, E2. f_equal; [lia|]. f_equal. lia.
Qed.

(* ------------------------------------------------------------------ *)
(* 4. Counting                                                         *)
(* ------------------------------------------------------------------ *)

Lemma nred_app : forall a b, nred (a ++ b) = (nred a + nred b)%nat.
Proof. intros a b. unfold nred. rewrite filter_app, app_length. reflexivity. Qed.

Lemma nred_ntrue : forall z, nred z = ntrue (map snd z).
Proof.
  intros z. unfold nred, ntrue. induction z as [|[p b] z IH]; simpl; [reflexivity|].
  destruct b; simpl; rewrite IH; reflexivity.
Qed.

Lemma nred_filter_nonred : forall z, nred (filter nonred z) = 0%nat.
Proof.
  intros z. unfold nred. induction z as [|[p b] z IH]; simpl; [reflexivity|].
  destruct b; unfold nonred; simpl; exact IH.
Qed.

Lemma filter_negb_ntrue : forall l, (length (filter negb l) + ntrue l = length l)%nat.
Proof.
  intros l. unfold ntrue. induction l as [|b l IH]; simpl; [reflexivity|].
  destruct b; simpl; lia.
Qed.

Lemma posf_length : forall l s, length (posf s l) = ntrue l.
Proof.
  intros l. unfold ntrue. induction l as [|b l IH]; intros s; simpl; [reflexivity|].
  destruct b; simpl; rewrite IH; reflexivity.
Qed.

Lemma posf_count : forall l s r, (r < length (posf s l))%nat ->
  exists p, nth r (posf s l) 0%nat = (s + p)%nat /\ (p < length l)%nat /\
            ntrue (firstn p l) = r.
Proof.
  intros l. induction l as [|b l IH]; intros s r Hr; simpl in Hr; [lia|].
  destruct b; simpl in Hr.
  - destruct r as [|r].
    + exists 0%nat. simpl. repeat split; try lia.
    + destruct (IH (S s) r) as [p [Hn [Hp Hc]]]; [lia|].
      exists (S p). simpl. rewrite Hn. repeat split; try lia.
      unfold ntrue in *. simpl. rewrite Hc. reflexivity.
  - destruct (IH (S s) r Hr) as [p [Hn [Hp Hc]]].
    exists (S p). simpl. rewrite Hn. repeat split; try lia.
    unfold ntrue in *. simpl. exact Hc.
Qed.

Lemma ntrue_firstn_mono : forall l a b, (a <= b)%nat ->
  (ntrue (firstn a l) <= ntrue (firstn b l))%nat.
Proof.
  intros l. unfold ntrue. induction l as [|x l IH]; intros a b Hab.
  - rewrite !firstn_nil. lia.
  - destruct a as [|a]; [simpl; lia|]. destruct b as [|b]; [lia|].
    specialize (IH a b). simpl. destruct x; simpl; lia.
Qed.

Lemma optsN_length : forall l, (ntrue l < length (optsN l))%nat.
Proof.
  intros l. unfold optsN, positions. rewrite app_length. simpl.
  pose proof (posf_length l 0) as H. destruct (posf 0 l) as [|p0 P]; simpl in *; lia.
Qed.

Lemma idx_spec : forall l r, (r <= ntrue l)%nat ->
  (idx l r <= length l)%nat /\ ntrue (firstn (idx l r) l) = r.
Proof.
  intros l r Hr. unfold idx, optsN, positions.
  destruct r as [|r].
  - simpl. split; [lia|reflexivity].
  - cbn [app nth].
    pose proof (posf_length l 0) as HL.
    destruct (posf 0 l) as [|p0 P] eqn:EP; simpl in HL; [lia|].
    cbn [tl].
    destruct (Nat.lt_ge_cases r (length P)) as [Hlt|Hge].
    + rewrite app_nth1 by exact Hlt.
      destruct (posf_count l 0 (S r)) as [p [Hn [Hp Hc]]]; [rewrite EP; simpl; lia|].
      rewrite EP in Hn. simpl in Hn. rewrite Hn. split; [lia|exact Hc].
    + rewrite app_nth2 by exact Hge.
      replace (r - length P)%nat with 0%nat by lia. simpl.
      split; [lia|]. rewrite firstn_all. lia.
Qed.

(* ------------------------------------------------------------------ *)
(* 5. The model's index translation                                    *)
(* ------------------------------------------------------------------ *)

Lemma red_positions_gen : forall (l pre red : list bool), red = pre ++ l ->
  flat_mapM (fun i => v <- py_index red i ;; if v then Ok [i] else Ok [])
            (map Z.of_nat (seq (length pre) (length l)))
  = Ok (map Z.of_nat (posf (length pre) l)).
Proof.
  intros l. induction l as [|b l IH]; intros pre red Hred; [reflexivity|].
  cbn [length seq map flat_mapM posf].
  rewrite (py_index_nat _ red (length pre) b) by (rewrite Hred; apply nth_error_app_mid).
  specialize (IH (pre ++ [b]) red).
  rewrite app_length in IH. simpl in IH. rewrite Nat.add_1_r in IH.
  cbn [bind].
  rewrite IH by (rewrite Hred, <- app_assoc; reflexivity).
  destruct b; reflexivity.
Qed.

Lemma red_positions_eq : forall t, wf t ->
  red_positions t = Ok (map Z.of_nat (positions (tc_red t))).
Proof.
  intros t Hwf. unfold red_positions, py_range, zlen, positions. rewrite Nat2Z.id.
  unfold wf in Hwf. rewrite Hwf.
  apply (red_positions_gen (tc_red t) [] (tc_red t) eq_refl).
Qed.

Lemma opts_eq : forall (P : list nat) (n : nat),
  ([0] ++ py_slice (map Z.of_nat P) (Some 1) None) ++ [Z.of_nat n]
  = map Z.of_nat ((0%nat :: tl P) ++ [n]).
Proof.
  intros P n. change 1 with (Z.of_nat 1). rewrite py_slice_from_nat.
  rewrite map_app. destruct P as [|p P]; reflexivity.
Qed.

Lemma py_index_opts : forall l r, 0 <= r <= Z.of_nat (ntrue l) ->
  py_index (map Z.of_nat (optsN l)) r = Ok (Z.of_nat (idx l (Z.to_nat r))).
Proof.
  intros l r Hr. rewrite <- (Z2Nat.id r) at 1 by lia.
  apply py_index_nat. apply map_nth_error. unfold idx. apply nth_error_nth'.
  pose proof (optsN_length l). lia.
Qed.

Lemma tc_len_eq : forall t, wf t -> tc_len t = Z.of_nat (ntrue (tc_red t)).
Proof.
  intros t Hwf. unfold tc_len, count_false, zlen. unfold wf in Hwf.
  pose proof (filter_negb_ntrue (tc_red t)). lia.
Qed.

Lemma tc_len_nonneg : forall t, wf t -> 0 <= tc_len t.
Proof. intros t Hwf. rewrite tc_len_eq by exact Hwf. lia. Qed.

Lemma clamp_py : forall n x, clamp n (Some x) 0 = py_clamp n x.
Proof.
  intros n x. unfold clamp, py_clamp. destruct (x <? 0); [reflexivity|].
  destruct (Z.gtb_spec x n); lia.
Qed.

Lemma clamp_py_dflt : forall n x d, clamp n (Some x) d = py_clamp n x.
Proof.
  intros n x d. unfold clamp, py_clamp. destruct (x <? 0); [reflexivity|].
  destruct (Z.gtb_spec x n); lia.
Qed.

Lemma py_clamp_range : forall n x, 0 <= n -> 0 <= py_clamp n x <= n.
Proof.
  intros n x Hn. unfold py_clamp. destruct (Z.ltb_spec x 0); lia.
Qed.

Lemma clamp_range : forall n a d, 0 <= n -> 0 <= d <= n -> 0 <= clamp n a d <= n.
Proof.
  intros n a d Hn Hd. destruct a as [x|]; [|exact Hd].
  rewrite clamp_py_dflt. apply py_clamp_range. exact Hn.
Qed.

Lemma slice_xlat_eq : forall t a b, wf t ->
  slice_xlat t a b =
  Ok (Z.of_nat (idx (tc_red t) (Z.to_nat (clamp (tc_len t) a 0))),
      Z.of_nat (idx (tc_red t) (Z.to_nat (clamp (tc_len t) b (tc_len t))))).
Proof.
  intros t a b Hwf. unfold slice_xlat. cbv zeta.
  rewrite red_positions_eq by exact Hwf. cbn [bind].
  unfold zlen. rewrite opts_eq.
  replace (length (tc_parts t)) with (length (tc_red t)) by (symmetry; exact Hwf).
  fold (optsN (tc_red t)).
  pose proof (tc_len_nonneg t Hwf) as Hn.
  pose proof (tc_len_eq t Hwf) as Hk.
  assert (Ha : 0 <= clamp (tc_len t) a 0 <= tc_len t) by (apply clamp_range; lia).
  assert (Hb : 0 <= clamp (tc_len t) b (tc_len t) <= tc_len t) by (apply clamp_range; lia).
  rewrite py_index_opts by lia. cbn [bind].
  rewrite py_index_opts by lia. cbn [bind].
  reflexivity.
Qed.

(* ------------------------------------------------------------------ *)
(* 6. zipped                                                           *)
(* ------------------------------------------------------------------ *)

Lemma zipped_parts : forall t, wf t -> map fst (zipped t) = tc_parts t.
Proof. intros t Hwf. unfold zipped. apply map_fst_combine_eq. exact Hwf. Qed.

Lemma zipped_red : forall t, wf t -> map snd (zipped t) = tc_red t.
Proof. intros t Hwf. unfold zipped. apply map_snd_combine_eq. exact Hwf. Qed.

Lemma zipped_length : forall t, wf t -> length (zipped t) = length (tc_red t).
Proof.
  intros t Hwf. unfold zipped. rewrite combine_length. unfold wf in Hwf. lia.
Qed.

Lemma n_reducible_eq : forall t, wf t -> tc_len t = n_reducible (zipped t).
Proof.
  intros t Hwf. rewrite tc_len_eq by exact Hwf. unfold n_reducible, zlen.
  fold (nred (zipped t)). rewrite nred_ntrue, zipped_red by exact Hwf. reflexivity.
Qed.

(* ------------------------------------------------------------------ *)
(* 7. spec_rm on a three-way split                                     *)
(* ------------------------------------------------------------------ *)

Lemma spec_rm_before : forall lo hi A r rest, r + Z.of_nat (nred A) <= lo ->
  spec_rm lo hi r (A ++ rest) = A ++ spec_rm lo hi (r + Z.of_nat (nred A)) rest.
Proof.
  intros lo hi A. unfold nred.
  induction A as [|[p b] A IH]; intros r rest Hr; simpl in *.
  - rewrite Z.add_0_r. reflexivity.
  - destruct b; simpl in *.
    + assert (E : (lo <=? r) = false) by (apply Z.leb_gt; lia).
      rewrite E. cbn [andb]. f_equal. rewrite IH by lia. f_equal. f_equal. lia.
    + f_equal. apply IH. exact Hr.
Qed.

Lemma spec_rm_mid : forall lo hi M r rest, lo <= r -> r + Z.of_nat (nred M) <= hi ->
  spec_rm lo hi r (M ++ rest) = filter nonred M ++ spec_rm lo hi (r + Z.of_nat (nred M)) rest.
Proof.
  intros lo hi M. unfold nred, nonred.
  induction M as [|[p b] M IH]; intros r rest Hlo Hr; simpl in *.
  - rewrite Z.add_0_r. reflexivity.
  - destruct b; simpl in *.
    + assert (E1 : (lo <=? r) = true) by (apply Z.leb_le; lia).
      assert (E2 : (r <? hi) = true) by (apply Z.ltb_lt; lia).
      rewrite E1, E2. cbn [andb]. rewrite IH by lia. f_equal. f_equal. lia.
    + f_equal. apply IH; assumption.
Qed.

Lemma spec_rm_after : forall lo hi B r, hi <= r -> spec_rm lo hi r B = B.
Proof.
  intros lo hi B. induction B as [|[p b] B IH]; intros r Hr; simpl; [reflexivity|].
  destruct b.
  - assert (E : (r <? hi) = false) by (apply Z.ltb_ge; lia).
    rewrite E, andb_false_r. f_equal. apply IH. lia.
  - f_equal. apply IH. exact Hr.
Qed.

Definition cut (z : list (bytes * bool)) (S E : nat) : list (bytes * bool) :=
  firstn S z ++ filter nonred (firstn (E - S) (skipn S z)) ++ skipn E z.

Lemma cut_core : forall z S E (lo hi : nat), (S <= E)%nat ->
  nred (firstn S z) = lo -> nred (firstn E z) = hi ->
  cut z S E = spec_rm (Z.of_nat lo) (Z.of_nat hi) 0 z /\
  (lo <= hi)%nat /\ (nred (cut z S E) + (hi - lo) = nred z)%nat.
Proof.
  intros z S E lo hi HSE Hlo Hhi.
  set (A := firstn S z) in *.
  set (M := firstn (E - S) (skipn S z)).
  set (B := skipn E z).
  assert (Hz : z = A ++ M ++ B) by (apply split3; exact HSE).
  assert (HE : firstn E z = A ++ M) by (apply firstn_split; exact HSE).
  rewrite HE, nred_app in Hhi.
  assert (Hcut : cut z S E = A ++ filter nonred M ++ B) by reflexivity.
  split; [|split].
  - rewrite Hcut. rewrite Hz at 1.
    rewrite spec_rm_before by lia.
    rewrite spec_rm_mid by lia.
    rewrite spec_rm_after by lia. reflexivity.
  - lia.
  - rewrite Hcut. rewrite Hz at 1. rewrite !nred_app, nred_filter_nonred. lia.
Qed.

(* ------------------------------------------------------------------ *)
(* 8. rmslice computes `cut`                                           *)
(* ------------------------------------------------------------------ *)

Lemma keep_gen : forall (post : list bool) (S : Z) (mid : list (bytes * bool))
                        (red pre : list bool) (k : Z),
  red = pre ++ map snd mid ++ post -> zlen pre = S + k ->
  flat_mapM (fun '(i, x) => v2 <- py_index red (S + i) ;;
                            if negb v2 then Ok [x] else Ok [])
            (py_enumerate_from k (map fst mid))
  = Ok (map fst (filter nonred mid)).
Proof.
  intros post S mid. induction mid as [|[x b] mid IH]; intros red pre k Hred Hk;
    [reflexivity|].
  cbn [map fst snd app] in Hred.
  cbn [map fst snd py_enumerate_from flat_mapM].
  rewrite <- Hk. rewrite (py_index_mid_eq _ red pre b (map snd mid ++ post) Hred). cbn [bind].
  rewrite (IH red (pre ++ [b]) (k + 1)).
  - unfold nonred. destruct b; reflexivity.
  - rewrite Hred, <- app_assoc. reflexivity.
  - unfold zlen in *. rewrite app_length. simpl. lia.
Qed.

Lemma keep_eq : forall (z : list (bytes * bool)) (S m : nat), (S <= length z)%nat ->
  flat_mapM (fun '(i, x) => v2 <- py_index (map snd z) (Z.of_nat S + i) ;;
                            if negb v2 then Ok [x] else Ok [])
            (py_enumerate (firstn m (skipn S (map fst z))))
  = Ok (map fst (filter nonred (firstn m (skipn S z)))).
Proof.
  intros z S m HS. unfold py_enumerate.
  rewrite skipn_map, firstn_map.
  apply (keep_gen (map snd (skipn m (skipn S z))) (Z.of_nat S) (firstn m (skipn S z))
                  (map snd z) (map snd (firstn S z)) 0).
  - rewrite <- !map_app. rewrite !firstn_skipn. reflexivity.
  - unfold zlen. rewrite map_length, firstn_length. lia.
Qed.

Definition rm_result (t : tcase) (S E : nat) : tcase :=
  {| tc_before := tc_before t;
     tc_parts := map fst (cut (zipped t) S E);
     tc_red := map snd (cut (zipped t) S E);
     tc_after := tc_after t |}.

Lemma map_snd_filter_nonred : forall z,
  map snd (filter nonred z) = repeat false (length (filter nonred z)).
Proof.
  intros z. unfold nonred. induction z as [|[p b] z IH]; simpl; [reflexivity|].
  destruct b; simpl; [exact IH|]. f_equal. exact IH.
Qed.

Lemma rmslice_eq : forall t a b, wf t ->
  rmslice t a b =
  Ok (rm_result t (idx (tc_red t) (Z.to_nat (py_clamp (tc_len t) a)))
                  (idx (tc_red t) (Z.to_nat (py_clamp (tc_len t) b)))).
Proof.
  intros t a b Hwf. unfold rmslice.
  rewrite slice_xlat_eq by exact Hwf. cbn [bind].
  rewrite !clamp_py_dflt.
  pose proof (tc_len_nonneg t Hwf) as Hn.
  pose proof (tc_len_eq t Hwf) as Hk.
  pose proof (py_clamp_range (tc_len t) a Hn) as Ha.
  pose proof (py_clamp_range (tc_len t) b Hn) as Hb.
  destruct (idx_spec (tc_red t) (Z.to_nat (py_clamp (tc_len t) a))) as [HS _]; [lia|].
  destruct (idx_spec (tc_red t) (Z.to_nat (py_clamp (tc_len t) b))) as [HE _]; [lia|].
  set (S := idx (tc_red t) (Z.to_nat (py_clamp (tc_len t) a))) in *.
  set (E := idx (tc_red t) (Z.to_nat (py_clamp (tc_len t) b))) in *.
  unfold rm_result, cut.
  pose proof (zipped_parts t Hwf) as Hp.
  pose proof (zipped_red t Hwf) as Hr.
  pose proof (zipped_length t Hwf) as Hlen.
  set (z := zipped t) in *.
  rewrite <- Hp, <- Hr. rewrite <- Hr in HS, HE, Hlen. rewrite map_length in HS, HE.
  rewrite py_slice_mid_nat by (rewrite map_length; lia).
  rewrite keep_eq by lia. cbn [bind].
  rewrite !py_slice_to_nat, !py_slice_from_nat.
  f_equal. f_equal.
  - rewrite !map_app, <- app_assoc, firstn_map, skipn_map. reflexivity.
  - rewrite !map_app, <- app_assoc, firstn_map, skipn_map.
    rewrite map_snd_filter_nonred. unfold py_repeat, zlen.
    rewrite Nat2Z.id, map_length. reflexivity.
Qed.

(* ------------------------------------------------------------------ *)
(* 9. The lemmas used by Props/C07.v                                   *)
(* ------------------------------------------------------------------ *)

Lemma slice_xlat_total : forall t (a b : option Z), wf t ->
  exists i j, slice_xlat t a b = Ok (i, j).
Proof.
  intros t a b Hwf. rewrite slice_xlat_eq by exact Hwf. eexists. eexists. reflexivity.
Qed.

Lemma rmslice_total : forall t (a b : Z), wf t -> exists t', rmslice t a b = Ok t'.
Proof.
  intros t a b Hwf. rewrite rmslice_eq by exact Hwf. eexists. reflexivity.
Qed.

Lemma clamp_is_python : forall t (x : Z), wf t ->
  clamp (tc_len t) (Some x) 0 = py_clamp (tc_len t) x /\
  0 <= py_clamp (tc_len t) x <= tc_len t /\
  tc_len t = n_reducible (zipped t).
Proof.
  intros t x Hwf. split; [apply clamp_py|]. split.
  - apply py_clamp_range. apply tc_len_nonneg. exact Hwf.
  - apply n_reducible_eq. exact Hwf.
Qed.

Lemma rm_result_wf : forall t S E, wf (rm_result t S E).
Proof. intros t S E. unfold wf, rm_result. cbn. rewrite !map_length. reflexivity. Qed.

Lemma rm_result_zipped : forall t S E, zipped (rm_result t S E) = cut (zipped t) S E.
Proof. intros t S E. unfold zipped at 1, rm_result. cbn. apply combine_fst_snd. Qed.

Lemma rmslice_spec : forall t (a b : Z) t', wf t -> rmslice t a b = Ok t' ->
  let lo := py_clamp (tc_len t) a in
  let hi := py_clamp (tc_len t) b in
  lo <= hi ->
  wf t' /\
  zipped t' = spec_rm lo hi 0 (zipped t) /\
  tc_before t' = tc_before t /\ tc_after t' = tc_after t /\
  tc_len t' = tc_len t - (hi - lo).
Proof.
  intros t a b t' Hwf Hrm lo hi Hlohi.
  rewrite rmslice_eq in Hrm by exact Hwf. injection Hrm as Ht'.
  fold lo hi in Ht'.
  pose proof (tc_len_nonneg t Hwf) as Hn.
  pose proof (tc_len_eq t Hwf) as Hk.
  pose proof (py_clamp_range (tc_len t) a Hn) as Ha.
  pose proof (py_clamp_range (tc_len t) b Hn) as Hb.
  fold lo in Ha. fold hi in Hb.
  destruct (idx_spec (tc_red t) (Z.to_nat lo)) as [HS HcS]; [lia|].
  destruct (idx_spec (tc_red t) (Z.to_nat hi)) as [HE HcE]; [lia|].
  set (S := idx (tc_red t) (Z.to_nat lo)) in *.
  set (E := idx (tc_red t) (Z.to_nat hi)) in *.
  assert (HSE : (S <= E)%nat).
  { destruct (Z.eq_dec lo hi) as [Heq|Hne].
    - subst S E. rewrite Heq. lia.
    - destruct (Nat.le_gt_cases S E) as [Hle|Hgt]; [exact Hle|].
      pose proof (ntrue_firstn_mono (tc_red t) E S) as Hm. lia. }
  pose proof (zipped_red t Hwf) as Hr.
  assert (HnS : nred (firstn S (zipped t)) = Z.to_nat lo).
  { rewrite nred_ntrue, <- firstn_map, Hr. exact HcS. }
  assert (HnE : nred (firstn E (zipped t)) = Z.to_nat hi).
  { rewrite nred_ntrue, <- firstn_map, Hr. exact HcE. }
  destruct (cut_core (zipped t) S E _ _ HSE HnS HnE) as [Hcut [_ Hcnt]].
  rewrite !Z2Nat.id in Hcut by lia.
  subst t'.
  split; [apply rm_result_wf|].
  split; [rewrite rm_result_zipped; exact Hcut|].
  split; [reflexivity|]. split; [reflexivity|].
  rewrite (n_reducible_eq _ (rm_result_wf t S E)), rm_result_zipped.
  rewrite (n_reducible_eq t Hwf) in *.
  unfold n_reducible, zlen in *. fold (nred (cut (zipped t) S E)).
  fold (nred (zipped t)) in *. lia.
Qed.

Lemma copy_id : forall t, copy t = t.
Proof.
  intros t. unfold copy.
  assert (H : forall (A : Type) (l : list A), py_slice l None None = l).
  { intros A l. unfold py_slice, norm_bound, zlen. cbv zeta.
    rewrite Z.sub_0_r, Nat2Z.id. change (Z.to_nat 0) with 0%nat. cbn [skipn].
    apply firstn_all. }
  rewrite !H. destruct t; reflexivity.
Qed.

(* NOTE: the statement of C07_precondition_needed_refuted in Props/C07.v compares two
   `length`s (nat) with `>` while Z_scope is open, which does not typecheck.  The lemma
   below is that statement with the last conjunct read in nat scope; the _zlen variant
   states the same thing in Z. *)
Definition wrong_order_witness : tcase :=
  {| tc_before := []; tc_parts := [[0%N]; [1%N]]; tc_red := [true; true]; tc_after := [] |}.

Lemma rmslice_wrong_order_duplicates :
  exists t a b t', wf t /\ rmslice t a b = Ok t' /\
    py_clamp (tc_len t) a > py_clamp (tc_len t) b /\
    (length (tc_parts t') > length (tc_parts t))%nat.
Proof.
  exists wrong_order_witness, 2, 0.
  eexists. split; [reflexivity|]. split; [vm_compute; reflexivity|].
  split; [reflexivity|]. cbn. lia.
Qed.

Lemma rmslice_wrong_order_duplicates_zlen :
  exists t a b t', wf t /\ rmslice t a b = Ok t' /\
    py_clamp (tc_len t) a > py_clamp (tc_len t) b /\
    zlen (tc_parts t') > zlen (tc_parts t).
Proof.
  exists wrong_order_witness, 2, 0.
  eexists. split; [reflexivity|]. split; [vm_compute; reflexivity|].
  split; reflexivity.
Qed.

(* ------------------------------------------------------------------ *)
(* 10. Interface lemmas for later files                                *)
(* ------------------------------------------------------------------ *)

Lemma subred_refl : forall l, subred l l.
Proof. intros l. induction l as [|x l IH]; constructor. exact IH. Qed.

Lemma subred_trans : forall l1 l2 l3, subred l1 l2 -> subred l2 l3 -> subred l1 l3.
Proof.
  intros l1 l2 l3 H12. revert l3.
  induction H12 as [|x l l' H IH|p l l' H IH]; intros l3 H23.
  - exact H23.
  - inversion H23 as [|x0 la lb Hab|p0 la lb Hab]; subst.
    + apply sr_keep. apply IH. exact Hab.
    + apply sr_drop. apply IH. exact Hab.
  - apply sr_drop. apply IH. exact H23.
Qed.

Lemma spec_rm_subred : forall lo hi r l, subred l (spec_rm lo hi r l).
Proof.
  intros lo hi r l. revert r.
  induction l as [|[p b] l IH]; intros r; simpl; [constructor|].
  destruct b.
  - destruct ((lo <=? r) && (r <? hi)); constructor; apply IH.
  - constructor. apply IH.
Qed.

Lemma sub_reducible_refl : forall t, wf t -> sub_reducible t t.
Proof.
  intros t Hwf. unfold sub_reducible. repeat split; try exact Hwf. apply subred_refl.
Qed.

Lemma sub_reducible_trans : forall t1 t2 t3,
  sub_reducible t1 t2 -> sub_reducible t2 t3 -> sub_reducible t1 t3.
Proof.
  intros t1 t2 t3 [Hb1 [Ha1 [Hw1 Hs1]]] [Hb2 [Ha2 [Hw2 Hs2]]].
  unfold sub_reducible. repeat split.
  - congruence.
  - congruence.
  - exact Hw2.
  - apply (subred_trans _ _ _ Hs1 Hs2).
Qed.

Lemma rmslice_sub_reducible : forall t a b t', wf t -> rmslice t a b = Ok t' ->
  py_clamp (tc_len t) a <= py_clamp (tc_len t) b -> sub_reducible t t'.
Proof.
  intros t a b t' Hwf Hrm Hle.
  destruct (rmslice_spec t a b t' Hwf Hrm Hle) as [Hwf' [Hz [Hb [Ha _]]]].
  unfold sub_reducible. repeat split; try assumption.
  rewrite Hz. apply spec_rm_subred.
Qed.

Lemma subred_content_le : forall l l', subred l l' ->
  (length (concat (map fst l')) <= length (concat (map fst l)))%nat.
Proof.
  intros l l' H. induction H as [|x l l' H IH|p l l' H IH]; simpl.
  - lia.
  - rewrite !app_length. lia.
  - rewrite app_length. lia.
Qed.

Lemma spec_rm_content_lt : forall lo hi l r,
  Forall (fun x => fst x <> []) l ->
  Z.max lo r < Z.min hi (r + Z.of_nat (nred l)) ->
  (length (concat (map fst (spec_rm lo hi r l))) < length (concat (map fst l)))%nat.
Proof.
  intros lo hi l. unfold nred.
  induction l as [|[p b] l IH]; intros r Hne Hr; simpl in *; [lia|].
  inversion Hne as [|x0 l0 Hp Hl]; subst. simpl in Hp.
  destruct b; simpl in *.
  - destruct (Z.leb_spec lo r) as [H1|H1]; destruct (Z.ltb_spec r hi) as [H2|H2]; cbn [andb].
    + pose proof (subred_content_le _ _ (spec_rm_subred lo hi (r + 1) l)) as Hle.
      rewrite app_length. destruct p as [|c p]; [congruence|]. simpl. apply Nat.lt_succ_r. apply (Nat.le_trans _ _ _ Hle). apply Nat.le_add_l.
    + lia.
    + simpl. rewrite !app_length. specialize (IH (r + 1) Hl). lia.
    + lia.
  - rewrite !app_length. specialize (IH r Hl Hr). lia.
Qed.

Lemma rmslice_content_lt : forall t a b t', wf t -> rmslice t a b = Ok t' ->
  Forall (fun p => p <> []) (tc_parts t) ->
  py_clamp (tc_len t) a < py_clamp (tc_len t) b ->
  (length (content t') < length (content t))%nat.
Proof.
  intros t a b t' Hwf Hrm Hne Hlt.
  assert (Hle : py_clamp (tc_len t) a <= py_clamp (tc_len t) b) by lia.
  destruct (rmslice_spec t a b t' Hwf Hrm Hle) as [Hwf' [Hz [Hb [Ha _]]]].
  pose proof (tc_len_nonneg t Hwf) as Hn.
  pose proof (py_clamp_range (tc_len t) a Hn) as Hra.
  pose proof (py_clamp_range (tc_len t) b Hn) as Hrb.
  unfold content. rewrite Hb, Ha.
  rewrite <- (zipped_parts t' Hwf'), <- (zipped_parts t Hwf), Hz.
  rewrite !app_length.
  assert (HF : Forall (fun x : bytes * bool => fst x <> []) (zipped t)).
  { rewrite <- (zipped_parts t Hwf) in Hne. rewrite Forall_map in Hne. exact Hne. }
  assert (Hk : tc_len t = Z.of_nat (nred (zipped t))).
  { rewrite (n_reducible_eq t Hwf). reflexivity. }
  assert (Hprem : Z.max (py_clamp (tc_len t) a) 0 <
                  Z.min (py_clamp (tc_len t) b) (0 + Z.of_nat (nred (zipped t)))) by lia.
  pose proof (spec_rm_content_lt (py_clamp (tc_len t) a) (py_clamp (tc_len t) b)
                                 (zipped t) 0 HF Hprem) as H.
  apply Nat.add_lt_mono_l. apply Nat.add_lt_mono_r. exact H.
Qed.
