(* C14 (start-up validation) over the Cli model: Minimize.process_args refuses --min / --max / --chunk-size
   values that are not powers of two; --chunk-size n means min = max = n, repeat never. *)
From Coq Require Import ZArith NArith List Bool Lia.
From Lithium Require Import PyBase Util Cli StratSpec MinimizeProofs.
Open Scope Z_scope.

Lemma finish_minimize_spec : forall c c',
  finish_minimize c = Ok c' ->
  pow2 (cf_min c') /\ pow2 (cf_max c') /\
  match cf_chunk c with
  | Some n => cf_min c' = n /\ cf_max c' = n /\ cf_repeat c' = RNever
  | None => cf_min c' = cf_min c /\ cf_max c' = cf_max c /\ cf_repeat c' = cf_repeat c
  end /\
  cf_limit c' = cf_limit c.
Proof.
  intros c c' H. unfold finish_minimize in H.
  destruct (cf_chunk c) as [n|] eqn:Hc.
  - destruct (negb (is_power_of_two n) || negb (is_power_of_two n)) eqn:Hp; [discriminate|].
    inversion H; subst; clear H. cbn [cf_min cf_max cf_repeat cf_limit].
    apply orb_false_iff in Hp. destruct Hp as [Hp _]. apply negb_false_iff in Hp.
    apply is_power_of_two_spec in Hp. repeat split; assumption.
  - destruct (negb (is_power_of_two (cf_min c)) || negb (is_power_of_two (cf_max c))) eqn:Hp; [discriminate|].
    inversion H; subst; clear H. cbn [cf_min cf_max cf_repeat cf_limit].
    apply orb_false_iff in Hp. destruct Hp as [Hp1 Hp2].
    apply negb_false_iff in Hp1. apply negb_false_iff in Hp2.
    apply is_power_of_two_spec in Hp1. apply is_power_of_two_spec in Hp2. repeat split; assumption.
Qed.

Lemma finish_minimize_refuses : forall c,
  (match cf_chunk c with
   | Some n => ~ pow2 n
   | None => ~ pow2 (cf_min c) \/ ~ pow2 (cf_max c)
   end) ->
  exists e, finish_minimize c = Err e.
Proof.
  intros c H. unfold finish_minimize.
  destruct (cf_chunk c) as [n|].
  - destruct (is_power_of_two n) eqn:Hp.
    + exfalso. apply H. apply is_power_of_two_spec. exact Hp.
    + cbn. eexists; reflexivity.
  - destruct (is_power_of_two (cf_min c)) eqn:Hp1.
    + destruct (is_power_of_two (cf_max c)) eqn:Hp2.
      * exfalso. destruct H as [H|H]; apply H; apply is_power_of_two_spec; assumption.
      * cbn. eexists; reflexivity.
    + cbn. eexists; reflexivity.
Qed.
