(* Termination of the ddmin-style reducer model (Model/Minimize.v) with an explicit bound on the
   number of tests and of driver-loop iterations, for EVERY verdict function.
   Used by Props/C09.v.  No axioms.

   Potential (N = n + 1 for tests, N = n + 2 for loop iterations, n = tc_len tc0):
       MH N s L = (L + log2 chunk_size + [removed]) * N + max chunk_end 0 + 1       (phase PHead)
       MD N s L = (L + log2 chunk_size + [removed]) * N - N + L + 1                 (phase PDecide)
   with the special values 0 / 1 when L = tc_len best = 0.  Every proposal (tested or skipped)
   lowers it by at least 1, every raw write by at least N - (n + 1). *)
From Coq Require Import ZArith NArith List Bool Lia ZifyBool.
From Lithium Require Import PyBase TcRecord Util Testcase Spec Driver TraceSpec Minimize StratSpec
  TestcaseProofs DriverProofs.
Import ListNotations.
Open Scope Z_scope.

(* ------------------------------------------------------------------ *)
(* powers of two                                                      *)
(* ------------------------------------------------------------------ *)

Lemma pow2_pos : forall c, pow2 c -> 1 <= c.
Proof.
  intros c [j [Hj Hc]]. subst c. pose proof (Z.pow_pos_nonneg 2 j) as Hp. lia.
Qed.

Lemma pow2_log2 : forall c, pow2 c -> 0 <= Z.log2 c /\ c = 2 ^ Z.log2 c.
Proof.
  intros c [j [Hj Hc]]. subst c. rewrite Z.log2_pow2 by exact Hj. split; [exact Hj | reflexivity].
Qed.

Lemma pow2_intro : forall j, 0 <= j -> pow2 (2 ^ j).
Proof. intros j Hj. exists j. split; [exact Hj | reflexivity]. Qed.

Lemma is_power_of_two_pow2 : forall c, is_power_of_two c = true -> pow2 c.
Proof.
  intros c H. unfold is_power_of_two, py_shl in H. apply Z.eqb_eq in H.
  exists (Z.max (bit_length c - 1) 0). split; [lia|].
  rewrite Z.shiftl_mul_pow2 in H by lia. lia.
Qed.

Lemma shr_pow2 : forall j, 1 <= j -> py_shr (2 ^ j) 1 = 2 ^ (j - 1).
Proof.
  intros j Hj. unfold py_shr. rewrite Z.shiftr_div_pow2 by lia.
  change (2 ^ 1) with 2.
  replace j with (Z.succ (j - 1)) at 1 by lia.
  rewrite Z.pow_succ_r by lia. rewrite Z.mul_comm. apply Z.div_mul. lia.
Qed.

Lemma pow2_gt1 : forall j, 0 <= j -> (2 ^ j >? 1) = true -> 1 <= j.
Proof.
  intros j Hj H. destruct (Z.eq_dec j 0) as [E|E]; [|lia].
  subst j. change (2 ^ 0 >? 1) with false in H. discriminate H.
Qed.

Lemma pow2_ge2 : forall j, 1 <= j -> 2 <= 2 ^ j.
Proof.
  intros j Hj. change 2 with (2 ^ 1) at 1. apply Z.pow_le_mono_r; lia.
Qed.

Lemma pow2_le_exp : forall a b, 0 <= a -> 0 <= b -> 2 ^ a <= 2 ^ b -> a <= b.
Proof.
  intros a b Ha Hb H. apply (Z.pow_le_mono_r_iff 2); [lia | exact Hb | exact H].
Qed.

Lemma lpo2st_pow2 : forall n, 1 <= n ->
  exists j, 0 <= j <= Z.log2 n /\ largest_power_of_two_smaller_than n = 2 ^ j.
Proof.
  intros n Hn. unfold largest_power_of_two_smaller_than, bit_length, py_shl.
  pose proof (Z.log2_nonneg n) as Hl.
  assert (E0 : (n =? 0) = false) by (apply Z.eqb_neq; lia).
  rewrite E0. rewrite Z.abs_eq by lia.
  replace (Z.max (Z.log2 n + 1 - 1) 0) with (Z.log2 n) by lia.
  rewrite Z.shiftl_mul_pow2 by lia. rewrite Z.mul_1_l.
  destruct ((2 ^ Z.log2 n =? n) && (n >? 1)) eqn:E.
  - apply andb_true_iff in E. destruct E as [_ E2].
    assert (H1 : 1 < n) by lia.
    pose proof (Z.log2_pos n H1) as Hp.
    exists (Z.log2 n - 1). split; [lia|]. apply shr_pow2. lia.
  - exists (Z.log2 n). split; [lia | reflexivity].
Qed.

(* ------------------------------------------------------------------ *)
(* halving                                                            *)
(* ------------------------------------------------------------------ *)

Lemma halve_pow2 : forall f j len, 0 <= j ->
  exists j', 0 <= j' <= j /\ halve f (2 ^ j) len = 2 ^ j'.
Proof.
  induction f as [|f IH]; intros j len Hj; cbn [halve].
  - exists j. split; [lia | reflexivity].
  - destruct (2 ^ j >? 1) eqn:E.
    + pose proof (pow2_gt1 j Hj E) as H1. rewrite shr_pow2 by exact H1.
      destruct (2 ^ (j - 1) <? len) eqn:E2.
      * exists (j - 1). split; [lia | reflexivity].
      * destruct (IH (j - 1) len) as [j' [Hj' He]]; [lia|].
        exists j'. split; [lia | exact He].
    + exists j. split; [lia | reflexivity].
Qed.

Lemma halve_strict : forall f j len, 1 <= j ->
  exists j', 0 <= j' <= j - 1 /\ halve (S f) (2 ^ j) len = 2 ^ j'.
Proof.
  intros f j len Hj. cbn [halve].
  pose proof (pow2_ge2 j Hj) as H2.
  assert (E : (2 ^ j >? 1) = true) by lia.
  rewrite E. rewrite shr_pow2 by exact Hj.
  destruct (2 ^ (j - 1) <? len) eqn:E2.
  - exists (j - 1). split; [lia | reflexivity].
  - destruct (halve_pow2 f (j - 1) len) as [j' [Hj' He]]; [lia|].
    exists j'. split; [lia | exact He].
Qed.

(* ------------------------------------------------------------------ *)
(* measure and invariant                                              *)
(* ------------------------------------------------------------------ *)

Definition b2z (b : bool) : Z := if b then 1 else 0.
Definition wgt (s : mstate) : Z := Z.log2 (m_chunk_size s) + b2z (m_removed s).
Definition MD (N : Z) (s : mstate) (L : Z) : Z :=
  if L =? 0 then 1 else (L + wgt s) * N - N + L + 1.
Definition MH (N : Z) (s : mstate) (L : Z) : Z :=
  if L =? 0 then 0 else (L + wgt s) * N + Z.max (m_chunk_end s) 0 + 1.
Definition M (N : Z) (s : mstate) (L : Z) : Z :=
  match m_phase s with
  | PHead => MH N s L
  | PDecide => MD N s L
  | PPost _ => 1 + MD N s L
  | PPostFail _ => 0
  end.

Record minv (n : Z) (s : mstate) (best : tcase) : Prop := {
  mi_wf : wf best;
  mi_len : tc_len best <= n;
  mi_pow : pow2 (m_chunk_size s);
  mi_min : 1 <= m_min_chunk s;
  mi_ph : match m_phase s with
          | PHead => m_chunk_end s <= tc_len best
          | PPost t' => wf t' /\ tc_len t' <= tc_len best
          | PPostFail _ => False
          | PDecide => True
          end
}.

Lemma wgt_nonneg : forall s, pow2 (m_chunk_size s) -> 0 <= wgt s.
Proof.
  intros s Hp. unfold wgt, b2z. destruct (pow2_log2 _ Hp) as [H0 _].
  destruct (m_removed s); lia.
Qed.

Lemma MD_nonneg : forall N s L, 0 <= N -> 0 <= L -> 0 <= wgt s -> 0 <= MD N s L.
Proof.
  intros N s L HN HL Hw. unfold MD. destruct (L =? 0) eqn:E; [lia|].
  assert (H : 0 <= (L + wgt s - 1) * N) by (apply Z.mul_nonneg_nonneg; lia).
  lia.
Qed.

Lemma MH_nonneg : forall N s L, 0 <= N -> 0 <= L -> 0 <= wgt s -> 0 <= MH N s L.
Proof.
  intros N s L HN HL Hw. unfold MH. destruct (L =? 0) eqn:E; [lia|].
  assert (H : 0 <= (L + wgt s) * N) by (apply Z.mul_nonneg_nonneg; lia).
  lia.
Qed.

Lemma M_nonneg : forall n N s best, minv n s best -> 0 <= N -> 0 <= M N s (tc_len best).
Proof.
  intros n N s best Hi HN.
  pose proof (tc_len_nonneg best (mi_wf _ _ _ Hi)) as HL.
  pose proof (wgt_nonneg s (mi_pow _ _ _ Hi)) as Hw.
  pose proof (MD_nonneg N s (tc_len best) HN HL Hw) as H1.
  pose proof (MH_nonneg N s (tc_len best) HN HL Hw) as H2.
  unfold M. destruct (m_phase s); lia.
Qed.

Lemma MD_mono : forall N s L L', 0 <= N -> 0 <= wgt s -> 0 <= L' <= L -> MD N s L' <= MD N s L.
Proof.
  intros N s L L' HN Hw HL. unfold MD.
  destruct (L' =? 0) eqn:E1; destruct (L =? 0) eqn:E2; try lia.
  - assert (H : 0 <= (L + wgt s - 1) * N) by (apply Z.mul_nonneg_nonneg; lia). lia.
  - assert (H : (L' + wgt s) * N <= (L + wgt s) * N) by (apply Z.mul_le_mono_nonneg_r; lia). lia.
Qed.

(* budget transfer: what a proposal must guarantee about its continuations *)
Definition prop_ok (n : Z) (B : Z -> Z) (best t : tcase) (k : outcome -> mstate) : Prop :=
  forall o, let best' := match o with Tested true => t | _ => best end in
    minv n (k o) best' /\
    forall N, n + 1 <= N -> M N (k o) (tc_len best') + 1 <= B N.

Lemma prop_ok_weaken : forall n B B' best t k,
  prop_ok n B best t k -> (forall N, n + 1 <= N -> B N <= B' N) -> prop_ok n B' best t k.
Proof.
  intros n B B' best t k H HB o. destruct (H o) as [Hi Hm]. split; [exact Hi|].
  intros N HN. specialize (Hm N HN). specialize (HB N HN). lia.
Qed.

Lemma py_clamp_id : forall L x, 0 <= x <= L -> py_clamp L x = x.
Proof.
  intros L x Hx. unfold py_clamp. destruct (x <? 0) eqn:E; lia.
Qed.

(* a chunk proposal from a sweep position 1 <= chunk_end <= len *)
Lemma propose_chunk_ok : forall n s best,
  wf best -> tc_len best <= n -> pow2 (m_chunk_size s) -> 1 <= m_min_chunk s ->
  1 <= m_chunk_end s <= tc_len best ->
  match propose_chunk s best with
  | Propose t k =>
      prop_ok n (fun N => (tc_len best + wgt s) * N + m_chunk_end s + 1) best t k
  | _ => False
  end.
Proof.
  intros n s best Hwf Hn Hp Hmin Hce.
  destruct s as [cs mc ce r dl rd ph].
  cbn [m_chunk_size m_min_chunk m_chunk_end] in Hp, Hmin, Hce.
  unfold propose_chunk, block_of. cbn [fst m_chunk_size m_min_chunk m_chunk_end m_removed m_deadline m_reads].
  rewrite copy_id.
  destruct (rmslice_total best (Z.max 0 (ce - cs)) ce Hwf) as [t Ht]. rewrite Ht.
  pose proof (pow2_pos cs Hp) as Hcs.
  destruct (pow2_log2 cs Hp) as [Hlg _].
  assert (Hst : 0 <= Z.max 0 (ce - cs) <= ce - 1) by lia.
  pose proof (rmslice_spec best _ _ t Hwf Ht) as Hs. cbv zeta in Hs.
  rewrite (py_clamp_id (tc_len best) (Z.max 0 (ce - cs))) in Hs by lia.
  rewrite (py_clamp_id (tc_len best) ce) in Hs by lia.
  destruct Hs as (Hwt & _ & _ & _ & Hlt); [lia|].
  pose proof (tc_len_nonneg t Hwt) as Ht0.
  pose proof (tc_len_nonneg best Hwf) as Hb0.
  intros o. cbv zeta.
  assert (Hyes : minv n {| m_chunk_size := cs; m_min_chunk := mc;
                           m_chunk_end := Z.max 0 (ce - cs); m_removed := true;
                           m_deadline := dl; m_reads := rd; m_phase := PHead |} t /\
                 forall N, n + 1 <= N ->
                   M N {| m_chunk_size := cs; m_min_chunk := mc;
                          m_chunk_end := Z.max 0 (ce - cs); m_removed := true;
                          m_deadline := dl; m_reads := rd; m_phase := PHead |} (tc_len t) + 1
                   <= (tc_len best + wgt {| m_chunk_size := cs; m_min_chunk := mc;
                          m_chunk_end := ce; m_removed := r;
                          m_deadline := dl; m_reads := rd; m_phase := ph |}) * N + ce + 1).
  { split.
    - constructor; cbn [m_chunk_size m_min_chunk m_chunk_end m_phase]; try assumption; lia.
    - intros N HN. unfold M, MH, wgt, b2z.
      cbn [m_chunk_size m_min_chunk m_chunk_end m_removed m_phase].
      assert (Hr : 0 <= (if r then 1 else 0)) by (destruct r; lia).
      destruct (tc_len t =? 0) eqn:E0.
      + assert (H : 0 <= (tc_len best + (Z.log2 cs + (if r then 1 else 0))) * N)
          by (apply Z.mul_nonneg_nonneg; lia).
        lia.
      + assert (H : (tc_len t + (Z.log2 cs + 1)) * N
                    <= (tc_len best + (Z.log2 cs + (if r then 1 else 0))) * N)
          by (apply Z.mul_le_mono_nonneg_r; lia).
        lia. }
  assert (Hno : minv n {| m_chunk_size := cs; m_min_chunk := mc;
                          m_chunk_end := (if cs <=? 2 then ce - 1 else ce - cs); m_removed := r;
                          m_deadline := dl; m_reads := rd; m_phase := PHead |} best /\
                 forall N, n + 1 <= N ->
                   M N {| m_chunk_size := cs; m_min_chunk := mc;
                          m_chunk_end := (if cs <=? 2 then ce - 1 else ce - cs); m_removed := r;
                          m_deadline := dl; m_reads := rd; m_phase := PHead |} (tc_len best) + 1
                   <= (tc_len best + wgt {| m_chunk_size := cs; m_min_chunk := mc;
                          m_chunk_end := ce; m_removed := r;
                          m_deadline := dl; m_reads := rd; m_phase := ph |}) * N + ce + 1).
  { split.
    - constructor; cbn [m_chunk_size m_min_chunk m_chunk_end m_phase]; try assumption.
      destruct (cs <=? 2); lia.
    - intros N HN. unfold M, MH, wgt, b2z.
      cbn [m_chunk_size m_min_chunk m_chunk_end m_removed m_phase].
      assert (Hr : 0 <= (if r then 1 else 0)) by (destruct r; lia).
      destruct (tc_len best =? 0) eqn:E0; [lia|].
      destruct (cs <=? 2); lia. }
  destruct o as [|[|]]; cbn [m_chunk_end]; [exact Hno | exact Hyes | exact Hno].
Qed.

(* the degenerate proposal of the empty chunk [0,0) of an empty testcase *)
Lemma propose_chunk_zero : forall n s best,
  wf best -> tc_len best <= n -> pow2 (m_chunk_size s) -> 1 <= m_min_chunk s ->
  tc_len best = 0 -> m_chunk_end s = 0 ->
  match propose_chunk s best with
  | Propose t k => prop_ok n (fun _ => 1) best t k
  | _ => False
  end.
Proof.
  intros n s best Hwf Hn Hp Hmin HL Hce.
  destruct s as [cs mc ce r dl rd ph].
  cbn [m_chunk_size m_min_chunk m_chunk_end] in Hp, Hmin, Hce. subst ce.
  unfold propose_chunk, block_of. cbn [fst m_chunk_size m_min_chunk m_chunk_end m_removed m_deadline m_reads].
  rewrite copy_id.
  destruct (rmslice_total best (Z.max 0 (0 - cs)) 0 Hwf) as [t Ht]. rewrite Ht.
  pose proof (pow2_pos cs Hp) as Hcs.
  replace (Z.max 0 (0 - cs)) with 0 in * by lia.
  pose proof (rmslice_spec best _ _ t Hwf Ht) as Hs. cbv zeta in Hs.
  rewrite (py_clamp_id (tc_len best) 0) in Hs by lia.
  destruct Hs as (Hwt & _ & _ & _ & Hlt); [lia|].
  intros o. cbv zeta.
  destruct o as [|[|]]; (split;
    [ constructor; cbn [m_chunk_size m_min_chunk m_chunk_end m_phase]; try assumption;
      try (destruct (cs <=? 2)); lia
    | intros N HN; unfold M, MH; cbn [m_phase];
      match goal with |- context [?x =? 0] => replace (x =? 0) with true by lia end; lia ]).
Qed.

Lemma decide_state_spec : forall cfg s best s',
  pow2 (m_chunk_size s) -> 1 <= m_min_chunk s ->
  decide_state cfg s best = Some s' ->
  m_chunk_end s' = tc_len best /\ m_removed s' = false /\ m_min_chunk s' = m_min_chunk s /\
  m_phase s' = PHead /\ pow2 (m_chunk_size s') /\ Z.log2 (m_chunk_size s') + 1 <= wgt s.
Proof.
  intros cfg s best s' Hp Hmin Hd.
  destruct s as [cs mc ce r dl rd ph].
  cbn [m_chunk_size m_min_chunk] in Hp, Hmin.
  unfold decide_state in Hd.
  cbn [m_chunk_size m_min_chunk m_chunk_end m_removed m_deadline m_reads] in Hd.
  unfold wgt, b2z. cbn [m_chunk_size m_min_chunk m_removed].
  destruct (pow2_log2 cs Hp) as [Hlg Hcs].
  destruct (cs <=? mc) eqn:E1.
  - destruct (r && repeats_last_or_always (c_repeat cfg)) eqn:E2; [|discriminate Hd].
    apply andb_true_iff in E2. destruct E2 as [Er _]. subst r.
    injection Hd as Hd. subst s'. cbn [m_chunk_size m_min_chunk m_chunk_end m_removed m_phase].
    repeat split; try assumption; lia.
  - destruct (r && is_always (c_repeat cfg) && (cs <? tc_len best)) eqn:E2.
    + apply andb_true_iff in E2. destruct E2 as [E2 _].
      apply andb_true_iff in E2. destruct E2 as [Er _]. subst r.
      injection Hd as Hd. subst s'. cbn [m_chunk_size m_min_chunk m_chunk_end m_removed m_phase].
      repeat split; try assumption; lia.
    + injection Hd as Hd. subst s'. cbn [m_chunk_size m_min_chunk m_chunk_end m_removed m_phase].
      assert (Hj : 1 <= Z.log2 cs).
      { destruct (Z.eq_dec (Z.log2 cs) 0) as [E0|E0]; [|lia].
        rewrite E0 in Hcs. change (2 ^ 0) with 1 in Hcs. lia. }
      unfold halve_fuel.
      remember (Z.log2 cs) as j eqn:Ej. clear Ej. subst cs.
      destruct (halve_strict (Z.to_nat (Z.log2 (2 ^ j))) j (tc_len best) Hj)
        as [j' [Hj' He]].
      rewrite Z.log2_pow2 in He by lia. cbn [halve] in He.
      rewrite He. rewrite Z.log2_pow2 by lia.
      split; [reflexivity|]. split; [reflexivity|]. split; [reflexivity|].
      split; [reflexivity|]. split; [apply pow2_intro; lia|].
      destruct r; lia.
Qed.

Lemma decide_ok : forall n cfg s best,
  wf best -> tc_len best <= n -> pow2 (m_chunk_size s) -> 1 <= m_min_chunk s ->
  match decide cfg s best with
  | Done => True
  | Propose t k => prop_ok n (fun N => MD N s (tc_len best)) best t k
  | _ => False
  end.
Proof.
  intros n cfg s best Hwf Hn Hp Hmin. unfold decide.
  destruct (decide_state cfg s best) as [s'|] eqn:Hd; [|exact I].
  destruct (decide_state_spec cfg s best s' Hp Hmin Hd) as (Hce & Hr & Hmc & Hph & Hp' & Hw).
  pose proof (tc_len_nonneg best Hwf) as HL.
  destruct (Z.eq_dec (tc_len best) 0) as [E0|E0].
  - assert (Hmin' : 1 <= m_min_chunk s') by lia.
    assert (Hce' : m_chunk_end s' = 0) by lia.
    pose proof (propose_chunk_zero n s' best Hwf Hn Hp' Hmin' E0 Hce') as H.
    destruct (propose_chunk s' best) as [t k| | |]; try contradiction.
    eapply prop_ok_weaken; [exact H|]. intros N HN. cbv beta. unfold MD.
    replace (tc_len best =? 0) with true by lia. lia.
  - assert (Hmin' : 1 <= m_min_chunk s') by lia.
    assert (Hce' : 1 <= m_chunk_end s' <= tc_len best) by lia.
    pose proof (propose_chunk_ok n s' best Hwf Hn Hp' Hmin' Hce') as H.
    destruct (propose_chunk s' best) as [t k| | |]; try contradiction.
    eapply prop_ok_weaken; [exact H|]. intros N HN. cbv beta. unfold MD.
    replace (tc_len best =? 0) with false by lia.
    rewrite Hce. unfold wgt at 1. rewrite Hr. unfold b2z at 1.
    assert (H1 : (tc_len best + (Z.log2 (m_chunk_size s') + 0)) * N
                 <= (tc_len best + wgt s - 1) * N)
      by (apply Z.mul_le_mono_nonneg_r; lia).
    lia.
Qed.

(* ------------------------------------------------------------------ *)
(* one step of the strategy                                           *)
(* ------------------------------------------------------------------ *)

Definition step_ok (n : Z) (s : mstate) (best : tcase) (st : step mstate) : Prop :=
  match st with
  | Done => True
  | Fail _ => False
  | RawWrite _ s' =>
      minv n s' best /\
      forall N d, 0 <= d -> n + 1 + d <= N ->
        M N s' (tc_len best) + d <= M N s (tc_len best)
  | Propose t k => prop_ok n (fun N => M N s (tc_len best)) best t k
  end.

Lemma mnext_ok : forall n cfg clk post s best,
  post_ok post -> minv n s best -> step_ok n s best (mnext cfg clk post s best).
Proof.
  intros n cfg clk post s best Hpost Hi.
  destruct Hi as [Hwf Hn Hp Hmin Hph].
  pose proof (tc_len_nonneg best Hwf) as HL.
  pose proof (wgt_nonneg s Hp) as Hw.
  destruct s as [cs mc ce r dl rd ph].
  cbn [m_chunk_size m_min_chunk m_chunk_end m_phase] in Hp, Hmin, Hph.
  unfold mnext. cbn [m_phase]. destruct ph as [|t'|e|].
  - (* PHead *)
    cbn [m_chunk_size m_min_chunk m_chunk_end m_removed m_deadline m_reads].
    destruct (match dl with Some d => clk rd >? d | None => false end) eqn:Eexp; [exact I|].
    pose proof (pow2_pos cs Hp) as Hcs.
    destruct (ce - cs <? 0) eqn:Eend.
    + destruct (tc_len best =? 0) eqn:EL; [exact I|].
      destruct (post best) as [[raw [t'|e]]|] eqn:Epost.
      * (* raw write, then the post-round proposal *)
        destruct (Hpost best raw (Ok t') Hwf Epost) as (t2 & Ht2 & Hwt & Hlt).
        injection Ht2 as Ht2. subst t2.
        cbn [step_ok]. unfold set_phase.
        cbn [m_chunk_size m_min_chunk m_chunk_end m_removed m_deadline m_reads].
        split.
        -- constructor; cbn [m_chunk_size m_min_chunk m_chunk_end m_phase]; try assumption.
           split; assumption.
        -- intros N d Hd HN. unfold M, MH, MD, wgt in *.
           cbn [m_chunk_size m_min_chunk m_chunk_end m_removed m_phase] in *.
           rewrite EL. lia.
      * destruct (Hpost best raw (Err e) Hwf Epost) as (t2 & Ht2 & _). discriminate Ht2.
      * (* no post-round callback: decide immediately *)
        match goal with |- step_ok _ _ _ (decide _ ?s1 _) =>
          pose proof (decide_ok n cfg s1 best Hwf Hn Hp Hmin) as H;
          destruct (decide cfg s1 best) as [t k| | |]; try contradiction; [|exact I]
        end.
        cbn [step_ok]. eapply prop_ok_weaken; [exact H|].
        intros N HN. cbv beta. unfold M, MH, MD, wgt in *.
        cbn [m_chunk_size m_min_chunk m_chunk_end m_removed m_phase] in *.
        rewrite EL. lia.
    + (* a chunk proposal inside a sweep *)
      match goal with |- step_ok _ _ _ (propose_chunk ?s1 _) =>
        assert (Hce : 1 <= m_chunk_end s1 <= tc_len best)
          by (cbn [m_chunk_end]; lia);
        pose proof (propose_chunk_ok n s1 best Hwf Hn Hp Hmin Hce) as H;
        destruct (propose_chunk s1 best) as [t k| | |]; try contradiction
      end.
      cbn [step_ok]. eapply prop_ok_weaken; [exact H|].
      intros N HN. cbv beta. unfold M, MH, wgt in *.
      cbn [m_chunk_size m_min_chunk m_chunk_end m_removed m_phase] in *.
      replace (tc_len best =? 0) with false by lia. lia.
  - (* PPost t' *)
    destruct Hph as [Hwt Hlt].
    pose proof (tc_len_nonneg t' Hwt) as Ht0.
    cbn [step_ok]. intros o. cbv zeta. unfold set_phase.
    cbn [m_chunk_size m_min_chunk m_chunk_end m_removed m_deadline m_reads].
    assert (Hgen : forall b, wf b -> 0 <= tc_len b <= tc_len best ->
      minv n {| m_chunk_size := cs; m_min_chunk := mc; m_chunk_end := ce; m_removed := r;
                m_deadline := dl; m_reads := rd; m_phase := PDecide |} b /\
      forall N, n + 1 <= N ->
        M N {| m_chunk_size := cs; m_min_chunk := mc; m_chunk_end := ce; m_removed := r;
               m_deadline := dl; m_reads := rd; m_phase := PDecide |} (tc_len b) + 1 <=
        M N {| m_chunk_size := cs; m_min_chunk := mc; m_chunk_end := ce; m_removed := r;
               m_deadline := dl; m_reads := rd; m_phase := PPost t' |} (tc_len best)).
    { intros b Hwb Hlb. split.
      - constructor; cbn [m_chunk_size m_min_chunk m_chunk_end m_phase]; try assumption; [lia | exact I].
      - intros N HN. unfold M. cbn [m_phase].
        assert (HN0 : 0 <= N) by lia.
        pose proof (MD_mono N {| m_chunk_size := cs; m_min_chunk := mc; m_chunk_end := ce;
                                 m_removed := r; m_deadline := dl; m_reads := rd;
                                 m_phase := PDecide |} (tc_len best) (tc_len b) HN0 Hw Hlb) as Hm.
        unfold MD, wgt in *. cbn [m_chunk_size m_removed] in *. lia. }
    destruct o as [|[|]]; apply Hgen; try assumption; lia.
  - (* PPostFail *)
    contradiction.
  - (* PDecide *)
    match goal with |- step_ok _ _ _ (decide _ ?s1 _) =>
      pose proof (decide_ok n cfg s1 best Hwf Hn Hp Hmin) as H;
      destruct (decide cfg s1 best) as [t k| | |]; try contradiction; [|exact I]
    end.
    cbn [step_ok]. eapply prop_ok_weaken; [exact H|].
    intros N HN. cbv beta. unfold M. cbn [m_phase]. lia.
Qed.

(* ------------------------------------------------------------------ *)
(* the driver loop                                                    *)
(* ------------------------------------------------------------------ *)

Lemma n_tests_write_file : forall b w, n_tests (chron (write_file b w)) = n_tests (chron w).
Proof.
  intros b w. rewrite chron_write_file, n_tests_app.
  change (n_tests [EWrite b]) with 0. lia.
Qed.

Lemma n_tests_wafter : forall w t a, n_tests (chron (wafter w t a)) = n_tests (chron w) + 1.
Proof.
  intros w t a. rewrite chron_wafter, n_tests_app. f_equal.
  destruct a; reflexivity.
Qed.

Lemma n_tests_finally : forall w, n_tests (chron (finally w)) = n_tests (chron w).
Proof.
  intros w. destruct (finally_chron_quiet w) as (q & Hq & Hc).
  rewrite Hc. apply n_tests_quiet_app. exact Hq.
Qed.

Definition loop_res_ok (bound : Z) (r : result) : Prop :=
  match r with
  | NoFuel _ => False
  | Aborted (Some _) _ => False
  | Aborted None w' => n_tests (chron w') <= bound
  | Finished _ w' => n_tests (chron w') <= bound
  end.

Lemma loop_bounded : forall n cfg clk post verdict, post_ok post ->
  forall fuel st it w,
    minv n st (it_best it) ->
    M (n + 2) st (tc_len (it_best it)) + 1 <= Z.of_nat fuel ->
    loop_res_ok (n_tests (chron w) + M (n + 1) st (tc_len (it_best it)))
                (loop (minimize cfg clk post) verdict fuel st it w).
Proof.
  intros n cfg clk post verdict Hpost.
  induction fuel as [|fuel IH]; intros st it w Hi Hfuel.
  - assert (Hn0 : 0 <= n).
    { pose proof (tc_len_nonneg _ (mi_wf _ _ _ Hi)) as H0. pose proof (mi_len _ _ _ Hi). lia. }
    pose proof (M_nonneg n (n + 2) st (it_best it) Hi) as H0. lia.
  - assert (Hn0 : 0 <= n).
    { pose proof (tc_len_nonneg _ (mi_wf _ _ _ Hi)) as H0. pose proof (mi_len _ _ _ Hi). lia. }
    pose proof (M_nonneg n (n + 1) st (it_best it) Hi) as HM1.
    pose proof (mnext_ok n cfg clk post st (it_best it) Hpost Hi) as Hstep.
    cbn [loop]. cbn [s_next minimize].
    destruct (mnext cfg clk post st (it_best it)) as [t k|b st'| |e]; cbn [step_ok] in Hstep.
    + (* Propose *)
      destruct (mem_bytes (content t) (it_tried it)) eqn:Hmem.
      * destruct (Hstep Skipped) as [Hi' Hm']. cbv zeta in Hi', Hm'.
        pose proof (Hm' (n + 1)) as Hm1. pose proof (Hm' (n + 2)) as Hm2.
        specialize (IH (k Skipped) it w Hi').
        unfold loop_res_ok in *.
        destruct (loop (minimize cfg clk post) verdict fuel (k Skipped) it w) as [rc wf|[e|] wf|wf];
          lia.
      * destruct (interesting verdict w t true) as [w' a] eqn:Hint.
        destruct (interesting_true_inv verdict w t w' a Hint) as [_ Hw']. subst w'.
        pose proof (n_tests_wafter w t a) as Hnt.
        destruct a.
        -- destruct (Hstep (Tested true)) as [Hi' Hm']. cbv zeta in Hi', Hm'.
           pose proof (Hm' (n + 1)) as Hm1. pose proof (Hm' (n + 2)) as Hm2.
           specialize (IH (k (Tested true))
                          {| it_best := t;
                             it_tried := it_tried {| it_best := it_best it;
                                                     it_tried := content t :: it_tried it;
                                                     it_any := it_any it |};
                             it_any := true |} (wafter w t Yes)).
           cbn [it_best] in IH. specialize (IH Hi').
           unfold loop_res_ok in *.
           match goal with |- match ?l with _ => _ end =>
             destruct l as [rc wf|[e|] wf|wf]; lia end.
        -- destruct (Hstep (Tested false)) as [Hi' Hm']. cbv zeta in Hi', Hm'.
           pose proof (Hm' (n + 1)) as Hm1. pose proof (Hm' (n + 2)) as Hm2.
           specialize (IH (k (Tested false))
                          {| it_best := it_best it; it_tried := content t :: it_tried it;
                             it_any := it_any it |} (wafter w t No)).
           cbn [it_best] in IH. specialize (IH Hi').
           unfold loop_res_ok in *.
           match goal with |- match ?l with _ => _ end =>
             destruct l as [rc wf|[e|] wf|wf]; lia end.
        -- destruct (Hstep (Tested false)) as [Hi' Hm']. cbv zeta in Hi', Hm'.
           pose proof (Hm' (n + 1)) as Hm1.
           pose proof (M_nonneg n (n + 1) _ _ Hi') as H0.
           cbn [loop_res_ok]. lia.
    + (* RawWrite *)
      destruct Hstep as [Hi' Hm'].
      pose proof (Hm' (n + 1) 0) as Hm1. pose proof (Hm' (n + 2) 1) as Hm2.
      specialize (IH st' it (write_file b w) Hi').
      rewrite n_tests_write_file in IH.
      unfold loop_res_ok in *.
      destruct (loop (minimize cfg clk post) verdict fuel st' it (write_file b w))
        as [rc wf|[e|] wf|wf]; lia.
    + (* Done *)
      cbn [loop_res_ok]. rewrite n_tests_write_file. lia.
    + contradiction.
Qed.

(* ------------------------------------------------------------------ *)
(* the initial state                                                  *)
(* ------------------------------------------------------------------ *)

Lemma log2_le_clog2 : forall n, 1 <= n -> Z.log2 n <= clog2 n.
Proof.
  intros n Hn. unfold clog2. destruct (n <=? 1) eqn:E.
  - assert (n = 1) by lia. subst n. change (Z.log2 1) with 0. lia.
  - apply Z.le_log2_log2_up.
Qed.

Lemma clog2_nonneg : forall n, 0 <= clog2 n.
Proof.
  intros n. unfold clog2. destruct (n <=? 1); [lia | apply Z.log2_up_nonneg].
Qed.

Lemma c09_bound_ge1 : forall n, 0 <= n -> 1 <= c09_bound n.
Proof.
  intros n Hn. unfold c09_bound. pose proof (clog2_nonneg n) as Hc.
  assert (H : 0 <= (n + 1) * (n + clog2 n + 2)) by (apply Z.mul_nonneg_nonneg; lia).
  lia.
Qed.

Lemma mstart_chunk : forall cfg n, valid_cfg cfg -> 1 <= n ->
  exists j, 0 <= j <= Z.log2 n /\
    Z.min (c_max cfg) (largest_power_of_two_smaller_than n) = 2 ^ j.
Proof.
  intros cfg n [_ Hmax] Hn.
  destruct (is_power_of_two_pow2 _ Hmax) as [a [Ha Hca]].
  destruct (lpo2st_pow2 n Hn) as [b [Hb Hlb]].
  rewrite Hca, Hlb.
  destruct (Z.le_ge_cases (2 ^ a) (2 ^ b)) as [Hle|Hge].
  - exists a. split; [|apply Z.min_l; exact Hle].
    pose proof (pow2_le_exp a b Ha (proj1 Hb) Hle). lia.
  - exists b. split; [lia | apply Z.min_r; exact Hge].
Qed.

Lemma mstart_ok : forall cfg clk tc0, wf tc0 -> valid_cfg cfg -> tc_len tc0 <> 0 ->
  let n := tc_len tc0 in
  minv n (mstart cfg clk tc0) tc0 /\
  1 + M (n + 1) (mstart cfg clk tc0) n <= c09_bound n /\
  M (n + 2) (mstart cfg clk tc0) n + 1 <= 2 * c09_bound n.
Proof.
  intros cfg clk tc0 Hwf Hv Hn0 n.
  pose proof (tc_len_nonneg tc0 Hwf) as H0. fold n in H0, Hn0.
  assert (Hn : 1 <= n) by lia.
  destruct (mstart_chunk cfg n Hv Hn) as [j [Hj Hcs]].
  pose proof (log2_le_clog2 n Hn) as Hc.
  unfold mstart. fold n. rewrite Hcs.
  pose proof (Z.pow_pos_nonneg 2 j) as Hpos.
  split; [|split].
  - constructor; cbn [m_chunk_size m_min_chunk m_chunk_end m_phase].
    + exact Hwf.
    + lia.
    + apply pow2_intro. lia.
    + lia.
    + lia.
  - unfold M, MH, wgt, b2z, c09_bound. cbn [m_chunk_size m_chunk_end m_removed m_phase].
    replace (n =? 0) with false by lia. rewrite Z.log2_pow2 by lia.
    assert (Hr : (if c_first cfg then 1 else 0) <= 1) by (destruct (c_first cfg); lia).
    assert (H : (n + (j + (if c_first cfg then 1 else 0))) * (n + 1)
                <= (n + clog2 n + 1) * (n + 1))
      by (apply Z.mul_le_mono_nonneg_r; lia).
    lia.
  - unfold M, MH, wgt, b2z, c09_bound. cbn [m_chunk_size m_chunk_end m_removed m_phase].
    replace (n =? 0) with false by lia. rewrite Z.log2_pow2 by lia.
    assert (Hr : (if c_first cfg then 1 else 0) <= 1) by (destruct (c_first cfg); lia).
    assert (H : (n + (j + (if c_first cfg then 1 else 0))) * (n + 2)
                <= (n + clog2 n + 1) * (n + 2))
      by (apply Z.mul_le_mono_nonneg_r; lia).
    assert (H2 : 0 <= (n + clog2 n + 2) * n) by (apply Z.mul_nonneg_nonneg; lia).
    lia.
Qed.

(* ------------------------------------------------------------------ *)
(* the theorems used by Props/C09.v                                   *)
(* ------------------------------------------------------------------ *)

Theorem minimize_bounded :
  forall cfg clk post verdict tc0 file0 fuel,
    wf tc0 -> valid_cfg cfg -> post_ok post ->
    (Z.to_nat (2 * c09_bound (tc_len tc0)) <= fuel)%nat ->
    let r := run (minimize cfg clk post) verdict fuel tc0 file0 in
    (forall w, r <> NoFuel w) /\ (forall e w, r <> Aborted (Some e) w) /\
    n_tests (chron (result_world r)) <= c09_bound (tc_len tc0).
Proof.
  intros cfg clk post verdict tc0 file0 fuel Hwf Hv Hpost Hfuel r.
  pose proof (tc_len_nonneg tc0 Hwf) as H0.
  pose proof (c09_bound_ge1 (tc_len tc0) H0) as Hb1.
  destruct (run_cases mstate (minimize cfg clk post) verdict fuel tc0 file0)
    as [[Hn Hr]|[(Hn & Hv1 & Hr)|[(Hn & Hv1 & Hr)|(Hn & Hv1 & Hr)]]]; fold r in Hr.
  - rewrite Hr. split; [intros w; discriminate|]. split; [intros e w; discriminate|].
    cbn [result_world]. rewrite n_tests_finally.
    change (n_tests (chron (w0 tc0 file0))) with 0. lia.
  - rewrite Hr. split; [intros w; discriminate|]. split; [intros e w; discriminate|].
    cbn [result_world]. rewrite n_tests_finally.
    change (n_tests (chron (w1 tc0 file0 Raise))) with 1. lia.
  - rewrite Hr. split; [intros w; discriminate|]. split; [intros e w; discriminate|].
    cbn [result_world]. rewrite n_tests_finally.
    change (n_tests (chron (wN tc0 file0))) with 1. lia.
  - destruct (mstart_ok cfg clk tc0 Hwf Hv Hn) as (Hi & Ht & Hf). cbv zeta in Hi, Ht, Hf.
    assert (Hfz : M (tc_len tc0 + 2) (mstart cfg clk tc0) (tc_len tc0) + 1 <= Z.of_nat fuel)
      by lia.
    pose proof (loop_bounded (tc_len tc0) cfg clk post verdict Hpost fuel
                  (mstart cfg clk tc0) (it0 tc0) (wY tc0 file0) Hi Hfz) as Hl.
    cbn [it0 it_best] in Hl.
    change (n_tests (chron (wY tc0 file0))) with 1 in Hl.
    cbn [s_start minimize] in Hr. rewrite Hr.
    destruct (loop (minimize cfg clk post) verdict fuel (mstart cfg clk tc0) (it0 tc0)
                   (wY tc0 file0)) as [rc wf|[e|] wf|wf];
      cbn [loop_res_ok] in Hl; try contradiction; cbn [map_world result_world].
    + split; [intros w; discriminate|]. split; [intros e w; discriminate|].
      rewrite n_tests_finally. lia.
    + split; [intros w; discriminate|]. split; [intros e w; discriminate|].
      rewrite n_tests_finally. lia.
Qed.

Lemma no_post_ok : post_ok no_post.
Proof. intros best raw r _ H. unfold no_post in H. discriminate H. Qed.

Theorem minimize_bounded_no_post :
  forall cfg clk verdict tc0 file0 fuel,
    wf tc0 -> valid_cfg cfg ->
    (Z.to_nat (2 * c09_bound (tc_len tc0)) <= fuel)%nat ->
    let r := run (minimize cfg clk no_post) verdict fuel tc0 file0 in
    (forall w, r <> NoFuel w) /\ (forall e w, r <> Aborted (Some e) w) /\
    n_tests (chron (result_world r)) <= c09_bound (tc_len tc0).
Proof.
  intros cfg clk verdict tc0 file0 fuel Hwf Hv Hfuel.
  exact (minimize_bounded cfg clk no_post verdict tc0 file0 fuel Hwf Hv no_post_ok Hfuel).
Qed.

Print Assumptions minimize_bounded.
Print Assumptions minimize_bounded_no_post.
