(* The temp-dir log of a FOLLOWING run on a re-used Lithium object (Model/Session.v):
   the directory is the previous directory plus `original` plus one copy per answered test,
   named by prefix numbers that continue where the previous run stopped.
   Used by Props/C12s.v.  No axioms.

   invG / invH of DriverProofs.v say `w_tests w = n_tests (chron w)` etc., which is false of a
   carried world.  The invariant `lfin` below states the same facts with the counters of the
   previous world as offsets.  It does not mention the iterator, and it holds at every loop
   state (so `NoFuel` is covered), after an aborting test and after `finally`. *)
From Coq Require Import ZArith NArith List Bool Lia ZifyBool.
From Lithium Require Import PyBase TcRecord Testcase Driver TraceSpec Session
                            DriverProofs SessionProofs.
Import ListNotations.
Open Scope Z_scope.

(* ------------------------------------------------------------------ *)
(* trace functions of Session.v and append                            *)
(* ------------------------------------------------------------------ *)

Lemma expected_temp_p_app : forall l1 l2,
  expected_temp_p (l1 ++ l2) = expected_temp_p l1 ++ expected_temp_p l2.
Proof.
  induction l1 as [|e l1 IH]; intros l2; [reflexivity|].
  destruct e as [| |b|k p f a|n b]; cbn [app expected_temp_p]; try apply IH.
  destruct a; cbn [app]; rewrite ?IH; reflexivity.
Qed.

Lemma quiet_expected_temp_p : forall q, forallb quietb q = true -> expected_temp_p q = [].
Proof.
  intros q Hq. apply (quiet_ind_aux q Hq (fun l => expected_temp_p l = [])).
  - reflexivity.
  - intros b r Hr. exact Hr.
  - intros r Hr. exact Hr.
Qed.

Lemma expected_temp_p_quiet_app : forall l q, forallb quietb q = true ->
  expected_temp_p (l ++ q) = expected_temp_p l.
Proof.
  intros l q Hq. rewrite expected_temp_p_app, (quiet_expected_temp_p q Hq). apply app_nil_r.
Qed.

Lemma numbered_from2_app : forall l1 l2 k p,
  numbered_from2 k p (l1 ++ l2) <->
  numbered_from2 k p l1 /\ numbered_from2 (k + zlen l1) (p + zlen l1) l2.
Proof.
  induction l1 as [|e l1 IH]; intros l2 k p.
  - cbn [app numbered_from2]. rewrite zlen_nil, !Z.add_0_r. tauto.
  - cbn [app numbered_from2]. rewrite IH, zlen_cons.
    replace (k + 1 + zlen l1) with (k + (zlen l1 + 1)) by lia.
    replace (p + 1 + zlen l1) with (p + (zlen l1 + 1)) by lia. tauto.
Qed.

(* the copy one answered test leaves in the directory *)
Definition tblock (p : Z) (c : bytes) (a : answer) : list (tname * bytes) :=
  match a with
  | Yes => [(Numbered p true, c)]
  | No => [(Numbered p false, c)]
  | Raise => []
  end.

Lemma expected_temp_p_block : forall c k p a,
  expected_temp_p (EWrite c :: ETest k p c a :: tcopy p c a) = tblock p c a.
Proof. intros c k p a. destruct a; reflexivity. Qed.

(* ------------------------------------------------------------------ *)
(* the invariant                                                      *)
(* ------------------------------------------------------------------ *)

(* a numbered directory entry lies in [lo, hi) *)
Definition in_rng (lo hi : Z) (e : tname * bytes) : Prop :=
  match fst e with Numbered p _ => lo <= p < hi | Original => True end.

Lemma in_rng_widen : forall lo hi hi' e, hi <= hi' -> in_rng lo hi e -> in_rng lo hi' e.
Proof.
  intros lo hi hi' [n b] Hle. unfold in_rng. cbn [fst].
  destruct n as [|p tag]; [intros _; exact I | intros H; lia].
Qed.

Record lfin (prev : world) (file0 : bytes) (w : world) : Prop := {
  f_temp : w_temp w = rev ((Original, file0) :: expected_temp_p (chron w)) ++ w_temp prev;
  f_num : numbered_from2 (w_tests prev + 1) (w_tfc prev) (tests_of (chron w));
  f_tests : w_tests w = w_tests prev + n_tests (chron w);
  f_tfc : w_tfc w = w_tfc prev + n_tests (chron w)
                    - (if existsb israise (chron w) then 1 else 0);
  f_rng : Forall (in_rng (w_tfc prev) (w_tfc w)) (expected_temp_p (chron w));
  f_le : w_tfc prev <= w_tfc w
}.

(* inside the loop no test has raised yet *)
Definition linv (prev : world) (file0 : bytes) (w : world) : Prop :=
  lfin prev file0 w /\ existsb israise (chron w) = false.

Lemma lfin_quiet : forall prev file0 w w2 q,
  lfin prev file0 w -> forallb quietb q = true ->
  chron w2 = chron w ++ q ->
  w_temp w2 = w_temp w -> w_tests w2 = w_tests w -> w_tfc w2 = w_tfc w ->
  lfin prev file0 w2.
Proof.
  intros prev file0 w w2 q HF Hq Hc Htemp Ht Hf.
  constructor; rewrite ?Hc, ?Htemp, ?Ht, ?Hf, ?(tests_of_quiet_app _ _ Hq),
                       ?(n_tests_quiet_app _ _ Hq), ?(israise_quiet_app _ _ Hq),
                       ?(expected_temp_p_quiet_app _ _ Hq).
  - apply (f_temp _ _ _ HF).
  - apply (f_num _ _ _ HF).
  - apply (f_tests _ _ _ HF).
  - apply (f_tfc _ _ _ HF).
  - apply (f_rng _ _ _ HF).
  - apply (f_le _ _ _ HF).
Qed.

Lemma lfin_write_file : forall prev file0 w b,
  lfin prev file0 w -> lfin prev file0 (write_file b w).
Proof.
  intros prev file0 w b HF.
  apply (lfin_quiet prev file0 w (write_file b w) [EWrite b] HF); reflexivity.
Qed.

Lemma linv_write_file : forall prev file0 w b,
  linv prev file0 w -> linv prev file0 (write_file b w).
Proof.
  intros prev file0 w b [HF Hnr]. split; [apply lfin_write_file; exact HF|].
  rewrite chron_write_file, existsb_app, Hnr. reflexivity.
Qed.

Lemma lfin_finally : forall prev file0 w, lfin prev file0 w -> lfin prev file0 (finally w).
Proof.
  intros prev file0 w HF. destruct (finally_cases w) as [[He _]|(t & _ & _ & He)]; rewrite He.
  - apply (lfin_quiet prev file0 w (log ECleanup w) [ECleanup] HF); reflexivity.
  - apply (lfin_quiet prev file0 w (write_file (content t) (log ECleanup w))
                      [ECleanup; EWrite (content t)] HF); try reflexivity.
    rewrite chron_write_file, chron_log, <- app_assoc. reflexivity.
Qed.

(* one tested candidate, whatever the answer *)
Lemma lfin_tested : forall prev file0 w t a,
  linv prev file0 w -> lfin prev file0 (wafter w t a).
Proof.
  intros prev file0 w t a [HF Hnr].
  pose proof (f_tests _ _ _ HF) as Htests.
  pose proof (f_tfc _ _ _ HF) as Htfc. rewrite Hnr in Htfc.
  pose proof (f_le _ _ _ HF) as Hle.
  constructor.
  - rewrite chron_wafter, expected_temp_p_app, expected_temp_p_block, wafter_temp,
            (f_temp _ _ _ HF).
    destruct a; cbn [tblock rev]; rewrite ?app_nil_r; try reflexivity;
      rewrite rev_app_distr; reflexivity.
  - rewrite chron_wafter, tests_of_app, tests_of_block. apply numbered_from2_app. split.
    + apply (f_num _ _ _ HF).
    + cbn [numbered_from2 test_nums]. split; [|exact I].
      fold (n_tests (chron w)). f_equal; lia.
  - rewrite wafter_tests, chron_wafter, n_tests_app. unfold n_tests at 2.
    rewrite tests_of_block.
    change (zlen [ETest (w_tests w + 1) (w_tfc w) (content t) a]) with 1. lia.
  - rewrite wafter_tfc, chron_wafter, n_tests_app, existsb_app, Hnr, israise_block.
    unfold n_tests at 2. rewrite tests_of_block. cbn [orb].
    change (zlen [ETest (w_tests w + 1) (w_tfc w) (content t) a]) with 1.
    destruct a; lia.
  - rewrite chron_wafter, expected_temp_p_app, expected_temp_p_block, wafter_tfc.
    apply Forall_app. split.
    + assert (Hw : w_tfc w <= match a with Raise => w_tfc w | _ => w_tfc w + 1 end)
        by (destruct a; lia).
      apply (Forall_impl _ (fun e => in_rng_widen (w_tfc prev) (w_tfc w) _ e Hw)).
      apply (f_rng _ _ _ HF).
    + destruct a; cbn [tblock]; constructor; try constructor;
        unfold in_rng; cbn [fst]; lia.
  - rewrite wafter_tfc. destruct a; lia.
Qed.

Lemma linv_tested : forall prev file0 w t a,
  linv prev file0 w -> a <> Raise -> linv prev file0 (wafter w t a).
Proof.
  intros prev file0 w t a HL Ha. split; [apply lfin_tested; exact HL|].
  destruct HL as [_ Hnr]. rewrite chron_wafter, existsb_app, Hnr, israise_block.
  destruct a; [reflexivity | reflexivity | exfalso; apply Ha; reflexivity].
Qed.

Lemma linv_lstep : forall S (strat : strategy S) verdict prev file0 a b,
  lstep strat verdict a b ->
  on_state (fun _ w => linv prev file0 w) a -> on_state (fun _ w => linv prev file0 w) b.
Proof.
  intros S strat verdict prev file0 a b Hstep. destruct Hstep as
    [st it w b0 st' Hn | st it w t k Hn Hm | st it w t k w' Hn Hm Hi | st it w t k w' Hn Hm Hi];
    cbn [on_state]; intros HL.
  - apply linv_write_file. exact HL.
  - exact HL.
  - apply interesting_true_inv in Hi. destruct Hi as [_ Hw]. subst w'.
    apply linv_tested; [exact HL | intros H; discriminate H].
  - apply interesting_true_inv in Hi. destruct Hi as [_ Hw]. subst w'.
    apply linv_tested; [exact HL | intros H; discriminate H].
Qed.

Lemma linv_lsteps : forall S (strat : strategy S) verdict prev file0 a b,
  lsteps strat verdict a b ->
  on_state (fun _ w => linv prev file0 w) a -> on_state (fun _ w => linv prev file0 w) b.
Proof.
  intros S strat verdict prev file0 a b Hs. induction Hs as [s|a b c Hab Hbc IH]; intros HL.
  - exact HL.
  - apply IH. eapply linv_lstep; eassumption.
Qed.

(* every way the loop can stop, including running out of fuel *)
Lemma session_loop_log : forall S (strat : strategy S) verdict prev file0 fuel st it w,
  linv prev file0 w ->
  lfin prev file0 (result_world (map_world finally (loop strat verdict fuel st it w))).
Proof.
  intros S strat verdict prev file0 fuel st it w HL.
  destruct (loop_follows_lsteps S strat verdict fuel st it w _ eq_refl)
    as (st' & it' & w' & Hsteps & Hm).
  pose proof (linv_lsteps S strat verdict prev file0 _ _ Hsteps HL) as HL'.
  cbn [on_state] in HL'.
  destruct (loop strat verdict fuel st it w) as [rc wf|[e|] wf|wf];
    cbn [map_world result_world].
  - destruct Hm as (_ & Hwf & _). subst wf.
    apply lfin_finally. apply lfin_write_file. exact (proj1 HL').
  - destruct Hm as [_ Hwf]. subst wf. apply lfin_finally. exact (proj1 HL').
  - destruct Hm as (t & k & _ & _ & Hi).
    apply interesting_true_inv in Hi. destruct Hi as [_ Hwf]. subst wf.
    apply lfin_finally. apply lfin_tested. exact HL'.
  - subst wf. exact (proj1 HL').
Qed.

(* ------------------------------------------------------------------ *)
(* the four starts of Strategy.main on a carried world                *)
(* ------------------------------------------------------------------ *)

Ltac start_simpl :=
  cbn [chron w_trace w_temp w_tests w_tfc s0 s1 sN sY temp_copy log count_test set_last carry
       rev app expected_temp_p tests_of filter is_test existsb israise orb
       numbered_from2 test_nums];
  unfold n_tests;
  cbn [chron w_trace s0 s1 sN sY temp_copy log count_test set_last carry
       rev app tests_of filter is_test];
  rewrite ?zlen_cons, ?zlen_nil.

Lemma lfin_s0 : forall tc0 prev file0,
  content tc0 = file0 -> lfin prev file0 (s0 tc0 prev file0).
Proof.
  intros tc0 prev file0 Hc. subst file0. constructor; start_simpl.
  - reflexivity.
  - exact I.
  - lia.
  - lia.
  - constructor.
  - lia.
Qed.

Lemma lfin_s1_raise : forall tc0 prev file0,
  content tc0 = file0 -> lfin prev file0 (s1 tc0 prev file0 Raise).
Proof.
  intros tc0 prev file0 Hc. subst file0. constructor; start_simpl.
  - reflexivity.
  - split; [reflexivity | exact I].
  - lia.
  - lia.
  - constructor.
  - lia.
Qed.

Lemma lfin_sN : forall tc0 prev file0,
  content tc0 = file0 -> lfin prev file0 (sN tc0 prev file0).
Proof.
  intros tc0 prev file0 Hc. subst file0. constructor; start_simpl.
  - reflexivity.
  - split; [reflexivity | exact I].
  - lia.
  - lia.
  - constructor; [|constructor]. unfold in_rng. cbn [fst]. lia.
  - lia.
Qed.

Lemma linv_sY : forall tc0 prev file0,
  content tc0 = file0 -> linv prev file0 (sY tc0 prev file0).
Proof.
  intros tc0 prev file0 Hc. subst file0. split; [|reflexivity]. constructor; start_simpl.
  - reflexivity.
  - split; [reflexivity | exact I].
  - lia.
  - lia.
  - constructor; [|constructor]. unfold in_rng. cbn [fst]. lia.
  - lia.
Qed.

Lemma session_lfin : forall S (strat : strategy S) verdict fuel tc0 file0 prev,
  content tc0 = file0 ->
  lfin prev file0 (result_world (run_on strat verdict fuel tc0 (carry true prev file0))).
Proof.
  intros S strat verdict fuel tc0 file0 prev Hc.
  destruct (session_cases S strat verdict fuel tc0 prev file0)
    as [[_ He]|[(_ & _ & He)|[(_ & _ & He)|(_ & _ & He)]]]; rewrite He.
  - cbn [result_world]. apply lfin_finally. apply lfin_s0. exact Hc.
  - cbn [result_world]. apply lfin_finally. apply lfin_s1_raise. exact Hc.
  - cbn [result_world]. apply lfin_finally. apply lfin_sN. exact Hc.
  - apply session_loop_log. apply linv_sY. exact Hc.
Qed.

(* ------------------------------------------------------------------ *)
(* C12 on a re-used object                                            *)
(* ------------------------------------------------------------------ *)

Lemma session_temp_log :
  forall S (strat : strategy S) verdict fuel tc0 file0 prev,
    content tc0 = file0 ->
    let w := result_world (run_on strat verdict fuel tc0 (carry true prev file0)) in
    w_temp w = rev ((Original, file0) :: expected_temp_p (chron w)) ++ w_temp prev /\
    numbered_from2 (w_tests prev + 1) (w_tfc prev) (tests_of (chron w)) /\
    w_tests w = w_tests prev + n_tests (chron w) /\
    w_tfc w = w_tfc prev + n_tests (chron w)
              - (if existsb (fun e => match e with ETest _ _ _ Raise => true | _ => false end) (chron w) then 1 else 0).
Proof.
  intros S strat verdict fuel tc0 file0 prev Hc w.
  pose proof (session_lfin S strat verdict fuel tc0 file0 prev Hc) as HF. fold w in HF.
  split; [apply (f_temp _ _ _ HF)|]. split; [apply (f_num _ _ _ HF)|].
  split; [apply (f_tests _ _ _ HF)|]. apply (f_tfc _ _ _ HF).
Qed.

Lemma session_no_overwrite :
  forall S (strat : strategy S) verdict fuel tc0 file0 prev,
    content tc0 = file0 ->
    names_below (w_temp prev) (w_tfc prev) ->
    let w := result_world (run_on strat verdict fuel tc0 (carry true prev file0)) in
    (forall p tag b, In (Numbered p tag, b) (expected_temp_p (chron w)) -> w_tfc prev <= p) /\
    names_below (w_temp w) (w_tfc w).
Proof.
  intros S strat verdict fuel tc0 file0 prev Hc Hprev w.
  pose proof (session_lfin S strat verdict fuel tc0 file0 prev Hc) as HF. fold w in HF.
  pose proof (f_rng _ _ _ HF) as Hrng. pose proof (f_le _ _ _ HF) as Hle.
  split.
  - intros p tag b HIn. rewrite Forall_forall in Hrng.
    pose proof (Hrng _ HIn) as Hp. unfold in_rng in Hp. cbn [fst] in Hp. lia.
  - unfold names_below. rewrite (f_temp _ _ _ HF). apply Forall_app. split.
    + apply Forall_rev. constructor; [exact I|].
      apply (Forall_impl _ (P := in_rng (w_tfc prev) (w_tfc w))); [|exact Hrng].
      intros [n b] Hn. unfold in_rng in Hn. cbn [fst] in *.
      destruct n as [|p tag]; [exact I | lia].
    + unfold names_below in Hprev.
      apply (Forall_impl _ (P := fun e : tname * bytes =>
               match fst e with Numbered p _ => p < w_tfc prev | Original => True end));
        [|exact Hprev].
      intros [n b] Hn. cbn [fst] in *. destruct n as [|p tag]; [exact I | lia].
Qed.

Print Assumptions session_temp_log.
Print Assumptions session_no_overwrite.
