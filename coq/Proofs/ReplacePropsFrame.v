(* C05 for replace-properties-by-globals with its CONCRETE pass (Model/ReplaceProps.v): every candidate
   is `snd (candidate word starts best)` for an item (word, starts) of the work list, i.e. the current
   best with substitutions inside some parts; before / after are copied, the numbers of parts and of
   flags are unchanged.  So the strategy is frame preserving for the trivial invariant, and
   FrameProofs.frame_runs_keep_frame applies.  The fuel of props_drive is irrelevant: running out of it
   gives `Fail OutOfFuel`, which frame_preserving accepts.
   Used by Props/C05r.v.  No axioms. *)
From Coq Require Import ZArith NArith List Bool Lia.
From Lithium Require Import PyBase TcRecord SplitAttrs Util Testcase Spec Driver TraceSpec Minimize
  StratSpec PyLines Markers Splitters SplitSpec FrameSpec SplitProofs FrameProofs Rewriters ReplaceProps
  ReplacePropsProofs.
Import ListNotations.
Open Scope Z_scope.

(* ------------------------------------------------------------------ *)
(* 1. the shape of a candidate                                         *)
(* ------------------------------------------------------------------ *)

Lemma subst_at_shape : forall word i parts red ps fs d,
  subst_at word i parts red = (ps, fs, d) ->
  length ps = length parts /\ length fs = length red.
Proof.
  intros word. induction i as [|i IH]; intros parts red ps fs d H; cbn [subst_at] in H.
  - destruct parts as [|p ps0]; [inversion H; subst; split; reflexivity|].
    destruct red as [|f fs0]; [inversion H; subst; split; reflexivity|].
    inversion H; subst. cbn [length]. split; reflexivity.
  - destruct parts as [|p ps0]; [inversion H; subst; split; reflexivity|].
    destruct red as [|f fs0]; [inversion H; subst; split; reflexivity|].
    destruct (subst_at word i ps0 fs0) as [[ps' fs'] d'] eqn:E.
    inversion H; subst. apply IH in E. destruct E as [E1 E2].
    cbn [length]. rewrite E1, E2. split; reflexivity.
Qed.

Lemma cand_fold_shape : forall word starts ps fs d ps' fs' d',
  fold_left (cand_step word) starts (ps, fs, d) = (ps', fs', d') ->
  length ps' = length ps /\ length fs' = length fs.
Proof.
  intros word. induction starts as [|c starts IH]; intros ps fs d ps' fs' d' H;
    cbn [fold_left] in H.
  - inversion H; subst. split; reflexivity.
  - unfold cand_step at 2 in H.
    destruct (subst_at word (Z.to_nat c) ps fs) as [[ps1 fs1] d1] eqn:E.
    apply subst_at_shape in E. destruct E as [E1 E2].
    apply IH in H. destruct H as [H1 H2].
    rewrite H1, H2, E1, E2. split; reflexivity.
Qed.

(* the candidate, without the wf hypothesis: the two lengths are preserved separately *)
Lemma candidate_shape_gen : forall word starts best d t,
  candidate word starts best = (d, t) ->
  tc_before t = tc_before best /\ tc_after t = tc_after best /\
  length (tc_parts t) = length (tc_parts best) /\ length (tc_red t) = length (tc_red best).
Proof.
  intros word starts best d t H. unfold candidate in H.
  change (fun (acc : list bytes * list bool * Z) (c : Z) =>
            let '(ps, fs, d) := acc in
            let '(ps', fs', d') := subst_at word (Z.to_nat c) ps fs in (ps', fs', d + d'))
    with (cand_step word) in H.
  destruct (fold_left (cand_step word) starts (tc_parts best, tc_red best, 0))
    as [[ps fs] d0] eqn:E.
  inversion H; subst. apply cand_fold_shape in E. destruct E as [E1 E2].
  cbn [tc_before tc_after tc_parts tc_red].
  split; [reflexivity|]. split; [reflexivity|]. split; [exact E1 | exact E2].
Qed.

Lemma candidate_shape :
  forall word starts best d t,
    wf best -> candidate word starts best = (d, t) ->
    wf t /\ tc_before t = tc_before best /\ tc_after t = tc_after best /\
    length (tc_parts t) = length (tc_parts best).
Proof.
  intros word starts best d t Hwf H.
  destruct (candidate_shape_gen word starts best d t H) as (Hb & Ha & Hp & Hr).
  unfold wf in *.
  split; [rewrite Hp, Hr; exact Hwf|].
  split; [exact Hb|]. split; [exact Ha | exact Hp].
Qed.

Lemma candidate_framed : forall P S word starts best d t,
  framed P S best -> candidate word starts best = (d, t) -> framed P S t.
Proof.
  intros P S word starts best d t Hfr H.
  destruct (candidate_shape_gen word starts best d t H) as (Hb & Ha & _ & _).
  unfold framed in *. rewrite Hb, Ha. exact Hfr.
Qed.

(* ------------------------------------------------------------------ *)
(* 2. the outer loop only proposes what the pass yields                *)
(* ------------------------------------------------------------------ *)

Section DriveYield.
  Variable PS : Type.
  Variable pass_start : Z -> tcase -> PS.
  Variable pass_next : PS -> tcase -> option (Z * tcase * (outcome -> PS)).
  Variable Q : tcase -> tcase -> Prop.
  Hypothesis Hnext : forall ps best maybe t k, pass_next ps best = Some (maybe, t, k) -> Q best t.

  Definition yield_post (best : tcase) (r : step (rstate PS)) : Prop :=
    match r with
    | Propose t _ => Q best t
    | RawWrite _ _ => False
    | Done => True
    | Fail _ => True
    end.

  Lemma props_drive_yield : forall fuel cfg s best,
    yield_post best (props_drive PS pass_start pass_next fuel cfg s best).
  Proof.
    induction fuel as [|f IH]; intros cfg s best.
    - cbn [props_drive yield_post]. exact I.
    - cbn [props_drive]. destruct (r_pass PS s) as [ps|].
      + destruct (pass_next ps best) as [[[maybe t] k]|] eqn:Hpn.
        * cbn [yield_post]. exact (Hnext ps best maybe t k Hpn).
        * cbv zeta.
          destruct (truthy_Z (r_removed PS s) && rep_ok cfg (r_chunk PS s <=? r_final PS s)).
          -- apply IH.
          -- destruct (r_chunk PS s <=? r_final PS s).
             ++ cbn [yield_post]. exact I.
             ++ apply IH.
      + apply IH.
  Qed.
End DriveYield.

Lemma props_pass_next_yield : forall P S items best maybe t k,
  props_pass_next items best = Some (maybe, t, k) ->
  (wf best -> framed P S best -> wf t /\ framed P S t).
Proof.
  intros P S items best maybe t k H Hwf Hfr. unfold props_pass_next in H.
  destruct items as [|[word starts] rest]; [discriminate H|].
  destruct (candidate word starts best) as [d t'] eqn:E.
  inversion H; subst.
  split.
  - exact (proj1 (candidate_shape word starts best maybe t Hwf E)).
  - exact (candidate_framed P S word starts best maybe t Hfr E).
Qed.

(* ------------------------------------------------------------------ *)
(* 3. the theorems of Props/C05r.v                                     *)
(* ------------------------------------------------------------------ *)

Theorem replace_properties_is_frame_preserving :
  forall cfg P S,
    frame_preserving (replace_properties_concrete cfg) (fun _ _ => True) P S.
Proof.
  intros cfg P S st best _ Hwf Hfr.
  unfold replace_properties_concrete. cbn [s_next replace_properties].
  pose proof (props_drive_yield (list (bytes * list Z)) (props_pass_start cfg) props_pass_next
                (fun b t => wf b -> framed P S b -> wf t /\ framed P S t)
                (props_pass_next_yield P S)
                (props_fuel (list (bytes * list Z)) st) cfg st best) as Hy.
  destruct (props_drive (list (bytes * list Z)) (props_pass_start cfg) props_pass_next
              (props_fuel (list (bytes * list Z)) st) cfg st best) as [t k|b st'| |e];
    cbn [yield_post] in Hy.
  - destruct (Hy Hwf Hfr) as [Hwt Hft].
    split; [exact Hwt|]. split; [exact Hft|]. split; [exact I|]. split; exact I.
  - contradiction.
  - exact I.
  - exact I.
Qed.

Theorem replace_properties_loaded_keeps_frame :
  forall sp cfg verdict fuel d tc0 P r S,
    splitter_ok sp -> load sp d = Ok tc0 -> find_markers d = Marked P r S ->
    let w := result_world (Driver.run (replace_properties_concrete cfg) verdict fuel tc0 d) in
    tests_in_frame P S (chron w) /\ in_frame P S (w_file w).
Proof.
  intros sp cfg verdict fuel d tc0 P r S Hsp Hld Hfm.
  destruct (load_generic_ok sp Hsp d tc0 Hld) as (Hc & _ & Hwf).
  pose proof (loaded_is_framed sp d tc0 P r S Hld Hfm) as Hfr.
  apply (frame_runs_keep_frame (rstate (list (bytes * list Z))) (replace_properties_concrete cfg)
           (fun _ _ => True) P S verdict fuel tc0 d Hwf Hc Hfr I).
  apply replace_properties_is_frame_preserving.
Qed.

Print Assumptions replace_properties_is_frame_preserving.
Print Assumptions replace_properties_loaded_keeps_frame.
Print Assumptions candidate_shape.
