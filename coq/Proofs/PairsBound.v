(* Termination of the pair strategies (Model/Pairs.v: minimize-around, minimize-balanced) with
   an explicit bound on the number of tests, for EVERY verdict function, and absence of internal
   errors: the assert of minimize-balanced holds, no IndexError / ZeroDivisionError, and the
   fuel of the non-proposing loop `pdrive` (pairs_fuel) is never exhausted.
   Used by Props/C09.v.  No axioms.

   Everything about one `pnext` call comes from PairsProofs.pdrive_ok:
     potential  Phi N s L = (L + log2 chunk_size + [any_chunks_removed]) * N + T + 1   (in a pass)
     with T = number of summary entries from the current chunk on; every proposal (tested or
     skipped) lowers Phi by at least 1, the non-proposing transitions never raise it;
     fuel demand `need` <= 2 * L + 4 * (log2 chunk_size + 1) + 3  <=  pairs_fuel.
   Remark: a linear term of at least 2 * L is necessary (an earlier pairs_fuel with 1 * L was
   exhausted by minimize-balanced on 27 atoms "(": every pass is only no-partner skips, and one
   pnext call runs all passes chunk_size, chunk_size/2, ..., 1). *)
From Coq Require Import ZArith NArith List Bool Lia ZifyBool.
From Lithium Require Import PyBase TcRecord Util Testcase Spec Driver TraceSpec Minimize StratSpec
  TestcaseProofs DriverProofs MinimizeBound Pairs PairsProofs.
Import ListNotations.
Open Scope Z_scope.

(* ------------------------------------------------------------------ *)
(* the fuel of pdrive is sufficient                                   *)
(* ------------------------------------------------------------------ *)

Lemma pairs_fuel_Z : forall s best, 0 <= tc_len best -> 1 <= p_chunk_size s ->
  Z.of_nat (pairs_fuel s best) = 3 * tc_len best + 4 * (Z.log2 (p_chunk_size s) + 1) + 16.
Proof.
  intros s best HL Hc. unfold pairs_fuel.
  replace (Z.max 1 (p_chunk_size s)) with (p_chunk_size s) by lia.
  pose proof (Z.log2_nonneg (p_chunk_size s)) as Hlg. lia.
Qed.

Lemma need_le_fuel : forall kind s best, wf best -> pinv kind s ->
  need kind s (tc_len best) <= Z.of_nat (pairs_fuel s best).
Proof.
  intros kind s best Hwf Hi.
  pose proof (tc_len_nonneg best Hwf) as HL.
  destruct Hi as [Hc Hf Hl].
  rewrite pairs_fuel_Z by assumption.
  pose proof (Z.log2_nonneg (p_chunk_size s)) as Hlg.
  pose proof (div_le_self (tc_len best) _ HL Hc) as Hd.
  assert (HNA : NA (tc_len best) (p_chunk_size s) (p_any s)
                <= 1 + NT (tc_len best) (p_chunk_size s)).
  { unfold NA. destruct (p_any s); lia. }
  unfold need. destruct (p_phase s) eqn:Hph.
  - unfold NT. lia.
  - specialize (Hl eq_refl).
    assert (Hrem : rem kind s (tc_len best) <= tc_len best / p_chunk_size s + 1).
    { unfold rem. destruct kind; [lia|]. cbn [loop_inv] in Hl. destruct Hl as (_ & _ & Hcst).
      pose proof (ntr_nonneg (p_summary s) (p_i1 s)) as Hn.
      assert (Hcst0 : 0 <= p_chunk_start s) by nia.
      assert (Hq : (tc_len best - p_chunk_start s + p_chunk_size s - 1) / p_chunk_size s
                   <= tc_len best / p_chunk_size s + 1).
      { rewrite <- (Z.div_add (tc_len best) 1 (p_chunk_size s)) by lia.
        apply Z.div_le_mono; lia. }
      lia. }
    unfold NT in *. lia.
  - unfold NT in *. lia.
Qed.

(* one step of the strategy *)
Lemma pnext_ok : forall kind cfg clk N s best,
  wf best -> tc_len best + 1 <= N -> pinv kind s ->
  match pnext kind cfg clk s best with
  | Done => True
  | Propose t k => prop_ok kind N s best t k
  | _ => False
  end.
Proof.
  intros kind cfg clk N s best Hwf HN Hi. unfold pnext.
  pose proof (pdrive_ok kind cfg clk N (pairs_fuel s best) s best Hwf HN Hi) as H.
  pose proof (need_le_fuel kind s best Hwf Hi) as Hfuel.
  destruct (pdrive (pairs_fuel s best) kind cfg clk s best) as [t k|b s'| |e]; cbn [post] in H.
  - exact H.
  - exact H.
  - exact I.
  - destruct H as [_ H]. lia.
Qed.

(* ------------------------------------------------------------------ *)
(* the driver loop                                                    *)
(* ------------------------------------------------------------------ *)

Lemma Phi_nonneg : forall kind N s L, pinv kind s -> 0 <= L -> 0 <= N -> 0 <= Phi kind N s L.
Proof.
  intros kind N s L [Hc Hf Hl] HL HN. unfold Phi, Aw.
  pose proof (Z.log2_nonneg (p_chunk_size s)) as Hlg.
  assert (Hb : 0 <= b2z (p_any s)) by (destruct (p_any s); cbn; lia).
  destruct (p_phase s) eqn:Hph.
  - apply Z.mul_nonneg_nonneg; lia.
  - pose proof (Tm_nonneg kind s (Hl eq_refl)) as HT.
    assert (H : 0 <= (L + Z.log2 (p_chunk_size s) + b2z (p_any s)) * N)
      by (apply Z.mul_nonneg_nonneg; lia).
    lia.
  - apply Z.mul_nonneg_nonneg; lia.
Qed.

Lemma loop_bounded : forall n kind cfg clk verdict fuel st it w,
  pinv kind st -> wf (it_best it) -> tc_len (it_best it) <= n ->
  Phi kind (n + 1) st (tc_len (it_best it)) + 1 <= Z.of_nat fuel ->
  loop_res_ok (n_tests (chron w) + Phi kind (n + 1) st (tc_len (it_best it)))
              (loop (pairs kind cfg clk) verdict fuel st it w).
Proof.
  intros n kind cfg clk verdict.
  induction fuel as [|fuel IH]; intros st it w Hi Hwf Hn Hfuel.
  - pose proof (tc_len_nonneg _ Hwf) as H0.
    pose proof (Phi_nonneg kind (n + 1) st _ Hi H0 ltac:(lia)) as HP. lia.
  - pose proof (tc_len_nonneg _ Hwf) as H0.
    pose proof (Phi_nonneg kind (n + 1) st _ Hi H0 ltac:(lia)) as HP.
    pose proof (pnext_ok kind cfg clk (n + 1) st (it_best it) Hwf ltac:(lia) Hi) as Hstep.
    cbn [loop]. cbn [s_next pairs].
    destruct (pnext kind cfg clk st (it_best it)) as [t k|b st'| |e]; try contradiction.
    + (* Propose *)
      destruct Hstep as (Hwt & _ & Hlt & Hc).
      destruct (mem_bytes (content t) (it_tried it)) eqn:Hmem.
      * destruct (Hc Skipped) as [Hi' Hm']. cbv zeta in Hi', Hm'.
        specialize (IH (k Skipped) it w Hi' Hwf Hn).
        unfold loop_res_ok in *.
        destruct (loop (pairs kind cfg clk) verdict fuel (k Skipped) it w) as [rc wf|[e|] wf|wf];
          lia.
      * destruct (interesting verdict w t true) as [w' a] eqn:Hint.
        destruct (interesting_true_inv verdict w t w' a Hint) as [_ Hw']. subst w'.
        pose proof (n_tests_wafter w t a) as Hnt.
        destruct a.
        -- destruct (Hc (Tested true)) as [Hi' Hm']. cbv zeta in Hi', Hm'.
           specialize (IH (k (Tested true))
                          {| it_best := t;
                             it_tried := it_tried {| it_best := it_best it;
                                                     it_tried := content t :: it_tried it;
                                                     it_any := it_any it |};
                             it_any := true |} (wafter w t Yes)).
           cbn [it_best] in IH. specialize (IH Hi' Hwt ltac:(lia)).
           unfold loop_res_ok in *.
           match goal with |- match ?l with _ => _ end =>
             destruct l as [rc wf|[e|] wf|wf]; lia end.
        -- destruct (Hc (Tested false)) as [Hi' Hm']. cbv zeta in Hi', Hm'.
           specialize (IH (k (Tested false))
                          {| it_best := it_best it; it_tried := content t :: it_tried it;
                             it_any := it_any it |} (wafter w t No)).
           cbn [it_best] in IH. specialize (IH Hi' Hwf Hn).
           unfold loop_res_ok in *.
           match goal with |- match ?l with _ => _ end =>
             destruct l as [rc wf|[e|] wf|wf]; lia end.
        -- destruct (Hc (Tested false)) as [Hi' Hm']. cbv zeta in Hi', Hm'.
           pose proof (Phi_nonneg kind (n + 1) _ _ Hi' H0 ltac:(lia)) as HP'.
           cbn [loop_res_ok]. lia.
    + (* Done *)
      cbn [loop_res_ok]. rewrite n_tests_write_file. lia.
Qed.

(* ------------------------------------------------------------------ *)
(* the initial state                                                  *)
(* ------------------------------------------------------------------ *)

Lemma valid_cfg_max : forall cfg, valid_cfg cfg -> 1 <= c_max cfg.
Proof.
  intros cfg [_ Hmax]. apply pow2_pos. apply is_power_of_two_pow2. exact Hmax.
Qed.

Lemma pstart_ok : forall kind cfg clk tc0, wf tc0 -> valid_cfg cfg -> tc_len tc0 <> 0 ->
  let n := tc_len tc0 in
  pinv kind (pstart cfg clk tc0) /\
  1 + Phi kind (n + 1) (pstart cfg clk tc0) n <= c09_bound n.
Proof.
  intros kind cfg clk tc0 Hwf Hv Hn0 n.
  pose proof (tc_len_nonneg tc0 Hwf) as H0. fold n in H0, Hn0.
  assert (Hn : 1 <= n) by lia.
  split; [apply pstart_pinv; apply valid_cfg_max; exact Hv|].
  destruct (mstart_chunk cfg n Hv Hn) as [j [Hj Hcs]].
  pose proof (log2_le_clog2 n Hn) as Hc.
  unfold Phi, pstart. cbn [p_phase p_chunk_size]. fold n. rewrite Hcs.
  rewrite Z.log2_pow2 by lia. unfold c09_bound.
  assert (H : (n + j + 1) * (n + 1) <= (n + clog2 n + 1) * (n + 1))
    by (apply Z.mul_le_mono_nonneg_r; lia).
  lia.
Qed.

(* ------------------------------------------------------------------ *)
(* the theorem used by Props/C09.v                                    *)
(* ------------------------------------------------------------------ *)

Theorem pairs_bounded :
  forall kind cfg clk verdict tc0 file0 fuel,
    wf tc0 -> valid_cfg cfg ->
    (Z.to_nat (2 * c09_bound (tc_len tc0)) <= fuel)%nat ->
    let r := run (pairs kind cfg clk) verdict fuel tc0 file0 in
    (forall w, r <> NoFuel w) /\ (forall e w, r <> Aborted (Some e) w) /\
    n_tests (chron (result_world r)) <= c09_bound (tc_len tc0).
Proof.
  intros kind cfg clk verdict tc0 file0 fuel Hwf Hv Hfuel r.
  pose proof (tc_len_nonneg tc0 Hwf) as H0.
  pose proof (c09_bound_ge1 (tc_len tc0) H0) as Hb1.
  destruct (run_cases pstate (pairs kind cfg clk) verdict fuel tc0 file0)
    as [[Hn Hr]|[(Hn & Hv1 & Hr)|[(Hn & Hv1 & Hr)|(Hn & Hv1 & Hr)]]]; fold r in Hr.
  - rewrite Hr. split; [intros w; discriminate|]. split; [intros e w; discriminate|].
    cbn [result_world]. rewrite n_tests_finally.
    change (n_tests (chron (w0 tc0 file0))) with 0. lia.
  - rewrite Hr. split; [intros w; discriminate|]. split; [intros e w; discriminate|].
    cbn [result_world]. rewrite n_tests_finally.
    change (n_tests (chron (w1 tc0 file0 Raise))) with 1. lia.
  - rewrite Hr. split; [intros w; discriminate|]. split; [intros e w; discriminate|].
    cbn [result_world]. rewrite n_tests_finally.
    change (n_tests (chron (wN tc0 file0))) with 1. lia.
  - destruct (pstart_ok kind cfg clk tc0 Hwf Hv Hn) as (Hi & Ht). cbv zeta in Hi, Ht.
    assert (Hfz : Phi kind (tc_len tc0 + 1) (pstart cfg clk tc0) (tc_len tc0) + 1
                  <= Z.of_nat fuel) by lia.
    pose proof (loop_bounded (tc_len tc0) kind cfg clk verdict fuel
                  (pstart cfg clk tc0) (it0 tc0) (wY tc0 file0) Hi Hwf ltac:(cbn; lia) Hfz)
      as Hl.
    cbn [it0 it_best] in Hl.
    change (n_tests (chron (wY tc0 file0))) with 1 in Hl.
    cbn [s_start pairs] in Hr. rewrite Hr.
    destruct (loop (pairs kind cfg clk) verdict fuel (pstart cfg clk tc0) (it0 tc0)
                   (wY tc0 file0)) as [rc wf|[e|] wf|wf];
      cbn [loop_res_ok] in Hl; try contradiction; cbn [map_world result_world].
    + split; [intros w; discriminate|]. split; [intros e w; discriminate|].
      rewrite n_tests_finally. lia.
    + split; [intros w; discriminate|]. split; [intros e w; discriminate|].
      rewrite n_tests_finally. lia.
Qed.

Print Assumptions pairs_bounded.
