(* Proofs about the model of minimize-around / minimize-balanced (Model/Pairs.v):
     - facts about the summary string operations (index / rindex / count / clear),
     - the pass-local invariant `pinv` (the assert of minimize-balanced, index bounds),
     - one master lemma `pdrive_ok` about the fuelled non-proposing loop: every proposal deletes
       reducible atoms of the current best, strictly shrinks it, re-establishes the invariant and
       pays one unit of the potential `Phi`; the only possible failure is OutOfFuel and only when
       the fuel is below `need`,
     - C04: `pairs` is a deleting strategy.
   Used by Props/C04.v and Proofs/PairsBound.v.  No axioms. *)
From Coq Require Import ZArith NArith List Bool Arith Lia ZifyBool.
From Lithium Require Import PyBase TcRecord Util Testcase Spec Driver TraceSpec Minimize StratSpec
  TestcaseProofs DriverProofs MinimizeProofs Pairs.
Import ListNotations.
Open Scope Z_scope.

(* ------------------------------------------------------------------ *)
(* 1. counting the "S" entries of a summary                            *)
(* ------------------------------------------------------------------ *)

Definition b2z (b : bool) : Z := if b then 1 else 0.

(* number of true entries at indices < k *)
Definition ntr (l : list bool) (k : Z) : Z := Z.of_nat (ntrue (firstn (Z.to_nat k) l)).

(* l[i] = "S" *)
Definition tr_at (l : list bool) (i : Z) : Prop :=
  0 <= i /\ nth_error l (Z.to_nat i) = Some true.

Lemma ntrue_firstn_S : forall l k b, nth_error l k = Some b ->
  ntrue (firstn (S k) l) = (ntrue (firstn k l) + (if b then 1 else 0))%nat.
Proof.
  unfold ntrue. induction l as [|x l IH]; intros k b H.
  - destruct k; discriminate H.
  - destruct k as [|k].
    + cbn in H. injection H as H. subst x. cbn. destruct b; reflexivity.
    + cbn [nth_error] in H. specialize (IH k b H).
      change (firstn (S (S k)) (x :: l)) with (x :: firstn (S k) l).
      change (firstn (S k) (x :: l)) with (x :: firstn k l).
      cbn [filter]. destruct x; cbn [length]; lia.
Qed.

Lemma ntr_nonneg : forall l k, 0 <= ntr l k.
Proof. intros l k. unfold ntr. lia. Qed.

Lemma ntr_0 : forall l, ntr l 0 = 0.
Proof. intros l. unfold ntr. reflexivity. Qed.

Lemma ntr_mono : forall l a b, a <= b -> ntr l a <= ntr l b.
Proof.
  intros l a b Hab. unfold ntr.
  pose proof (ntrue_firstn_mono l (Z.to_nat a) (Z.to_nat b)) as H. lia.
Qed.

Lemma ntr_step : forall l k b, 0 <= k -> nth_error l (Z.to_nat k) = Some b ->
  ntr l (k + 1) = ntr l k + b2z b.
Proof.
  intros l k b Hk H. unfold ntr.
  replace (Z.to_nat (k + 1)) with (S (Z.to_nat k)) by lia.
  rewrite (ntrue_firstn_S l _ b H). unfold b2z. destruct b; lia.
Qed.

Lemma tr_at_lt : forall l i, tr_at l i -> 0 <= i < zlen l.
Proof.
  intros l i [H0 H]. split; [exact H0|].
  assert (Hlt : (Z.to_nat i < length l)%nat) by (apply nth_error_Some; congruence).
  unfold zlen. lia.
Qed.

Lemma tr_at_step : forall l i, tr_at l i -> ntr l (i + 1) = ntr l i + 1.
Proof. intros l i [H0 H]. rewrite (ntr_step l i true H0 H). reflexivity. Qed.

Lemma tr_at_ntr_pos : forall l i k, tr_at l i -> i < k -> 1 <= ntr l k.
Proof.
  intros l i k Ht Hik. pose proof (tr_at_step l i Ht) as Hs.
  pose proof (ntr_mono l (i + 1) k) as Hm. pose proof (ntr_nonneg l i). lia.
Qed.

Lemma firstn_min_len : forall (A : Type) (l : list A) k,
  firstn (Nat.min k (length l)) l = firstn k l.
Proof.
  intros A l k. destruct (Nat.le_gt_cases k (length l)) as [H|H].
  - rewrite Nat.min_l by exact H. reflexivity.
  - rewrite Nat.min_r by lia. rewrite firstn_all. symmetry. apply firstn_all2. lia.
Qed.

Lemma s_count_0 : forall l k, 0 <= k -> s_count l 0 k = ntr l k.
Proof.
  intros l k Hk. unfold s_count, ntr, py_slice, norm_bound, zlen. cbv zeta.
  assert (E0 : (0 <? 0) = false) by reflexivity.
  assert (E1 : (k <? 0) = false) by lia.
  rewrite E0, E1.
  replace (Z.to_nat (Z.min 0 (Z.of_nat (length l)))) with 0%nat by lia.
  cbn [skipn].
  replace (Z.to_nat (Z.min k (Z.of_nat (length l)) - Z.min 0 (Z.of_nat (length l))))
    with (Nat.min (Z.to_nat k) (length l)) by lia.
  rewrite firstn_min_len. reflexivity.
Qed.

Lemma s_count_nonneg : forall l a b, 0 <= s_count l a b.
Proof. intros l a b. unfold s_count, zlen. lia. Qed.

(* ------------------------------------------------------------------ *)
(* 2. summary.index / summary.rindex                                   *)
(* ------------------------------------------------------------------ *)

Lemma s_index_from_spec : forall l pos from i, s_index_from l pos from = Some i ->
  exists k : nat, i = pos + Z.of_nat k /\ from <= i /\ nth_error l k = Some true /\
    ntrue (firstn k l) = ntrue (firstn (Z.to_nat (from - pos)) l).
Proof.
  induction l as [|b r IH]; intros pos from i H; cbn [s_index_from] in H; [discriminate H|].
  destruct (b && (from <=? pos)) eqn:E.
  - injection H as H. subst i. apply andb_true_iff in E. destruct E as [Eb Ef]. subst b.
    exists 0%nat. split; [lia|]. split; [lia|]. split; [reflexivity|].
    replace (Z.to_nat (from - pos)) with 0%nat by lia. reflexivity.
  - destruct (IH (pos + 1) from i H) as (k & Hi & Hf & Hn & Hc).
    exists (S k). split; [lia|]. split; [exact Hf|]. split; [exact Hn|].
    unfold ntrue in *.
    change (firstn (S k) (b :: r)) with (b :: firstn k r).
    destruct (Z.leb_spec from pos) as [Hle|Hgt].
    + assert (Eb : b = false) by (destruct b; [discriminate E | reflexivity]). subst b.
      replace (Z.to_nat (from - pos)) with 0%nat by lia.
      replace (Z.to_nat (from - (pos + 1))) with 0%nat in Hc by lia.
      cbn [filter firstn length] in *. exact Hc.
    + replace (Z.to_nat (from - pos)) with (S (Z.to_nat (from - (pos + 1)))) by lia.
      change (firstn (S (Z.to_nat (from - (pos + 1)))) (b :: r))
        with (b :: firstn (Z.to_nat (from - (pos + 1))) r).
      cbn [filter]. destruct b; cbn [length]; lia.
Qed.

Lemma s_index_spec : forall l from i, 0 <= from -> s_index l from = Some i ->
  from <= i /\ tr_at l i /\ ntr l i = ntr l from.
Proof.
  intros l from i Hf H. unfold s_index in H.
  destruct (s_index_from_spec l 0 from i H) as (k & Hi & Hfi & Hn & Hc).
  split; [exact Hfi|]. unfold tr_at, ntr.
  replace (Z.to_nat i) with k by lia.
  split; [split; [lia | exact Hn]|].
  replace (from - 0) with from in Hc by lia. lia.
Qed.

Lemma s_rindex_from_spec : forall l pos hi acc b, s_rindex_from l pos hi acc = Some b ->
  acc = Some b \/
  exists k : nat, b = pos + Z.of_nat k /\ b < hi /\ nth_error l k = Some true.
Proof.
  induction l as [|x r IH]; intros pos hi acc b H; cbn [s_rindex_from] in H.
  - left. exact H.
  - destruct (IH _ _ _ _ H) as [Ha|(k & Hb & Hlt & Hn)].
    + destruct (x && (pos <? hi)) eqn:E.
      * injection Ha as Ha. apply andb_true_iff in E. destruct E as [Ex El]. subst x.
        right. exists 0%nat. split; [lia|]. split; [lia | reflexivity].
      * left. exact Ha.
    + right. exists (S k). split; [lia|]. split; [exact Hlt | exact Hn].
Qed.

Lemma s_rindex_spec : forall l hi b, s_rindex l hi = Some b -> tr_at l b /\ b < hi.
Proof.
  intros l hi b H. unfold s_rindex in H.
  destruct (s_rindex_from_spec l 0 hi None b H) as [Ha|(k & Hb & Hlt & Hn)]; [discriminate Ha|].
  split; [|exact Hlt]. unfold tr_at. replace (Z.to_nat b) with k by lia. split; [lia | exact Hn].
Qed.

(* ------------------------------------------------------------------ *)
(* 3. summary[:i] + "-" + summary[i+1:]                                *)
(* ------------------------------------------------------------------ *)

Definition clr (l : list bool) (k : nat) : list bool := firstn k l ++ false :: skipn (S k) l.

Lemma s_clear_clr : forall l i, 0 <= i -> s_clear l i = clr l (Z.to_nat i).
Proof.
  intros l i Hi. unfold s_clear, clr.
  replace i with (Z.of_nat (Z.to_nat i)) at 1 by lia.
  rewrite py_slice_to_nat.
  replace (i + 1) with (Z.of_nat (S (Z.to_nat i))) by lia.
  rewrite py_slice_from_nat. reflexivity.
Qed.

Lemma clr_length : forall l k, (k < length l)%nat -> length (clr l k) = length l.
Proof.
  intros l k Hk. unfold clr. rewrite app_length, firstn_length. cbn [length].
  rewrite skipn_length. lia.
Qed.

Lemma clr_nth_same : forall l k, (k < length l)%nat -> nth_error (clr l k) k = Some false.
Proof.
  intros l k Hk. unfold clr.
  rewrite nth_error_app2 by (rewrite firstn_length; lia).
  rewrite firstn_length. replace (k - Nat.min k (length l))%nat with 0%nat by lia. reflexivity.
Qed.

Lemma nth_error_firstn_lt' : forall (A : Type) (l : list A) k j, (j < k)%nat ->
  nth_error (firstn k l) j = nth_error l j.
Proof.
  intros A. induction l as [|x l IH]; intros k j H.
  - rewrite firstn_nil. reflexivity.
  - destruct k as [|k]; [lia|]. destruct j as [|j]; [reflexivity|].
    cbn [firstn nth_error]. apply IH. lia.
Qed.

Lemma nth_error_skipn' : forall (A : Type) (l : list A) k j,
  nth_error (skipn k l) j = nth_error l (k + j).
Proof.
  intros A. induction l as [|x l IH]; intros k j.
  - rewrite skipn_nil. destruct j; destruct (k + _)%nat; reflexivity.
  - destruct k as [|k]; [reflexivity|]. cbn [skipn]. rewrite IH. reflexivity.
Qed.

Lemma clr_nth_other : forall l k j, (k < length l)%nat -> j <> k ->
  nth_error (clr l k) j = nth_error l j.
Proof.
  intros l k j Hk Hj. unfold clr.
  destruct (Nat.lt_ge_cases j k) as [Hlt|Hge].
  - rewrite nth_error_app1 by (rewrite firstn_length; lia).
    apply nth_error_firstn_lt'. exact Hlt.
  - rewrite nth_error_app2 by (rewrite firstn_length; lia).
    rewrite firstn_length. replace (j - Nat.min k (length l))%nat with (S (j - S k)) by lia.
    cbn [nth_error]. rewrite nth_error_skipn'. f_equal. lia.
Qed.

Lemma clr_cons_S : forall x l k, clr (x :: l) (S k) = x :: clr l k.
Proof. intros x l k. reflexivity. Qed.

Lemma clr_ntrue : forall l k m, (k < length l)%nat ->
  (ntrue (firstn m (clr l k)) +
   (if (k <? m)%nat then (if nth k l false then 1 else 0) else 0) = ntrue (firstn m l))%nat.
Proof.
  unfold ntrue. induction l as [|x l IH]; intros k m Hk; cbn [length] in Hk; [lia|].
  destruct m as [|m].
  - destruct (k <? 0)%nat eqn:E; [apply Nat.ltb_lt in E; lia|]. reflexivity.
  - destruct k as [|k].
    + unfold clr. cbn [firstn skipn app nth]. cbn [filter].
      destruct (0 <? S m)%nat eqn:E; [|apply Nat.ltb_ge in E; lia].
      destruct x; cbn [length]; lia.
    + rewrite clr_cons_S. cbn [firstn nth filter].
      specialize (IH k m ltac:(lia)).
      change (S k <? S m)%nat with (k <? m)%nat.
      destruct x; cbn [length]; lia.
Qed.

Lemma s_clear_zlen : forall l i, 0 <= i < zlen l -> zlen (s_clear l i) = zlen l.
Proof.
  intros l i Hi. unfold zlen in *. rewrite s_clear_clr by lia. rewrite clr_length by lia.
  reflexivity.
Qed.

Lemma s_clear_at : forall l i, 0 <= i < zlen l ->
  nth_error (s_clear l i) (Z.to_nat i) = Some false.
Proof.
  intros l i Hi. unfold zlen in *. rewrite s_clear_clr by lia. apply clr_nth_same. lia.
Qed.

Lemma s_clear_nth_other : forall l i j, 0 <= i < zlen l -> 0 <= j -> j <> i ->
  nth_error (s_clear l i) (Z.to_nat j) = nth_error l (Z.to_nat j).
Proof.
  intros l i j Hi Hj Hne. unfold zlen in *. rewrite s_clear_clr by lia.
  apply clr_nth_other; lia.
Qed.

Lemma s_clear_tr_other : forall l i j, 0 <= i < zlen l -> j <> i ->
  tr_at l j -> tr_at (s_clear l i) j.
Proof.
  intros l i j Hi Hne [Hj H]. split; [exact Hj|].
  rewrite s_clear_nth_other by assumption. exact H.
Qed.

Lemma s_clear_ntr_ge : forall l i m, 0 <= i < zlen l -> m <= i ->
  ntr (s_clear l i) m = ntr l m.
Proof.
  intros l i m Hi Hm. unfold zlen, ntr in *. rewrite s_clear_clr by lia.
  pose proof (clr_ntrue l (Z.to_nat i) (Z.to_nat m) ltac:(lia)) as H.
  destruct (Z.to_nat i <? Z.to_nat m)%nat eqn:E; [apply Nat.ltb_lt in E; lia|]. lia.
Qed.

Lemma s_clear_ntr_lt : forall l i m, tr_at l i -> i < m ->
  ntr (s_clear l i) m = ntr l m - 1.
Proof.
  intros l i m Ht Hm. pose proof (tr_at_lt l i Ht) as Hi. destruct Ht as [H0 Hn].
  unfold zlen, ntr in *. rewrite s_clear_clr by lia.
  pose proof (clr_ntrue l (Z.to_nat i) (Z.to_nat m) ltac:(lia)) as H.
  destruct (Z.to_nat i <? Z.to_nat m)%nat eqn:E; [|apply Nat.ltb_ge in E; lia].
  rewrite (nth_error_nth _ _ false Hn) in H. lia.
Qed.

Lemma s_clear_not_tr : forall l i, 0 <= i < zlen l -> ntr (s_clear l i) (i + 1) = ntr (s_clear l i) i.
Proof.
  intros l i Hi. rewrite (ntr_step _ i false) by (try lia; apply s_clear_at; exact Hi).
  unfold b2z. lia.
Qed.

(* ------------------------------------------------------------------ *)
(* 4. deleting a slice with non-negative bounds                        *)
(* ------------------------------------------------------------------ *)

Lemma py_clamp_nonneg_arg : forall L x, 0 <= x -> py_clamp L x = Z.min x L.
Proof. intros L x Hx. unfold py_clamp. destruct (x <? 0) eqn:E; lia. Qed.

Lemma rm1 : forall best a b, wf best -> 0 <= a <= b ->
  exists t, rmslice best a b = Ok t /\ wf t /\ sub_reducible best t /\
    tc_len t = tc_len best - (Z.min b (tc_len best) - Z.min a (tc_len best)).
Proof.
  intros best a b Hwf Hab. destruct (rmslice_total best a b Hwf) as [t Ht].
  exists t. split; [exact Ht|].
  assert (Hle : py_clamp (tc_len best) a <= py_clamp (tc_len best) b).
  { rewrite !py_clamp_nonneg_arg by lia. lia. }
  pose proof (rmslice_spec best a b t Hwf Ht) as Hs. cbv zeta in Hs.
  destruct (Hs Hle) as (Hwt & _ & _ & _ & Hlen).
  rewrite !py_clamp_nonneg_arg in Hlen by lia.
  split; [exact Hwt|]. split; [|exact Hlen].
  apply (rmslice_sub_reducible best a b t Hwf Ht Hle).
Qed.

(* ------------------------------------------------------------------ *)
(* 5. invariant, potential, fuel demand                                *)
(* ------------------------------------------------------------------ *)

Ltac psimpl :=
  cbn [p_chunk_size p_final p_deadline p_reads p_any p_phase p_summary p_chunk_start
       p_i1 p_i2 p_i3 p_tables upd set_pp].
Ltac psimpl_in H :=
  cbn [p_chunk_size p_final p_deadline p_reads p_any p_phase p_summary p_chunk_start
       p_i1 p_i2 p_i3 p_tables upd set_pp] in H.

(* what holds at the head of the pass loop *)
Definition loop_inv (kind : pkind) (s : pstate) : Prop :=
  match kind with
  | KAround =>
      tr_at (p_summary s) (p_i1 s) /\ tr_at (p_summary s) (p_i2 s) /\ p_i1 s < p_i2 s /\
      s_index (p_summary s) (p_i2 s + 1) = Some (p_i3 s) /\
      p_chunk_start s = p_chunk_size s * ntr (p_summary s) (p_i2 s)
  | KBalanced =>
      tr_at (p_summary s) (p_i1 s) /\ zlen (p_tables s) = zlen (p_summary s) /\
      p_chunk_start s = p_chunk_size s * ntr (p_summary s) (p_i1 s)
  end.

Record pinv (kind : pkind) (s : pstate) : Prop := {
  pi_c : 1 <= p_chunk_size s;
  pi_f : 1 <= p_final s;
  pi_loop : p_phase s = PLoop -> loop_inv kind s
}.

(* pass-local progress: chunks not yet visited *)
Definition Tm (kind : pkind) (s : pstate) : Z :=
  zlen (p_summary s) - match kind with KAround => p_i2 s | KBalanced => p_i1 s end.

Definition Aw (s : pstate) (L : Z) : Z := L + Z.log2 (p_chunk_size s) + b2z (p_any s).

(* potential: every proposal (tested or skipped) costs at least 1 *)
Definition Phi (kind : pkind) (N : Z) (s : pstate) (L : Z) : Z :=
  match p_phase s with
  | PTop => (L + Z.log2 (p_chunk_size s) + 1) * N
  | PLoop => Aw s L * N + Tm kind s + 1
  | PAfter => Aw s L * N
  end.

(* number of pdrive iterations that are enough from a state, L = tc_len best *)
Definition NT (L c : Z) : Z := 2 * L - L / c + 4 * (Z.log2 c + 1).
Definition NA (L c : Z) (any : bool) : Z := if any then 1 + NT L c else NT L c - L / c - 3.
Definition rem (kind : pkind) (s : pstate) (L : Z) : Z :=
  match kind with
  | KAround => 0
  | KBalanced => Z.max 0 ((L - p_chunk_start s + p_chunk_size s - 1) / p_chunk_size s)
  end.
Definition need (kind : pkind) (s : pstate) (L : Z) : Z :=
  match p_phase s with
  | PTop => NT L (p_chunk_size s)
  | PLoop => rem kind s L + 1 + NA L (p_chunk_size s) (p_any s)
  | PAfter => NA L (p_chunk_size s) (p_any s)
  end.

Lemma Tm_nonneg : forall kind s, loop_inv kind s -> 1 <= Tm kind s.
Proof.
  intros kind s H. unfold Tm. destruct kind; cbn [loop_inv] in H.
  - destruct H as (_ & H2 & _). pose proof (tr_at_lt _ _ H2). lia.
  - destruct H as (H1 & _). pose proof (tr_at_lt _ _ H1). lia.
Qed.

Lemma phi_dec_A : forall A A' T T' N,
  A' + 1 <= A -> T' <= T -> 1 <= N -> A' * N + T' + 1 <= A * N + T.
Proof. intros. nia. Qed.

Lemma phi_dec_T : forall A A' T T' N,
  A' <= A -> T' + 1 <= T -> 0 <= N -> A' * N + T' + 1 <= A * N + T.
Proof. intros. nia. Qed.

Lemma phi_le : forall A A' N, A' <= A -> 0 <= N -> A' * N <= A * N.
Proof. intros. nia. Qed.

(* what a proposal must guarantee *)
Definition cont_ok (kind : pkind) (N : Z) (s : pstate) (best t : tcase) (k : outcome -> pstate)
  : Prop :=
  forall o, let best' := match o with Tested true => t | _ => best end in
    pinv kind (k o) /\ Phi kind N (k o) (tc_len best') + 1 <= Phi kind N s (tc_len best).

Definition prop_ok (kind : pkind) (N : Z) (s : pstate) (best t : tcase) (k : outcome -> pstate)
  : Prop :=
  wf t /\ sub_reducible best t /\ tc_len t < tc_len best /\ cont_ok kind N s best t k.

(* ------------------------------------------------------------------ *)
(* 6. minimize-around: one proposal                                    *)
(* ------------------------------------------------------------------ *)

Lemma pinv_upd_after : forall kind s any sm cs a b c,
  1 <= p_chunk_size s -> 1 <= p_final s -> pinv kind (upd s any PAfter sm cs a b c).
Proof.
  intros kind s any sm cs a b c Hc Hf. constructor; psimpl; try assumption.
  intros Hx. discriminate Hx.
Qed.

Lemma pinv_upd_loop : forall kind s any sm cs a b c,
  1 <= p_chunk_size s -> 1 <= p_final s -> loop_inv kind (upd s any PLoop sm cs a b c) ->
  pinv kind (upd s any PLoop sm cs a b c).
Proof.
  intros kind s any sm cs a b c Hc Hf Hl. constructor; psimpl; try assumption.
  intros _. exact Hl.
Qed.

Lemma around_propose_ok : forall N s best,
  wf best -> 1 <= N -> pinv KAround s -> p_phase s = PLoop ->
  p_chunk_start s + p_chunk_size s < tc_len best ->
  match around_propose s best with
  | Propose t k => prop_ok KAround N s best t k
  | _ => False
  end.
Proof.
  intros N s best Hwf HN Hi Hph Hcond.
  destruct Hi as [Hc Hf Hl]. specialize (Hl Hph). cbn [loop_inv] in Hl.
  destruct Hl as (H1 & H2 & H12 & H3 & Hcst).
  pose proof (tc_len_nonneg best Hwf) as HL.
  pose proof (tr_at_lt _ _ H1) as Hb1. pose proof (tr_at_lt _ _ H2) as Hb2.
  destruct (s_index_spec (p_summary s) (p_i2 s + 1) (p_i3 s) ltac:(lia) H3) as (H23 & Ht3 & Hn3).
  pose proof (tr_at_lt _ _ Ht3) as Hb3.
  pose proof (tr_at_ntr_pos _ _ _ H1 H12) as Hpos.
  pose proof (tr_at_step _ _ H2) as Hst2.
  pose proof (Z.log2_nonneg (p_chunk_size s)) as Hlg.
  assert (Hcc : p_chunk_size s <= p_chunk_start s) by nia.
  unfold around_propose. cbv zeta. rewrite copy_id.
  destruct (rm1 best (Z.min (tc_len best) (p_chunk_start s + p_chunk_size s))
              (Z.min (tc_len best)
                 (Z.min (tc_len best) (p_chunk_start s + p_chunk_size s) + p_chunk_size s))
              Hwf ltac:(lia)) as (t1 & Ht1 & Hw1 & Hs1 & Hl1).
  rewrite Ht1. cbn [bind].
  destruct (rm1 t1 (Z.max 0 (p_chunk_start s - p_chunk_size s)) (p_chunk_start s)
              Hw1 ltac:(lia)) as (t & Ht & Hw & Hs & Hl2).
  rewrite Ht.
  assert (Hlen : tc_len t + 2 <= tc_len best) by lia.
  split; [exact Hw|]. split; [exact (sub_reducible_trans _ _ _ Hs1 Hs)|]. split; [lia|].
  (* the rejected / skipped continuation *)
  assert (Hrej : forall any, b2z any <= b2z (p_any s) ->
    let s' := match s_index (p_summary s) (p_i3 s + 1) with
              | Some a => upd s any PLoop (p_summary s) (p_chunk_start s + p_chunk_size s)
                              (p_i2 s) (p_i3 s) a
              | None => upd s any PAfter (p_summary s) (p_chunk_start s + p_chunk_size s)
                            (p_i2 s) (p_i3 s) (p_i3 s)
              end in
    pinv KAround s' /\ Phi KAround N s' (tc_len best) + 1 <= Phi KAround N s (tc_len best)).
  { intros any Hany. cbv zeta.
    destruct (s_index (p_summary s) (p_i3 s + 1)) as [a|] eqn:Ea.
    - split.
      + apply pinv_upd_loop; try assumption. cbn [loop_inv]. psimpl.
        split; [exact H2|]. split; [exact Ht3|]. split; [lia|]. split; [exact Ea|].
        rewrite Hn3, Hst2, Hcst. ring.
      + unfold Phi. psimpl. rewrite Hph. unfold Aw, Tm. psimpl.
        apply Z.add_le_mono_r. apply phi_dec_T; lia.
    - split.
      + apply pinv_upd_after; assumption.
      + unfold Phi. psimpl. rewrite Hph. unfold Aw, Tm. psimpl.
        assert (Hm : (tc_len best + Z.log2 (p_chunk_size s) + b2z any) * N
                     <= (tc_len best + Z.log2 (p_chunk_size s) + b2z (p_any s)) * N)
          by (apply phi_le; lia).
        lia. }
  intros o. cbv zeta. destruct o as [|[|]]; cbv beta iota.
  - apply Hrej. lia.
  - (* accepted *)
    remember (s_clear (s_clear (p_summary s) (p_i1 s)) (p_i3 s)) as sm' eqn:Esm.
    assert (Hz1 : zlen (s_clear (p_summary s) (p_i1 s)) = zlen (p_summary s))
      by (apply s_clear_zlen; lia).
    assert (Hz' : zlen sm' = zlen (p_summary s)).
    { subst sm'. rewrite s_clear_zlen by lia. exact Hz1. }
    assert (Ht2' : tr_at sm' (p_i2 s)).
    { subst sm'. apply s_clear_tr_other; [lia | lia|].
      apply s_clear_tr_other; [lia | lia | exact H2]. }
    assert (Hn2' : ntr sm' (p_i2 s) = ntr (p_summary s) (p_i2 s) - 1).
    { subst sm'. rewrite s_clear_ntr_ge by lia. apply s_clear_ntr_lt; assumption. }
    pose proof (tr_at_step _ _ Ht2') as Hst2'.
    assert (Hany : 0 <= b2z (p_any s)) by (destruct (p_any s); cbn; lia).
    assert (Hafter : forall cs a b c,
      pinv KAround (upd s true PAfter sm' cs a b c) /\
      Phi KAround N (upd s true PAfter sm' cs a b c) (tc_len t) + 1
        <= Phi KAround N s (tc_len best)).
    { intros cs a b c. split; [apply pinv_upd_after; assumption|].
      unfold Phi. psimpl. rewrite Hph. unfold Aw, Tm. psimpl. cbn [b2z].
      assert (Hm : (tc_len t + Z.log2 (p_chunk_size s) + 1) * N
                   <= (tc_len best + Z.log2 (p_chunk_size s) + b2z (p_any s)) * N)
        by (apply phi_le; lia).
      lia. }
    destruct (s_rindex sm' (p_i2 s)) as [b|] eqn:Eb.
    + destruct (s_rindex_spec _ _ _ Eb) as (Htb & Hb2').
      destruct (s_index sm' (p_i2 s + 1)) as [a|] eqn:Ea; [|apply Hafter].
      split.
      * apply pinv_upd_loop; try assumption. cbn [loop_inv]. psimpl.
        split; [exact Htb|]. split; [exact Ht2'|]. split; [exact Hb2'|]. split; [exact Ea|].
        rewrite Hn2', Hcst. ring.
      * unfold Phi. psimpl. rewrite Hph. unfold Aw, Tm. psimpl. cbn [b2z].
        apply Z.add_le_mono_r. apply phi_dec_A; lia.
    + destruct (s_index sm' (p_i2 s + 1)) as [k|] eqn:Ek; [|apply Hafter].
      destruct (s_index_spec sm' (p_i2 s + 1) k ltac:(lia) Ek) as (H2k & Htk & Hnk).
      destruct (s_index sm' (k + 1)) as [a|] eqn:Ea; [|apply Hafter].
      split.
      * apply pinv_upd_loop; try assumption. cbn [loop_inv]. psimpl.
        split; [exact Ht2'|]. split; [exact Htk|]. split; [lia|]. split; [exact Ea|].
        rewrite Hnk, Hst2', Hn2', Hcst. ring.
      * unfold Phi. psimpl. rewrite Hph. unfold Aw, Tm. psimpl. cbn [b2z].
        apply Z.add_le_mono_r. apply phi_dec_A; lia.
  - apply Hrej. destruct (p_any s); cbn; lia.
Qed.

(* ------------------------------------------------------------------ *)
(* 7. minimize-balanced: one iteration of the pass loop                *)
(* ------------------------------------------------------------------ *)

Lemma partner_scan_bounds : forall sm tb idx n rhs n',
  partner_scan sm tb idx n = (rhs, n') -> idx <= rhs <= idx + zlen sm.
Proof.
  induction sm as [|item sm IH]; intros tb idx n rhs n' H.
  - cbn [partner_scan] in H. injection H as H1 H2. subst rhs. rewrite zlen_nil. lia.
  - pose proof (zlen_nonneg _ sm) as Hz. rewrite zlen_cons.
    destruct tb as [|[[c q] r] tb].
    + cbn [partner_scan] in H. injection H as H1 H2. subst rhs. lia.
    + cbn [partner_scan] in H. cbv zeta in H.
      destruct (negb item) eqn:Ei.
      * apply IH in H. lia.
      * destruct n as [[nc nq] nr].
        destruct ((nc + c <? 0) || (nq + q <? 0) || (nr + r <? 0)) eqn:E1.
        -- injection H as H1 H2. subst rhs. lia.
        -- destruct ((nc + c =? 0) && (nq + q =? 0) && (nr + r =? 0)) eqn:E2.
           ++ injection H as H1 H2. subst rhs. lia.
           ++ apply IH in H. lia.
Qed.

Lemma py_index_total : forall (A : Type) (l : list A) i, 0 <= i < zlen l ->
  exists x, py_index l i = Ok x.
Proof.
  intros A l i Hi. unfold zlen in Hi.
  destruct (nth_error l (Z.to_nat i)) as [x|] eqn:E.
  - exists x. pose proof (py_index_nat A l (Z.to_nat i) x E) as H.
    rewrite Z2Nat.id in H by lia. exact H.
  - apply nth_error_None in E. lia.
Qed.

Lemma bal_next_c : forall s any sm cst, p_chunk_size (bal_next s any sm cst) = p_chunk_size s.
Proof. intros. unfold bal_next. destruct (s_index sm (p_i1 s + 1)); reflexivity. Qed.
Lemma bal_next_f : forall s any sm cst, p_final (bal_next s any sm cst) = p_final s.
Proof. intros. unfold bal_next. destruct (s_index sm (p_i1 s + 1)); reflexivity. Qed.
Lemma bal_next_any : forall s any sm cst, p_any (bal_next s any sm cst) = any.
Proof. intros. unfold bal_next. destruct (s_index sm (p_i1 s + 1)); reflexivity. Qed.
Lemma bal_next_cst : forall s any sm cst, p_chunk_start (bal_next s any sm cst) = cst.
Proof. intros. unfold bal_next. destruct (s_index sm (p_i1 s + 1)); reflexivity. Qed.
Lemma bal_next_phase : forall s any sm cst,
  p_phase (bal_next s any sm cst) = PLoop \/ p_phase (bal_next s any sm cst) = PAfter.
Proof.
  intros. unfold bal_next. destruct (s_index sm (p_i1 s + 1)); [left | right]; reflexivity.
Qed.

Lemma bal_next_ok : forall N s any sm cst L L',
  1 <= p_chunk_size s -> 1 <= p_final s -> 0 <= N -> p_phase s = PLoop ->
  0 <= p_i1 s < zlen sm ->
  zlen sm = zlen (p_summary s) -> zlen (p_tables s) = zlen (p_summary s) ->
  cst = p_chunk_size s * ntr sm (p_i1 s + 1) ->
  L' + b2z any <= L + b2z (p_any s) ->
  pinv KBalanced (bal_next s any sm cst) /\
  Phi KBalanced N (bal_next s any sm cst) L' + 1 <= Phi KBalanced N s L.
Proof.
  intros N s any sm cst L L' Hc Hf HN Hph Hlhs Hz Hzt Hcst HA.
  unfold bal_next.
  destruct (s_index sm (p_i1 s + 1)) as [l|] eqn:El.
  - destruct (s_index_spec sm (p_i1 s + 1) l ltac:(lia) El) as (Hl & Htl & Hnl).
    split.
    + apply pinv_upd_loop; try assumption. cbn [loop_inv]. psimpl.
      split; [exact Htl|]. split; [lia|]. rewrite Hnl. exact Hcst.
    + unfold Phi. psimpl. rewrite Hph. unfold Aw, Tm. psimpl.
      apply Z.add_le_mono_r. apply phi_dec_T; lia.
  - split.
    + apply pinv_upd_after; assumption.
    + unfold Phi. psimpl. rewrite Hph. unfold Aw, Tm. psimpl.
      assert (Hm : (L' + Z.log2 (p_chunk_size s) + b2z any) * N
                   <= (L + Z.log2 (p_chunk_size s) + b2z (p_any s)) * N)
        by (apply phi_le; lia).
      lia.
Qed.

Lemma bal_need : forall s sm L,
  p_phase s = PLoop -> 1 <= p_chunk_size s -> p_chunk_start s < L ->
  need KBalanced (bal_next s (p_any s) sm (p_chunk_start s + p_chunk_size s)) L + 1
    <= need KBalanced s L.
Proof.
  intros s sm L Hph Hc Hlt. unfold need. rewrite Hph.
  rewrite bal_next_c, bal_next_any. unfold rem. rewrite bal_next_c, bal_next_cst.
  assert (Hq : 1 <= (L - p_chunk_start s + p_chunk_size s - 1) / p_chunk_size s)
    by (apply Z.div_le_lower_bound; lia).
  destruct (bal_next_phase s (p_any s) sm (p_chunk_start s + p_chunk_size s)) as [E|E];
    rewrite E.
  - replace (L - (p_chunk_start s + p_chunk_size s) + p_chunk_size s - 1)
      with ((L - p_chunk_start s + p_chunk_size s - 1) + (-1) * p_chunk_size s) by ring.
    rewrite Z.div_add by lia. lia.
  - lia.
Qed.

Lemma zlen_skipn_from : forall (A : Type) (l : list A) i, 0 <= i < zlen l ->
  zlen (py_slice l (Some (i + 1)) None) = zlen l - i - 1.
Proof.
  intros A l i Hi. unfold zlen in *.
  replace (i + 1) with (Z.of_nat (S (Z.to_nat i))) by lia.
  rewrite py_slice_from_nat, skipn_length. lia.
Qed.

Lemma balanced_body_ok : forall N s best,
  wf best -> 1 <= N -> pinv KBalanced s -> p_phase s = PLoop ->
  p_chunk_start s < tc_len best ->
  match balanced_body s best with
  | IStep (Propose t k) => prop_ok KBalanced N s best t k
  | IStep _ => False
  | ICont s2 =>
      pinv KBalanced s2 /\
      Phi KBalanced N s2 (tc_len best) <= Phi KBalanced N s (tc_len best) /\
      need KBalanced s2 (tc_len best) + 1 <= need KBalanced s (tc_len best)
  end.
Proof.
  intros N s best Hwf HN Hi Hph Hcond.
  destruct Hi as [Hc Hf Hl]. specialize (Hl Hph). cbn [loop_inv] in Hl.
  destruct Hl as (H1 & Hzt & Hcst).
  pose proof (tc_len_nonneg best Hwf) as HL.
  pose proof (tr_at_lt _ _ H1) as Hb1.
  pose proof (tr_at_step _ _ H1) as Hst1.
  pose proof (ntr_nonneg (p_summary s) (p_i1 s)) as Hn0.
  assert (Hcst0 : 0 <= p_chunk_start s) by nia.
  assert (Hany : 0 <= b2z (p_any s)) by (destruct (p_any s); cbn; lia).
  (* the rejected / skipped / no-partner continuation *)
  assert (Hrej : pinv KBalanced (bal_next s (p_any s) (p_summary s)
                                   (p_chunk_start s + p_chunk_size s)) /\
                 Phi KBalanced N (bal_next s (p_any s) (p_summary s)
                                    (p_chunk_start s + p_chunk_size s)) (tc_len best) + 1
                 <= Phi KBalanced N s (tc_len best)).
  { apply bal_next_ok; [exact Hc | exact Hf | lia | exact Hph | lia | reflexivity | exact Hzt
                       | rewrite Hst1, Hcst; ring | lia]. }
  unfold balanced_body. cbv zeta.
  rewrite s_count_0 by lia.
  destruct (negb (ntr (p_summary s) (p_i1 s) * p_chunk_size s =? p_chunk_start s)) eqn:Eas.
  { exfalso. apply negb_true_iff in Eas. apply Z.eqb_neq in Eas. apply Eas. rewrite Hcst. ring. }
  unfold nth_table.
  destruct (py_index_total _ (p_tables s) (p_i1 s) ltac:(lia)) as [n0 Hn0']. rewrite Hn0'.
  rewrite copy_id.
  destruct (zero3 n0) eqn:Ez0.
  - (* balanced chunk: remove it alone *)
    destruct (rm1 best (p_chunk_start s) (Z.min (tc_len best) (p_chunk_start s + p_chunk_size s))
                Hwf ltac:(lia)) as (t & Ht & Hw & Hs & Hlt).
    rewrite Ht.
    split; [exact Hw|]. split; [exact Hs|]. split; [lia|].
    intros o. cbv zeta. destruct o as [|[|]]; cbv beta iota; try exact Hrej.
    assert (Hz' : zlen (s_clear (p_summary s) (p_i1 s)) = zlen (p_summary s))
      by (apply s_clear_zlen; lia).
    apply bal_next_ok; [exact Hc | exact Hf | lia | exact Hph | lia | exact Hz' | exact Hzt | | ].
    + rewrite s_clear_not_tr by lia. rewrite s_clear_ntr_ge by lia. exact Hcst.
    + cbn [b2z]. lia.
  - (* unbalanced chunk: look for the partner *)
    destruct (partner_scan (py_slice (p_summary s) (Some (p_i1 s + 1)) None)
                (py_slice (p_tables s) (Some (p_i1 s + 1)) None) (p_i1 s) n0) as [rhs n] eqn:Eps.
    pose proof (partner_scan_bounds _ _ _ _ _ _ Eps) as Hrhs.
    rewrite zlen_skipn_from in Hrhs by lia.
    destruct (negb (zero3 n)) eqn:Ezn.
    + split; [exact (proj1 Hrej)|]. split; [lia|]. apply bal_need; assumption.
    + pose proof (s_count_nonneg (p_summary s) (p_i1 s) rhs) as Hq.
      remember (s_count (p_summary s) (p_i1 s) rhs) as q eqn:Eq. clear Eq.
      assert (Hcq : 0 <= p_chunk_size s * q) by nia.
      remember (p_chunk_size s * q) as cq eqn:Ecq. clear Ecq.
      destruct (rm1 best (Z.min (tc_len best) (p_chunk_start s + cq))
                  (Z.min (tc_len best)
                     (Z.min (tc_len best) (p_chunk_start s + cq) + p_chunk_size s))
                  Hwf ltac:(lia)) as (t1 & Ht1 & Hw1 & Hs1 & Hl1).
      rewrite Ht1. cbn [bind].
      destruct (rm1 t1 (p_chunk_start s)
                  (Z.min (tc_len best) (p_chunk_start s + p_chunk_size s))
                  Hw1 ltac:(lia)) as (t & Ht & Hw & Hs & Hl2).
      rewrite Ht.
      split; [exact Hw|]. split; [exact (sub_reducible_trans _ _ _ Hs1 Hs)|]. split; [lia|].
      intros o. cbv zeta. destruct o as [|[|]]; cbv beta iota; try exact Hrej.
      assert (Hz1 : zlen (s_clear (p_summary s) (p_i1 s)) = zlen (p_summary s))
        by (apply s_clear_zlen; lia).
      assert (Hz' : zlen (s_clear (s_clear (p_summary s) (p_i1 s)) rhs) = zlen (p_summary s)).
      { rewrite s_clear_zlen by lia. exact Hz1. }
      apply bal_next_ok; [exact Hc | exact Hf | lia | exact Hph | lia | exact Hz' | exact Hzt | | ].
      * destruct (Z.eq_dec rhs (p_i1 s)) as [Er|Er].
        -- rewrite Er. rewrite s_clear_not_tr by lia. rewrite !s_clear_ntr_ge by lia. exact Hcst.
        -- rewrite s_clear_ntr_ge by lia. rewrite s_clear_not_tr by lia.
           rewrite s_clear_ntr_ge by lia. exact Hcst.
      * cbn [b2z]. lia.
Qed.

(* ------------------------------------------------------------------ *)
(* 8. the non-proposing transitions                                    *)
(* ------------------------------------------------------------------ *)

Definition bump (s : pstate) : pstate :=
  {| p_chunk_size := p_chunk_size s; p_final := p_final s; p_deadline := p_deadline s;
     p_reads := S (p_reads s); p_any := p_any s; p_phase := p_phase s;
     p_summary := p_summary s; p_chunk_start := p_chunk_start s; p_i1 := p_i1 s;
     p_i2 := p_i2 s; p_i3 := p_i3 s; p_tables := p_tables s |}.

Lemma read_clock_cases : forall clk s e s1, read_clock clk s = (e, s1) -> s1 = s \/ s1 = bump s.
Proof.
  intros clk s e s1 H. unfold read_clock in H. destruct (p_deadline s) as [d|] eqn:Ed.
  - injection H as _ H. right. subst s1. unfold bump. rewrite Ed. reflexivity.
  - injection H as _ H. left. symmetry. exact H.
Qed.

Lemma pinv_bump : forall kind s, pinv kind s -> pinv kind (bump s).
Proof.
  intros kind s [Hc Hf Hl]. constructor; [exact Hc | exact Hf |].
  intros Hph. specialize (Hl Hph). destruct kind; exact Hl.
Qed.

(* facts shared by s and the state after a clock read *)
Record same (s s1 : pstate) : Prop := {
  sm_c : p_chunk_size s1 = p_chunk_size s;
  sm_cst : p_chunk_start s1 = p_chunk_start s;
  sm_ph : p_phase s1 = p_phase s;
  sm_any : p_any s1 = p_any s;
  sm_fin : p_final s1 = p_final s;
  sm_phi : forall kind N L, Phi kind N s1 L = Phi kind N s L;
  sm_need : forall kind L, need kind s1 L = need kind s L;
  sm_inv : forall kind, pinv kind s -> pinv kind s1
}.

Lemma read_clock_same : forall clk s e s1, read_clock clk s = (e, s1) -> same s s1.
Proof.
  intros clk s e s1 H. destruct (read_clock_cases clk s e s1 H) as [E|E]; subst s1.
  - constructor; try reflexivity. intros kind Hi. exact Hi.
  - constructor; try reflexivity;
      try (intros kind L; destruct kind; reflexivity);
      try (intros kind N L; destruct kind; reflexivity).
    intros kind Hi. apply pinv_bump. exact Hi.
Qed.

Lemma div_le_self : forall L c, 0 <= L -> 1 <= c -> 0 <= L / c <= L.
Proof.
  intros L c HL Hc. split; [apply Z.div_pos; lia|].
  apply Z.div_le_upper_bound; [lia | nia].
Qed.

Lemma NT_pos : forall L c, 0 <= L -> 1 <= c -> 4 <= NT L c.
Proof.
  intros L c HL Hc. unfold NT. pose proof (div_le_self L c HL Hc).
  pose proof (Z.log2_nonneg c). lia.
Qed.

Lemma NA_pos : forall L c any, 0 <= L -> 1 <= c -> 1 <= NA L c any.
Proof.
  intros L c any HL Hc. unfold NA. pose proof (NT_pos L c HL Hc) as H.
  destruct any; [lia|]. unfold NT. pose proof (div_le_self L c HL Hc).
  pose proof (Z.log2_nonneg c). lia.
Qed.

Lemma rem_nonneg : forall kind s L, 0 <= rem kind s L.
Proof. intros kind s L. unfold rem. destruct kind; lia. Qed.

Lemma need_pos : forall kind s L, 0 <= L -> 1 <= p_chunk_size s -> 1 <= need kind s L.
Proof.
  intros kind s L HL Hc. unfold need.
  pose proof (NT_pos L _ HL Hc). pose proof (NA_pos L _ (p_any s) HL Hc).
  pose proof (rem_nonneg kind s L). destruct (p_phase s); lia.
Qed.

Lemma log2_half : forall c, 2 <= c -> Z.log2 (py_shr c 1) = Z.log2 c - 1.
Proof.
  intros c Hc. unfold py_shr. rewrite Z.log2_shiftr by lia.
  pose proof (Z.log2_le_mono 2 c ltac:(lia)) as H. change (Z.log2 2) with 1 in H. lia.
Qed.

Lemma half_ge1 : forall c, 2 <= c -> 1 <= py_shr c 1 /\ 2 * py_shr c 1 <= c.
Proof.
  intros c Hc. rewrite py_shr_1. split.
  - apply Z.div_le_lower_bound; lia.
  - apply Z.mul_div_le. lia.
Qed.

Lemma NT_half : forall L c, 0 <= L -> 2 <= c ->
  NT L (py_shr c 1) + L / c + 4 <= NT L c.
Proof.
  intros L c HL Hc. unfold NT. rewrite log2_half by exact Hc.
  destruct (half_ge1 c Hc) as [Hh1 Hh2].
  assert (Hq : 2 * (L / c) <= L / py_shr c 1).
  { apply Z.div_le_lower_bound; [lia|].
    pose proof (Z.mul_div_le L c ltac:(lia)) as Hm.
    pose proof (Z.div_pos L c HL ltac:(lia)) as Hq0. nia. }
  lia.
Qed.

Lemma after_pass_spec : forall cfg clk s s', after_pass cfg clk s = Some s' ->
  p_phase s' = PTop /\ p_final s' = p_final s /\
  ((p_any s = true /\ p_chunk_size s' = p_chunk_size s) \/
   (p_final s < p_chunk_size s /\ p_chunk_size s' = py_shr (p_chunk_size s) 1)).
Proof.
  intros cfg clk s s' H. unfold after_pass in H.
  destruct (read_clock clk s) as [e s1] eqn:Erc.
  destruct (read_clock_same clk s e s1 Erc) as [Ec _ _ Ea Ef _ _ _].
  destruct e; [discriminate H|]. cbv zeta in H.
  destruct (p_any s1 &&
            match c_repeat cfg with
            | Always => true
            | Last => p_chunk_size s1 <=? p_final s1
            | Never => false
            end) eqn:E1.
  - injection H as H. subst s'. psimpl. apply andb_true_iff in E1. destruct E1 as [E1 _].
    split; [reflexivity|]. split; [exact Ef|]. left. split; [congruence | exact Ec].
  - destruct (p_chunk_size s1 <=? p_final s1) eqn:E2; [discriminate H|].
    injection H as H. subst s'. psimpl.
    split; [reflexivity|]. split; [exact Ef|]. right. split; [lia|]. rewrite Ec. reflexivity.
Qed.

Lemma after_pass_ok : forall kind N cfg clk s s' L,
  pinv kind s -> p_phase s = PAfter -> 0 <= L -> 0 <= N -> after_pass cfg clk s = Some s' ->
  pinv kind s' /\ Phi kind N s' L <= Phi kind N s L /\ need kind s' L + 1 <= need kind s L.
Proof.
  intros kind N cfg clk s s' L [Hc Hf _] Hph HL HN H.
  destruct (after_pass_spec cfg clk s s' H) as (Hp' & Hf' & Hcase).
  unfold Phi, need, Aw. rewrite Hph, Hp'.
  destruct Hcase as [[Hany Hc']|[Hlt Hc']].
  - split.
    + constructor; [lia | lia |]. intros Hx. rewrite Hp' in Hx. discriminate Hx.
    + rewrite Hc', Hany. cbn [b2z]. unfold NA. lia.
  - assert (H2 : 2 <= p_chunk_size s) by lia.
    destruct (half_ge1 _ H2) as [Hh1 Hh2].
    pose proof (NT_half L _ HL H2) as Hnt.
    pose proof (div_le_self L _ HL Hc) as Hd.
    split.
    + constructor; [lia | lia |]. intros Hx. rewrite Hp' in Hx. discriminate Hx.
    + rewrite Hc'. rewrite log2_half by exact H2. split.
      * apply phi_le; [|exact HN]. destruct (p_any s); cbn [b2z]; lia.
      * unfold NA. destruct (p_any s); lia.
Qed.

Lemma dru : forall L c, 0 <= L -> 1 <= c ->
  exists nc, divide_rounding_up L c = Ok nc /\ 0 <= nc <= L /\ nc <= L / c + 1.
Proof.
  intros L c HL Hc. unfold divide_rounding_up, py_divmod.
  assert (E : (c =? 0) = false) by lia. rewrite E. cbn [bind].
  eexists. split; [reflexivity|].
  pose proof (Z.div_mod L c ltac:(lia)) as Hdm.
  pose proof (Z.mod_pos_bound L c ltac:(lia)) as Hmb.
  pose proof (Z.div_pos L c HL ltac:(lia)) as Hq.
  unfold truthy_Z. destruct (L mod c =? 0) eqn:Em; cbn [negb]; nia.
Qed.

Lemma repeat_true_tr : forall n i, 0 <= i < n -> tr_at (py_repeat true n) i.
Proof.
  intros n i Hi. split; [lia|]. unfold py_repeat.
  assert (H : forall k j, (j < k)%nat -> nth_error (repeat true k) j = Some true).
  { induction k as [|k IH]; intros j Hj; [lia|]. destruct j as [|j]; [reflexivity|].
    cbn [repeat nth_error]. apply IH. lia. }
  apply H. lia.
Qed.

Lemma py_repeat_zlen : forall (A : Type) (x : A) n, 0 <= n -> zlen (py_repeat x n) = n.
Proof. intros A x n Hn. unfold zlen, py_repeat. rewrite repeat_length. lia. Qed.

Lemma s_index_from_at : forall l pos k, nth_error l k = Some true ->
  s_index_from l pos (pos + Z.of_nat k) = Some (pos + Z.of_nat k).
Proof.
  induction l as [|b r IH]; intros pos k H; [destruct k; discriminate H|].
  destruct k as [|k].
  - cbn in H. injection H as H. subst b. cbn [s_index_from].
    assert (E : (pos + Z.of_nat 0 <=? pos) = true) by lia. rewrite E. cbn [andb].
    f_equal. lia.
  - cbn [nth_error] in H. cbn [s_index_from].
    assert (E : (pos + Z.of_nat (S k) <=? pos) = false) by lia. rewrite E.
    rewrite andb_false_r.
    replace (pos + Z.of_nat (S k)) with (pos + 1 + Z.of_nat k) by lia.
    apply IH. exact H.
Qed.

Lemma s_index_at : forall l i, tr_at l i -> s_index l i = Some i.
Proof.
  intros l i [Hi H]. unfold s_index.
  pose proof (s_index_from_at l 0 (Z.to_nat i) H) as Hs.
  replace (0 + Z.of_nat (Z.to_nat i)) with i in Hs by lia. exact Hs.
Qed.

Lemma tables_total : forall (B : Type) (parts : list bytes) (g : bytes -> B) (l : list Z),
  (forall i, In i l -> 0 <= i < zlen parts) ->
  exists tb, flat_mapM (fun i => p <- py_index parts i ;; Ok [g p]) l = Ok tb /\
             length tb = length l.
Proof.
  intros B parts g. induction l as [|i l IH]; intros Hin.
  - exists []. split; reflexivity.
  - destruct (IH (fun j Hj => Hin j (or_intror Hj))) as (tb & Htb & Hlen).
    destruct (py_index_total _ parts i (Hin i (or_introl eq_refl))) as [p Hp].
    exists (g p :: tb). cbn [flat_mapM]. rewrite Hp. cbn [bind]. rewrite Htb. cbn [bind app].
    split; [reflexivity|]. cbn [length]. lia.
Qed.

Lemma py_range_in : forall n i, In i (py_range n) -> 0 <= i < n.
Proof.
  intros n i H. unfold py_range in H. apply in_map_iff in H. destruct H as (k & Hk & Hin).
  apply in_seq in Hin. lia.
Qed.

Lemma py_range_length : forall n, 0 <= n -> zlen (py_range n) = n.
Proof. intros n Hn. unfold zlen, py_range. rewrite map_length, seq_length. lia. Qed.

Lemma tc_len_le_parts : forall t, tc_len t <= zlen (tc_parts t).
Proof. intros t. unfold tc_len, count_false. pose proof (zlen_nonneg _ (filter negb (tc_red t))). lia. Qed.

Lemma pass_start_ok : forall kind N s best,
  wf best -> pinv kind s -> p_phase s = PTop -> tc_len best + 1 <= N ->
  exists s', pass_start kind s best = Ok s' /\ pinv kind s' /\
    Phi kind N s' (tc_len best) <= Phi kind N s (tc_len best) /\
    need kind s' (tc_len best) + 1 <= need kind s (tc_len best).
Proof.
  intros kind N s best Hwf [Hc Hf _] Hph HN.
  pose proof (tc_len_nonneg best Hwf) as HL.
  destruct (dru (tc_len best) (p_chunk_size s) HL Hc) as (nc & Hnc & Hnc1 & Hnc2).
  pose proof (div_le_self (tc_len best) _ HL Hc) as Hd.
  pose proof (Z.log2_nonneg (p_chunk_size s)) as Hlg.
  unfold pass_start. rewrite Hnc. cbn [bind].
  (* the "too few chunks" exit *)
  assert (Hfew : pinv kind (upd s false PAfter [] 0 0 0 0) /\
    Phi kind N (upd s false PAfter [] 0 0 0 0) (tc_len best) <= Phi kind N s (tc_len best) /\
    need kind (upd s false PAfter [] 0 0 0 0) (tc_len best) + 1 <= need kind s (tc_len best)).
  { split; [apply pinv_upd_after; assumption|].
    unfold Phi, need, Aw. psimpl. rewrite Hph. cbn [b2z]. unfold NA. split; [|lia].
    apply phi_le; lia. }
  pose proof (py_repeat_zlen bool true nc ltac:(lia)) as Hzl.
  destruct kind.
  - destruct (nc <? 3) eqn:E3; [eexists; split; [reflexivity | exact Hfew]|].
    eexists. split; [reflexivity|].
    pose proof (repeat_true_tr nc 0 ltac:(lia)) as Ht0.
    pose proof (repeat_true_tr nc 1 ltac:(lia)) as Ht1.
    pose proof (repeat_true_tr nc 2 ltac:(lia)) as Ht2.
    split; [|split].
    + apply pinv_upd_loop; try assumption. cbn [loop_inv]. psimpl.
      split; [exact Ht0|]. split; [exact Ht1|]. split; [lia|].
      split; [exact (s_index_at _ _ Ht2)|].
      pose proof (tr_at_step _ _ Ht0) as Hs. rewrite ntr_0 in Hs.
      change (0 + 1) with 1 in Hs. rewrite Hs. lia.
    + unfold Phi, Aw, Tm. psimpl. rewrite Hph. cbn [b2z]. rewrite Hzl. nia.
    + unfold need, rem, NA. psimpl. rewrite Hph. lia.
  - destruct (nc <? 2) eqn:E2; [eexists; split; [reflexivity | exact Hfew]|].
    pose proof (tc_len_le_parts best) as Hparts.
    destruct (tables_total _ (tc_parts best)
                (fun p => (count_diff p 123 125, count_diff p 91 93, count_diff p 40 41))
                (py_range nc)) as (tb & Htb & Hlen).
    { intros i Hin. apply py_range_in in Hin. lia. }
    rewrite Htb. cbn [bind].
    eexists. split; [reflexivity|].
    pose proof (repeat_true_tr nc 0 ltac:(lia)) as Ht0.
    assert (Hztb : zlen tb = nc).
    { pose proof (py_range_length nc ltac:(lia)) as Hr. unfold zlen in *. lia. }
    split; [|split].
    + constructor; psimpl; try assumption. intros _. cbn [loop_inv]. psimpl.
      split; [exact Ht0|]. split; [lia|]. rewrite ntr_0. lia.
    + unfold Phi, Aw, Tm. psimpl. rewrite Hph. cbn [b2z]. rewrite Hzl. nia.
    + unfold need, rem, NA. psimpl. rewrite Hph.
      assert (Hq : (tc_len best - 0 + p_chunk_size s - 1) / p_chunk_size s
                   <= tc_len best / p_chunk_size s + 1).
      { replace (tc_len best - 0 + p_chunk_size s - 1)
          with ((tc_len best - 1) + 1 * p_chunk_size s) by ring.
        rewrite Z.div_add by lia.
        pose proof (Z.div_le_mono (tc_len best - 1) (tc_len best) (p_chunk_size s)
                      ltac:(lia) ltac:(lia)). lia. }
      lia.
Qed.

(* ------------------------------------------------------------------ *)
(* 9. the fuelled loop over the non-proposing transitions              *)
(* ------------------------------------------------------------------ *)

Definition post (kind : pkind) (N : Z) (fuel : nat) (s : pstate) (best : tcase)
           (r : step pstate) : Prop :=
  match r with
  | Done => True
  | Fail e => e = OutOfFuel /\ Z.of_nat fuel < need kind s (tc_len best)
  | RawWrite _ _ => False
  | Propose t k => prop_ok kind N s best t k
  end.

Lemma cont_ok_weaken : forall kind N s s' best t k,
  cont_ok kind N s' best t k -> Phi kind N s' (tc_len best) <= Phi kind N s (tc_len best) ->
  cont_ok kind N s best t k.
Proof.
  intros kind N s s' best t k H Hle o. destruct (H o) as [Hi Hp]. cbv zeta in Hi, Hp.
  split; [exact Hi|]. cbv zeta. lia.
Qed.

Lemma prop_ok_weaken : forall kind N s s' best t k,
  prop_ok kind N s' best t k -> Phi kind N s' (tc_len best) <= Phi kind N s (tc_len best) ->
  prop_ok kind N s best t k.
Proof.
  intros kind N s s' best t k (Hw & Hs & Hl & Hc) Hle.
  split; [exact Hw|]. split; [exact Hs|]. split; [exact Hl|].
  exact (cont_ok_weaken kind N s s' best t k Hc Hle).
Qed.

Lemma post_step : forall kind N f s s' best r,
  post kind N f s' best r ->
  Phi kind N s' (tc_len best) <= Phi kind N s (tc_len best) ->
  need kind s' (tc_len best) + 1 <= need kind s (tc_len best) ->
  post kind N (S f) s best r.
Proof.
  intros kind N f s s' best r H HPhi Hneed. destruct r as [t k|b s2| |e]; cbn [post] in *.
  - exact (prop_ok_weaken kind N s s' best t k H HPhi).
  - exact H.
  - exact I.
  - destruct H as [He Hf]. split; [exact He | lia].
Qed.

Lemma post_prop : forall kind N f s s' best r,
  match r with Propose t k => prop_ok kind N s' best t k | _ => False end ->
  Phi kind N s' (tc_len best) <= Phi kind N s (tc_len best) ->
  post kind N f s best r.
Proof.
  intros kind N f s s' best r H HPhi. destruct r as [t k|b s2| |e]; try contradiction.
  cbn [post]. exact (prop_ok_weaken kind N s s' best t k H HPhi).
Qed.

Lemma set_after_ok : forall kind N s L, pinv kind s -> p_phase s = PLoop -> 0 <= L ->
  pinv kind (set_pp PAfter s) /\
  Phi kind N (set_pp PAfter s) L <= Phi kind N s L /\
  need kind (set_pp PAfter s) L + 1 <= need kind s L.
Proof.
  intros kind N s L [Hc Hf Hl] Hph HL. specialize (Hl Hph).
  pose proof (Tm_nonneg kind s Hl) as HT. pose proof (rem_nonneg kind s L) as Hr.
  split; [|split].
  - constructor; psimpl; try assumption. intros Hx. discriminate Hx.
  - unfold Phi, Aw. psimpl. rewrite Hph. lia.
  - unfold need. psimpl. rewrite Hph. lia.
Qed.

Lemma pdrive_ok : forall kind cfg clk N fuel s best,
  wf best -> tc_len best + 1 <= N -> pinv kind s ->
  post kind N fuel s best (pdrive fuel kind cfg clk s best).
Proof.
  intros kind cfg clk N. induction fuel as [|f IH]; intros s best Hwf HN Hi.
  - cbn [pdrive post]. split; [reflexivity|].
    pose proof (need_pos kind s (tc_len best) (tc_len_nonneg best Hwf) (pi_c _ _ Hi)). lia.
  - pose proof (tc_len_nonneg best Hwf) as HL.
    cbn [pdrive]. destruct (p_phase s) eqn:Hph.
    + (* PTop *)
      destruct (pass_start_ok kind N s best Hwf Hi Hph HN) as (s' & Hps & Hi' & HPhi & Hneed).
      rewrite Hps.
      exact (post_step kind N f s s' best _ (IH s' best Hwf HN Hi') HPhi Hneed).
    + (* PLoop *)
      destruct (set_after_ok kind N s (tc_len best) Hi Hph HL) as (Hia & HPa & Hna).
      destruct (negb match kind with
                     | KAround => p_chunk_start s + p_chunk_size s <? tc_len best
                     | KBalanced => p_chunk_start s <? tc_len best
                     end) eqn:Econt.
      { exact (post_step kind N f s _ best _ (IH _ best Hwf HN Hia) HPa Hna). }
      destruct (read_clock clk s) as [expired s1] eqn:Erc.
      destruct (read_clock_same clk s expired s1 Erc) as [Ec Ecst Eph Eany Efin EPhi Eneed Einv].
      pose proof (Einv kind Hi) as Hi1.
      assert (Hph1 : p_phase s1 = PLoop) by congruence.
      destruct expired.
      { destruct (set_after_ok kind N s1 (tc_len best) Hi1 Hph1 HL) as (Hia1 & HPa1 & Hna1).
        rewrite EPhi in HPa1. rewrite Eneed in Hna1.
        exact (post_step kind N f s _ best _ (IH _ best Hwf HN Hia1) HPa1 Hna1). }
      destruct kind.
      * apply (post_prop KAround N (S f) s s1 best); [|rewrite EPhi; lia].
        apply around_propose_ok; try assumption; [lia|].
        rewrite Ec, Ecst. lia.
      * pose proof (balanced_body_ok N s1 best Hwf ltac:(lia) Hi1 Hph1
                      ltac:(rewrite Ecst; lia)) as Hb.
        destruct (balanced_body s1 best) as [st|s2].
        -- apply (post_prop KBalanced N (S f) s s1 best); [exact Hb | rewrite EPhi; lia].
        -- destruct Hb as (Hi2 & HP2 & Hn2). rewrite EPhi in HP2. rewrite Eneed in Hn2.
           exact (post_step KBalanced N f s s2 best _ (IH s2 best Hwf HN Hi2) HP2 Hn2).
    + (* PAfter *)
      destruct (after_pass cfg clk s) as [s'|] eqn:Eap; [|exact I].
      destruct (after_pass_ok kind N cfg clk s s' (tc_len best) Hi Hph HL ltac:(lia) Eap)
        as (Hi' & HPhi & Hneed).
      exact (post_step kind N f s s' best _ (IH s' best Hwf HN Hi') HPhi Hneed).
Qed.

(* ------------------------------------------------------------------ *)
(* 10. C04: the pair strategies only delete                            *)
(* ------------------------------------------------------------------ *)

Lemma lpo2st_ge1 : forall n, 1 <= largest_power_of_two_smaller_than n.
Proof.
  intros n. unfold largest_power_of_two_smaller_than. cbv zeta.
  pose proof (top_bit_positive n) as Hp.
  destruct ((py_shl 1 (Z.max (bit_length n - 1) 0) =? n) && (n >? 1)) eqn:E; [|lia].
  apply andb_true_iff in E. destruct E as [E1 E2].
  rewrite py_shr_1. apply Z.div_le_lower_bound; lia.
Qed.

Lemma pstart_pinv : forall kind cfg clk tc0, 1 <= c_max cfg -> pinv kind (pstart cfg clk tc0).
Proof.
  intros kind cfg clk tc0 Hmax. unfold pstart. constructor; psimpl.
  - pose proof (lpo2st_ge1 (tc_len tc0)). lia.
  - lia.
  - intros Hx. discriminate Hx.
Qed.

Lemma pairs_deleting_pinv : forall kind cfg clk,
  deleting (pairs kind cfg clk) (fun st _ => pinv kind st).
Proof.
  intros kind cfg clk st best Hi Hwf. cbn [pairs s_next]. unfold pnext.
  pose proof (pdrive_ok kind cfg clk (tc_len best + 1) (pairs_fuel st best) st best Hwf
                ltac:(lia) Hi) as H.
  destruct (pdrive (pairs_fuel st best) kind cfg clk st best) as [t k|b s'| |e]; cbn [post] in H.
  - destruct H as (_ & Hs & _ & Hc). split; [exact Hs|].
    split; [exact (proj1 (Hc Skipped))|].
    split; [exact (proj1 (Hc (Tested false))) | exact (proj1 (Hc (Tested true)))].
  - exact H.
  - exact I.
  - exact I.
Qed.

Lemma pairs_is_deleting :
  forall kind cfg clk tc0, 1 <= c_max cfg ->
    exists I, I (pstart cfg clk tc0) tc0 /\ deleting (pairs kind cfg clk) I.
Proof.
  intros kind cfg clk tc0 Hmax. exists (fun st _ => pinv kind st).
  split; [apply pstart_pinv; exact Hmax | apply pairs_deleting_pinv].
Qed.

Lemma pairs_only_deletes :
  forall kind cfg clk verdict fuel tc0 file0,
    wf tc0 -> content tc0 = file0 -> 1 <= c_max cfg ->
    let w := result_world (run (pairs kind cfg clk) verdict fuel tc0 file0) in
    tests_are_deletions tc0 (chron w) /\ exists t, sub_reducible tc0 t /\ w_file w = content t.
Proof.
  intros kind cfg clk verdict fuel tc0 file0 Hwf Hc Hmax.
  destruct (pairs_is_deleting kind cfg clk tc0 Hmax) as (I & HI0 & Hdel).
  apply (deleting_runs_only_delete pstate (pairs kind cfg clk) I verdict fuel tc0 file0
           Hwf Hc HI0 Hdel).
Qed.

Print Assumptions pairs_is_deleting.
Print Assumptions pairs_only_deletes.
Print Assumptions pdrive_ok.
