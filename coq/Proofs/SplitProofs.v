(* Proofs for C06 (split + concat = identity), C08 (DDBEGIN/DDEND scan) and C15 (atom
   boundaries).  Every lemma used by Props/C06.v, Props/C08.v, Props/C15.v is here. *)
From Coq Require Import ZArith NArith List Bool Lia ZifyBool Arith.
From Lithium Require Import PyBase TcRecord PyLines Markers Splitters SplitSpec.
Import ListNotations.
Local Open Scope nat_scope.

(* ------------------------------------------------------------------------------------ *)
(* generic list facts                                                                   *)
(* ------------------------------------------------------------------------------------ *)

Lemma last_app_ne {A} : forall (p t : list A) d, t <> [] -> last (p ++ t) d = last t d.
Proof.
  induction p as [|a p IH]; intros t d Ht; [reflexivity|].
  destruct (p ++ t) as [|a0 l0] eqn:E.
  - apply app_eq_nil in E. destruct E as [_ E]. contradiction.
  - change (last ((a :: p) ++ t) d) with
      (match p ++ t with [] => a | _ :: _ => last (p ++ t) d end).
    rewrite E. rewrite <- E. apply IH. exact Ht.
Qed.

Lemma In_removelast {A} : forall (l : list A) x, In x (removelast l) -> In x l.
Proof.
  induction l as [|a l IH]; intros x H; [exact H|].
  destruct l as [|b l]; [contradiction|].
  change (removelast (a :: b :: l)) with (a :: removelast (b :: l)) in H.
  destruct H as [H|H]; [left; exact H | right; apply IH; exact H].
Qed.

Lemma length_removelast {A} : forall (l : list A), length (removelast l) = length l - 1.
Proof.
  induction l as [|a l IH]; [reflexivity|].
  destruct l as [|b l]; [reflexivity|].
  change (removelast (a :: b :: l)) with (a :: removelast (b :: l)).
  simpl length in *. lia.
Qed.

Lemma skipn_add {A} : forall y x (l : list A), skipn (y + x) l = skipn x (skipn y l).
Proof.
  induction y as [|y IH]; intros x l; [reflexivity|].
  destruct l as [|a l]; [simpl; destruct x; reflexivity|]. simpl. apply IH.
Qed.

Lemma concat_snoc {A} : forall (ls : list (list A)) l, concat (ls ++ [l]) = concat ls ++ l.
Proof.
  intros ls l. rewrite concat_app. simpl. rewrite app_nil_r. reflexivity.
Qed.

(* ------------------------------------------------------------------------------------ *)
(* splitlines                                                                           *)
(* ------------------------------------------------------------------------------------ *)

Lemma simple_term_cases : forall b, simple_term b = true -> In [b] terminators.
Proof.
  intros b H. unfold simple_term in H.
  repeat rewrite orb_true_iff in H. repeat rewrite N.eqb_eq in H.
  unfold terminators.
  destruct H as [[[[[H|H]|H]|H]|H]|H]; subst b; simpl;
    repeat (first [left; reflexivity | right]).
Qed.

Lemma term_nonempty : forall t, In t terminators -> t <> [].
Proof.
  intros t Ht E. subst t. unfold terminators in Ht. simpl in Ht.
  repeat (destruct Ht as [Ht|Ht]; [discriminate Ht|]). contradiction.
Qed.

Lemma term_removelast_simple :
  forall t, In t terminators -> forall x, In x (removelast t) -> simple_term x = false.
Proof.
  intros t Ht x Hx. unfold terminators in Ht. simpl in Ht.
  repeat (destruct Ht as [Ht|Ht];
          [subst t; simpl in Hx;
           repeat (destruct Hx as [Hx|Hx]; [subst x; reflexivity|]); contradiction|]).
  contradiction.
Qed.

Lemma term_last13 : forall t, In t terminators -> last t 0%N = 13%N -> t = [13%N].
Proof.
  intros t Ht Hl. unfold terminators in Ht. simpl in Ht.
  repeat (destruct Ht as [Ht|Ht];
          [subst t; simpl in Hl; first [reflexivity | discriminate Hl]|]).
  contradiction.
Qed.

(* relational presentation of [sl]: either the byte is kept in the current line, or a
   terminator t is consumed and the line is closed *)
Inductive SL : bytes -> bytes -> list bytes -> Prop :=
| SL_nil0 : SL [] [] []
| SL_nil1 : forall cur, cur <> [] -> SL cur [] [rev cur]
| SL_cont : forall cur b r ls,
    simple_term b = false -> SL (b :: cur) r ls -> SL cur (b :: r) ls
| SL_cut : forall cur t rest d l ls,
    In t terminators ->
    (t = [13%N] -> forall r', rest <> 10%N :: r') ->
    d = t ++ rest -> l = rev cur ++ t ->
    SL [] rest ls -> SL cur d (l :: ls).

Lemma sl_nil : forall cur, sl cur [] = match cur with [] => [] | _ => [rev cur] end.
Proof. reflexivity. Qed.

Lemma sl_cons : forall cur b r,
  sl cur (b :: r) =
      if simple_term b then rev (b :: cur) :: sl [] r
      else if (b =? 13)%N then
        match r with
        | c :: r' => if (c =? 10)%N then rev (c :: b :: cur) :: sl [] r'
                     else rev (b :: cur) :: sl [] r
        | [] => [rev (b :: cur)]
        end
      else if (b =? 194)%N then
        match r with
        | c :: r' => if (c =? 133)%N then rev (c :: b :: cur) :: sl [] r' else sl (b :: cur) r
        | [] => sl (b :: cur) r
        end
      else if (b =? 226)%N then
        match r with
        | c1 :: r1 =>
            if (c1 =? 128)%N then
              match r1 with
              | c2 :: r2 => if ((c2 =? 168) || (c2 =? 169))%N
                            then rev (c2 :: c1 :: b :: cur) :: sl [] r2
                            else sl (b :: cur) r
              | [] => sl (b :: cur) r
              end
            else sl (b :: cur) r
        | [] => sl (b :: cur) r
        end
      else sl (b :: cur) r.
Proof. reflexivity. Qed.

Ltac in_term := unfold terminators; simpl; repeat (first [left; reflexivity | right]).

Lemma sl_SL_aux : forall n d, length d <= n -> forall cur, SL cur d (sl cur d).
Proof.
  induction n as [|n IH]; intros d Hlen cur.
  - destruct d as [|b r]; [|simpl in Hlen; lia].
    rewrite sl_nil. destruct cur; [constructor | apply SL_nil1; discriminate].
  - destruct d as [|b r].
    + rewrite sl_nil. destruct cur; [constructor | apply SL_nil1; discriminate].
    + simpl in Hlen. rewrite sl_cons.
      assert (Hcont : SL cur (b :: r) (sl (b :: cur) r) \/ simple_term b = true).
      { destruct (simple_term b) eqn:Hst; [right; reflexivity|left].
        apply SL_cont; [exact Hst | apply IH; lia]. }
      destruct (simple_term b) eqn:Hst.
      { apply SL_cut with (t := [b]) (rest := r);
          [apply simple_term_cases; exact Hst | | reflexivity | reflexivity | apply IH; lia].
        intros E. injection E as ->. discriminate Hst. }
      destruct Hcont as [Hcont|Hcont]; [|discriminate Hcont].
      destruct (N.eqb_spec b 13) as [->|Hb13].
      { destruct r as [|c r'].
        - apply SL_cut with (t := [13%N]) (rest := []);
            [in_term | intros _ r' E; discriminate E | reflexivity | reflexivity | constructor].
        - destruct (N.eqb_spec c 10) as [->|Hc].
          + apply SL_cut with (t := [13%N; 10%N]) (rest := r');
              [in_term | intros E; discriminate E | reflexivity
              | simpl; rewrite <- app_assoc; reflexivity | apply IH; simpl in Hlen; lia].
          + apply SL_cut with (t := [13%N]) (rest := c :: r');
              [in_term | intros _ r'' E; injection E as E _; contradiction | reflexivity
              | reflexivity | apply IH; lia]. }
      destruct (N.eqb_spec b 194) as [->|Hb194].
      { destruct r as [|c r']; [exact Hcont|].
        destruct (N.eqb_spec c 133) as [->|Hc]; [|exact Hcont].
        apply SL_cut with (t := [194%N; 133%N]) (rest := r');
          [in_term | intros E; discriminate E | reflexivity
          | simpl; rewrite <- app_assoc; reflexivity | apply IH; simpl in Hlen; lia]. }
      destruct (N.eqb_spec b 226) as [->|Hb226]; [|exact Hcont].
      destruct r as [|c1 r1]; [exact Hcont|].
      destruct (N.eqb_spec c1 128) as [->|Hc1]; [|exact Hcont].
      destruct r1 as [|c2 r2]; [exact Hcont|].
      destruct ((c2 =? 168) || (c2 =? 169))%N eqn:Hc2; [|exact Hcont].
      rewrite orb_true_iff in Hc2. repeat rewrite N.eqb_eq in Hc2.
      destruct Hc2 as [->| ->].
      * apply SL_cut with (t := [226%N; 128%N; 168%N]) (rest := r2);
          [in_term | intros E; discriminate E | reflexivity
          | simpl; repeat rewrite <- app_assoc; reflexivity | apply IH; simpl in Hlen; lia].
      * apply SL_cut with (t := [226%N; 128%N; 169%N]) (rest := r2);
          [in_term | intros E; discriminate E | reflexivity
          | simpl; repeat rewrite <- app_assoc; reflexivity | apply IH; simpl in Hlen; lia].
Qed.

Lemma sl_SL : forall cur d, SL cur d (sl cur d).
Proof. intros cur d. apply sl_SL_aux with (n := length d). apply Nat.le_refl. Qed.

Lemma SL_concat : forall cur d ls, SL cur d ls -> concat ls = rev cur ++ d.
Proof.
  intros cur d ls H.
  induction H as [|cur Hc|cur b r ls Hst H IH|cur t rest d l ls Ht H13 Hd Hl H IH].
  - reflexivity.
  - simpl. reflexivity.
  - rewrite IH. simpl. rewrite <- app_assoc. reflexivity.
  - subst d l. simpl. rewrite IH. simpl. rewrite <- app_assoc. reflexivity.
Qed.

Lemma SL_nonempty : forall cur d ls, SL cur d ls -> Forall (fun l => l <> []) ls.
Proof.
  intros cur d ls H.
  induction H as [|cur Hc|cur b r ls Hst H IH|cur t rest d l ls Ht H13 Hd Hl H IH].
  - constructor.
  - constructor; [|constructor]. intros E. apply Hc.
    rewrite <- (rev_involutive cur). rewrite E. reflexivity.
  - exact IH.
  - constructor; [|exact IH]. subst l. intros E. apply app_eq_nil in E.
    destruct E as [_ E]. exact (term_nonempty t Ht E).
Qed.

Lemma SL_terminated :
  forall cur d ls, SL cur d ls -> forall l, In l (removelast ls) -> ends_with_terminator l.
Proof.
  intros cur d ls H.
  induction H as [|cur Hc|cur b r ls Hst H IH|cur t rest d l ls Ht H13 Hd Hl H IH];
    intros l0 Hin.
  - contradiction.
  - contradiction.
  - apply IH. exact Hin.
  - destruct ls as [|y ls']; [contradiction|].
    change (removelast (l :: y :: ls')) with (l :: removelast (y :: ls')) in Hin.
    destruct Hin as [Hin|Hin].
    + subst l0 l. exists t. split; [exact Ht|]. exists (rev cur). reflexivity.
    + apply IH. exact Hin.
Qed.

Lemma SL_simple_last :
  forall cur d ls, SL cur d ls ->
    (forall x, In x cur -> simple_term x = false) ->
    forall l b, In l ls -> simple_term b = true -> ~ In b (removelast l).
Proof.
  intros cur d ls H.
  induction H as [|cur Hc|cur b r ls Hst H IH|cur t rest d l ls Ht H13 Hd Hl H IH];
    intros Hcur l0 b0 Hin Hb0 Hrl.
  - contradiction.
  - destruct Hin as [Hin|Hin]; [|contradiction]. subst l0.
    apply In_removelast in Hrl. apply in_rev in Hrl.
    rewrite (Hcur b0 Hrl) in Hb0. discriminate Hb0.
  - apply (IH) with (l := l0) (b := b0); try assumption.
    intros x [Hx|Hx]; [subst x; exact Hst | apply Hcur; exact Hx].
  - destruct Hin as [Hin|Hin].
    + subst l0 l. rewrite removelast_app in Hrl by (apply term_nonempty; exact Ht).
      apply in_app_or in Hrl. destruct Hrl as [Hrl|Hrl].
      * apply in_rev in Hrl. rewrite (Hcur b0 Hrl) in Hb0. discriminate Hb0.
      * rewrite (term_removelast_simple t Ht b0 Hrl) in Hb0. discriminate Hb0.
    + apply (IH) with (l := l0) (b := b0); try assumption.
      intros x Hx. contradiction.
Qed.

Lemma SL_crlf :
  forall cur d ls, SL cur d ls ->
    forall l1 l2, In (l1, l2) (adjacent ls) ->
      ~ (ends_with [13%N] l1 /\ exists r, l2 = 10%N :: r).
Proof.
  intros cur d ls H.
  induction H as [|cur Hc|cur b r ls Hst H IH|cur t rest d l ls Ht H13 Hd Hl H IH];
    intros l1 l2 Hin [[p Hp] [r0 Hr0]].
  - contradiction.
  - contradiction.
  - apply (IH l1 l2 Hin). split; [exists p; exact Hp | exists r0; exact Hr0].
  - destruct ls as [|y ls']; [contradiction|].
    change (adjacent (l :: y :: ls')) with ((l, y) :: adjacent (y :: ls')) in Hin.
    destruct Hin as [Hin|Hin].
    + injection Hin as E1 E2. subst l1 l2 l.
      assert (Hlast : last t 0%N = 13%N).
      { rewrite <- (last_app_ne (rev cur) t 0%N (term_nonempty t Ht)).
        rewrite Hp. apply last_last. }
      pose proof (term_last13 t Ht Hlast) as Et.
      pose proof (SL_concat _ _ _ H) as Hcat. simpl in Hcat.
      apply (H13 Et (r0 ++ concat ls')). rewrite <- Hcat. rewrite Hr0. reflexivity.
    + apply (IH l1 l2 Hin). split; [exists p; exact Hp | exists r0; exact Hr0].
Qed.

(* C06 *)
Lemma splitlines_concat : forall d, concat (splitlines d) = d.
Proof. intros d. exact (SL_concat [] d _ (sl_SL [] d)). Qed.

Lemma splitlines_nonempty : forall d, Forall (fun l => l <> []) (splitlines d).
Proof. intros d. exact (SL_nonempty [] d _ (sl_SL [] d)). Qed.

(* C15 *)
Lemma lines_terminated :
  forall d l, In l (removelast (splitlines d)) -> ends_with_terminator l.
Proof. intros d. exact (SL_terminated [] d _ (sl_SL [] d)). Qed.

Lemma lines_simple_term_last :
  forall d l b, In l (splitlines d) -> simple_term b = true -> ~ In b (removelast l).
Proof.
  intros d. apply (SL_simple_last [] d _ (sl_SL [] d)). intros x Hx. contradiction.
Qed.

Lemma lines_crlf_not_split :
  forall d l1 l2, In (l1, l2) (adjacent (splitlines d)) ->
    ~ (ends_with [13%N] l1 /\ exists r, l2 = 10%N :: r).
Proof. intros d. exact (SL_crlf [] d _ (sl_SL [] d)). Qed.

(* ------------------------------------------------------------------------------------ *)
(* contains / first_index                                                               *)
(* ------------------------------------------------------------------------------------ *)

Lemma starts_with_spec : forall n h, starts_with n h = true <-> exists b, h = n ++ b.
Proof.
  induction n as [|x n IH]; intros h.
  - destruct h; simpl; (split; [intros _; eexists; reflexivity | reflexivity]).
  - destruct h as [|y h]; simpl.
    + split; [discriminate | intros [b Hb]; discriminate Hb].
    + rewrite andb_true_iff, N.eqb_eq, IH. split.
      * intros [Hxy [b Hb]]. subst y h. exists b. reflexivity.
      * intros [b Hb]. injection Hb as Hy Hh. split; [symmetry; exact Hy | exists b; exact Hh].
Qed.

Lemma contains_nil : forall n, contains n [] = starts_with n [] || false.
Proof. destruct n; reflexivity. Qed.

Lemma contains_cons : forall n y h,
  contains n (y :: h) = starts_with n (y :: h) || contains n h.
Proof. destruct n; reflexivity. Qed.

Lemma contains_spec : forall n h, contains n h = true <-> exists a b, h = a ++ n ++ b.
Proof.
  intros n. induction h as [|y h IH].
  - rewrite contains_nil, orb_false_r, starts_with_spec. split.
    + intros [b Hb]. exists [], b. exact Hb.
    + intros [a [b Hb]]. destruct a as [|z a]; [|discriminate Hb]. exists b. exact Hb.
  - rewrite contains_cons, orb_true_iff, starts_with_spec, IH. split.
    + intros [[b Hb]|[a [b Hb]]].
      * exists [], b. exact Hb.
      * exists (y :: a), b. rewrite Hb. reflexivity.
    + intros [a [b Hb]]. destruct a as [|z a].
      * left. exists b. exact Hb.
      * right. simpl in Hb. injection Hb as _ Hh. exists a, b. exact Hh.
Qed.

Lemma first_index_spec :
  forall A (p : A -> bool) l i, first_index p l = Some i <->
    (i < length l)%nat /\ (exists x, nth_error l i = Some x /\ p x = true) /\
    forall j x, (j < i)%nat -> nth_error l j = Some x -> p x = false.
Proof.
  intros A p. induction l as [|a l IH]; intros i.
  - simpl. split; [discriminate|]. intros [H _]. inversion H.
  - simpl first_index. destruct (p a) eqn:Hpa.
    + split.
      * intros E. injection E as <-. split; [simpl; lia|]. split.
        -- exists a. split; [reflexivity | exact Hpa].
        -- intros j x Hj. inversion Hj.
      * intros [_ [_ Hall]]. destruct i as [|i]; [reflexivity|].
        assert (Hf : p a = false) by (apply (Hall 0 a); [lia | reflexivity]).
        rewrite Hf in Hpa. discriminate Hpa.
    + destruct i as [|i].
      * split.
        -- destruct (first_index p l); discriminate.
        -- intros [_ [[x [Hx Hpx]] _]]. simpl in Hx. injection Hx as <-.
           rewrite Hpx in Hpa. discriminate Hpa.
      * assert (E : option_map S (first_index p l) = Some (S i) <-> first_index p l = Some i).
        { destruct (first_index p l) as [k|]; simpl.
          - split; intros E; injection E as E; subst; reflexivity.
          - split; discriminate. }
        rewrite E, IH. split.
        -- intros [Hlt [[x [Hx Hpx]] Hall]]. split; [simpl; lia|]. split.
           ++ exists x. split; [exact Hx | exact Hpx].
           ++ intros j y Hj Hy. destruct j as [|j].
              ** simpl in Hy. injection Hy as <-. exact Hpa.
              ** apply (Hall j y); [lia | exact Hy].
        -- intros [Hlt [[x [Hx Hpx]] Hall]]. split; [simpl in Hlt; lia|]. split.
           ++ exists x. split; [exact Hx | exact Hpx].
           ++ intros j y Hj Hy. apply (Hall (S j) y); [lia | exact Hy].
Qed.

Lemma first_index_none :
  forall A (p : A -> bool) l, existsb p l = false -> first_index p l = None.
Proof.
  intros A p. induction l as [|a l IH]; intros H; [reflexivity|].
  simpl in *. apply orb_false_iff in H. destruct H as [Ha Hl].
  rewrite Ha, (IH Hl). reflexivity.
Qed.

(* ------------------------------------------------------------------------------------ *)
(* the marker scan                                                                      *)
(* ------------------------------------------------------------------------------------ *)

Lemma scan_end_cons : forall acc l r,
  scan_end acc (l :: r) =
    if has_end l then Some (concat (rev acc), l ++ concat r) else scan_end (l :: acc) r.
Proof. reflexivity. Qed.

Lemma scan_begin_cons : forall acc l r,
  scan_begin acc (l :: r) =
    if has_begin l then
      match scan_end [] r with
      | Some (region, after) => Marked (concat (rev (l :: acc))) region after
      | None => MarkerError
      end
    else if has_end l then MarkerError
    else scan_begin (l :: acc) r.
Proof. reflexivity. Qed.

Lemma concat_rev_cons : forall (l : bytes) acc, concat (rev (l :: acc)) = concat (rev acc) ++ l.
Proof. intros l acc. simpl rev. apply concat_snoc. Qed.

Lemma scan_end_spec : forall ls acc,
  scan_end acc ls =
    match first_index has_end ls with
    | None => None
    | Some j => Some (concat (rev acc) ++ concat (firstn j ls), concat (skipn j ls))
    end.
Proof.
  induction ls as [|l r IH]; intros acc; [reflexivity|].
  rewrite scan_end_cons. simpl first_index. destruct (has_end l) eqn:Hl.
  - simpl. rewrite app_nil_r. reflexivity.
  - rewrite IH. destruct (first_index has_end r) as [j|]; [|reflexivity].
    rewrite concat_rev_cons. simpl. rewrite <- app_assoc. reflexivity.
Qed.

Definition spec_lines (pre : bytes) (ls : list bytes) : marked :=
  match first_index has_begin ls with
  | None => if existsb has_end ls then MarkerError else NoMarkers (pre ++ concat ls)
  | Some i =>
      if existsb has_end (firstn i ls) then MarkerError
      else match first_index has_end (skipn (S i) ls) with
           | None => MarkerError
           | Some j => Marked (pre ++ concat (firstn (S i) ls))
                              (concat (firstn j (skipn (S i) ls)))
                              (concat (skipn (S i + j) ls))
           end
  end.

Lemma scan_begin_spec : forall ls acc, scan_begin acc ls = spec_lines (concat (rev acc)) ls.
Proof.
  induction ls as [|l r IH]; intros acc.
  - unfold spec_lines. simpl. rewrite app_nil_r. reflexivity.
  - rewrite scan_begin_cons. unfold spec_lines. simpl first_index.
    destruct (has_begin l) eqn:Hb.
    + cbn [firstn existsb skipn Nat.add]. rewrite scan_end_spec.
      destruct (first_index has_end r) as [j|]; [|reflexivity].
      rewrite concat_rev_cons. simpl. rewrite app_nil_r. reflexivity.
    + destruct (has_end l) eqn:He.
      * destruct (first_index has_begin r) as [i|]; simpl; rewrite He; reflexivity.
      * rewrite IH. unfold spec_lines.
        destruct (first_index has_begin r) as [i|]; simpl option_map; cbv iota.
        -- change (firstn (S i) (l :: r)) with (l :: firstn i r).
           change (existsb has_end (l :: firstn i r))
             with (has_end l || existsb has_end (firstn i r)).
           rewrite He. rewrite orb_false_l.
           change (skipn (S (S i)) (l :: r)) with (skipn (S i) r).
           destruct (existsb has_end (firstn i r)); [reflexivity|].
           destruct (first_index has_end (skipn (S i) r)) as [j|]; [|reflexivity].
           change (skipn (S (S i) + j) (l :: r)) with (skipn (S i + j) r).
           change (firstn (S (S i)) (l :: r)) with (l :: firstn (S i) r).
           rewrite concat_rev_cons. simpl concat. rewrite <- app_assoc. reflexivity.
        -- change (existsb has_end (l :: r)) with (has_end l || existsb has_end r).
           rewrite He, orb_false_l. destruct (existsb has_end r); [reflexivity|].
           rewrite concat_rev_cons. simpl concat. rewrite <- app_assoc. reflexivity.
Qed.

(* C08 *)
Lemma find_markers_spec : forall d, find_markers d = markers_spec d.
Proof.
  intros d. unfold find_markers, markers_spec. rewrite scan_begin_spec. unfold spec_lines.
  cbv zeta. change (concat (rev [])) with (@nil N).
  destruct (first_index has_begin (splitlines d)) as [i|].
  - reflexivity.
  - rewrite splitlines_concat. reflexivity.
Qed.

(* C06 *)
Lemma find_markers_partition :
  forall d, match find_markers d with
            | NoMarkers w => w = d
            | Marked b r a => b ++ r ++ a = d
            | MarkerError => True
            end.
Proof.
  intros d. rewrite find_markers_spec. unfold markers_spec. cbv zeta.
  pose proof (splitlines_concat d) as Hc. set (ls := splitlines d) in *.
  destruct (first_index has_begin ls) as [i|].
  - destruct (existsb has_end (firstn i ls)); [exact I|].
    destruct (first_index has_end (skipn (S i) ls)) as [j|]; [|exact I].
    transitivity (concat ls); [|exact Hc].
    rewrite <- concat_app, <- concat_app. f_equal.
    rewrite skipn_add, firstn_skipn, firstn_skipn. reflexivity.
  - destruct (existsb has_end ls); [exact I | reflexivity].
Qed.

Lemma both_words_open_gen :
  forall pre acc l rest, has_begin l = true ->
    existsb has_begin pre = false -> existsb has_end pre = false ->
    scan_begin acc (pre ++ l :: rest) =
      match scan_end [] rest with
      | Some (region, after) => Marked (concat (rev acc) ++ concat (pre ++ [l])) region after
      | None => MarkerError
      end.
Proof.
  induction pre as [|x pre IH]; intros acc l rest Hb Hpb Hpe.
  - simpl app. rewrite scan_begin_cons, Hb.
    destruct (scan_end [] rest) as [[region after]|]; [|reflexivity].
    rewrite concat_rev_cons. simpl. rewrite app_nil_r. reflexivity.
  - simpl in Hpb, Hpe. apply orb_false_iff in Hpb. apply orb_false_iff in Hpe.
    destruct Hpb as [Hxb Hpb]. destruct Hpe as [Hxe Hpe].
    change ((x :: pre) ++ l :: rest) with (x :: (pre ++ l :: rest)).
    rewrite scan_begin_cons, Hxb, Hxe. rewrite (IH (x :: acc) l rest Hb Hpb Hpe).
    destruct (scan_end [] rest) as [[region after]|]; [|reflexivity].
    rewrite concat_rev_cons. simpl concat. rewrite <- app_assoc. reflexivity.
Qed.

Lemma both_words_open :
  forall pre l rest, has_begin l = true -> has_end l = true ->
    existsb has_begin pre = false -> existsb has_end pre = false ->
    scan_begin [] (pre ++ l :: rest) =
      match scan_end [] rest with
      | Some (region, after) => Marked (concat (pre ++ [l])) region after
      | None => MarkerError
      end.
Proof.
  intros pre l rest Hb _ Hpb Hpe. exact (both_words_open_gen pre [] l rest Hb Hpb Hpe).
Qed.

Lemma both_words_close_gen :
  forall mid acc l rest, has_end l = true -> existsb has_end mid = false ->
    scan_end acc (mid ++ l :: rest) = Some (concat (rev acc) ++ concat mid, l ++ concat rest).
Proof.
  induction mid as [|x mid IH]; intros acc l rest He Hm.
  - simpl app. rewrite scan_end_cons, He. simpl. rewrite app_nil_r. reflexivity.
  - simpl in Hm. apply orb_false_iff in Hm. destruct Hm as [Hx Hm].
    change ((x :: mid) ++ l :: rest) with (x :: (mid ++ l :: rest)).
    rewrite scan_end_cons, Hx, (IH (x :: acc) l rest He Hm).
    rewrite concat_rev_cons. simpl concat. rewrite <- app_assoc. reflexivity.
Qed.

Lemma both_words_close :
  forall mid l rest, has_end l = true -> existsb has_end mid = false ->
    scan_end [] (mid ++ l :: rest) = Some (concat mid, l ++ concat rest).
Proof. intros mid l rest He Hm. exact (both_words_close_gen mid [] l rest He Hm). Qed.

Lemma marker_error_early :
  forall sp d, find_markers d = MarkerError -> load sp d = Err LithiumError.
Proof. intros sp d H. unfold load. rewrite H. reflexivity. Qed.

Lemma no_markers_whole :
  forall sp d, existsb has_begin (splitlines d) = false -> existsb has_end (splitlines d) = false ->
    load sp d = (s <- sp d ;; Ok {| tc_before := sp_before s; tc_parts := sp_parts s;
                                     tc_red := sp_red s; tc_after := sp_after s |}).
Proof.
  intros sp d Hb He. unfold load. rewrite find_markers_spec. unfold markers_spec. cbv zeta.
  rewrite (first_index_none _ _ _ Hb), He. reflexivity.
Qed.

(* ------------------------------------------------------------------------------------ *)
(* loaders                                                                              *)
(* ------------------------------------------------------------------------------------ *)

Lemma load_generic_ok : forall sp, splitter_ok sp -> loader_ok (load sp).
Proof.
  intros sp Hsp d t Hld. unfold load in Hld.
  pose proof (find_markers_partition d) as Hpart.
  destruct (find_markers d) as [w|b r a|].
  - subst w. destruct (sp d) as [s|e] eqn:Hs; simpl in Hld; [|discriminate Hld].
    injection Hld as <-. destruct (Hsp d s Hs) as [Hc [Hne Hlen]].
    unfold content, wf. simpl. split; [exact Hc | split; [exact Hne | exact Hlen]].
  - destruct (sp r) as [s|e] eqn:Hs; simpl in Hld; [|discriminate Hld].
    injection Hld as <-. destruct (Hsp r s Hs) as [Hc [Hne Hlen]].
    unfold content, wf. simpl. split; [|split; [exact Hne | exact Hlen]].
    rewrite <- Hpart, <- Hc. unfold split_content.
    repeat rewrite <- app_assoc. reflexivity.
  - discriminate Hld.
Qed.

Lemma load_generic_errors :
  forall sp, (forall d e, sp d = Err e -> e = LithiumError) -> only_lithium_error (load sp).
Proof.
  intros sp Hsp d e Hld. unfold load in Hld.
  destruct (find_markers d) as [w|b r a|].
  - destruct (sp w) as [s|e'] eqn:Hs; simpl in Hld; [discriminate Hld|].
    injection Hld as <-. exact (Hsp w e' Hs).
  - destruct (sp r) as [s|e'] eqn:Hs; simpl in Hld; [discriminate Hld|].
    injection Hld as <-. exact (Hsp r e' Hs).
  - injection Hld as <-. reflexivity.
Qed.

Lemma all_true_length : forall A (l : list A), length l = length (all_true l).
Proof. intros A l. unfold all_true. rewrite map_length. reflexivity. Qed.

Lemma split_line_ok : splitter_ok split_line.
Proof.
  intros d s H. unfold split_line in H. injection H as <-.
  unfold split_content. simpl. split; [|split].
  - rewrite app_nil_r. apply splitlines_concat.
  - apply splitlines_nonempty.
  - apply all_true_length.
Qed.

Lemma load_line_ok : loader_ok load_line /\ only_lithium_error load_line.
Proof.
  split.
  - exact (load_generic_ok split_line split_line_ok).
  - apply load_generic_errors. intros d e H. discriminate H.
Qed.

Lemma concat_singletons : forall (d : bytes), concat (map (fun b => [b]) d) = d.
Proof. induction d as [|b d IH]; [reflexivity|]. simpl. rewrite IH. reflexivity. Qed.

Lemma split_char_ok : splitter_ok split_char.
Proof.
  intros d s H. unfold split_char in H. injection H as <-.
  unfold split_content. simpl. split; [|split].
  - rewrite app_nil_r. apply concat_singletons.
  - apply Forall_forall. intros p Hp. apply in_map_iff in Hp.
    destruct Hp as [b [<- _]]. discriminate.
  - apply all_true_length.
Qed.

Lemma char_fixup_shape : forall t,
  char_fixup t = t \/
  exists lst rest, tc_parts t = rev rest ++ [lst] /\
    char_fixup t = {| tc_before := tc_before t; tc_parts := rev rest;
                      tc_red := removelast (tc_red t); tc_after := lst ++ tc_after t |}.
Proof.
  intros t. unfold char_fixup.
  destruct (rev (tc_parts t)) as [|lst rest] eqn:Hrev.
  - left. destruct (tc_before t); destruct (tc_after t); reflexivity.
  - assert (Hp : tc_parts t = rev rest ++ [lst]).
    { rewrite <- (rev_involutive (tc_parts t)), Hrev. reflexivity. }
    destruct (tc_before t) as [|x bf] eqn:Hbf; destruct (tc_after t) as [|y af] eqn:Haf;
      [left; reflexivity | right | right | right];
      exists lst, rest; (split; [exact Hp | reflexivity]).
Qed.

Lemma char_fixup_ok : forall t,
  Forall (fun p => p <> []) (tc_parts t) -> wf t ->
  content (char_fixup t) = content t /\
  Forall (fun p => p <> []) (tc_parts (char_fixup t)) /\ wf (char_fixup t).
Proof.
  intros t Hne Hwf. destruct (char_fixup_shape t) as [E|[lst [rest [Hp E]]]]; rewrite E.
  - split; [reflexivity | split; assumption].
  - unfold content, wf in *. simpl. rewrite Hp in *. split; [|split].
    + unfold bytes in *. rewrite (concat_snoc (rev rest) lst). repeat rewrite <- app_assoc. reflexivity.
    + apply Forall_app in Hne. destruct Hne as [Hne _]. exact Hne.
    + rewrite length_removelast, <- Hwf, app_length. simpl. lia.
Qed.

Lemma load_char_ok : loader_ok load_char /\ only_lithium_error load_char.
Proof.
  split.
  - intros d t H. unfold load_char in H.
    destruct (load split_char d) as [t0|e] eqn:Hld; simpl in H; [|discriminate H].
    injection H as <-.
    destruct (load_generic_ok split_char split_char_ok d t0 Hld) as [Hc [Hne Hwf]].
    destruct (char_fixup_ok t0 Hne Hwf) as [Hc' [Hne' Hwf']].
    split; [rewrite Hc'; exact Hc | split; assumption].
  - intros d e H. unfold load_char in H.
    destruct (load split_char d) as [t0|e'] eqn:Hld; simpl in H; [discriminate H|].
    injection H as <-.
    apply (load_generic_errors split_char) with (d := d); [|exact Hld].
    intros d' e'' H'. discriminate H'.
Qed.

(* C15: line and char atoms *)
Lemma split_line_parts :
  forall d s, split_line d = Ok s ->
    sp_parts s = splitlines d /\ sp_red s = map (fun _ => true) (splitlines d).
Proof. intros d s H. unfold split_line in H. injection H as <-. split; reflexivity. Qed.

Lemma split_char_parts :
  forall d s, split_char d = Ok s -> sp_parts s = map (fun b => [b]) d.
Proof. intros d s H. unfold split_char in H. injection H as <-. reflexivity. Qed.

Lemma load_parts :
  forall sp d t, load sp d = Ok t -> exists r s, sp r = Ok s /\ tc_parts t = sp_parts s.
Proof.
  intros sp d t H. unfold load in H. destruct (find_markers d) as [w|b r a|].
  - destruct (sp w) as [s|e] eqn:Hs; simpl in H; [|discriminate H].
    injection H as <-. exists w, s. split; [exact Hs | reflexivity].
  - destruct (sp r) as [s|e] eqn:Hs; simpl in H; [|discriminate H].
    injection H as <-. exists r, s. split; [exact Hs | reflexivity].
  - discriminate H.
Qed.

Lemma load_char_single_bytes :
  forall d t, load_char d = Ok t -> Forall (fun p => length p = 1%nat) (tc_parts t).
Proof.
  intros d t H. unfold load_char in H.
  destruct (load split_char d) as [t0|e] eqn:Hld; simpl in H; [|discriminate H].
  injection H as <-.
  assert (H0 : Forall (fun p => length p = 1) (tc_parts t0)).
  { destruct (load_parts _ _ _ Hld) as [r [s [Hs Hp]]]. rewrite Hp.
    rewrite (split_char_parts r s Hs). apply Forall_forall. intros p Hin.
    apply in_map_iff in Hin. destruct Hin as [b [<- _]]. reflexivity. }
  destruct (char_fixup_shape t0) as [E|[lst [rest [Hp E]]]]; rewrite E.
  - exact H0.
  - simpl. rewrite Hp in H0. apply Forall_app in H0. destruct H0 as [H0 _]. exact H0.
Qed.

(* ------------------------------------------------------------------------------------ *)
(* the symbol cutter                                                                    *)
(* ------------------------------------------------------------------------------------ *)

(* recursive presentation of cut_positions: [prev] is the byte at position pos-1 *)
Fixpoint cuts (bs afs : bytes) (pos : nat) (prev : N) (d : bytes) : list nat :=
  match d with
  | [] => []
  | x :: r =>
      if mem_byte prev afs || mem_byte x bs
      then pos :: cuts bs afs (S pos) x r
      else cuts bs afs (S pos) x r
  end.

Lemma filter_cuts : forall bs afs r pre prev,
  filter (is_cut bs afs (pre ++ prev :: r)) (seq (S (length pre)) (length r)) =
  cuts bs afs (S (length pre)) prev r.
Proof.
  intros bs afs. induction r as [|y r IH]; intros pre prev; [reflexivity|].
  assert (E : pre ++ prev :: y :: r = (pre ++ [prev]) ++ y :: r)
    by (rewrite <- app_assoc; reflexivity).
  assert (L : length (pre ++ [prev]) = S (length pre))
    by (rewrite app_length; simpl; lia).
  assert (Hc : is_cut bs afs (pre ++ prev :: y :: r) (S (length pre)) =
               mem_byte prev afs || mem_byte y bs).
  { unfold is_cut. rewrite nth_middle. rewrite E, <- L, nth_middle. reflexivity. }
  cbn [length seq filter cuts]. rewrite Hc.
  specialize (IH (pre ++ [prev]) y). rewrite <- E, L in IH. rewrite IH. reflexivity.
Qed.

Lemma cut_positions_cuts : forall bs afs x r,
  cut_positions bs afs (x :: r) = cuts bs afs 1 x r.
Proof.
  intros bs afs x r. unfold cut_positions.
  replace (length (x :: r) - 1) with (length r) by (simpl; lia).
  exact (filter_cuts bs afs r [] x).
Qed.

Lemma tok_run_cons : forall bs afs acc x r,
  tok_run bs afs acc (x :: r) =
    if mem_byte x afs then (rev (x :: acc), r)
    else if mem_byte x bs then (rev acc, x :: r)
    else tok_run bs afs (x :: acc) r.
Proof. reflexivity. Qed.

Lemma tok_run_spec : forall bs afs d acc tok rest,
  tok_run bs afs acc d = (tok, rest) ->
  exists tl, tok = rev acc ++ tl /\ d = tl ++ rest /\
    (disjoint_sets bs afs -> forall prev pos, mem_byte prev afs = false ->
       cuts bs afs pos prev d =
         match rest with
         | [] => []
         | y :: rest' => (pos + length tl) :: cuts bs afs (S (pos + length tl)) y rest'
         end).
Proof.
  intros bs afs. induction d as [|x r IH]; intros acc tok rest H.
  - simpl in H. injection H as <- <-. exists []. rewrite app_nil_r.
    split; [reflexivity | split; [reflexivity|]]. intros _ prev pos _. reflexivity.
  - rewrite tok_run_cons in H. destruct (mem_byte x afs) eqn:Hxa.
    + injection H as <- <-. exists [x].
      split; [reflexivity | split; [reflexivity|]]. intros Hdis prev pos Hprev.
      assert (Hxb : mem_byte x bs = false).
      { destruct (mem_byte x bs) eqn:Hxb; [|reflexivity].
        rewrite (Hdis x Hxb) in Hxa. discriminate Hxa. }
      simpl cuts. rewrite Hprev, Hxb. simpl orb. cbv iota.
      destruct r as [|y r']; [reflexivity|].
      simpl cuts. rewrite Hxa. simpl orb. cbv iota.
      simpl length. rewrite Nat.add_1_r. reflexivity.
    + destruct (mem_byte x bs) eqn:Hxb.
      * injection H as <- <-. exists []. rewrite app_nil_r.
        split; [reflexivity | split; [reflexivity|]]. intros Hdis prev pos Hprev.
        simpl cuts. rewrite Hxb, orb_true_r. simpl length. rewrite Nat.add_0_r. reflexivity.
      * destruct (IH (x :: acc) tok rest H) as [tl [Htok [Hr Hcuts]]].
        exists (x :: tl). split; [|split].
        -- rewrite Htok. simpl. rewrite <- app_assoc. reflexivity.
        -- rewrite Hr. reflexivity.
        -- intros Hdis prev pos Hprev. simpl cuts. rewrite Hprev, Hxb. simpl orb. cbv iota.
           rewrite (Hcuts Hdis x (S pos) Hxa). simpl length.
           rewrite Nat.add_succ_r. reflexivity.
Qed.

Lemma cut_one_spec : forall bs afs x r,
  exists tl rest, cut_one bs afs (x :: r) = (x :: tl, rest) /\ r = tl ++ rest /\
    (disjoint_sets bs afs -> forall pos,
       cuts bs afs (S pos) x r =
         match rest with
         | [] => []
         | y :: rest' => (pos + length (x :: tl)) ::
                         cuts bs afs (S (pos + length (x :: tl))) y rest'
         end).
Proof.
  intros bs afs x r. unfold cut_one. destruct (mem_byte x bs) eqn:Hxb.
  - destruct (tok_run bs afs [] r) as [tok rest] eqn:Hrun.
    destruct (tok_run_spec bs afs r [] tok rest Hrun) as [tl [Htok [Hr Hcuts]]].
    simpl in Htok. subst tok. exists tl, rest.
    split; [reflexivity | split; [exact Hr|]]. intros Hdis pos.
    rewrite (Hcuts Hdis x (S pos) (Hdis x Hxb)). simpl length.
    rewrite Nat.add_succ_r. reflexivity.
  - rewrite tok_run_cons, Hxb. destruct (mem_byte x afs) eqn:Hxa.
    + exists [], r. split; [reflexivity | split; [reflexivity|]]. intros Hdis pos.
      destruct r as [|y r']; [reflexivity|].
      simpl cuts. rewrite Hxa. simpl orb. cbv iota. simpl length.
      rewrite Nat.add_1_r. reflexivity.
    + destruct (tok_run bs afs [x] r) as [tok rest] eqn:Hrun.
      destruct (tok_run_spec bs afs r [x] tok rest Hrun) as [tl [Htok [Hr Hcuts]]].
      simpl in Htok. subst tok. exists tl, rest.
      split; [reflexivity | split; [exact Hr|]]. intros Hdis pos.
      rewrite (Hcuts Hdis x (S pos) Hxa). simpl length.
      rewrite Nat.add_succ_r. reflexivity.
Qed.

Lemma cut_all_nil : forall fuel bs afs, cut_all fuel bs afs [] = [].
Proof. destruct fuel; reflexivity. Qed.

Lemma cut_all_cons : forall f bs afs x r,
  cut_all (S f) bs afs (x :: r) =
    let '(tok, rest) := cut_one bs afs (x :: r) in
    match tok with
    | [] => []
    | _ => tok :: cut_all f bs afs rest
    end.
Proof. reflexivity. Qed.

Lemma cut_all_tiles : forall bs afs fuel d, length d <= fuel ->
  concat (cut_all fuel bs afs d) = d /\ Forall (fun p => p <> []) (cut_all fuel bs afs d).
Proof.
  intros bs afs. induction fuel as [|f IH]; intros d Hlen.
  - destruct d as [|x r]; [|simpl in Hlen; lia]. split; [reflexivity | constructor].
  - destruct d as [|x r]; [split; [reflexivity | constructor]|].
    rewrite cut_all_cons.
    destruct (cut_one_spec bs afs x r) as [tl [rest [Hone [Hr _]]]]. rewrite Hone.
    assert (Hl : length rest <= f).
    { simpl in Hlen. rewrite Hr, app_length in Hlen. lia. }
    destruct (IH rest Hl) as [Hc Hne]. split.
    + simpl. rewrite Hc, Hr. reflexivity.
    + constructor; [discriminate | exact Hne].
Qed.

Lemma cut_all_boundaries : forall bs afs, disjoint_sets bs afs ->
  forall fuel x r pos, length (x :: r) <= fuel ->
    boundaries pos (cut_all fuel bs afs (x :: r)) = cuts bs afs (S pos) x r.
Proof.
  intros bs afs Hdis. induction fuel as [|f IH]; intros x r pos Hlen.
  - simpl in Hlen. lia.
  - rewrite cut_all_cons.
    destruct (cut_one_spec bs afs x r) as [tl [rest [Hone [Hr Hcuts]]]]. rewrite Hone.
    rewrite (Hcuts Hdis pos). cbv iota beta.
    destruct rest as [|y rest'].
    + rewrite cut_all_nil. reflexivity.
    + assert (Hl : length (y :: rest') <= f).
      { simpl in Hlen. rewrite Hr, app_length in Hlen. simpl in *. lia. }
      specialize (IH y rest' (pos + length (x :: tl)) Hl).
      destruct (cut_all_tiles bs afs f (y :: rest') Hl) as [Hc _].
      destruct (cut_all f bs afs (y :: rest')) as [|p ps] eqn:Hca; [discriminate Hc|].
      change (boundaries pos ((x :: tl) :: p :: ps))
        with ((pos + length (x :: tl)) :: boundaries (pos + length (x :: tl)) (p :: ps)).
      rewrite IH. reflexivity.
Qed.

Lemma split_symbol_ok : forall bs afs, splitter_ok (split_symbol bs afs).
Proof.
  intros bs afs d s H. unfold split_symbol in H. injection H as <-.
  destruct (cut_all_tiles bs afs (length d) d (Nat.le_refl _)) as [Hc Hne].
  unfold split_content. simpl. split; [|split].
  - rewrite app_nil_r. exact Hc.
  - exact Hne.
  - apply all_true_length.
Qed.

Lemma load_symbol_ok :
  forall bs afs, loader_ok (load_symbol bs afs) /\ only_lithium_error (load_symbol bs afs).
Proof.
  intros bs afs. split.
  - exact (load_generic_ok (split_symbol bs afs) (split_symbol_ok bs afs)).
  - apply load_generic_errors. intros d e H. discriminate H.
Qed.

Lemma symbol_cut_positions :
  forall bs afs d s, disjoint_sets bs afs -> split_symbol bs afs d = Ok s ->
    concat (sp_parts s) = d /\ boundaries 0 (sp_parts s) = cut_positions bs afs d.
Proof.
  intros bs afs d s Hdis H. unfold split_symbol in H. injection H as <-. simpl sp_parts.
  split.
  - exact (proj1 (cut_all_tiles bs afs (length d) d (Nat.le_refl _))).
  - destruct d as [|x r]; [reflexivity|].
    rewrite cut_positions_cuts.
    exact (cut_all_boundaries bs afs Hdis (length (x :: r)) x r 0 (Nat.le_refl _)).
Qed.

Lemma symbol_overlap_counterexample :
  exists bs afs d s, split_symbol bs afs d = Ok s /\
                     boundaries 0 (sp_parts s) <> cut_positions bs afs d.
Proof.
  exists [97%N], [97%N], [93%N; 97%N].
  exists {| sp_before := []; sp_parts := [[93%N; 97%N]]; sp_red := [true]; sp_after := [] |}.
  split; [reflexivity|]. vm_compute. discriminate.
Qed.

Lemma defaults_disjoint : disjoint_sets DEFAULT_CUT_BEFORE DEFAULT_CUT_AFTER.
Proof.
  intros b H. unfold DEFAULT_CUT_BEFORE in H. simpl in H.
  repeat rewrite orb_true_iff in H. repeat rewrite N.eqb_eq in H.
  destruct H as [H|[H|[H|H]]]; [subst b; reflexivity .. | discriminate H].
Qed.
