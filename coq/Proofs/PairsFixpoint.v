(* The pair strategies (Model/Pairs.v) stop only at a fixpoint of their own move, for a
   deterministic interestingness test, smallest chunk size 1, repeat mode last or always and no
   time limit.  Used by Props/C13.v.  No axioms.

   Structure (the same as Proofs/MinimizeMinimal.v):
     - driver side: the invariant JI of MinimizeMinimal (the best is the original with reducible
       atoms deleted, is accepted by f, has only non-empty atoms, every accepted content in the
       de-duplication list is at least as long as the best), so a proposal that is strictly
       shorter than the best and is SKIPPED as a duplicate was rejected before;
     - strategy side: an invariant over the internal states of `pdrive` which, during a pass at
       chunk size 1 that has not accepted anything yet, pins down summary / indices / tables and
       records that every move at an earlier position has been rejected. *)
From Coq Require Import ZArith NArith List Bool Lia ZifyBool.
From Lithium Require Import PyBase TcRecord Util Testcase Spec Driver TraceSpec Minimize StratSpec
  Pairs PairSpec TestcaseProofs DriverProofs MinimizeMinimal.
Import ListNotations.
Open Scope Z_scope.

(* the statements of Props/C13.v *)
Definition pf_around_fixpoint (f : bytes -> bool) (tf : tcase) : Prop :=
  forall i t', 1 <= i -> i + 1 < tc_len tf -> rm2 tf (i - 1) (i + 1) = Ok t' -> f (content t') = false.

Definition pf_balanced_fixpoint (f : bytes -> bool) (tf : tcase) : Prop :=
  2 <= tc_len tf ->
  (forall i p t', 0 <= i < tc_len tf -> nth_error (tc_parts tf) (Z.to_nat i) = Some p ->
      balanced_atom p = true -> rmslice tf i (i + 1) = Ok t' -> f (content t') = false) /\
  (forall i j t', 0 <= i < tc_len tf -> partner (tc_parts tf) i = Some j ->
      rm2 tf i j = Ok t' -> f (content t') = false).

(* ------------------------------------------------------------------ *)
(* 1. the boolean summary: index / rindex / clear / count              *)
(* ------------------------------------------------------------------ *)

Definition bn (l : list bool) (j : Z) : bool := nth (Z.to_nat j) l false.

Lemma s_index_from_some : forall l pos from a,
  s_index_from l pos from = Some a ->
  exists n, a = pos + Z.of_nat n /\ (n < length l)%nat /\ nth n l false = true /\ from <= a /\
            forall m, (m < n)%nat -> from <= pos + Z.of_nat m -> nth m l false = false.
Proof.
  intros l. induction l as [|b r IH]; intros pos from a H; cbn [s_index_from] in H;
    [discriminate H|].
  destruct (b && (from <=? pos)) eqn:E.
  - injection H as H. subst a. exists 0%nat. apply andb_true_iff in E. destruct E as [Eb Ep].
    split; [lia|]. split; [cbn [length]; lia|]. split; [exact Eb|]. split; [lia|].
    intros m Hm. lia.
  - destruct (IH _ _ _ H) as (n & Ha & Hn & Ht & Hf & Hall). exists (S n).
    split; [lia|]. split; [cbn [length]; lia|]. split; [exact Ht|]. split; [exact Hf|].
    intros m Hm Hfm. destruct m as [|m].
    + cbn [nth]. destruct b; [|reflexivity]. cbn [andb] in E. lia.
    + cbn [nth]. apply Hall; lia.
Qed.

Lemma s_index_from_none : forall l pos from, s_index_from l pos from = None ->
  forall m, (m < length l)%nat -> from <= pos + Z.of_nat m -> nth m l false = false.
Proof.
  intros l. induction l as [|b r IH]; intros pos from H m Hm Hfm; cbn [length] in Hm; [lia|].
  cbn [s_index_from] in H. destruct (b && (from <=? pos)) eqn:E; [discriminate H|].
  destruct m as [|m].
  - cbn [nth]. destruct b; [|reflexivity]. cbn [andb] in E. lia.
  - cbn [nth]. apply (IH _ _ H); lia.
Qed.

Lemma s_index_some : forall l from a, s_index l from = Some a ->
  0 <= a < zlen l /\ from <= a /\ bn l a = true /\
  forall j, 0 <= j -> from <= j < a -> bn l j = false.
Proof.
  intros l from a H. unfold s_index in H.
  destruct (s_index_from_some _ _ _ _ H) as (n & Ha & Hn & Ht & Hf & Hall).
  unfold zlen, bn. split; [lia|]. split; [exact Hf|]. split.
  - replace (Z.to_nat a) with n by lia. exact Ht.
  - intros j Hj Hr. apply Hall; lia.
Qed.

Lemma s_index_none : forall l from, s_index l from = None ->
  forall j, 0 <= j < zlen l -> from <= j -> bn l j = false.
Proof.
  intros l from H j Hj Hf. unfold s_index in H. unfold zlen in Hj. unfold bn.
  apply (s_index_from_none _ _ _ H); lia.
Qed.

Lemma s_rindex_from_some : forall l pos hi acc b, s_rindex_from l pos hi acc = Some b ->
  acc = Some b \/
  exists n, b = pos + Z.of_nat n /\ (n < length l)%nat /\ nth n l false = true /\ b < hi.
Proof.
  intros l. induction l as [|x r IH]; intros pos hi acc b H; cbn [s_rindex_from] in H;
    [left; exact H|].
  destruct (IH _ _ _ _ H) as [Hacc|(n & Hb & Hn & Ht & Hlt)].
  - destruct (x && (pos <? hi)) eqn:E.
    + injection Hacc as Hacc. right. exists 0%nat. apply andb_true_iff in E.
      destruct E as [Ex Ep]. split; [lia|]. split; [cbn [length]; lia|].
      split; [exact Ex|]. lia.
    + left. exact Hacc.
  - right. exists (S n). split; [lia|]. split; [cbn [length]; lia|]. split; [exact Ht|exact Hlt].
Qed.

Lemma s_rindex_some : forall l hi b, s_rindex l hi = Some b ->
  0 <= b < zlen l /\ b < hi /\ bn l b = true.
Proof.
  intros l hi b H. unfold s_rindex in H.
  destruct (s_rindex_from_some _ _ _ _ _ H) as [Hacc|(n & Hb & Hn & Ht & Hlt)];
    [discriminate Hacc|].
  unfold zlen, bn. split; [lia|]. split; [exact Hlt|].
  replace (Z.to_nat b) with n by lia. exact Ht.
Qed.

Fixpoint clrn (l : list bool) (i : nat) {struct l} : list bool :=
  match l with
  | [] => []
  | b :: r => match i with O => false :: r | S i' => b :: clrn r i' end
  end.

Lemma clrn_split : forall l n, (n < length l)%nat ->
  firstn n l ++ [false] ++ skipn (S n) l = clrn l n.
Proof.
  intros l. induction l as [|b r IH]; intros n Hn; cbn [length] in Hn; [lia|].
  destruct n as [|n].
  - reflexivity.
  - cbn [firstn skipn clrn app]. f_equal. apply IH. lia.
Qed.

Lemma s_clear_clrn : forall l i, 0 <= i < zlen l -> s_clear l i = clrn l (Z.to_nat i).
Proof.
  intros l i Hi. unfold zlen in Hi. unfold s_clear.
  rewrite <- (Z2Nat.id i) at 1 2 by lia.
  rewrite py_slice_to_nat.
  replace (Z.of_nat (Z.to_nat i) + 1) with (Z.of_nat (S (Z.to_nat i))) by lia.
  rewrite py_slice_from_nat. apply clrn_split. lia.
Qed.

Lemma clrn_length : forall l i, length (clrn l i) = length l.
Proof.
  intros l. induction l as [|b r IH]; intros i; [reflexivity|].
  destruct i as [|i]; cbn [clrn length]; [reflexivity|]. rewrite IH. reflexivity.
Qed.

Lemma clrn_nth : forall l i j,
  nth j (clrn l i) false = if Nat.eqb j i then false else nth j l false.
Proof.
  intros l. induction l as [|b r IH]; intros i j.
  - cbn [clrn]. destruct (Nat.eqb j i); destruct j; reflexivity.
  - destruct i as [|i]; destruct j as [|j]; cbn [clrn nth Nat.eqb]; try reflexivity.
    apply IH.
Qed.

Fixpoint cntn (l : list bool) (k : nat) {struct l} : Z :=
  match l with
  | [] => 0
  | b :: r => match k with O => 0 | S k' => (if b then 1 else 0) + cntn r k' end
  end.

Lemma cntn_bounds : forall l k, 0 <= cntn l k <= Z.of_nat k.
Proof.
  intros l. induction l as [|b r IH]; intros k; cbn [cntn]; [lia|].
  destruct k as [|k]; [lia|]. specialize (IH k). destruct b; lia.
Qed.

Lemma cntn_ge1 : forall l i k, (i < k)%nat -> nth i l false = true -> 1 <= cntn l k.
Proof.
  intros l. induction l as [|b r IH]; intros i k Hik Hn.
  - destruct i; discriminate Hn.
  - destruct k as [|k]; [lia|]. cbn [cntn]. destruct i as [|i].
    + cbn [nth] in Hn. subst b. pose proof (cntn_bounds r k). lia.
    + cbn [nth] in Hn. pose proof (IH i k ltac:(lia) Hn). destruct b; lia.
Qed.

Lemma cntn_zero : forall l k, (forall j, (j < k)%nat -> nth j l false = false) -> cntn l k = 0.
Proof.
  intros l. induction l as [|b r IH]; intros k H; cbn [cntn]; [reflexivity|].
  destruct k as [|k]; [reflexivity|].
  pose proof (H 0%nat ltac:(lia)) as H0. cbn [nth] in H0. subst b.
  rewrite IH; [reflexivity|]. intros j Hj. apply (H (S j)). lia.
Qed.

Lemma cntn_gap : forall l i k, (i <= k)%nat ->
  (forall j, (i < j < k)%nat -> nth j l false = false) -> cntn l k <= cntn l i + 1.
Proof.
  intros l. induction l as [|b r IH]; intros i k Hik H; cbn [cntn]; [lia|].
  destruct k as [|k]; [destruct i; lia|]. destruct i as [|i].
  - rewrite (cntn_zero r k); [destruct b; lia|].
    intros j Hj. apply (H (S j)). lia.
  - assert (IHi : cntn r k <= cntn r i + 1).
    { apply IH; [lia|]. intros j Hj. apply (H (S j)). lia. }
    lia.
Qed.

Lemma cntn_clrn_ge : forall l i k, (k <= i)%nat -> cntn (clrn l i) k = cntn l k.
Proof.
  intros l. induction l as [|b r IH]; intros i k Hki; [reflexivity|].
  destruct i as [|i]; cbn [clrn cntn].
  - destruct k; [reflexivity|lia].
  - destruct k as [|k]; [reflexivity|]. rewrite IH by lia. reflexivity.
Qed.

Lemma cntn_clrn_lt : forall l i k, (i < k)%nat -> nth i l false = true ->
  cntn (clrn l i) k = cntn l k - 1.
Proof.
  intros l. induction l as [|b r IH]; intros i k Hik Hn.
  - destruct i; discriminate Hn.
  - destruct k as [|k]; [lia|]. destruct i as [|i]; cbn [clrn cntn].
    + cbn [nth] in Hn. subst b. lia.
    + cbn [nth] in Hn. rewrite (IH i k) by (try lia; exact Hn). lia.
Qed.

Definition cnt (l : list bool) (k : Z) : Z := cntn l (Z.to_nat k).

(* all-true summaries *)
Lemma nth_repeat_true : forall n j, (j < n)%nat -> nth j (repeat true n) false = true.
Proof.
  intros n. induction n as [|n IH]; intros j Hj; [lia|].
  destruct j as [|j]; [reflexivity|]. cbn [repeat nth]. apply IH. lia.
Qed.

Lemma skipn_rep : forall (A : Type) (x : A) n s, skipn s (repeat x n) = repeat x (n - s).
Proof.
  intros A x n. induction n as [|n IH]; intros s; [destruct s; reflexivity|].
  destruct s as [|s]; [reflexivity|]. cbn [repeat skipn Nat.sub]. apply IH.
Qed.

Lemma firstn_rep : forall (A : Type) (x : A) n m, (m <= n)%nat -> firstn m (repeat x n) = repeat x m.
Proof.
  intros A x n. induction n as [|n IH]; intros m Hm.
  - destruct m; [reflexivity|lia].
  - destruct m as [|m]; [reflexivity|]. cbn [repeat firstn]. f_equal. apply IH. lia.
Qed.

Lemma filter_rep_true : forall n, filter (fun b : bool => b) (repeat true n) = repeat true n.
Proof. intros n. induction n as [|n IH]; [reflexivity|]. cbn [repeat filter]. rewrite IH. reflexivity. Qed.

Lemma bn_alltrue : forall n j, 0 <= j < Z.of_nat n -> bn (repeat true n) j = true.
Proof. intros n j Hj. unfold bn. apply nth_repeat_true. lia. Qed.

Lemma zlen_repeat : forall (A : Type) (x : A) n, zlen (repeat x n) = Z.of_nat n.
Proof. intros A x n. unfold zlen. rewrite repeat_length. reflexivity. Qed.

Lemma s_index_alltrue_some : forall n from a, 0 <= from ->
  s_index (repeat true n) from = Some a -> a = from /\ from < Z.of_nat n.
Proof.
  intros n from a Hf H. destruct (s_index_some _ _ _ H) as (Ha & Hfa & _ & Hall).
  rewrite zlen_repeat in Ha.
  destruct (Z.eq_dec a from) as [He|Hne]; [split; lia|].
  pose proof (Hall from Hf ltac:(lia)) as Hc. rewrite bn_alltrue in Hc by lia. discriminate Hc.
Qed.

Lemma s_index_alltrue_none : forall n from, 0 <= from ->
  s_index (repeat true n) from = None -> Z.of_nat n <= from.
Proof.
  intros n from Hf H. destruct (Z_lt_le_dec from (Z.of_nat n)) as [Hlt|Hle]; [|exact Hle].
  pose proof (s_index_none _ _ H from) as Hc. rewrite zlen_repeat in Hc.
  rewrite bn_alltrue in Hc by lia. specialize (Hc ltac:(lia) ltac:(lia)). discriminate Hc.
Qed.

Lemma s_count_alltrue : forall n lo hi, 0 <= lo <= hi -> hi <= Z.of_nat n ->
  s_count (repeat true n) lo hi = hi - lo.
Proof.
  intros n lo hi Hlo Hhi. unfold s_count.
  rewrite <- (Z2Nat.id lo) at 1 by lia. rewrite <- (Z2Nat.id hi) at 1 by lia.
  rewrite py_slice_mid_nat by (rewrite repeat_length; lia).
  rewrite skipn_rep, firstn_rep by lia. rewrite filter_rep_true, zlen_repeat. lia.
Qed.

Lemma py_slice_from_alltrue : forall n k, 0 <= k ->
  py_slice (repeat true n) (Some k) None = repeat true (n - Z.to_nat k).
Proof.
  intros n k Hk. rewrite <- (Z2Nat.id k) at 1 by lia. rewrite py_slice_from_nat. apply skipn_rep.
Qed.

(* ------------------------------------------------------------------ *)
(* 2. generic driver argument                                          *)
(* ------------------------------------------------------------------ *)

Lemma sub_reducible_content_le : forall t t', wf t -> sub_reducible t t' ->
  (length (content t') <= length (content t))%nat.
Proof.
  intros t t' Hwf (Hb & Ha & Hwf' & Hs). unfold content. rewrite Hb, Ha.
  rewrite <- (zipped_parts t Hwf), <- (zipped_parts t' Hwf'). rewrite !app_length.
  pose proof (subred_content_le _ _ Hs). lia.
Qed.

Lemma sub_reducible_wf : forall t t', sub_reducible t t' -> wf t'.
Proof. intros t t' (_ & _ & Hwf' & _). exact Hwf'. Qed.

Definition nonempty_parts (t : tcase) : Prop := Forall (fun p : bytes => p <> []) (tc_parts t).

Section Generic.
Variable f : bytes -> bool.
Variable S : Type.
Variable strat : strategy S.
Variable Inv : S -> tcase -> Prop.   (* strategy state vs current best *)
Variable Q : tcase -> Prop.          (* extra property of the best, closed under deletions *)
Variable Fix : tcase -> Prop.        (* what is claimed when the strategy stops *)

Hypothesis Q_sub : forall t t', wf t -> Q t -> sub_reducible t t' -> Q t'.

Hypothesis step_ok : forall st best, Inv st best -> wf best -> nonempty_parts best -> Q best ->
  match s_next strat st best with
  | Propose t k =>
      sub_reducible best t /\
      (forall o, o <> Tested true ->
         ((length (content t) < length (content best))%nat -> f (content t) = false) ->
         Inv (k o) best) /\
      Inv (k (Tested true)) t
  | RawWrite _ _ => False
  | Done => Fix best
  | Fail _ => True
  end.

Definition GK (tc0 : tcase) (st : S) (it : iter) : Prop :=
  JI f tc0 it /\ Q (it_best it) /\ Inv st (it_best it).

Definition on_GK (tc0 : tcase) (s : lstate S) : Prop :=
  match s with LS st it _ => GK tc0 st it end.

Lemma GK_step : forall tc0 a b, lstep strat (det f) a b -> on_GK tc0 a -> on_GK tc0 b.
Proof.
  intros tc0 a b Hstep. destruct Hstep as
    [st it w b0 st' Hn | st it w t k Hn Hm | st it w t k w' Hn Hm Hi | st it w t k w' Hn Hm Hi];
    cbn [on_GK]; intros (HJ & HQ & HI);
    pose proof (ji_wf _ _ _ HJ) as Hwf;
    pose proof (step_ok st (it_best it) HI Hwf (ji_ne _ _ _ HJ) HQ) as Hok;
    rewrite Hn in Hok.
  - destruct Hok.
  - (* skipped *)
    destruct Hok as (Hsub & Hrej & _).
    split; [exact HJ|]. split; [exact HQ|].
    apply Hrej; [discriminate|]. intros Hlt.
    destruct (f (content t)) eqn:E; [|reflexivity].
    apply mem_bytes_In in Hm. pose proof (ji_tried _ _ _ HJ _ Hm E). lia.
  - (* accepted *)
    destruct Hok as (Hsub & _ & Hacc).
    pose proof (sub_reducible_content_le _ _ Hwf Hsub) as Hle.
    cbn [it_best]. split; [|split].
    + constructor; cbn [it_best it_tried].
      * exact (sub_reducible_wf _ _ Hsub).
      * apply (mm_sub_reducible_nonempty (it_best it) t Hwf Hsub (ji_ne _ _ _ HJ)).
      * apply (sub_reducible_trans _ _ _ (ji_sub _ _ _ HJ) Hsub).
      * apply (det_yes _ _ _ _ Hi).
      * intros c [Hc|Hc] Hfc; [subst c; lia|].
        pose proof (ji_tried _ _ _ HJ _ Hc Hfc). lia.
    + exact (Q_sub _ _ Hwf HQ Hsub).
    + exact Hacc.
  - (* rejected *)
    destruct Hok as (Hsub & Hrej & _).
    pose proof (det_no _ _ _ _ Hi) as Hf.
    cbn [it_best]. split; [|split].
    + constructor; cbn [it_best it_tried]; try apply HJ.
      intros c [Hc|Hc] Hfc; [subst c; rewrite Hf in Hfc; discriminate Hfc|].
      apply (ji_tried _ _ _ HJ _ Hc Hfc).
    + exact HQ.
    + apply Hrej; [discriminate|]. intros _. exact Hf.
Qed.

Lemma GK_steps : forall tc0 a b, lsteps strat (det f) a b -> on_GK tc0 a -> on_GK tc0 b.
Proof.
  intros tc0 a b Hs. induction Hs as [s|a b c Hab Hbc IH]; intros Ha.
  - exact Ha.
  - apply IH. eapply GK_step; eassumption.
Qed.

Lemma generic_fixpoint : forall tc0 file0 fuel rc w,
  wf tc0 -> nonempty_parts tc0 -> Q tc0 -> content tc0 = file0 -> f file0 = true ->
  Inv (s_start strat tc0) tc0 -> (tc_len tc0 = 0 -> Fix tc0) ->
  run strat (det f) fuel tc0 file0 = Finished rc w ->
  exists tf, sub_reducible tc0 tf /\ w_file w = content tf /\ f (content tf) = true /\ Fix tf.
Proof.
  intros tc0 file0 fuel rc w Hwf Hne HQ Hc Hf HI0 Hfix0 Hrun.
  pose proof (det_first_yes f file0 Hf) as Hv.
  destruct (run_cases S strat (det f) fuel tc0 file0)
    as [[Hl He]|[(_ & Hv' & _)|[(_ & Hv' & _)|(_ & _ & He)]]].
  - rewrite He in Hrun. injection Hrun as _ Hw. subst w.
    exists tc0. split; [apply sub_reducible_refl; exact Hwf|].
    split; [rewrite Hc; reflexivity|]. split; [rewrite Hc; exact Hf|]. exact (Hfix0 Hl).
  - rewrite Hv in Hv'. discriminate Hv'.
  - rewrite Hv in Hv'. discriminate Hv'.
  - rewrite He in Hrun.
    destruct (loop strat (det f) fuel (s_start strat tc0) (it0 tc0) (wY tc0 file0))
      as [rc' wfin|e wfin|wfin] eqn:EL; cbn [map_world] in Hrun; try discriminate Hrun.
    injection Hrun as Hrc Hw. subst rc' w.
    destruct (loop_finished_file S strat (det f) fuel tc0 file0 rc wfin EL)
      as (st' & it' & w' & Hs & Hd & _ & Hfile).
    assert (H0 : on_GK tc0 (LS (s_start strat tc0) (it0 tc0) (wY tc0 file0))).
    { cbn [on_GK]. split; [|split].
      - constructor; cbn [it0 it_best it_tried].
        + exact Hwf.
        + exact Hne.
        + apply sub_reducible_refl. exact Hwf.
        + rewrite Hc. exact Hf.
        + intros c Hin. destruct Hin.
      - exact HQ.
      - exact HI0. }
    pose proof (GK_steps tc0 _ _ Hs H0) as HK. cbn [on_GK] in HK.
    destruct HK as (HJ & HQ' & HI').
    exists (it_best it'). split; [apply (ji_sub _ _ _ HJ)|]. split; [exact Hfile|].
    split; [apply (ji_f _ _ _ HJ)|].
    pose proof (step_ok st' (it_best it') HI' (ji_wf _ _ _ HJ) (ji_ne _ _ _ HJ) HQ') as Hok.
    rewrite Hd in Hok. exact Hok.
Qed.

End Generic.

(* ------------------------------------------------------------------ *)
(* 3. facts shared by both strategies                                  *)
(* ------------------------------------------------------------------ *)

Ltac pcbn := cbn [upd set_pp p_chunk_size p_final p_deadline p_reads p_any p_phase p_summary
                  p_chunk_start p_i1 p_i2 p_i3 p_tables].
Ltac pcbn_in H := cbn [upd set_pp p_chunk_size p_final p_deadline p_reads p_any p_phase p_summary
                       p_chunk_start p_i1 p_i2 p_i3 p_tables] in H.

Record PB (s : pstate) : Prop := {
  pb_dead : p_deadline s = None;
  pb_cs : 1 <= p_chunk_size s;
  pb_final : p_final s = 1
}.

Lemma read_clock_none : forall clk s, p_deadline s = None -> read_clock clk s = (false, s).
Proof. intros clk s H. unfold read_clock. rewrite H. reflexivity. Qed.

Lemma PB_upd : forall s any ph sm cs i1 i2 i3, PB s -> PB (upd s any ph sm cs i1 i2 i3).
Proof. intros s any ph sm cs i1 i2 i3 [H1 H2 H3]. constructor; pcbn; assumption. Qed.

Lemma PB_set_pp : forall s ph, PB s -> PB (set_pp ph s).
Proof. intros s ph [H1 H2 H3]. constructor; pcbn; assumption. Qed.

Lemma after_pass_none : forall cfg clk s, PB s -> c_repeat cfg <> Never ->
  after_pass cfg clk s = None -> p_chunk_size s = 1 /\ p_any s = false.
Proof.
  intros cfg clk s [Hd Hc Hf] Hrep H. unfold after_pass in H.
  rewrite (read_clock_none clk s Hd) in H. cbv beta iota zeta in H.
  destruct (p_chunk_size s <=? p_final s) eqn:El.
  - split; [lia|]. destruct (p_any s) eqn:Ea; [|reflexivity].
    destruct (c_repeat cfg) eqn:Er; cbn [andb] in H; try discriminate H.
    exfalso. apply Hrep. reflexivity.
  - destruct (p_any s && match c_repeat cfg with Always => true | Last => false | Never => false end);
      discriminate H.
Qed.

Lemma after_pass_some : forall cfg clk s s', PB s ->
  after_pass cfg clk s = Some s' -> PB s' /\ p_phase s' = PTop.
Proof.
  intros cfg clk s s' [Hd Hc Hf] H. unfold after_pass in H.
  rewrite (read_clock_none clk s Hd) in H. cbv beta iota zeta in H.
  destruct (p_any s && match c_repeat cfg with
                       | Always => true | Last => p_chunk_size s <=? p_final s | Never => false end).
  - injection H as H. subst s'. split; [apply PB_set_pp; constructor; assumption | reflexivity].
  - destruct (p_chunk_size s <=? p_final s) eqn:El; [discriminate H|].
    injection H as H. subst s'. split; [|reflexivity].
    constructor; pcbn; try assumption.
    rewrite mm_shr1. apply mm_half_ge1. lia.
Qed.

Lemma pstart_PB : forall cfg clk tc0,
  c_min cfg = 1 -> is_power_of_two (c_max cfg) = true -> c_limit cfg = None ->
  PB (pstart cfg clk tc0) /\ p_phase (pstart cfg clk tc0) = PTop.
Proof.
  intros cfg clk tc0 Hmin Hmax Hlim. split; [|reflexivity].
  pose proof (mm_ipot_ge1 _ Hmax) as H1. pose proof (mm_lpot_ge1 (tc_len tc0)) as H2.
  unfold pstart. rewrite Hlim, Hmin. constructor; pcbn; try reflexivity; lia.
Qed.

Lemma dru_one : forall n v, divide_rounding_up n 1 = Ok v -> v = n.
Proof.
  intros n v H. unfold divide_rounding_up, py_divmod in H.
  change (1 =? 0) with false in H. cbv beta iota delta [bind] in H.
  rewrite Z.div_1_r, Z.mod_1_r in H. cbn [truthy_Z Z.eqb negb] in H.
  injection H as H. lia.
Qed.

Lemma py_clamp_nonneg : forall n x, 0 <= x -> py_clamp n x = Z.min x n.
Proof. intros n x Hx. unfold py_clamp. destruct (x <? 0) eqn:E; [lia|reflexivity]. Qed.

(* deleting a block with non-negative bounds *)
Lemma rm_nonneg : forall t a b t', wf t -> 0 <= a <= b -> rmslice t a b = Ok t' ->
  wf t' /\ sub_reducible t t' /\
  tc_len t' = tc_len t - (Z.min b (tc_len t) - Z.min a (tc_len t)) /\
  (nonempty_parts t -> nonempty_parts t') /\
  (nonempty_parts t -> Z.min a (tc_len t) < Z.min b (tc_len t) ->
   (length (content t') < length (content t))%nat).
Proof.
  intros t a b t' Hwf Hab Hrm.
  assert (Hlo : py_clamp (tc_len t) a = Z.min a (tc_len t)) by (apply py_clamp_nonneg; lia).
  assert (Hhi : py_clamp (tc_len t) b = Z.min b (tc_len t)) by (apply py_clamp_nonneg; lia).
  pose proof (rmslice_spec t a b t' Hwf Hrm) as Hs. cbv zeta in Hs. rewrite Hlo, Hhi in Hs.
  specialize (Hs ltac:(lia)). destruct Hs as (Hwt & _ & _ & _ & Hlen).
  assert (Hsub : sub_reducible t t').
  { apply (rmslice_sub_reducible t a b t' Hwf Hrm). rewrite Hlo, Hhi. lia. }
  split; [exact Hwt|]. split; [exact Hsub|]. split; [exact Hlen|]. split.
  - intros Hne. exact (mm_sub_reducible_nonempty t t' Hwf Hsub Hne).
  - intros Hne Hlt. apply (rmslice_content_lt t a b t' Hwf Hrm Hne). rewrite Hlo, Hhi. exact Hlt.
Qed.

Lemma cnt_gap : forall l i k, 0 <= i <= k -> (forall j, i < j < k -> bn l j = false) ->
  cnt l k <= cnt l i + 1.
Proof.
  intros l i k Hik H. unfold cnt. apply cntn_gap; [lia|].
  intros j Hj. specialize (H (Z.of_nat j) ltac:(lia)). unfold bn in H.
  rewrite Nat2Z.id in H. exact H.
Qed.

Lemma cnt_ge1 : forall l i k, 0 <= i < k -> bn l i = true -> 1 <= cnt l k.
Proof. intros l i k Hik H. unfold cnt. apply (cntn_ge1 l (Z.to_nat i)); [lia | exact H]. Qed.

Lemma cnt_le : forall l k, 0 <= k -> 0 <= cnt l k <= k.
Proof. intros l k Hk. unfold cnt. pose proof (cntn_bounds l (Z.to_nat k)). lia. Qed.

Lemma clear2_facts : forall l i1 i2 i3,
  0 <= i1 < i2 -> i2 < i3 < zlen l -> bn l i1 = true -> bn l i2 = true ->
  zlen (s_clear (s_clear l i1) i3) = zlen l /\
  bn (s_clear (s_clear l i1) i3) i2 = true /\
  cnt (s_clear (s_clear l i1) i3) i2 = cnt l i2 - 1.
Proof.
  intros l i1 i2 i3 H1 H3 Hb1 Hb2.
  rewrite (s_clear_clrn l i1) by lia.
  assert (Hl1 : zlen (clrn l (Z.to_nat i1)) = zlen l) by (unfold zlen; rewrite clrn_length; reflexivity).
  rewrite (s_clear_clrn _ i3) by lia.
  split; [unfold zlen; rewrite !clrn_length; reflexivity|]. split.
  - unfold bn. rewrite !clrn_nth.
    destruct (Nat.eqb_spec (Z.to_nat i2) (Z.to_nat i3)) as [E|_]; [lia|].
    destruct (Nat.eqb_spec (Z.to_nat i2) (Z.to_nat i1)) as [E|_]; [lia|]. exact Hb2.
  - unfold cnt. rewrite cntn_clrn_ge by lia. apply cntn_clrn_lt; [lia | exact Hb1].
Qed.

(* ------------------------------------------------------------------ *)
(* 4. minimize-around                                                  *)
(* ------------------------------------------------------------------ *)

Section Around.
Variable f : bytes -> bool.

(* structure of a pass, at every chunk size *)
Record AG (s : pstate) : Prop := {
  ag_i1 : 0 <= p_i1 s < p_i2 s;
  ag_i3 : p_i2 s < p_i3 s < zlen (p_summary s);
  ag_b1 : bn (p_summary s) (p_i1 s) = true;
  ag_b2 : bn (p_summary s) (p_i2 s) = true;
  ag_b3 : bn (p_summary s) (p_i3 s) = true;
  ag_gap : forall j, p_i2 s < j < p_i3 s -> bn (p_summary s) j = false;
  ag_cst : p_chunk_size s * cnt (p_summary s) (p_i2 s) <= p_chunk_start s
}.

(* a pass at chunk size 1 that has not accepted anything yet *)
Record A1 (s : pstate) (best : tcase) : Prop := {
  a1_sum : p_summary s = repeat true (Z.to_nat (tc_len best));
  a1_cst : p_chunk_start s = p_i2 s;
  a1_i1 : p_i1 s = p_i2 s - 1;
  a1_i3 : p_i3 s = p_i2 s + 1;
  a1_cov : forall i t', 1 <= i < p_chunk_start s -> rm2 best (i - 1) (i + 1) = Ok t' ->
                        f (content t') = false
}.

Definition AI (s : pstate) (best : tcase) : Prop :=
  PB s /\
  match p_phase s with
  | PTop => True
  | PLoop => AG s /\ (p_chunk_size s = 1 -> p_any s = false -> A1 s best)
  | PAfter => p_chunk_size s = 1 -> p_any s = false -> pf_around_fixpoint f best
  end.

Lemma AG_cst_ge : forall s, PB s -> AG s -> p_chunk_size s <= p_chunk_start s.
Proof.
  intros s HB HG. pose proof (pb_cs _ HB) as Hc. pose proof (ag_cst _ HG) as Hk.
  pose proof (cnt_ge1 _ _ _ (ag_i1 _ HG) (ag_b1 _ HG)) as H1. nia.
Qed.

Lemma AI_after_true : forall s best sm cs i1 i2 i3, PB s ->
  AI (upd s true PAfter sm cs i1 i2 i3) best.
Proof.
  intros s best sm cs i1 i2 i3 HB. split; [apply PB_upd; exact HB|]. pcbn.
  intros _ Habs. discriminate Habs.
Qed.

Lemma AI_loop_true : forall s best sm cs i1 i2 i3, PB s ->
  AG (upd s true PLoop sm cs i1 i2 i3) -> AI (upd s true PLoop sm cs i1 i2 i3) best.
Proof.
  intros s best sm cs i1 i2 i3 HB HG. split; [apply PB_upd; exact HB|]. pcbn.
  split; [exact HG|]. intros _ Habs. discriminate Habs.
Qed.

Lemma around_pass_start : forall s best s', PB s -> wf best ->
  pass_start KAround s best = Ok s' -> AI s' best.
Proof.
  intros s best s' HB Hwf H. unfold pass_start in H.
  destruct (divide_rounding_up (tc_len best) (p_chunk_size s)) as [v|e] eqn:Ed;
    cbn [bind] in H; [|discriminate H].
  pose proof (pb_cs _ HB) as Hc.
  destruct (v <? 3) eqn:E3; injection H as H; subst s'.
  - split; [apply PB_upd; exact HB|]. pcbn. intros Hc1 _.
    rewrite Hc1 in Ed. apply dru_one in Ed. subst v.
    intros i t' Hi1 Hi2. lia.
  - split; [apply PB_upd; exact HB|]. pcbn. unfold py_repeat.
    assert (Hz : zlen (repeat true (Z.to_nat v)) = v) by (rewrite zlen_repeat; lia).
    split.
    + constructor; pcbn.
      * lia.
      * rewrite Hz. lia.
      * apply bn_alltrue. lia.
      * apply bn_alltrue. lia.
      * apply bn_alltrue. lia.
      * intros j Hj. lia.
      * pose proof (cnt_le (repeat true (Z.to_nat v)) 1 ltac:(lia)). nia.
    + intros Hc1 _. rewrite Hc1 in Ed. apply dru_one in Ed. subst v.
      constructor; pcbn; try lia; try reflexivity.
Qed.

(* state after a rejected or skipped proposal *)
Definition around_rej (s : pstate) : pstate :=
  match s_index (p_summary s) (p_i3 s + 1) with
  | Some a => upd s (p_any s) PLoop (p_summary s)
                (p_chunk_start s + p_chunk_size s) (p_i2 s) (p_i3 s) a
  | None => upd s (p_any s) PAfter (p_summary s)
                (p_chunk_start s + p_chunk_size s) (p_i2 s) (p_i3 s) (p_i3 s)
  end.

Lemma around_propose_cases : forall s best,
  (exists e, around_propose s best = Fail e) \/ (exists t k, around_propose s best = Propose t k).
Proof.
  intros s best. unfold around_propose. cbv zeta.
  match goal with |- context [match ?m with Ok _ => _ | Err _ => _ end] => destruct m as [t|e] end.
  - right. eexists. eexists. reflexivity.
  - left. eexists. reflexivity.
Qed.

Lemma around_step : forall s best t k,
  AI s best -> p_phase s = PLoop -> p_chunk_start s + p_chunk_size s < tc_len best ->
  wf best -> nonempty_parts best ->
  around_propose s best = Propose t k ->
  sub_reducible best t /\
  (forall o, o <> Tested true ->
     ((length (content t) < length (content best))%nat -> f (content t) = false) ->
     AI (k o) best) /\
  AI (k (Tested true)) t.
Proof.
  intros s best t k [HB HP] Hph Hcond Hwf Hne Hprop. rewrite Hph in HP. destruct HP as [HG H1].
  pose proof (pb_cs _ HB) as Hc. pose proof (AG_cst_ge _ HB HG) as Hcst.
  pose proof (tc_len_nonneg best Hwf) as Hlen.
  unfold around_propose in Hprop. cbv zeta in Hprop. rewrite copy_id in Hprop.
  replace (Z.min (tc_len best) (p_chunk_start s + p_chunk_size s))
    with (p_chunk_start s + p_chunk_size s) in Hprop by lia.
  destruct (rmslice best (p_chunk_start s + p_chunk_size s)
              (Z.min (tc_len best) (p_chunk_start s + p_chunk_size s + p_chunk_size s)))
    as [t1|e1] eqn:E1; cbn [bind] in Hprop; [|discriminate Hprop].
  destruct (rmslice t1 (Z.max 0 (p_chunk_start s - p_chunk_size s)) (p_chunk_start s))
    as [t2|e2] eqn:E2; [|discriminate Hprop].
  injection Hprop as Ht Hk. subst t2.
  assert (Hr1 : 0 <= p_chunk_start s + p_chunk_size s <=
                Z.min (tc_len best) (p_chunk_start s + p_chunk_size s + p_chunk_size s)) by lia.
  assert (Hr2 : 0 <= Z.max 0 (p_chunk_start s - p_chunk_size s) <= p_chunk_start s) by lia.
  destruct (rm_nonneg best _ _ t1 Hwf Hr1 E1) as (Hwf1 & Hsub1 & Hlen1 & Hne1 & _).
  destruct (rm_nonneg t1 _ _ t Hwf1 Hr2 E2) as (Hwft & Hsub2 & Hlent & _ & Hlt2).
  clear Hr1 Hr2.
  assert (Hsub : sub_reducible best t) by exact (sub_reducible_trans _ _ _ Hsub1 Hsub2).
  (* the move at chunk size 1 is rm2 best (cst-1) (cst+1) *)
  assert (Hmove : p_chunk_size s = 1 -> p_any s = false ->
            ((length (content t) < length (content best))%nat -> f (content t) = false) ->
            forall t', rm2 best (p_chunk_start s - 1) (p_chunk_start s + 1) = Ok t' ->
                       f (content t') = false).
  { intros Hc1 Hany Hf t' Hrm. destruct (H1 Hc1 Hany) as [Hsum Hcs Hi1 Hi3 _].
    pose proof (ag_i3 _ HG) as Hz. rewrite Hsum, zlen_repeat in Hz.
    rewrite Hc1 in *.
    replace (Z.min (tc_len best) (p_chunk_start s + 1 + 1)) with (p_chunk_start s + 1 + 1) in *
      by lia.
    replace (Z.max 0 (p_chunk_start s - 1)) with (p_chunk_start s - 1) in * by lia.
    unfold rm2 in Hrm. rewrite E1 in Hrm. cbn [bind] in Hrm.
    replace (p_chunk_start s - 1 + 1) with (p_chunk_start s) in Hrm by lia.
    rewrite E2 in Hrm. injection Hrm as Hrm. subst t'. apply Hf.
    pose proof (sub_reducible_content_le _ _ Hwf Hsub1) as Hle.
    specialize (Hlt2 (Hne1 Hne) ltac:(lia)). lia. }
  split; [exact Hsub|]. split.
  - (* rejected or skipped *)
    intros o Ho Hf.
    assert (HE : k o = around_rej s).
    { subst k. destruct o as [|[|]]; [reflexivity | exfalso; apply Ho; reflexivity |].
      cbv beta iota. rewrite orb_false_r. reflexivity. }
    rewrite HE. clear HE. unfold around_rej.
    destruct (s_index (p_summary s) (p_i3 s + 1)) as [a|] eqn:Ea.
    + destruct (s_index_some _ _ _ Ea) as (Ha & Hia & Hba & Hga).
      split; [apply PB_upd; exact HB|]. pcbn. split.
      * pose proof (ag_i1 _ HG). pose proof (ag_i3 _ HG).
        constructor; pcbn.
        -- lia.
        -- lia.
        -- exact (ag_b2 _ HG).
        -- exact (ag_b3 _ HG).
        -- exact Hba.
        -- intros j Hj. apply Hga; lia.
        -- pose proof (cnt_gap (p_summary s) (p_i2 s) (p_i3 s) ltac:(lia) (ag_gap _ HG)) as Hg.
           pose proof (ag_cst _ HG). nia.
      * intros Hc1 Hany. pose proof (H1 Hc1 Hany) as HA.
        destruct HA as [Hsum Hcs Hi1 Hi3 Hcov].
        pose proof (ag_i1 _ HG) as Hr1.
        rewrite Hsum in Ea. apply s_index_alltrue_some in Ea; [|lia]. destruct Ea as [Ea _].
        constructor; pcbn; try lia; try exact Hsum.
        intros i t' Hi Hrm.
        destruct (Z.eq_dec i (p_chunk_start s)) as [He|Hn].
        -- subst i. exact (Hmove Hc1 Hany Hf t' Hrm).
        -- apply (Hcov i t'); [lia | exact Hrm].
    + split; [apply PB_upd; exact HB|]. pcbn. intros Hc1 Hany.
      destruct (H1 Hc1 Hany) as [Hsum Hcs Hi1 Hi3 Hcov].
      pose proof (ag_i1 _ HG) as Hr1.
      rewrite Hsum in Ea. apply s_index_alltrue_none in Ea; [|lia].
      intros i t' Hi1' Hi2' Hrm.
      destruct (Z.eq_dec i (p_chunk_start s)) as [He|Hn].
      * subst i. exact (Hmove Hc1 Hany Hf t' Hrm).
      * apply (Hcov i t'); [lia | exact Hrm].
  - (* accepted *)
    subst k. cbv beta iota.
    pose proof (ag_i1 _ HG) as Hr1. pose proof (ag_i3 _ HG) as Hr3.
    destruct (clear2_facts (p_summary s) (p_i1 s) (p_i2 s) (p_i3 s) Hr1 Hr3 (ag_b1 _ HG) (ag_b2 _ HG))
      as (Hz & Hb2 & Hcnt).
    set (sm := s_clear (s_clear (p_summary s) (p_i1 s)) (p_i3 s)) in *.
    destruct (s_rindex sm (p_i2 s)) as [b|] eqn:Er.
    + destruct (s_rindex_some _ _ _ Er) as (Hb & Hbl & Hbb).
      destruct (s_index sm (p_i2 s + 1)) as [a|] eqn:Ea; [|apply AI_after_true; exact HB].
      destruct (s_index_some _ _ _ Ea) as (Ha & Hia & Hba & Hga).
      apply AI_loop_true; [exact HB|]. constructor; pcbn; try assumption; try lia.
      * intros j Hj. apply Hga; lia.
      * rewrite Hcnt. pose proof (ag_cst _ HG). nia.
    + destruct (s_index sm (p_i2 s + 1)) as [k|] eqn:Ek; [|apply AI_after_true; exact HB].
      destruct (s_index_some _ _ _ Ek) as (Hk & Hik & Hbk & Hgk).
      destruct (s_index sm (k + 1)) as [a|] eqn:Ea; [|apply AI_after_true; exact HB].
      destruct (s_index_some _ _ _ Ea) as (Ha & Hia & Hba & Hga).
      apply AI_loop_true; [exact HB|]. constructor; pcbn; try assumption; try lia.
      * intros j Hj. apply Hga; lia.
      * assert (Hg : cnt sm k <= cnt sm (p_i2 s) + 1).
        { apply cnt_gap; [lia|]. intros j Hj. apply Hgk; lia. }
        rewrite Hcnt in Hg. pose proof (ag_cst _ HG). nia.
Qed.

Lemma around_pdrive : forall cfg clk, c_repeat cfg <> Never ->
  forall fuel s best, AI s best -> wf best ->
  match pdrive fuel KAround cfg clk s best with
  | Done => pf_around_fixpoint f best
  | Propose t k =>
      exists s1, AI s1 best /\ p_phase s1 = PLoop /\
                 p_chunk_start s1 + p_chunk_size s1 < tc_len best /\
                 around_propose s1 best = Propose t k
  | RawWrite _ _ => False
  | Fail _ => True
  end.
Proof.
  intros cfg clk Hrep fuel. induction fuel as [|fuel IH]; intros s best HI Hwf; cbn [pdrive];
    [exact I|].
  pose proof HI as [HB HP].
  destruct (p_phase s) eqn:Hph.
  - destruct (pass_start KAround s best) as [s'|e] eqn:Eps; [|exact I].
    apply IH; [|exact Hwf]. exact (around_pass_start s best s' HB Hwf Eps).
  - destruct (p_chunk_start s + p_chunk_size s <? tc_len best) eqn:Ec; cbn [negb].
    + rewrite (read_clock_none clk s (pb_dead _ HB)). cbv beta iota.
      destruct (around_propose_cases s best) as [(e & He)|(t & k & Hp)].
      * rewrite He. exact I.
      * rewrite Hp. exists s. split; [exact HI|]. split; [exact Hph|]. split; [lia | exact Hp].
    + apply IH; [|exact Hwf]. split; [apply PB_set_pp; exact HB|]. pcbn.
      intros Hc1 Hany. exfalso. destruct HP as [HG H1].
      destruct (H1 Hc1 Hany) as [Hsum Hcs Hi1 Hi3 _].
      pose proof (ag_i3 _ HG) as Hz. rewrite Hsum, zlen_repeat in Hz.
      pose proof (tc_len_nonneg best Hwf). lia.
  - destruct (after_pass cfg clk s) as [s'|] eqn:Ea.
    + apply IH; [|exact Hwf]. destruct (after_pass_some cfg clk s s' HB Ea) as [HB' Hp'].
      split; [exact HB'|]. rewrite Hp'. exact I.
    + destruct (after_pass_none cfg clk s HB Hrep Ea) as [Hc1 Hany]. exact (HP Hc1 Hany).
Qed.

End Around.

Theorem around_stops_at_fixpoint :
  forall cfg clk f tc0 file0 fuel rc w,
    wf tc0 -> Forall (fun p => p <> []) (tc_parts tc0) -> content tc0 = file0 ->
    c_min cfg = 1 -> is_power_of_two (c_max cfg) = true -> c_repeat cfg <> Never ->
    c_limit cfg = None -> f file0 = true ->
    run (pairs KAround cfg clk) (det f) fuel tc0 file0 = Finished rc w ->
    exists tf, sub_reducible tc0 tf /\ w_file w = content tf /\ f (content tf) = true /\
               pf_around_fixpoint f tf.
Proof.
  intros cfg clk f tc0 file0 fuel rc w Hwf Hne Hc Hmin Hmax Hrep Hlim Hf Hrun.
  apply (generic_fixpoint f pstate (pairs KAround cfg clk) (AI f) (fun _ => True)
           (pf_around_fixpoint f)) with (file0 := file0) (fuel := fuel) (rc := rc);
    try assumption.
  - intros t t' _ _ _. exact I.
  - intros st best HI Hwfb Hneb _.
    change (s_next (pairs KAround cfg clk) st best)
      with (pdrive (pairs_fuel st best) KAround cfg clk st best).
    pose proof (around_pdrive f cfg clk Hrep (pairs_fuel st best) st best HI Hwfb) as Hd.
    destruct (pdrive (pairs_fuel st best) KAround cfg clk st best) as [t k|b s'| |e].
    + destruct Hd as (s1 & HI1 & Hph & Hcond & Hp).
      exact (around_step f s1 best t k HI1 Hph Hcond Hwfb Hneb Hp).
    + exact Hd.
    + exact Hd.
    + exact I.
  - exact I.
  - destruct (pstart_PB cfg clk tc0 Hmin Hmax Hlim) as [HB Hp].
    split; [exact HB|]. change (s_start (pairs KAround cfg clk) tc0) with (pstart cfg clk tc0).
    rewrite Hp. exact I.
  - intros Hl i t' Hi1 Hi2. lia.
Qed.

(* ------------------------------------------------------------------ *)
(* 5. minimize-balanced                                                *)
(* ------------------------------------------------------------------ *)

Lemma all_red_len : forall t, wf t -> all_reducible t -> tc_len t = zlen (tc_parts t).
Proof.
  intros t Hwf Ha. unfold tc_len, count_false.
  assert (H : filter negb (tc_red t) = []).
  { unfold all_reducible in Ha. induction Ha as [|b l Hb _ IH]; [reflexivity|].
    subst b. cbn [filter negb]. exact IH. }
  rewrite H. unfold zlen. cbn [length]. lia.
Qed.

Lemma subred_all_true : forall l l', subred l l' ->
  Forall (fun x : bytes * bool => snd x = true) l -> Forall (fun x : bytes * bool => snd x = true) l'.
Proof.
  intros l l' H. induction H as [|x l l' H IH|p l l' H IH]; intros HF.
  - exact HF.
  - inversion HF as [|x0 l0 Hx Hl]; subst. constructor; [exact Hx | apply IH; exact Hl].
  - inversion HF as [|x0 l0 Hx Hl]; subst. apply IH. exact Hl.
Qed.

Lemma all_red_sub : forall t t', wf t -> all_reducible t -> sub_reducible t t' -> all_reducible t'.
Proof.
  intros t t' Hwf Ha (_ & _ & Hwf' & Hs). unfold all_reducible in *.
  rewrite <- (zipped_red t Hwf) in Ha. rewrite Forall_map in Ha.
  rewrite <- (zipped_red t' Hwf'). rewrite Forall_map.
  exact (subred_all_true _ _ Hs Ha).
Qed.

Lemma tables_gen : forall (g : bytes -> Z * Z * Z) (l pre : list bytes),
  flat_mapM (fun i => p <- py_index (pre ++ l) i ;; Ok [g p])
            (map Z.of_nat (seq (length pre) (length l))) = Ok (map g l).
Proof.
  intros g l. induction l as [|x l IH]; intros pre; [reflexivity|].
  cbn [length seq map flat_mapM].
  change (Z.of_nat (length pre)) with (zlen pre). rewrite py_index_mid. cbn [bind].
  specialize (IH (pre ++ [x])). rewrite <- app_assoc in IH. cbn [app] in IH.
  rewrite app_length in IH. cbn [length] in IH.
  replace (length pre + 1)%nat with (S (length pre)) in IH by lia.
  rewrite IH. cbn [bind app]. reflexivity.
Qed.

Lemma tables_eq : forall (g : bytes -> Z * Z * Z) (l : list bytes),
  flat_mapM (fun i => p <- py_index l i ;; Ok [g p]) (py_range (zlen l)) = Ok (map g l).
Proof.
  intros g l. unfold py_range, zlen. rewrite Nat2Z.id. exact (tables_gen g l []).
Qed.

Lemma py_index_ok : forall (A : Type) (l : list A) i x, 0 <= i -> py_index l i = Ok x ->
  nth_error l (Z.to_nat i) = Some x /\ i < zlen l.
Proof.
  intros A l i x Hi H. unfold py_index in H. cbv zeta in H.
  destruct (i <? 0) eqn:E0; [lia|].
  destruct ((i <? 0) || (zlen l <=? i)) eqn:E1; [discriminate H|].
  destruct (nth_error l (Z.to_nat i)) as [y|] eqn:En; [|discriminate H].
  injection H as H. subst y. split; [reflexivity | lia].
Qed.

Lemma py_slice_from_Z : forall (A : Type) (l : list A) k, 0 <= k ->
  py_slice l (Some k) None = skipn (Z.to_nat k) l.
Proof.
  intros A l k Hk. rewrite <- (Z2Nat.id k) at 1 by lia. apply py_slice_from_nat.
Qed.

Lemma scan_partner : forall ps idx n, zero3 n = false ->
  partner_from ps (idx + 1) n =
  (let '(rhs, nf) := partner_scan (repeat true (length ps)) (map bdiff ps) idx n in
   if zero3 nf then Some rhs else None).
Proof.
  intros ps. induction ps as [|p r IH]; intros idx n Hn.
  - cbn [length repeat map partner_scan partner_from]. rewrite Hn. reflexivity.
  - cbn [length repeat map partner_from].
    destruct (bdiff p) as [[c q] d] eqn:Eb. destruct n as [[nc nq] nr].
    cbn [partner_scan negb add3 neg3]. cbv beta iota zeta.
    destruct ((nc + c <? 0) || (nq + q <? 0) || (nr + d <? 0)) eqn:Eneg.
    + assert (Hz : zero3 (nc + c, nq + q, nr + d) = false) by (cbn [zero3]; lia).
      rewrite Hz. reflexivity.
    + destruct (zero3 (nc + c, nq + q, nr + d)) eqn:Ez.
      * cbn [zero3] in Ez. rewrite Ez. cbn [zero3]. rewrite Ez. reflexivity.
      * cbn [zero3] in Ez. rewrite Ez. apply IH. cbn [zero3]. exact Ez.
Qed.

Lemma partner_from_range : forall ps j n r, partner_from ps j n = Some r -> j <= r < j + zlen ps.
Proof.
  intros ps. induction ps as [|p l IH]; intros j n r H; cbn [partner_from] in H; [discriminate H|].
  unfold zlen. cbn [length].
  destruct (neg3 (add3 n (bdiff p))); [discriminate H|].
  destruct (zero3 (add3 n (bdiff p))).
  - injection H as H. lia.
  - apply IH in H. unfold zlen in H. lia.
Qed.

Lemma partner_mode : forall parts lhs p rhs n,
  0 <= lhs < zlen parts -> nth_error parts (Z.to_nat lhs) = Some p -> zero3 (bdiff p) = false ->
  partner_scan (py_slice (repeat true (length parts)) (Some (lhs + 1)) None)
               (py_slice (map bdiff parts) (Some (lhs + 1)) None) lhs (bdiff p) = (rhs, n) ->
  partner parts lhs = if zero3 n then Some rhs else None.
Proof.
  intros parts lhs p rhs n Hl Hp Hz Hs. unfold zlen in Hl.
  rewrite py_slice_from_alltrue in Hs by lia.
  rewrite py_slice_from_Z in Hs by lia.
  rewrite skipn_map in Hs.
  replace (Z.to_nat (lhs + 1)) with (S (Z.to_nat lhs)) in Hs by lia.
  replace (length parts - S (Z.to_nat lhs))%nat with (length (skipn (S (Z.to_nat lhs)) parts)) in Hs
    by (rewrite skipn_length; reflexivity).
  unfold partner. rewrite Hp. unfold balanced_atom. rewrite Hz.
  rewrite (scan_partner _ lhs (bdiff p) Hz). rewrite Hs. reflexivity.
Qed.

Lemma partner_range : forall parts i j, 0 <= i -> partner parts i = Some j -> i < j < zlen parts.
Proof.
  intros parts i j Hi H. unfold partner in H.
  destruct (nth_error parts (Z.to_nat i)) as [p|] eqn:Ep; [|discriminate H].
  destruct (balanced_atom p); [discriminate H|].
  apply partner_from_range in H.
  assert (Hlt : (Z.to_nat i < length parts)%nat) by (apply nth_error_Some; congruence).
  unfold zlen in *. rewrite skipn_length in H. lia.
Qed.

Section Balanced.
Variable f : bytes -> bool.

(* both moves at atom i have been rejected *)
Definition cov (best : tcase) (i : Z) : Prop :=
  (forall p t', nth_error (tc_parts best) (Z.to_nat i) = Some p -> balanced_atom p = true ->
                rmslice best i (i + 1) = Ok t' -> f (content t') = false) /\
  (forall j t', partner (tc_parts best) i = Some j -> rm2 best i j = Ok t' ->
                f (content t') = false).

(* a pass at chunk size 1 that has not accepted anything yet *)
Record B1 (s : pstate) (best : tcase) : Prop := {
  b1_sum : p_summary s = repeat true (Z.to_nat (tc_len best));
  b1_tab : p_tables s = map bdiff (tc_parts best);
  b1_cst : p_chunk_start s = p_i1 s;
  b1_lhs : 0 <= p_i1 s;
  b1_cov : forall i, 0 <= i < p_i1 s -> cov best i
}.

Definition BI (s : pstate) (best : tcase) : Prop :=
  PB s /\
  match p_phase s with
  | PTop => True
  | PLoop => p_chunk_size s = 1 -> p_any s = false -> B1 s best
  | PAfter => p_chunk_size s = 1 -> p_any s = false -> pf_balanced_fixpoint f best
  end.

Lemma cov_all_fixpoint : forall best,
  (forall i, 0 <= i < tc_len best -> cov best i) -> pf_balanced_fixpoint f best.
Proof.
  intros best H _. split.
  - intros i p t' Hi. exact (proj1 (H i Hi) p t').
  - intros i j t' Hi. exact (proj2 (H i Hi) j t').
Qed.

Lemma BI_bal_true : forall s sm cst t, PB s -> BI (bal_next s true sm cst) t.
Proof.
  intros s sm cst t HB. unfold bal_next.
  destruct (s_index sm (p_i1 s + 1)); (split; [apply PB_upd; exact HB|]); pcbn;
    intros _ Habs; discriminate Habs.
Qed.

Lemma BI_bal_rej : forall s best, PB s -> wf best ->
  (p_chunk_size s = 1 -> p_any s = false -> B1 s best /\ cov best (p_i1 s)) ->
  BI (bal_next s (p_any s) (p_summary s) (p_chunk_start s + p_chunk_size s)) best.
Proof.
  intros s best HB Hwf H. pose proof (tc_len_nonneg best Hwf) as Hlen. unfold bal_next.
  destruct (s_index (p_summary s) (p_i1 s + 1)) as [l|] eqn:El;
    (split; [apply PB_upd; exact HB|]); pcbn; intros Hc1 Hany;
    destruct (H Hc1 Hany) as [[Hsum Htab Hcs Hl Hcov] Hnew].
  - rewrite Hsum in El. apply s_index_alltrue_some in El; [|lia]. destruct El as [El _].
    constructor; pcbn.
    + exact Hsum.
    + exact Htab.
    + lia.
    + lia.
    + intros i Hi. destruct (Z.eq_dec i (p_i1 s)) as [He|Hn];
        [subst i; exact Hnew | apply Hcov; lia].
  - rewrite Hsum in El. apply s_index_alltrue_none in El; [|lia].
    apply cov_all_fixpoint. intros i Hi.
    destruct (Z.eq_dec i (p_i1 s)) as [He|Hn]; [subst i; exact Hnew | apply Hcov; lia].
Qed.

Lemma balanced_pass_start : forall s best s', PB s -> wf best -> all_reducible best ->
  pass_start KBalanced s best = Ok s' -> BI s' best.
Proof.
  intros s best s' HB Hwf Hall H. unfold pass_start in H.
  destruct (divide_rounding_up (tc_len best) (p_chunk_size s)) as [v|e] eqn:Ed;
    cbn [bind] in H; [|discriminate H].
  destruct (v <? 2) eqn:E2.
  - injection H as H. subst s'. split; [apply PB_upd; exact HB|]. pcbn. intros Hc1 _.
    rewrite Hc1 in Ed. apply dru_one in Ed. subst v. intros H2. lia.
  - match type of H with context [flat_mapM ?F ?L] =>
      destruct (flat_mapM F L) as [tb|e] eqn:Et end; cbn [bind] in H; [|discriminate H].
    injection H as H. subst s'. destruct HB as [Hd Hc Hf].
    split; [constructor; pcbn; assumption|]. pcbn.
    intros Hc1 _. rewrite Hc1 in Ed. apply dru_one in Ed. subst v.
    constructor; pcbn.
    + reflexivity.
    + rewrite (all_red_len best Hwf Hall) in Et.
      pose proof (tables_eq bdiff (tc_parts best)) as Ht.
      assert (HE : Ok tb = Ok (map bdiff (tc_parts best))) by (rewrite <- Et; exact Ht).
      injection HE as HE. exact HE.
    + reflexivity.
    + lia.
    + intros i Hi. lia.
Qed.

Lemma balanced_body_ok : forall s best,
  BI s best -> p_phase s = PLoop -> p_chunk_start s < tc_len best ->
  wf best -> all_reducible best -> nonempty_parts best ->
  match balanced_body s best with
  | ICont s2 => BI s2 best
  | IStep (Propose t k) =>
      sub_reducible best t /\
      (forall o, o <> Tested true ->
         ((length (content t) < length (content best))%nat -> f (content t) = false) ->
         BI (k o) best) /\
      BI (k (Tested true)) t
  | IStep (Fail _) => True
  | IStep _ => False
  end.
Proof.
  intros s best [HB HP] Hph Hcond Hwf Hall Hne. rewrite Hph in HP.
  pose proof (pb_cs _ HB) as Hc. pose proof (tc_len_nonneg best Hwf) as Hlen.
  pose proof (all_red_len best Hwf Hall) as Hlp.
  unfold balanced_body. cbv zeta.
  destruct (negb (s_count (p_summary s) 0 (p_i1 s) * p_chunk_size s =? p_chunk_start s)) eqn:Eas;
    [exact I|].
  assert (Hcst0 : 0 <= p_chunk_start s).
  { assert (H0 : 0 <= s_count (p_summary s) 0 (p_i1 s)) by (unfold s_count; apply zlen_nonneg).
    apply negb_false_iff in Eas. apply Z.eqb_eq in Eas. nia. }
  destruct (nth_table (p_tables s) (p_i1 s)) as [n0|e] eqn:En; [|exact I].
  assert (Hmode : p_chunk_size s = 1 -> p_any s = false ->
            B1 s best /\ exists p, nth_error (tc_parts best) (Z.to_nat (p_i1 s)) = Some p /\
                                   n0 = bdiff p /\ p_i1 s < tc_len best).
  { intros Hc1 Hany. pose proof (HP Hc1 Hany) as HB1. split; [exact HB1|].
    destruct HB1 as [Hsum Htab Hcs Hl Hcov]. unfold nth_table in En. rewrite Htab in En.
    destruct (py_index_ok _ _ _ _ Hl En) as [Hn Hlt]. rewrite nth_error_map in Hn.
    destruct (nth_error (tc_parts best) (Z.to_nat (p_i1 s))) as [p|] eqn:Ep;
      [|discriminate Hn].
    cbn [option_map] in Hn. injection Hn as Hn. exists p. split; [reflexivity|].
    split; [symmetry; exact Hn | lia]. }
  rewrite copy_id.
  assert (Hr2 : 0 <= p_chunk_start s <= Z.min (tc_len best) (p_chunk_start s + p_chunk_size s))
    by lia.
  destruct (zero3 n0) eqn:Ez.
  - (* a balanced atom: propose deleting it *)
    destruct (rmslice best (p_chunk_start s) (Z.min (tc_len best) (p_chunk_start s + p_chunk_size s)))
      as [t|e] eqn:E1; [|exact I].
    destruct (rm_nonneg best _ _ t Hwf Hr2 E1) as (Hwft & Hsub & _ & _ & Hlt).
    split; [exact Hsub|]. split; [|apply BI_bal_true; exact HB].
    intros o Ho Hf.
    assert (Hrej : BI (bal_next s (p_any s) (p_summary s) (p_chunk_start s + p_chunk_size s)) best).
    { apply BI_bal_rej; [exact HB | exact Hwf |]. intros Hc1 Hany.
      destruct (Hmode Hc1 Hany) as [HB1 (p & Hp & Hn0 & Hlt1)]. split; [exact HB1|].
      destruct HB1 as [Hsum Htab Hcs Hl Hcov]. split.
      - intros p' t' Hp' Hbal Hrm.
        rewrite Hcs in E1.
        replace (Z.min (tc_len best) (p_i1 s + p_chunk_size s)) with (p_i1 s + 1) in E1 by lia.
        rewrite E1 in Hrm. injection Hrm as Hrm. subst t'. apply Hf.
        apply Hlt; [exact Hne | lia].
      - intros j t' Hpart. unfold partner in Hpart. rewrite Hp in Hpart.
        unfold balanced_atom in Hpart. rewrite <- Hn0, Ez in Hpart. discriminate Hpart. }
    destruct o as [|[|]]; [exact Hrej | exfalso; apply Ho; reflexivity | exact Hrej].
  - (* an unbalanced atom: look for its partner *)
    match goal with |- context [partner_scan ?a ?b ?c ?d] =>
      destruct (partner_scan a b c d) as [rhs n] eqn:Es end.
    assert (Hpm : p_chunk_size s = 1 -> p_any s = false ->
              partner (tc_parts best) (p_i1 s) = if zero3 n then Some rhs else None).
    { intros Hc1 Hany. destruct (Hmode Hc1 Hany) as [[Hsum Htab Hcs Hl Hcov] (p & Hp & Hn0 & Hlt1)].
      rewrite Hsum, Htab, Hn0 in Es.
      replace (Z.to_nat (tc_len best)) with (length (tc_parts best)) in Es
        by (rewrite Hlp; unfold zlen; rewrite Nat2Z.id; reflexivity).
      apply (partner_mode (tc_parts best) (p_i1 s) p rhs n); [lia | exact Hp | | exact Es].
      rewrite <- Hn0. exact Ez. }
    destruct (negb (zero3 n)) eqn:Ezn.
    + (* no partner: advance *)
      apply BI_bal_rej; [exact HB | exact Hwf |]. intros Hc1 Hany.
      destruct (Hmode Hc1 Hany) as [HB1 (p & Hp & Hn0 & Hlt1)]. split; [exact HB1|]. split.
      * intros p' t' Hp' Hbal. rewrite Hp in Hp'. injection Hp' as Hp'. subst p'.
        unfold balanced_atom in Hbal. rewrite <- Hn0, Ez in Hbal. discriminate Hbal.
      * intros j t' Hpart. rewrite (Hpm Hc1 Hany) in Hpart.
        destruct (zero3 n); [discriminate Ezn | discriminate Hpart].
    + (* propose deleting the atom and its partner *)
      assert (Hsc : 0 <= p_chunk_size s * s_count (p_summary s) (p_i1 s) rhs).
      { assert (H0 : 0 <= s_count (p_summary s) (p_i1 s) rhs) by (unfold s_count; apply zlen_nonneg).
        nia. }
      assert (Hr1 : 0 <= Z.min (tc_len best)
                          (p_chunk_start s + p_chunk_size s * s_count (p_summary s) (p_i1 s) rhs)
                    <= Z.min (tc_len best)
                         (Z.min (tc_len best)
                            (p_chunk_start s + p_chunk_size s * s_count (p_summary s) (p_i1 s) rhs)
                          + p_chunk_size s)) by lia.
      match goal with |- context [rmslice best ?a ?b] =>
        destruct (rmslice best a b) as [t1|e1] eqn:E1 end; cbn [bind]; [|exact I].
      destruct (rmslice t1 (p_chunk_start s) (Z.min (tc_len best) (p_chunk_start s + p_chunk_size s)))
        as [t|e2] eqn:E2; [|exact I].
      destruct (rm_nonneg best _ _ t1 Hwf Hr1 E1) as (Hwf1 & Hsub1 & Hlen1 & Hne1 & _).
      destruct (rm_nonneg t1 _ _ t Hwf1 Hr2 E2) as (Hwft & Hsub2 & _ & _ & Hlt2).
      split; [exact (sub_reducible_trans _ _ _ Hsub1 Hsub2)|].
      split; [|apply BI_bal_true; exact HB].
      intros o Ho Hf.
      assert (Hrej : BI (bal_next s (p_any s) (p_summary s) (p_chunk_start s + p_chunk_size s)) best).
      { apply BI_bal_rej; [exact HB | exact Hwf |]. intros Hc1 Hany.
        destruct (Hmode Hc1 Hany) as [HB1 (p & Hp & Hn0 & Hlt1)]. split; [exact HB1|].
        destruct HB1 as [Hsum Htab Hcs Hl Hcov]. split.
        - intros p' t' Hp' Hbal. rewrite Hp in Hp'. injection Hp' as Hp'. subst p'.
          unfold balanced_atom in Hbal. rewrite <- Hn0, Ez in Hbal. discriminate Hbal.
        - intros j t' Hpart Hrm. pose proof (Hpm Hc1 Hany) as Hpa.
          destruct (zero3 n); [|discriminate Ezn].
          rewrite Hpa in Hpart. injection Hpart as Hpart. subst j.
          destruct (partner_range _ _ _ Hl Hpa) as [Hlr Hrl].
          assert (Hsc' : s_count (p_summary s) (p_i1 s) rhs = rhs - p_i1 s)
            by (rewrite Hsum; apply s_count_alltrue; lia).
          assert (HRS : Z.min (tc_len best)
                          (p_chunk_start s + p_chunk_size s * s_count (p_summary s) (p_i1 s) rhs)
                        = rhs) by (rewrite Hsc', Hc1; lia).
          rewrite HRS in *.
          replace (Z.min (tc_len best) (rhs + p_chunk_size s)) with (rhs + 1) in * by lia.
          rewrite Hcs in E2.
          replace (Z.min (tc_len best) (p_i1 s + p_chunk_size s)) with (p_i1 s + 1) in E2 by lia.
          unfold rm2 in Hrm. rewrite E1 in Hrm. cbn [bind] in Hrm. rewrite E2 in Hrm.
          injection Hrm as Hrm. subst t'. apply Hf.
          pose proof (sub_reducible_content_le _ _ Hwf Hsub1) as Hle.
          specialize (Hlt2 (Hne1 Hne) ltac:(lia)). lia. }
      destruct o as [|[|]]; [exact Hrej | exfalso; apply Ho; reflexivity | exact Hrej].
Qed.

Lemma balanced_pdrive : forall cfg clk, c_repeat cfg <> Never ->
  forall fuel s best, BI s best -> wf best -> all_reducible best -> nonempty_parts best ->
  match pdrive fuel KBalanced cfg clk s best with
  | Done => pf_balanced_fixpoint f best
  | Propose t k =>
      sub_reducible best t /\
      (forall o, o <> Tested true ->
         ((length (content t) < length (content best))%nat -> f (content t) = false) ->
         BI (k o) best) /\
      BI (k (Tested true)) t
  | RawWrite _ _ => False
  | Fail _ => True
  end.
Proof.
  intros cfg clk Hrep fuel. induction fuel as [|fuel IH]; intros s best HI Hwf Hall Hne;
    cbn [pdrive]; [exact I|].
  pose proof HI as [HB HP].
  destruct (p_phase s) eqn:Hph.
  - destruct (pass_start KBalanced s best) as [s'|e] eqn:Eps; [|exact I].
    apply IH; try assumption. exact (balanced_pass_start s best s' HB Hwf Hall Eps).
  - destruct (p_chunk_start s <? tc_len best) eqn:Ec; cbn [negb].
    + rewrite (read_clock_none clk s (pb_dead _ HB)). cbv beta iota.
      pose proof (balanced_body_ok s best HI Hph ltac:(lia) Hwf Hall Hne) as Hb.
      destruct (balanced_body s best) as [st|s2].
      * destruct st as [t k|b s'| |e]; [exact Hb | exact Hb | destruct Hb | exact Hb].
      * apply IH; assumption.
    + apply IH; try assumption. split; [apply PB_set_pp; exact HB|]. pcbn.
      intros Hc1 Hany. destruct (HP Hc1 Hany) as [Hsum Htab Hcs Hl Hcov].
      apply cov_all_fixpoint. intros i Hi. apply Hcov. lia.
  - destruct (after_pass cfg clk s) as [s'|] eqn:Ea.
    + apply IH; try assumption. destruct (after_pass_some cfg clk s s' HB Ea) as [HB' Hp'].
      split; [exact HB'|]. rewrite Hp'. exact I.
    + destruct (after_pass_none cfg clk s HB Hrep Ea) as [Hc1 Hany]. exact (HP Hc1 Hany).
Qed.

End Balanced.

Theorem balanced_stops_at_fixpoint :
  forall cfg clk f tc0 file0 fuel rc w,
    wf tc0 -> all_reducible tc0 -> Forall (fun p => p <> []) (tc_parts tc0) -> content tc0 = file0 ->
    c_min cfg = 1 -> is_power_of_two (c_max cfg) = true -> c_repeat cfg <> Never ->
    c_limit cfg = None -> f file0 = true ->
    run (pairs KBalanced cfg clk) (det f) fuel tc0 file0 = Finished rc w ->
    exists tf, sub_reducible tc0 tf /\ w_file w = content tf /\ f (content tf) = true /\
               pf_balanced_fixpoint f tf.
Proof.
  intros cfg clk f tc0 file0 fuel rc w Hwf Hall Hne Hc Hmin Hmax Hrep Hlim Hf Hrun.
  apply (generic_fixpoint f pstate (pairs KBalanced cfg clk) (BI f) all_reducible
           (pf_balanced_fixpoint f)) with (file0 := file0) (fuel := fuel) (rc := rc);
    try assumption.
  - exact all_red_sub.
  - intros st best HI Hwfb Hneb Hallb.
    change (s_next (pairs KBalanced cfg clk) st best)
      with (pdrive (pairs_fuel st best) KBalanced cfg clk st best).
    exact (balanced_pdrive f cfg clk Hrep (pairs_fuel st best) st best HI Hwfb Hallb Hneb).
  - destruct (pstart_PB cfg clk tc0 Hmin Hmax Hlim) as [HB Hp].
    split; [exact HB|]. change (s_start (pairs KBalanced cfg clk) tc0) with (pstart cfg clk tc0).
    rewrite Hp. exact I.
  - intros Hl H2. lia.
Qed.

Print Assumptions around_stops_at_fixpoint.
Print Assumptions balanced_stops_at_fixpoint.
