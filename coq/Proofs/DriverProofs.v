(* Proofs about the driver model (Model/Driver.v) in the vocabulary of Model/TraceSpec.v.
   Used by Props/C01.v, C02.v, C11.v, C12.v.  No axioms. *)
From Coq Require Import ZArith NArith List Bool Lia ZifyBool.
From Lithium Require Import PyBase TcRecord Testcase Driver TraceSpec.
Import ListNotations.
Open Scope Z_scope.

(* ------------------------------------------------------------------ *)
(* basics                                                             *)
(* ------------------------------------------------------------------ *)

Ltac wsimpl :=
  cbn [w_file w_temp w_tests w_tfc w_total w_last w_dirty w_trace
       log write_file temp_copy set_last set_dirty count_test init_world
       it_best it_tried it_any].
Ltac wsimpl_in H :=
  cbn [w_file w_temp w_tests w_tfc w_total w_last w_dirty w_trace
       log write_file temp_copy set_last set_dirty count_test init_world
       it_best it_tried it_any] in H.

Lemma bytes_eqb_eq : forall a b : bytes, bytes_eqb a b = true <-> a = b.
Proof.
  induction a as [|x a IH]; intros [|y b]; cbn [bytes_eqb].
  - split; reflexivity.
  - split; intros H; discriminate H.
  - split; intros H; discriminate H.
  - rewrite andb_true_iff, N.eqb_eq, IH. split.
    + intros [Hx Ha]. subst. reflexivity.
    + intros H. inversion H. split; reflexivity.
Qed.

Lemma mem_bytes_In : forall x l, mem_bytes x l = true <-> In x l.
Proof.
  intros x l. induction l as [|y r IH]; cbn [mem_bytes In].
  - split; [intros H; discriminate H | intros H; contradiction].
  - rewrite orb_true_iff, bytes_eqb_eq, IH. split.
    + intros [H|H]; [left; symmetry; exact H | right; exact H].
    + intros [H|H]; [left; symmetry; exact H | right; exact H].
Qed.

Lemma zlen_app : forall A (l1 l2 : list A), zlen (l1 ++ l2) = zlen l1 + zlen l2.
Proof. intros A l1 l2. unfold zlen. rewrite app_length. lia. Qed.

Lemma zlen_cons : forall A (x : A) l, zlen (x :: l) = zlen l + 1.
Proof. intros A x l. unfold zlen. cbn [length]. lia. Qed.

Lemma zlen_nil : forall A, zlen (@nil A) = 0.
Proof. reflexivity. Qed.

Lemma zlen_nonneg : forall A (l : list A), 0 <= zlen l.
Proof. intros A l. unfold zlen. lia. Qed.

(* chron of the helpers *)
Lemma chron_log : forall e w, chron (log e w) = chron w ++ [e].
Proof. reflexivity. Qed.
Lemma chron_write_file : forall b w, chron (write_file b w) = chron w ++ [EWrite b].
Proof. reflexivity. Qed.
Lemma chron_temp_copy : forall n b bump w, chron (temp_copy n b bump w) = chron w ++ [ECopy n b].
Proof. reflexivity. Qed.
Lemma chron_set_last : forall t w, chron (set_last t w) = chron w.
Proof. reflexivity. Qed.
Lemma chron_set_dirty : forall w, chron (set_dirty w) = chron w.
Proof. reflexivity. Qed.
Lemma chron_count_test : forall n w, chron (count_test n w) = chron w.
Proof. reflexivity. Qed.

(* ------------------------------------------------------------------ *)
(* trace functions and append                                         *)
(* ------------------------------------------------------------------ *)

Lemma last_accepted_app : forall l1 l2 c,
  last_accepted (l1 ++ l2) c = last_accepted l2 (last_accepted l1 c).
Proof.
  induction l1 as [|e l1 IH]; intros l2 c; [reflexivity|].
  destruct e as [| |b|k p f a|n b]; cbn [app last_accepted]; try apply IH.
  destruct a; apply IH.
Qed.

Lemma tests_of_app : forall l1 l2, tests_of (l1 ++ l2) = tests_of l1 ++ tests_of l2.
Proof. intros l1 l2. unfold tests_of. apply filter_app. Qed.

Lemma n_tests_app : forall l1 l2, n_tests (l1 ++ l2) = n_tests l1 + n_tests l2.
Proof. intros l1 l2. unfold n_tests. rewrite tests_of_app. apply zlen_app. Qed.

Lemma expected_temp_app : forall l1 l2,
  expected_temp (l1 ++ l2) = expected_temp l1 ++ expected_temp l2.
Proof.
  induction l1 as [|e l1 IH]; intros l2; [reflexivity|].
  destruct e as [| |b|k p f a|n b]; cbn [app expected_temp]; try apply IH.
  destruct a; cbn [app]; rewrite ?IH; reflexivity.
Qed.

Lemma copies_app : forall l1 l2, copies (l1 ++ l2) = copies l1 ++ copies l2.
Proof.
  induction l1 as [|e l1 IH]; intros l2; [reflexivity|].
  destruct e as [| |b|k p f a|n b]; cbn [app copies]; rewrite ?IH; reflexivity.
Qed.

Lemma best_tagged_app : forall d1 d2 c,
  best_tagged (d1 ++ d2) c = best_tagged d2 (best_tagged d1 c).
Proof.
  induction d1 as [|[n b] d1 IH]; intros d2 c; [reflexivity|].
  destruct n as [|k [|]]; cbn [app best_tagged]; apply IH.
Qed.

Lemma numbered_from_app : forall l1 l2 i,
  numbered_from i (l1 ++ l2) <-> numbered_from i l1 /\ numbered_from (i + zlen l1) l2.
Proof.
  induction l1 as [|e l1 IH]; intros l2 i.
  - cbn [app numbered_from]. rewrite zlen_nil, Z.add_0_r. tauto.
  - cbn [app numbered_from]. rewrite IH, zlen_cons.
    replace (i + 1 + zlen l1) with (i + (zlen l1 + 1)) by lia. tauto.
Qed.

(* the SIGKILL property as a left-to-right scan: before every test event the best tagged copy
   written so far is the last accepted version *)
Fixpoint kill_chk (tr : list event) (dir : option bytes) (cur : bytes) : Prop :=
  match tr with
  | [] => True
  | e :: r => (if is_test e then dir = Some cur else True) /\
              kill_chk r (best_tagged (copies [e]) dir) (last_accepted [e] cur)
  end.

Lemma best_tagged_copies_cons : forall e l d,
  best_tagged (copies (e :: l)) d = best_tagged (copies l) (best_tagged (copies [e]) d).
Proof.
  intros e l d. change (e :: l) with ([e] ++ l).
  rewrite copies_app, best_tagged_app. reflexivity.
Qed.

Lemma last_accepted_cons : forall e l c,
  last_accepted (e :: l) c = last_accepted l (last_accepted [e] c).
Proof. intros e l c. change (e :: l) with ([e] ++ l). apply last_accepted_app. Qed.

Lemma kill_chk_app : forall l1 l2 d c,
  kill_chk (l1 ++ l2) d c <->
  kill_chk l1 d c /\ kill_chk l2 (best_tagged (copies l1) d) (last_accepted l1 c).
Proof.
  induction l1 as [|e l1 IH]; intros l2 d c.
  - cbn [app kill_chk copies best_tagged last_accepted]. tauto.
  - cbn [app kill_chk]. rewrite IH.
    rewrite (best_tagged_copies_cons e l1), (last_accepted_cons e l1). tauto.
Qed.

Lemma kill_chk_sound : forall tr file0 pre k p f a post,
  kill_chk tr None file0 -> tr = pre ++ ETest k p f a :: post ->
  best_tagged (copies pre) None = Some (last_accepted pre file0).
Proof.
  intros tr file0 pre k p f a post Hk Heq. subst tr.
  apply kill_chk_app in Hk. destruct Hk as [_ Hk].
  cbn [kill_chk is_test] in Hk. destruct Hk as [Hk _]. exact Hk.
Qed.

(* quiet events: they change none of the trace observations *)
Definition quietb (e : event) : bool :=
  match e with EWrite _ | ECleanup => true | _ => false end.
Definition israise (e : event) : bool :=
  match e with ETest _ _ _ Raise => true | _ => false end.

Section Quiet.
  Variable q : list event.
  Hypothesis Hq : forallb quietb q = true.

  Lemma quiet_ind_aux : forall (P : list event -> Prop),
    P [] ->
    (forall b r, P r -> P (EWrite b :: r)) ->
    (forall r, P r -> P (ECleanup :: r)) ->
    P q.
  Proof.
    intros P Hnil Hw Hc. revert Hq. induction q as [|e r IH]; intros Hq'; [exact Hnil|].
    cbn [forallb] in Hq'. apply andb_true_iff in Hq'. destruct Hq' as [He Hr].
    destruct e as [| |b|k p f a|n b]; cbn [quietb] in He; try discriminate He.
    - apply Hc. apply IH. exact Hr.
    - apply Hw. apply IH. exact Hr.
  Qed.

  Lemma quiet_last_accepted : forall c, last_accepted q c = c.
  Proof. apply quiet_ind_aux; intros; cbn [last_accepted]; auto. Qed.
  Lemma quiet_tests_of : tests_of q = [].
  Proof. apply quiet_ind_aux; intros; cbn [tests_of filter is_test]; auto. Qed.
  Lemma quiet_expected_temp : expected_temp q = [].
  Proof. apply quiet_ind_aux; intros; cbn [expected_temp]; auto. Qed.
  Lemma quiet_copies : copies q = [].
  Proof. apply quiet_ind_aux; intros; cbn [copies]; auto. Qed.
  Lemma quiet_israise : existsb israise q = false.
  Proof. apply quiet_ind_aux; intros; cbn [existsb israise orb]; auto. Qed.
  Lemma quiet_kill_chk : forall d c, kill_chk q d c.
  Proof.
    apply quiet_ind_aux; intros; cbn [kill_chk is_test copies best_tagged last_accepted]; auto.
  Qed.
  Lemma quiet_not_test : forall k p f a, ~ In (ETest k p f a) q.
  Proof.
    apply quiet_ind_aux.
    - intros k p f a H. exact H.
    - intros b r IH k p f a [H|H]; [discriminate H | exact (IH k p f a H)].
    - intros r IH k p f a [H|H]; [discriminate H | exact (IH k p f a H)].
  Qed.
End Quiet.

Lemma tests_of_quiet_app : forall l q, forallb quietb q = true -> tests_of (l ++ q) = tests_of l.
Proof. intros l q Hq. rewrite tests_of_app, (quiet_tests_of q Hq). apply app_nil_r. Qed.

Lemma n_tests_quiet_app : forall l q, forallb quietb q = true -> n_tests (l ++ q) = n_tests l.
Proof. intros l q Hq. unfold n_tests. rewrite (tests_of_quiet_app l q Hq). reflexivity. Qed.

Lemma israise_quiet_app : forall l q, forallb quietb q = true ->
  existsb israise (l ++ q) = existsb israise l.
Proof. intros l q Hq. rewrite existsb_app, (quiet_israise q Hq). apply orb_false_r. Qed.

Lemma in_test_quiet_app : forall l q k p f a, forallb quietb q = true ->
  (In (ETest k p f a) (l ++ q) <-> In (ETest k p f a) l).
Proof.
  intros l q k p f a Hq. rewrite in_app_iff. split.
  - intros [H|H]; [exact H | exfalso; exact (quiet_not_test q Hq k p f a H)].
  - intros H. left. exact H.
Qed.

Lemma last_accepted_quiet_app : forall l q c, forallb quietb q = true ->
  last_accepted (l ++ q) c = last_accepted l c.
Proof. intros l q c Hq. rewrite last_accepted_app. apply (quiet_last_accepted q Hq). Qed.

Lemma expected_temp_quiet_app : forall l q, forallb quietb q = true ->
  expected_temp (l ++ q) = expected_temp l.
Proof. intros l q Hq. rewrite expected_temp_app, (quiet_expected_temp q Hq). apply app_nil_r. Qed.

Lemma copies_quiet_app : forall l q, forallb quietb q = true -> copies (l ++ q) = copies l.
Proof. intros l q Hq. rewrite copies_app, (quiet_copies q Hq). apply app_nil_r. Qed.

Lemma kill_chk_quiet_app : forall l q d c, forallb quietb q = true ->
  kill_chk l d c -> kill_chk (l ++ q) d c.
Proof.
  intros l q d c Hq Hk. apply kill_chk_app. split; [exact Hk | apply (quiet_kill_chk q Hq)].
Qed.

(* ------------------------------------------------------------------ *)
(* `interesting` with write_it = true                                 *)
(* ------------------------------------------------------------------ *)

Definition wtest (w : world) (t : tcase) (a : answer) : world :=
  log (ETest (w_tests w + 1) (w_tfc w) (content t) a)
      (count_test (tc_len t) (write_file (content t) (set_dirty w))).

Definition wafter (w : world) (t : tcase) (a : answer) : world :=
  match a with
  | Raise => wtest w t Raise
  | Yes => set_last t (temp_copy (Numbered (w_tfc w) true) (content t) true (wtest w t Yes))
  | No => temp_copy (Numbered (w_tfc w) false) (content t) true (wtest w t No)
  end.

Lemma interesting_true_inv : forall verdict w t w' a,
  interesting verdict w t true = (w', a) ->
  a = verdict (w_tests w + 1) (content t) /\ w' = wafter w t a.
Proof.
  intros verdict w t w' a H. unfold interesting in H. wsimpl_in H.
  destruct (verdict (w_tests w + 1) (content t)) eqn:E; inversion H; subst; split; reflexivity.
Qed.

Definition tcopy (p : Z) (c : bytes) (a : answer) : list event :=
  match a with
  | Yes => [ECopy (Numbered p true) c]
  | No => [ECopy (Numbered p false) c]
  | Raise => []
  end.

Lemma chron_wafter : forall w t a,
  chron (wafter w t a) =
  chron w ++ EWrite (content t) :: ETest (w_tests w + 1) (w_tfc w) (content t) a
          :: tcopy (w_tfc w) (content t) a.
Proof.
  intros w t a. destruct a; unfold wafter, wtest, tcopy;
    rewrite ?chron_set_last, ?chron_temp_copy, ?chron_log, ?chron_count_test,
            ?chron_write_file, ?chron_set_dirty, <- ?app_assoc; reflexivity.
Qed.

Lemma wafter_last : forall w t a,
  w_last (wafter w t a) = match a with Yes => Some t | _ => w_last w end.
Proof. intros w t a. destruct a; reflexivity. Qed.
Lemma wafter_tests : forall w t a, w_tests (wafter w t a) = w_tests w + 1.
Proof. intros w t a. destruct a; reflexivity. Qed.
Lemma wafter_tfc : forall w t a,
  w_tfc (wafter w t a) = match a with Raise => w_tfc w | _ => w_tfc w + 1 end.
Proof. intros w t a. destruct a; reflexivity. Qed.
Lemma wafter_temp : forall w t a,
  w_temp (wafter w t a) =
  match a with
  | Yes => (Numbered (w_tfc w) true, content t) :: w_temp w
  | No => (Numbered (w_tfc w) false, content t) :: w_temp w
  | Raise => w_temp w
  end.
Proof. intros w t a. destruct a; reflexivity. Qed.
Lemma wafter_dirty : forall w t a, w_dirty (wafter w t a) = true.
Proof. intros w t a. destruct a; reflexivity. Qed.
Lemma wafter_file : forall w t a, w_file (wafter w t a) = content t.
Proof. intros w t a. destruct a; reflexivity. Qed.

Lemma interesting_tests_content :
  forall verdict w t w' a,
    interesting verdict w t true = (w', a) ->
    w_file w' = content t /\
    In (ETest (w_tests w + 1) (w_tfc w) (content t) a) (w_trace w').
Proof.
  intros verdict w t w' a H. apply interesting_true_inv in H. destruct H as [_ Hw]. subst w'.
  split; [apply wafter_file|].
  apply (in_rev (w_trace (wafter w t a))). fold (chron (wafter w t a)).
  rewrite chron_wafter. apply in_or_app. right. right. left. reflexivity.
Qed.

(* ------------------------------------------------------------------ *)
(* loop and lsteps                                                    *)
(* ------------------------------------------------------------------ *)

Lemma loop_follows_lsteps :
  forall S (strat : strategy S) verdict fuel st it w r,
    loop strat verdict fuel st it w = r ->
    exists st' it' w', lsteps strat verdict (LS st it w) (LS st' it' w') /\
      match r with
      | Finished rc wf => s_next strat st' (it_best it') = Done /\
                          wf = write_file (content (it_best it')) w' /\
                          rc = (if it_any it' then 0 else 1)
      | Aborted (Some e) wf => s_next strat st' (it_best it') = Fail e /\ wf = w'
      | Aborted None wf => exists t k, s_next strat st' (it_best it') = Propose t k /\
                            mem_bytes (content t) (it_tried it') = false /\
                            interesting verdict w' t true = (wf, Raise)
      | NoFuel wf => wf = w'
      end.
Proof.
  intros S strat verdict fuel. induction fuel as [|fuel IH]; intros st it w r Hr.
  - cbn [loop] in Hr. subst r. exists st, it, w. split; [apply lss_refl | reflexivity].
  - cbn [loop] in Hr. destruct (s_next strat st (it_best it)) as [t k|b st1| |e] eqn:Hn.
    + destruct (mem_bytes (content t) (it_tried it)) eqn:Hm.
      * destruct (IH _ _ _ _ Hr) as (st' & it' & w' & Hs & Hm').
        exists st', it', w'. split; [|exact Hm'].
        eapply lss_step; [|exact Hs]. eapply ls_skip; eassumption.
      * destruct (interesting verdict w t true) as [w1 a] eqn:Hi. destruct a.
        -- destruct (IH _ _ _ _ Hr) as (st' & it' & w' & Hs & Hm').
           exists st', it', w'. split; [|exact Hm'].
           eapply lss_step; [|exact Hs]. eapply ls_yes; eassumption.
        -- destruct (IH _ _ _ _ Hr) as (st' & it' & w' & Hs & Hm').
           exists st', it', w'. split; [|exact Hm'].
           eapply lss_step; [|exact Hs]. eapply ls_no; eassumption.
        -- subst r. exists st, it, w. split; [apply lss_refl|].
           exists t, k. split; [exact Hn|]. split; [exact Hm | exact Hi].
    + destruct (IH _ _ _ _ Hr) as (st' & it' & w' & Hs & Hm').
      exists st', it', w'. split; [|exact Hm'].
      eapply lss_step; [|exact Hs]. eapply ls_raw; eassumption.
    + subst r. exists st, it, w. split; [apply lss_refl|]. split; [exact Hn|].
      split; reflexivity.
    + subst r. exists st, it, w. split; [apply lss_refl|]. split; [exact Hn | reflexivity].
Qed.

(* ------------------------------------------------------------------ *)
(* invariants of the loop                                             *)
(* ------------------------------------------------------------------ *)

Definition not_hook (e : event) : Prop := e <> EInit /\ e <> ECleanup.
Definition hooks_pre (tr : list event) : Prop :=
  exists mid, tr = EInit :: mid /\ Forall not_hook mid.

Lemma hooks_pre_app : forall tr l, hooks_pre tr -> Forall not_hook l -> hooks_pre (tr ++ l).
Proof.
  intros tr l [mid [Heq Hmid]] Hl. exists (mid ++ l). split.
  - rewrite Heq. reflexivity.
  - apply Forall_app. split; assumption.
Qed.

Lemma not_hook_write : forall b, not_hook (EWrite b).
Proof. intros b. split; intros H; discriminate H. Qed.
Lemma not_hook_test : forall k p f a, not_hook (ETest k p f a).
Proof. intros k p f a. split; intros H; discriminate H. Qed.
Lemma not_hook_copy : forall n b, not_hook (ECopy n b).
Proof. intros n b. split; intros H; discriminate H. Qed.

(* facts that need no relation between the loaded testcase and the bytes on disk *)
Record invG (it : iter) (w : world) : Prop := {
  g_last : w_last w = Some (it_best it);
  g_tests : w_tests w = n_tests (chron w);
  g_tfc : w_tfc w = n_tests (chron w) + 1 - (if existsb israise (chron w) then 1 else 0);
  g_num : numbered_from 1 (tests_of (chron w));
  g_tried : exists e0 T, tests_of (chron w) = e0 :: T /\ map test_file T = rev (it_tried it);
  g_nodup : NoDup (it_tried it);
  g_any : it_any it = true <-> exists k p f, 1 < k /\ In (ETest k p f Yes) (chron w);
  g_dirty : w_dirty w = true \/ n_tests (chron w) = 1
}.

(* facts relative to file0 = bytes on disk at start = content of the loaded testcase *)
Record invH (file0 : bytes) (it : iter) (w : world) : Prop := {
  h_best : content (it_best it) = last_accepted (chron w) file0;
  h_temp : rev (w_temp w) = (Original, file0) :: expected_temp (chron w);
  h_stable : best_tagged (copies (chron w)) None = Some (last_accepted (chron w) file0);
  h_kill : kill_chk (chron w) None file0;
  h_nowr : no_writes (chron w) -> w_file w = last_accepted (chron w) file0
}.

Definition optH (fo : option bytes) (it : iter) (w : world) : Prop :=
  match fo with Some file0 => invH file0 it w | None => True end.

Definition fin (fo : option bytes) (it : iter) (w : world) : Prop :=
  invG it w /\ optH fo it w.

Definition good (fo : option bytes) (it : iter) (w : world) : Prop :=
  fin fo it w /\ existsb israise (chron w) = false /\ hooks_pre (chron w).

Lemma invG_n_tests_pos : forall it w, invG it w -> 1 <= n_tests (chron w).
Proof.
  intros it w HG. destruct (g_tried _ _ HG) as (e0 & T & HT & _).
  unfold n_tests. rewrite HT, zlen_cons. pose proof (zlen_nonneg _ T). lia.
Qed.

(* appending quiet events *)
Lemma invG_quiet : forall it w w2 q,
  invG it w -> forallb quietb q = true ->
  chron w2 = chron w ++ q ->
  w_last w2 = w_last w -> w_tests w2 = w_tests w -> w_tfc w2 = w_tfc w ->
  (w_dirty w = true -> w_dirty w2 = true) ->
  invG it w2.
Proof.
  intros it w w2 q HG Hq Hc Hl Ht Hf Hd.
  constructor; rewrite ?Hc, ?Hl, ?Ht, ?Hf, ?(tests_of_quiet_app _ _ Hq),
                       ?(n_tests_quiet_app _ _ Hq), ?(israise_quiet_app _ _ Hq).
  - apply (g_last _ _ HG).
  - apply (g_tests _ _ HG).
  - apply (g_tfc _ _ HG).
  - apply (g_num _ _ HG).
  - apply (g_tried _ _ HG).
  - apply (g_nodup _ _ HG).
  - rewrite (g_any _ _ HG). split; intros (k & p & f & Hlt & HIn); exists k, p, f;
      (split; [exact Hlt|]); apply (in_test_quiet_app _ _ _ _ _ _ Hq); exact HIn.
  - destruct (g_dirty _ _ HG) as [H|H]; [left; apply Hd; exact H | right; exact H].
Qed.

Lemma invH_quiet : forall file0 it w w2 q,
  invH file0 it w -> forallb quietb q = true ->
  chron w2 = chron w ++ q ->
  w_temp w2 = w_temp w ->
  (no_writes q -> w_file w2 = w_file w) ->
  invH file0 it w2.
Proof.
  intros file0 it w w2 q HH Hq Hc Ht Hf.
  constructor; rewrite ?Hc, ?Ht, ?(last_accepted_quiet_app _ _ _ Hq),
                       ?(expected_temp_quiet_app _ _ Hq), ?(copies_quiet_app _ _ Hq).
  - apply (h_best _ _ _ HH).
  - apply (h_temp _ _ _ HH).
  - apply (h_stable _ _ _ HH).
  - apply (kill_chk_quiet_app _ _ _ _ Hq). apply (h_kill _ _ _ HH).
  - intros Hn. unfold no_writes in Hn. apply Forall_app in Hn. destruct Hn as [Hn1 Hn2].
    rewrite (Hf Hn2). apply (h_nowr _ _ _ HH). exact Hn1.
Qed.

Lemma fin_quiet : forall fo it w w2 q,
  fin fo it w -> forallb quietb q = true ->
  chron w2 = chron w ++ q ->
  w_last w2 = w_last w -> w_tests w2 = w_tests w -> w_tfc w2 = w_tfc w ->
  w_temp w2 = w_temp w ->
  (w_dirty w = true -> w_dirty w2 = true) ->
  (no_writes q -> w_file w2 = w_file w) ->
  fin fo it w2.
Proof.
  intros fo it w w2 q [HG HH] Hq Hc Hl Ht Hf Htemp Hd Hfile. split.
  - eapply invG_quiet; eassumption.
  - destruct fo as [file0|]; [|exact I]. cbn [optH] in *. eapply invH_quiet; eassumption.
Qed.

Lemma no_writes_write_absurd : forall b l, ~ no_writes (EWrite b :: l).
Proof. intros b l H. inversion H as [|x r Hx Hr]. discriminate Hx. Qed.

Lemma fin_write_file : forall fo it w b, fin fo it w -> fin fo it (write_file b w).
Proof.
  intros fo it w b Hf. apply (fin_quiet fo it w (write_file b w) [EWrite b] Hf);
    try reflexivity.
  - intros H. exact H.
  - intros H. exfalso. exact (no_writes_write_absurd _ _ H).
Qed.

(* one tested candidate *)
Definition it_after (it : iter) (t : tcase) (a : answer) : iter :=
  match a with
  | Yes => {| it_best := t; it_tried := content t :: it_tried it; it_any := true |}
  | _ => {| it_best := it_best it; it_tried := content t :: it_tried it; it_any := it_any it |}
  end.

Lemma it_after_tried : forall it t a, it_tried (it_after it t a) = content t :: it_tried it.
Proof. intros it t a. destruct a; reflexivity. Qed.

Lemma tests_of_block : forall c k p a,
  tests_of (EWrite c :: ETest k p c a :: tcopy p c a) = [ETest k p c a].
Proof. intros c k p a. destruct a; reflexivity. Qed.

Lemma israise_block : forall c k p a,
  existsb israise (EWrite c :: ETest k p c a :: tcopy p c a) =
  match a with Raise => true | _ => false end.
Proof. intros c k p a. destruct a; reflexivity. Qed.

Lemma invG_tested : forall it w t a,
  invG it w -> existsb israise (chron w) = false ->
  mem_bytes (content t) (it_tried it) = false ->
  invG (it_after it t a) (wafter w t a).
Proof.
  intros it w t a HG Hnr Hm.
  pose proof (invG_n_tests_pos _ _ HG) as Hpos.
  pose proof (g_tests _ _ HG) as Htests.
  pose proof (g_tfc _ _ HG) as Htfc. rewrite Hnr in Htfc.
  constructor.
  - rewrite wafter_last. destruct a; cbn [it_after it_best]; try reflexivity;
      apply (g_last _ _ HG).
  - rewrite wafter_tests, chron_wafter, n_tests_app. unfold n_tests at 2.
    rewrite tests_of_block. rewrite Htests. reflexivity.
  - rewrite wafter_tfc, chron_wafter, n_tests_app, existsb_app, Hnr, israise_block.
    unfold n_tests at 2. rewrite tests_of_block. cbn [orb].
    change (zlen [ETest (w_tests w + 1) (w_tfc w) (content t) a]) with 1.
    destruct a; lia.
  - rewrite chron_wafter, tests_of_app, tests_of_block. apply numbered_from_app. split.
    + apply (g_num _ _ HG).
    + cbn [numbered_from test_nums]. split; [|exact I].
      fold (n_tests (chron w)). f_equal; lia.
  - destruct (g_tried _ _ HG) as (e0 & T & HT & HM).
    exists e0, (T ++ [ETest (w_tests w + 1) (w_tfc w) (content t) a]). split.
    + rewrite chron_wafter, tests_of_app, tests_of_block, HT. reflexivity.
    + rewrite map_app, HM, it_after_tried. reflexivity.
  - rewrite it_after_tried. constructor.
    + intros HIn. apply mem_bytes_In in HIn. rewrite HIn in Hm. discriminate Hm.
    + apply (g_nodup _ _ HG).
  - rewrite chron_wafter. destruct a; cbn [it_after it_any tcopy].
    + split; [|reflexivity]. intros _.
      exists (w_tests w + 1), (w_tfc w), (content t). split; [lia|].
      apply in_or_app. right. right. left. reflexivity.
    + rewrite (g_any _ _ HG). split; intros (k & p & f & Hlt & HIn); exists k, p, f;
        (split; [exact Hlt|]).
      * apply in_or_app. left. exact HIn.
      * apply in_app_or in HIn. destruct HIn as [HIn|HIn]; [exact HIn|].
        exfalso. cbn [In] in HIn.
        destruct HIn as [H|[H|[H|H]]]; try discriminate H; exact H.
    + rewrite (g_any _ _ HG). split; intros (k & p & f & Hlt & HIn); exists k, p, f;
        (split; [exact Hlt|]).
      * apply in_or_app. left. exact HIn.
      * apply in_app_or in HIn. destruct HIn as [HIn|HIn]; [exact HIn|].
        exfalso. cbn [In] in HIn.
        destruct HIn as [H|[H|H]]; try discriminate H; exact H.
  - left. apply wafter_dirty.
Qed.

Lemma invH_tested : forall file0 it w t a,
  invG it w -> existsb israise (chron w) = false ->
  invH file0 it w ->
  invH file0 (it_after it t a) (wafter w t a).
Proof.
  intros file0 it w t a HG Hnr HH.
  pose proof (g_tests _ _ HG) as Htests.
  pose proof (g_tfc _ _ HG) as Htfc. rewrite Hnr in Htfc.
  assert (Hp : w_tfc w = w_tests w + 1) by lia.
  constructor.
  - rewrite chron_wafter, last_accepted_app.
    destruct a; cbn [it_after it_best tcopy last_accepted]; try reflexivity;
      apply (h_best _ _ _ HH).
  - rewrite chron_wafter, expected_temp_app, wafter_temp, Hp.
    destruct a; cbn [tcopy expected_temp rev]; rewrite ?(h_temp _ _ _ HH), ?app_nil_r;
      reflexivity.
  - rewrite chron_wafter, copies_app, best_tagged_app, last_accepted_app, (h_stable _ _ _ HH).
    destruct a; reflexivity.
  - rewrite chron_wafter. apply kill_chk_app. split; [apply (h_kill _ _ _ HH)|].
    rewrite (h_stable _ _ _ HH).
    destruct a; cbn [kill_chk is_test tcopy copies best_tagged last_accepted]; repeat split.
  - intros Hn. exfalso. rewrite chron_wafter in Hn. unfold no_writes in Hn.
    apply Forall_app in Hn. destruct Hn as [_ Hn]. exact (no_writes_write_absurd _ _ Hn).
Qed.

Lemma good_tested : forall fo verdict it w t w' a,
  good fo it w -> mem_bytes (content t) (it_tried it) = false ->
  interesting verdict w t true = (w', a) ->
  fin fo (it_after it t a) w' /\
  existsb israise (chron w') = match a with Raise => true | _ => false end /\
  hooks_pre (chron w') /\ w_dirty w' = true.
Proof.
  intros fo verdict it w t w' a [[HG HH] [Hnr Hhk]] Hm Hi.
  apply interesting_true_inv in Hi. destruct Hi as [_ Hw]. subst w'.
  split; [split|].
  - apply invG_tested; assumption.
  - destruct fo as [file0|]; [|exact I]. cbn [optH] in *. apply invH_tested; assumption.
  - split; [|split].
    + rewrite chron_wafter, existsb_app, Hnr, israise_block. reflexivity.
    + rewrite chron_wafter. apply hooks_pre_app; [exact Hhk|].
      constructor; [apply not_hook_write|]. constructor; [apply not_hook_test|].
      destruct a; cbn [tcopy]; repeat constructor; apply not_hook_copy.
    + apply wafter_dirty.
Qed.

Definition on_state {S} (P : iter -> world -> Prop) (s : lstate S) : Prop :=
  match s with LS _ it w => P it w end.

Lemma lstep_good : forall S (strat : strategy S) verdict fo a b,
  lstep strat verdict a b -> on_state (good fo) a -> on_state (good fo) b.
Proof.
  intros S strat verdict fo a b Hstep. destruct Hstep as
    [st it w b0 st' Hn | st it w t k Hn Hm | st it w t k w' Hn Hm Hi | st it w t k w' Hn Hm Hi];
    cbn [on_state]; intros Hg.
  - destruct Hg as [Hf [Hnr Hhk]]. split; [apply fin_write_file; exact Hf|]. split.
    + rewrite chron_write_file, existsb_app, Hnr. reflexivity.
    + rewrite chron_write_file. apply hooks_pre_app; [exact Hhk|].
      constructor; [apply not_hook_write | constructor].
  - exact Hg.
  - destruct (good_tested fo verdict it w t w' Yes Hg Hm Hi) as (Hf & Hr & Hhk & _).
    split; [exact Hf|]. split; assumption.
  - destruct (good_tested fo verdict it w t w' No Hg Hm Hi) as (Hf & Hr & Hhk & _).
    split; [exact Hf|]. split; assumption.
Qed.

Lemma lsteps_good : forall S (strat : strategy S) verdict fo a b,
  lsteps strat verdict a b -> on_state (good fo) a -> on_state (good fo) b.
Proof.
  intros S strat verdict fo a b Hs. induction Hs as [s|a b c Hab Hbc IH]; intros Hg.
  - exact Hg.
  - apply IH. eapply lstep_good; eassumption.
Qed.

(* ------------------------------------------------------------------ *)
(* the `finally` block                                                *)
(* ------------------------------------------------------------------ *)

Lemma finally_cases : forall w,
  (finally w = log ECleanup w /\ (w_last w = None \/ w_dirty w = false)) \/
  (exists t, w_last w = Some t /\ w_dirty w = true /\
             finally w = write_file (content t) (log ECleanup w)).
Proof.
  intros w. unfold finally. wsimpl.
  destruct (w_last w) as [t|]; [destruct (w_dirty w) eqn:D|].
  - right. exists t. split; [reflexivity|]. split; reflexivity.
  - left. split; [reflexivity | right; reflexivity].
  - left. split; [reflexivity | left; reflexivity].
Qed.

Lemma finally_chron_quiet : forall w,
  exists q, forallb quietb q = true /\ chron (finally w) = chron w ++ q.
Proof.
  intros w. destruct (finally_cases w) as [[He _]|(t & _ & _ & He)]; rewrite He.
  - exists [ECleanup]. split; reflexivity.
  - exists [ECleanup; EWrite (content t)]. split; [reflexivity|].
    rewrite chron_write_file, chron_log, <- app_assoc. reflexivity.
Qed.

Lemma fin_finally : forall fo it w, fin fo it w -> fin fo it (finally w).
Proof.
  intros fo it w Hf. destruct (finally_cases w) as [[He _]|(t & _ & _ & He)]; rewrite He.
  - apply (fin_quiet fo it w (log ECleanup w) [ECleanup] Hf); try reflexivity.
    intros H. exact H.
  - apply (fin_quiet fo it w (write_file (content t) (log ECleanup w))
                     [ECleanup; EWrite (content t)] Hf); try reflexivity.
    + rewrite chron_write_file, chron_log, <- app_assoc. reflexivity.
    + intros H. exact H.
    + intros H. exfalso. inversion H as [|x r Hx Hr].
      exact (no_writes_write_absurd _ _ Hr).
Qed.

Lemma hooks_finally : forall w, hooks_pre (chron w) -> hooks_ok (chron (finally w)).
Proof.
  intros w [mid [Heq Hmid]].
  destruct (finally_cases w) as [[He _]|(t & _ & _ & He)]; rewrite He.
  - exists mid, []. split; [|split; [exact Hmid | constructor]].
    rewrite chron_log, Heq. reflexivity.
  - exists mid, [EWrite (content t)]. split; [|split; [exact Hmid|]].
    + rewrite chron_write_file, chron_log, Heq, <- app_assoc. reflexivity.
    + constructor; [reflexivity | constructor].
Qed.

Lemma file_finally : forall w t,
  w_last w = Some t -> w_dirty w = true \/ w_file w = content t ->
  w_file (finally w) = content t.
Proof.
  intros w t Hl Hd. destruct (finally_cases w) as [[He Hc]|(t' & Hl' & _ & He)]; rewrite He.
  - wsimpl. destruct Hc as [Hc|Hc]; [rewrite Hc in Hl; discriminate Hl|].
    destruct Hd as [Hd|Hd]; [rewrite Hd in Hc; discriminate Hc | exact Hd].
  - wsimpl. rewrite Hl in Hl'. inversion Hl'. reflexivity.
Qed.

(* ------------------------------------------------------------------ *)
(* end of the loop                                                    *)
(* ------------------------------------------------------------------ *)

Lemma loop_final : forall S (strat : strategy S) verdict fo fuel st it w r,
  good fo it w -> loop strat verdict fuel st it w = r ->
  exists it', fin fo it' (result_world r) /\ hooks_pre (chron (result_world r)) /\
    match r with
    | Finished rc wf => rc = (if it_any it' then 0 else 1) /\ w_file wf = content (it_best it')
    | Aborted None wf => w_dirty wf = true
    | _ => True
    end.
Proof.
  intros S strat verdict fo fuel st it w r Hg Hr.
  destruct (loop_follows_lsteps S strat verdict fuel st it w r Hr) as (st' & it' & w' & Hs & Hm).
  pose proof (lsteps_good S strat verdict fo _ _ Hs Hg) as Hg'. cbn [on_state] in Hg'.
  destruct r as [rc wf|[e|] wf|wf]; cbn [result_world].
  - destruct Hm as (_ & Hwf & Hrc). subst wf. destruct Hg' as [Hf [_ Hhk]].
    exists it'. split; [apply fin_write_file; exact Hf|]. split.
    + rewrite chron_write_file. apply hooks_pre_app; [exact Hhk|].
      constructor; [apply not_hook_write | constructor].
    + split; [exact Hrc | reflexivity].
  - destruct Hm as [_ Hwf]. subst wf. destruct Hg' as [Hf [_ Hhk]].
    exists it'. split; [exact Hf|]. split; [exact Hhk | exact I].
  - destruct Hm as (t & k & _ & Hmem & Hi).
    destruct (good_tested fo verdict it' w' t wf Raise Hg' Hmem Hi) as (Hf & _ & Hhk & Hd).
    exists (it_after it' t Raise). split; [exact Hf|]. split; [exact Hhk | exact Hd].
  - subst wf. destruct Hg' as [Hf [_ Hhk]].
    exists it'. split; [exact Hf|]. split; [exact Hhk | exact I].
Qed.

Lemma loop_run_summary : forall S (strat : strategy S) verdict fo fuel st it w r,
  good fo it w -> map_world finally (loop strat verdict fuel st it w) = r ->
  exists it', fin fo it' (result_world r) /\
    match r with
    | Finished rc wf => rc = (if it_any it' then 0 else 1) /\
                        w_file wf = content (it_best it') /\ hooks_ok (chron wf)
    | Aborted e wf => hooks_ok (chron wf) /\
                      (w_file wf = content (it_best it') \/
                       (e <> None /\ n_tests (chron wf) = 1))
    | NoFuel wf => True
    end.
Proof.
  intros S strat verdict fo fuel st it w r Hg Hr.
  destruct (loop_final S strat verdict fo fuel st it w _ Hg eq_refl) as (it' & Hf & Hhk & Hm).
  destruct (loop strat verdict fuel st it w) as [rc wf|e wf|wf];
    cbn [map_world] in Hr; subst r; cbn [result_world] in *; exists it'.
  - split; [apply fin_finally; exact Hf|]. destruct Hm as [Hrc Hfile].
    split; [exact Hrc|]. split; [|apply hooks_finally; exact Hhk].
    apply file_finally; [apply (g_last _ _ (proj1 Hf)) | right; exact Hfile].
  - split; [apply fin_finally; exact Hf|]. split; [apply hooks_finally; exact Hhk|].
    destruct (w_dirty wf) eqn:D.
    + left. apply file_finally; [apply (g_last _ _ (proj1 Hf)) | left; exact D].
    + right. split.
      * intros He. subst e. cbv beta iota in Hm. discriminate Hm.
      * destruct (finally_chron_quiet wf) as (q & Hq & Hc).
        rewrite Hc, (n_tests_quiet_app _ _ Hq).
        destruct (g_dirty _ _ (proj1 Hf)) as [H|H]; [rewrite H in D; discriminate D | exact H].
  - split; [exact Hf | exact I].
Qed.

(* ------------------------------------------------------------------ *)
(* Strategy.main / Lithium.run: the four ways a run can go            *)
(* ------------------------------------------------------------------ *)

Definition w0 (tc0 : tcase) (file0 : bytes) : world :=
  temp_copy Original (content tc0) false (log EInit (init_world file0)).
Definition w1 (tc0 : tcase) (file0 : bytes) (a : answer) : world :=
  log (ETest 1 1 file0 a) (count_test (tc_len tc0) (w0 tc0 file0)).
Definition wY (tc0 : tcase) (file0 : bytes) : world :=
  set_last tc0 (temp_copy (Numbered 1 true) (content tc0) true (w1 tc0 file0 Yes)).
Definition wN (tc0 : tcase) (file0 : bytes) : world :=
  temp_copy (Numbered 1 false) (content tc0) true (w1 tc0 file0 No).
Definition it0 (tc0 : tcase) : iter := {| it_best := tc0; it_tried := []; it_any := false |}.

Lemma interesting_initial : forall verdict tc0 file0,
  interesting verdict (w0 tc0 file0) tc0 false =
  (match verdict 1 file0 with
   | Yes => wY tc0 file0 | No => wN tc0 file0 | Raise => w1 tc0 file0 Raise end,
   verdict 1 file0).
Proof.
  intros verdict tc0 file0. unfold interesting. cbv zeta.
  change (w_tests (count_test (tc_len tc0) (w0 tc0 file0))) with 1.
  change (w_file (count_test (tc_len tc0) (w0 tc0 file0))) with file0.
  destruct (verdict 1 file0); reflexivity.
Qed.

Lemma run_cases : forall S (strat : strategy S) verdict fuel tc0 file0,
  (tc_len tc0 = 0 /\
   run strat verdict fuel tc0 file0 = Finished 0 (finally (w0 tc0 file0))) \/
  (tc_len tc0 <> 0 /\ verdict 1 file0 = Raise /\
   run strat verdict fuel tc0 file0 = Aborted None (finally (w1 tc0 file0 Raise))) \/
  (tc_len tc0 <> 0 /\ verdict 1 file0 = No /\
   run strat verdict fuel tc0 file0 = Finished 1 (finally (wN tc0 file0))) \/
  (tc_len tc0 <> 0 /\ verdict 1 file0 = Yes /\
   run strat verdict fuel tc0 file0 =
   map_world finally (loop strat verdict fuel (s_start strat tc0) (it0 tc0) (wY tc0 file0))).
Proof.
  intros S strat verdict fuel tc0 file0. unfold run, strategy_main.
  change (temp_copy Original (content tc0) false (log EInit (init_world file0)))
    with (w0 tc0 file0).
  destruct (tc_len tc0 =? 0) eqn:E.
  - left. apply Z.eqb_eq in E. split; [exact E | reflexivity].
  - right. apply Z.eqb_neq in E. rewrite interesting_initial.
    destruct (verdict 1 file0) eqn:V.
    + right. right. split; [exact E|]. split; reflexivity.
    + right. left. split; [exact E|]. split; reflexivity.
    + left. split; [exact E|]. split; reflexivity.
Qed.

Ltac solve_not_hooks :=
  repeat first [ apply Forall_nil
               | apply Forall_cons;
                 [ first [apply not_hook_write | apply not_hook_test | apply not_hook_copy] | ] ].

Lemma good_start_G : forall tc0 file0, good None (it0 tc0) (wY tc0 file0).
Proof.
  intros tc0 file0. split; [split; [|exact I]|split].
  - constructor.
    + reflexivity.
    + reflexivity.
    + reflexivity.
    + cbn. split; [reflexivity | exact I].
    + exists (ETest 1 1 file0 Yes), []. split; reflexivity.
    + constructor.
    + split; [intros H; discriminate H|].
      intros (k & p & f & Hlt & HIn). exfalso. cbn in HIn.
      destruct HIn as [H|[H|[H|[H|H]]]]; try discriminate H; [|exact H].
      inversion H. lia.
    + right. reflexivity.
  - reflexivity.
  - exists [ECopy Original (content tc0); ETest 1 1 file0 Yes;
            ECopy (Numbered 1 true) (content tc0)].
    split; [reflexivity | solve_not_hooks].
Qed.

Lemma good_start_H : forall tc0 file0,
  content tc0 = file0 -> good (Some file0) (it0 tc0) (wY tc0 file0).
Proof.
  intros tc0 file0 Hc. destruct (good_start_G tc0 file0) as [[HG _] Hrest].
  split; [split; [exact HG|]|exact Hrest]. subst file0. cbn [optH]. constructor.
  - reflexivity.
  - reflexivity.
  - reflexivity.
  - cbn. repeat split.
  - intros _. reflexivity.
Qed.

Lemma hooks_pre_w0 : forall tc0 file0, hooks_pre (chron (w0 tc0 file0)).
Proof.
  intros tc0 file0. exists [ECopy Original (content tc0)].
  split; [reflexivity | solve_not_hooks].
Qed.
Lemma hooks_pre_w1 : forall tc0 file0 a, hooks_pre (chron (w1 tc0 file0 a)).
Proof.
  intros tc0 file0 a. exists [ECopy Original (content tc0); ETest 1 1 file0 a].
  split; [reflexivity | solve_not_hooks].
Qed.
Lemma hooks_pre_wN : forall tc0 file0, hooks_pre (chron (wN tc0 file0)).
Proof.
  intros tc0 file0.
  exists [ECopy Original (content tc0); ETest 1 1 file0 No; ECopy (Numbered 1 false) (content tc0)].
  split; [reflexivity | solve_not_hooks].
Qed.

(* ------------------------------------------------------------------ *)
(* C01                                                                *)
(* ------------------------------------------------------------------ *)

Lemma run_final_is_last_accepted :
  forall S (strat : strategy S) verdict fuel tc0 file0 rc w,
    content tc0 = file0 ->
    run strat verdict fuel tc0 file0 = Finished rc w ->
    w_file w = last_accepted (chron w) file0.
Proof.
  intros S strat verdict fuel tc0 file0 rc w Hc Hr.
  destruct (run_cases S strat verdict fuel tc0 file0)
    as [[_ He]|[(_ & _ & He)|[(_ & _ & He)|(_ & _ & He)]]]; rewrite He in Hr.
  - inversion Hr; subst. reflexivity.
  - discriminate Hr.
  - inversion Hr; subst. reflexivity.
  - destruct (loop_run_summary S strat verdict (Some file0) fuel _ _ _ _
                               (good_start_H tc0 file0 Hc) Hr)
      as (it' & [HG HH] & _ & Hfile & _).
    cbn [result_world optH] in HH. rewrite Hfile. apply (h_best _ _ _ HH).
Qed.

Lemma loop_start_yes : forall S (strat : strategy S) verdict tc0 file0,
  verdict 1 file0 = Yes ->
  loop_start strat verdict tc0 file0 = LS (s_start strat tc0) (it0 tc0) (wY tc0 file0).
Proof.
  intros S strat verdict tc0 file0 Hv. unfold loop_start.
  change (temp_copy Original (content tc0) false (log EInit (init_world file0)))
    with (w0 tc0 file0).
  rewrite interesting_initial, Hv. reflexivity.
Qed.

Lemma basis_is_last_accepted :
  forall S (strat : strategy S) verdict tc0 file0 st it w,
    content tc0 = file0 ->
    verdict 1 file0 = Yes ->
    lsteps strat verdict (loop_start strat verdict tc0 file0) (LS st it w) ->
    content (it_best it) = last_accepted (chron w) file0.
Proof.
  intros S strat verdict tc0 file0 st it w Hc Hv Hs.
  rewrite (loop_start_yes S strat verdict tc0 file0 Hv) in Hs.
  pose proof (lsteps_good S strat verdict (Some file0) _ _ Hs (good_start_H tc0 file0 Hc)) as Hg.
  cbn [on_state] in Hg. destruct Hg as [[_ HH] _]. cbn [optH] in HH.
  apply (h_best _ _ _ HH).
Qed.

(* ------------------------------------------------------------------ *)
(* C02                                                                *)
(* ------------------------------------------------------------------ *)

(* The statement of Props/C02.v `C02_abort_restores` is FALSE of the model: a strategy that
   raw-writes the testcase file and then raises before any candidate was tested leaves the raw
   bytes on disk (testcase_written is still False, so `finally` does not re-dump). *)
Definition cx_strat : strategy bool :=
  {| s_start := fun _ => false;
     s_next := fun st _ => if st then Fail RuntimeError else RawWrite [1%N] true |}.
Definition cx_tc : tcase :=
  {| tc_before := []; tc_parts := [[0%N]]; tc_red := [true]; tc_after := [] |}.

Lemma run_abort_restores_counterexample :
  ~ (forall S (strat : strategy S) verdict fuel tc0 file0 e w,
        content tc0 = file0 ->
        run strat verdict fuel tc0 file0 = Aborted e w ->
        w_file w = last_accepted (chron w) file0 /\ hooks_ok (chron w)).
Proof.
  intros H.
  pose proof (H bool cx_strat (fun _ _ => Yes) 2%nat cx_tc [0%N]) as H'.
  vm_compute in H'.
  destruct (H' _ _ eq_refl eq_refl) as [Hf _]. discriminate Hf.
Qed.

Lemma run_abort_restores_corrected :
  forall S (strat : strategy S) verdict fuel tc0 file0 e w,
    content tc0 = file0 ->
    run strat verdict fuel tc0 file0 = Aborted e w ->
    (e = None \/ 1 < n_tests (chron w) \/ no_writes (chron w) ->
     w_file w = last_accepted (chron w) file0) /\
    hooks_ok (chron w).
Proof.
  intros S strat verdict fuel tc0 file0 e w Hc Hr.
  destruct (run_cases S strat verdict fuel tc0 file0)
    as [[_ He]|[(_ & _ & He)|[(_ & _ & He)|(_ & _ & He)]]]; rewrite He in Hr.
  - discriminate Hr.
  - inversion Hr; subst. split; [intros _; reflexivity|].
    apply hooks_finally. apply hooks_pre_w1.
  - discriminate Hr.
  - destruct (loop_run_summary S strat verdict (Some file0) fuel _ _ _ _
                               (good_start_H tc0 file0 Hc) Hr)
      as (it' & [HG HH] & Hhk & Hfile).
    cbn [result_world optH] in HG, HH. split; [|exact Hhk].
    intros Hcond. destruct Hfile as [Hfile|[Hne Hn1]].
    + rewrite Hfile. apply (h_best _ _ _ HH).
    + destruct Hcond as [Hcond|[Hcond|Hcond]].
      * exfalso. exact (Hne Hcond).
      * exfalso. lia.
      * apply (h_nowr _ _ _ HH). exact Hcond.
Qed.

Lemma run_finished_hooks :
  forall S (strat : strategy S) verdict fuel tc0 file0 rc w,
    run strat verdict fuel tc0 file0 = Finished rc w -> hooks_ok (chron w).
Proof.
  intros S strat verdict fuel tc0 file0 rc w Hr.
  destruct (run_cases S strat verdict fuel tc0 file0)
    as [[_ He]|[(_ & _ & He)|[(_ & _ & He)|(_ & _ & He)]]]; rewrite He in Hr.
  - inversion Hr; subst. apply hooks_finally. apply hooks_pre_w0.
  - discriminate Hr.
  - inversion Hr; subst. apply hooks_finally. apply hooks_pre_wN.
  - destruct (loop_run_summary S strat verdict None fuel _ _ _ _
                               (good_start_G tc0 file0) Hr)
      as (it' & _ & _ & _ & Hhk).
    exact Hhk.
Qed.

Lemma run_kill_chk : forall S (strat : strategy S) verdict fuel tc0 file0,
  content tc0 = file0 ->
  kill_chk (chron (result_world (run strat verdict fuel tc0 file0))) None file0.
Proof.
  intros S strat verdict fuel tc0 file0 Hc.
  destruct (run_cases S strat verdict fuel tc0 file0)
    as [[_ He]|[(_ & _ & He)|[(_ & _ & He)|(_ & _ & He)]]]; rewrite He.
  - subst file0. cbn. repeat split.
  - subst file0. cbn. repeat split.
  - subst file0. cbn. repeat split.
  - destruct (loop_run_summary S strat verdict (Some file0) fuel (s_start strat tc0) (it0 tc0)
                               (wY tc0 file0) _ (good_start_H tc0 file0 Hc) eq_refl)
      as (it' & [_ HH] & _).
    cbn [optH] in HH. apply (h_kill _ _ _ HH).
Qed.

Lemma kill_tempdir :
  forall S (strat : strategy S) verdict fuel tc0 file0 pre k p f a post,
    content tc0 = file0 ->
    chron (result_world (run strat verdict fuel tc0 file0)) = pre ++ ETest k p f a :: post ->
    best_tagged (copies pre) None = Some (last_accepted pre file0).
Proof.
  intros S strat verdict fuel tc0 file0 pre k p f a post Hc Heq.
  exact (kill_chk_sound _ file0 pre k p f a post
                        (run_kill_chk S strat verdict fuel tc0 file0 Hc) Heq).
Qed.

(* ------------------------------------------------------------------ *)
(* C11                                                                *)
(* ------------------------------------------------------------------ *)

Lemma run_rejected_original :
  forall S (strat : strategy S) verdict fuel tc0 file0,
    tc_len tc0 <> 0 -> verdict 1 file0 = No ->
    exists w, run strat verdict fuel tc0 file0 = Finished 1 w /\
              n_tests (chron w) = 1 /\ no_writes (chron w) /\ w_file w = file0.
Proof.
  intros S strat verdict fuel tc0 file0 Hlen Hv.
  destruct (run_cases S strat verdict fuel tc0 file0)
    as [[Hl He]|[(_ & Hv' & He)|[(_ & _ & He)|(_ & Hv' & He)]]].
  - exfalso. exact (Hlen Hl).
  - rewrite Hv in Hv'. discriminate Hv'.
  - exists (finally (wN tc0 file0)). split; [exact He|].
    split; [reflexivity|]. split; [|reflexivity].
    cbn. repeat constructor.
  - rewrite Hv in Hv'. discriminate Hv'.
Qed.

Lemma run_nothing_to_reduce :
  forall S (strat : strategy S) verdict fuel tc0 file0,
    tc_len tc0 = 0 ->
    exists w, run strat verdict fuel tc0 file0 = Finished 0 w /\
              n_tests (chron w) = 0 /\ no_writes (chron w) /\ w_file w = file0.
Proof.
  intros S strat verdict fuel tc0 file0 Hlen.
  destruct (run_cases S strat verdict fuel tc0 file0)
    as [[_ He]|[(Hl & _)|[(Hl & _)|(Hl & _)]]]; try (exfalso; exact (Hl Hlen)).
  exists (finally (w0 tc0 file0)). split; [exact He|].
  split; [reflexivity|]. split; [|reflexivity].
  cbn. repeat constructor.
Qed.

Lemma run_status :
  forall S (strat : strategy S) verdict fuel tc0 file0 rc w,
    tc_len tc0 <> 0 -> verdict 1 file0 = Yes ->
    run strat verdict fuel tc0 file0 = Finished rc w ->
    (rc = 0 \/ rc = 1) /\
    (rc = 0 <-> exists k p f, 1 < k /\ In (ETest k p f Yes) (chron w)).
Proof.
  intros S strat verdict fuel tc0 file0 rc w Hlen Hv Hr.
  destruct (run_cases S strat verdict fuel tc0 file0)
    as [[Hl He]|[(_ & Hv' & He)|[(_ & Hv' & He)|(_ & _ & He)]]].
  - exfalso. exact (Hlen Hl).
  - rewrite Hv in Hv'. discriminate Hv'.
  - rewrite Hv in Hv'. discriminate Hv'.
  - rewrite He in Hr.
    destruct (loop_run_summary S strat verdict None fuel _ _ _ _
                               (good_start_G tc0 file0) Hr)
      as (it' & [HG _] & Hrc & _).
    cbn [result_world] in HG. pose proof (g_any _ _ HG) as Hany.
    destruct (it_any it') eqn:A; subst rc.
    + split; [left; reflexivity|]. split; [intros _; apply Hany; reflexivity | reflexivity].
    + split; [right; reflexivity|]. split; [intros H; discriminate H|].
      intros H. apply Hany in H. discriminate H.
Qed.

Lemma check_only_spec :
  forall verdict tc0 file0,
    exists w, n_tests (chron w) = 1 /\ no_writes (chron w) /\ w_file w = file0 /\
      run_check_only verdict tc0 file0 =
        match verdict 1 file0 with
        | Yes => Finished 0 w | No => Finished 1 w | Raise => Aborted None w end.
Proof.
  intros verdict tc0 file0. unfold run_check_only, check_only_main, interesting.
  cbv zeta.
  change (w_tests (count_test (tc_len tc0) (log EInit (init_world file0)))) with 1.
  change (w_file (count_test (tc_len tc0) (log EInit (init_world file0)))) with file0.
  destruct (verdict 1 file0); cbn [map_world];
    (eexists; split; [|split; [|split; [|reflexivity]]];
     [reflexivity | cbn; repeat constructor | reflexivity]).
Qed.

(* ------------------------------------------------------------------ *)
(* C12                                                                *)
(* ------------------------------------------------------------------ *)

Lemma run_temp_log :
  forall S (strat : strategy S) verdict fuel tc0 file0,
    content tc0 = file0 ->
    let w := result_world (run strat verdict fuel tc0 file0) in
    rev (w_temp w) = (Original, file0) :: expected_temp (chron w) /\
    numbered_from 1 (tests_of (chron w)) /\
    w_tests w = n_tests (chron w) /\
    w_tfc w = n_tests (chron w) + 1 - (if existsb (fun e => match e with ETest _ _ _ Raise => true | _ => false end) (chron w) then 1 else 0).
Proof.
  intros S strat verdict fuel tc0 file0 Hc w. subst w.
  destruct (run_cases S strat verdict fuel tc0 file0)
    as [[_ He]|[(_ & _ & He)|[(_ & _ & He)|(_ & _ & He)]]]; rewrite He.
  - subst file0. cbn. repeat split.
  - subst file0. cbn. repeat split.
  - subst file0. cbn. repeat split.
  - destruct (loop_run_summary S strat verdict (Some file0) fuel (s_start strat tc0) (it0 tc0)
                               (wY tc0 file0) _ (good_start_H tc0 file0 Hc) eq_refl)
      as (it' & [HG HH] & _).
    cbn [optH] in HH.
    split; [apply (h_temp _ _ _ HH)|]. split; [apply (g_num _ _ HG)|].
    split; [apply (g_tests _ _ HG)|]. apply (g_tfc _ _ HG).
Qed.

Lemma run_no_duplicate_tests :
  forall S (strat : strategy S) verdict fuel tc0 file0,
    let w := result_world (run strat verdict fuel tc0 file0) in
    NoDup (map test_file (tl (tests_of (chron w)))).
Proof.
  intros S strat verdict fuel tc0 file0 w. subst w.
  destruct (run_cases S strat verdict fuel tc0 file0)
    as [[_ He]|[(_ & _ & He)|[(_ & _ & He)|(_ & _ & He)]]]; rewrite He.
  - cbn. constructor.
  - cbn. constructor.
  - cbn. constructor.
  - destruct (loop_run_summary S strat verdict None fuel (s_start strat tc0) (it0 tc0)
                               (wY tc0 file0) _ (good_start_G tc0 file0) eq_refl)
      as (it' & [HG _] & _).
    destruct (g_tried _ _ HG) as (e0 & T & HT & HM).
    rewrite HT. cbn [tl]. rewrite HM. apply NoDup_rev. apply (g_nodup _ _ HG).
Qed.
