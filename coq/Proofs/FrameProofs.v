(* Proofs for C05 (text outside the DDBEGIN/DDEND region is never modified), in the vocabulary
   of Model/FrameSpec.v:
     - the generic theorem: a frame-preserving strategy only ever shows the test files of the
       form P ++ m ++ S and leaves such a file behind,
     - deleting strategies and minimize-collapse-brace are frame preserving,
     - a loaded marker file is framed by its marker lines (char mode: plus one byte),
     - the line-mode re-split of collapse-brace never fails and never grows.
   Used by Props/C05.v.  No axioms. *)
From Coq Require Import ZArith NArith List Bool Lia ZifyBool Arith.
From Lithium Require Import PyBase TcRecord SplitAttrs Util Testcase Spec Driver TraceSpec Minimize
  StratSpec Pairs PyLines Markers Splitters SplitSpec Collapse FrameSpec
  TestcaseProofs DriverProofs MinimizeProofs PairsProofs SplitProofs.
Import ListNotations.
Open Scope Z_scope.
(* Props/C05.v imports SplitAttrs after Driver, so its `run` would resolve to SplitAttrs.run
   (the whitespace-run scanner) and none of its statements about Driver.run would elaborate.
   C05.v imports this file last: re-exporting Driver makes `run` mean Driver.run there again.
   Remove once C05.v orders its imports (SplitAttrs before Driver) or writes Driver.run. *)
Export Driver.

(* ------------------------------------------------------------------ *)
(* 1. the generic theorem                                              *)
(* ------------------------------------------------------------------ *)

Lemma framed_content : forall P S t, framed P S t -> in_frame P S (content t).
Proof.
  intros P S t [[x Hx] [y Hy]]. unfold in_frame, content. rewrite Hx, Hy.
  exists (x ++ concat (tc_parts t) ++ y). repeat rewrite <- app_assoc. reflexivity.
Qed.

Lemma tif_app : forall P S l1 l2,
  tests_in_frame P S l1 -> tests_in_frame P S l2 -> tests_in_frame P S (l1 ++ l2).
Proof. intros P S l1 l2 H1 H2. unfold tests_in_frame. apply Forall_app. split; assumption. Qed.

Lemma tif_wafter : forall P S w t a,
  tests_in_frame P S (chron w) -> in_frame P S (content t) ->
  tests_in_frame P S (chron (wafter w t a)).
Proof.
  intros P S w t a Hw Ht. rewrite chron_wafter. apply tif_app; [exact Hw|].
  constructor; [exact I|]. constructor; [exact Ht|].
  destruct a; cbn [tcopy]; repeat constructor.
Qed.

Lemma tif_finally : forall P S w,
  tests_in_frame P S (chron w) -> tests_in_frame P S (chron (finally w)).
Proof.
  intros P S w Hw. destruct (finally_cases w) as [[He _]|(t & _ & _ & He)]; rewrite He.
  - rewrite chron_log. apply tif_app; [exact Hw|]. repeat constructor.
  - rewrite chron_write_file, chron_log. apply tif_app; [apply tif_app; [exact Hw|]|];
      repeat constructor.
Qed.

Lemma file_finally_frame : forall P S w,
  in_frame P S (w_file w) ->
  (forall t, w_last w = Some t -> in_frame P S (content t)) ->
  in_frame P S (w_file (finally w)).
Proof.
  intros P S w Hf Hl. destruct (finally_cases w) as [[He _]|(t & Ht & _ & He)]; rewrite He.
  - exact Hf.
  - cbn [write_file w_file]. apply Hl. exact Ht.
Qed.

Section FrameRuns.
  Variables (St : Type) (strat : strategy St) (I : St -> tcase -> Prop) (P S : bytes)
            (verdict : verdict_t).
  Hypothesis Hfp : frame_preserving strat I P S.

  Definition KF (st : St) (it : iter) (w : world) : Prop :=
    I st (it_best it) /\ wf (it_best it) /\ framed P S (it_best it) /\
    tests_in_frame P S (chron w) /\ in_frame P S (w_file w) /\
    w_last w = Some (it_best it).

  Lemma KF_step : forall a b, lstep strat verdict a b -> on_ls KF a -> on_ls KF b.
  Proof.
    intros a b Hstep. destruct Hstep as
      [st it w b0 st' Hn | st it w t k Hn Hm | st it w t k w' Hn Hm Hi | st it w t k w' Hn Hm Hi];
      cbn [on_ls]; intros (HI & Hwf & Hfr & Htif & Hfile & Hlast);
      pose proof (Hfp _ _ HI Hwf Hfr) as Hd; rewrite Hn in Hd.
    - destruct Hd as [Hb Hk]. unfold KF. split; [exact Hk|]. split; [exact Hwf|].
      split; [exact Hfr|]. split; [|split].
      + rewrite chron_write_file. apply tif_app; [exact Htif|]. repeat constructor.
      + exact Hb.
      + exact Hlast.
    - destruct Hd as (_ & _ & Hk & _). unfold KF. split; [exact Hk|]. split; [exact Hwf|].
      split; [exact Hfr|]. split; [exact Htif|]. split; [exact Hfile | exact Hlast].
    - destruct Hd as (Hwt & Hft & _ & _ & Hk).
      apply interesting_true_inv in Hi. destruct Hi as [_ Hw]. subst w'.
      pose proof (framed_content _ _ _ Hft) as Hct.
      unfold KF. cbn [it_best]. split; [exact Hk|]. split; [exact Hwt|]. split; [exact Hft|].
      split; [apply tif_wafter; assumption|]. split.
      + rewrite wafter_file. exact Hct.
      + rewrite wafter_last. reflexivity.
    - destruct Hd as (Hwt & Hft & _ & Hk & _).
      apply interesting_true_inv in Hi. destruct Hi as [_ Hw]. subst w'.
      pose proof (framed_content _ _ _ Hft) as Hct.
      unfold KF. cbn [it_best]. split; [exact Hk|]. split; [exact Hwf|]. split; [exact Hfr|].
      split; [apply tif_wafter; assumption|]. split.
      + rewrite wafter_file. exact Hct.
      + rewrite wafter_last. exact Hlast.
  Qed.
End FrameRuns.

Lemma frame_runs_keep_frame :
  forall St (strat : strategy St) (I : St -> tcase -> Prop) P S verdict fuel tc0 file0,
    wf tc0 -> content tc0 = file0 -> framed P S tc0 ->
    I (s_start strat tc0) tc0 -> frame_preserving strat I P S ->
    let w := result_world (run strat verdict fuel tc0 file0) in
    tests_in_frame P S (chron w) /\ in_frame P S (w_file w).
Proof.
  intros St strat I P S verdict fuel tc0 file0 Hwf Hc Hfr0 HI0 Hfp. cbv zeta.
  assert (Hfile0 : in_frame P S file0).
  { rewrite <- Hc. apply framed_content. exact Hfr0. }
  destruct (run_cases St strat verdict fuel tc0 file0)
    as [[_ Hr]|[(_ & _ & Hr)|[(_ & _ & Hr)|(_ & _ & Hr)]]]; rewrite Hr; cbn [result_world].
  - split.
    + apply tif_finally. repeat constructor.
    + apply file_finally_frame; [exact Hfile0|]. intros t Ht. discriminate Ht.
  - split.
    + apply tif_finally. cbv [chron w1 w0 log count_test temp_copy init_world w_trace rev app
                              w_file w_temp w_tests w_tfc w_total w_last w_dirty].
      repeat constructor. exact Hfile0.
    + apply file_finally_frame; [exact Hfile0|]. intros t Ht. discriminate Ht.
  - split.
    + apply tif_finally. cbv [chron wN w1 w0 log count_test temp_copy init_world w_trace rev app
                              w_file w_temp w_tests w_tfc w_total w_last w_dirty].
      repeat constructor. exact Hfile0.
    + apply file_finally_frame; [exact Hfile0|]. intros t Ht. discriminate Ht.
  - assert (HK0 : KF St I P S (s_start strat tc0) (it0 tc0) (wY tc0 file0)).
    { unfold KF. cbn [it0 it_best]. split; [exact HI0|]. split; [exact Hwf|].
      split; [exact Hfr0|]. split; [|split].
      - cbv [chron wY w1 w0 log count_test temp_copy set_last init_world w_trace rev app
             w_file w_temp w_tests w_tfc w_total w_last w_dirty].
        repeat constructor. exact Hfile0.
      - exact Hfile0.
      - reflexivity. }
    destruct (loop_follows_lsteps St strat verdict fuel (s_start strat tc0) (it0 tc0)
                (wY tc0 file0) _ eq_refl) as (st' & it' & w' & Hs & Hm).
    pose proof (lsteps_on_ls St strat verdict (KF St I P S)
                  (KF_step St strat I P S verdict Hfp) _ _ Hs HK0) as HK.
    cbn [on_ls] in HK. destruct HK as (HI & Hwfb & Hfrb & Htif & Hfile & Hlast).
    pose proof (framed_content _ _ _ Hfrb) as Hcb.
    destruct (loop strat verdict fuel (s_start strat tc0) (it0 tc0) (wY tc0 file0))
      as [rc wf1|[e|] wf1|wf1]; cbn [map_world result_world].
    + destruct Hm as (_ & Hw & _). subst wf1. split.
      * apply tif_finally. rewrite chron_write_file. apply tif_app; [exact Htif|].
        repeat constructor.
      * apply file_finally_frame.
        -- cbn [write_file w_file]. exact Hcb.
        -- intros t Ht. cbn [write_file w_last] in Ht. rewrite Hlast in Ht.
           inversion Ht. subst t. exact Hcb.
    + destruct Hm as [_ Hw]. subst wf1. split; [apply tif_finally; exact Htif|].
      apply file_finally_frame; [exact Hfile|].
      intros t Ht. rewrite Hlast in Ht. inversion Ht. subst t. exact Hcb.
    + destruct Hm as (t & k & Hn & _ & Hi).
      pose proof (Hfp _ _ HI Hwfb Hfrb) as Hd. rewrite Hn in Hd.
      destruct Hd as (_ & Hft & _).
      pose proof (framed_content _ _ _ Hft) as Hct.
      apply interesting_true_inv in Hi. destruct Hi as [_ Hw]. subst wf1. split.
      * apply tif_finally. apply tif_wafter; assumption.
      * apply file_finally_frame.
        -- rewrite wafter_file. exact Hct.
        -- intros t1 Ht1. rewrite wafter_last, Hlast in Ht1. inversion Ht1. subst t1. exact Hcb.
    + subst wf1. split; [exact Htif | exact Hfile].
Qed.

(* ------------------------------------------------------------------ *)
(* 2. deleting strategies keep every frame                             *)
(* ------------------------------------------------------------------ *)

Lemma sub_reducible_framed : forall P S best t,
  sub_reducible best t -> framed P S best -> wf t /\ framed P S t.
Proof.
  intros P S best t (Hb & Ha & Hwf & _) Hfr. split; [exact Hwf|].
  unfold framed. rewrite Hb, Ha. exact Hfr.
Qed.

Lemma deleting_is_frame_preserving :
  forall St (strat : strategy St) (I : St -> tcase -> Prop) P S,
    deleting strat I -> frame_preserving strat I P S.
Proof.
  intros St strat I P S Hdel st best HI Hwf Hfr.
  pose proof (Hdel st best HI Hwf) as Hd.
  destruct (s_next strat st best) as [t k|b st'| |e].
  - destruct Hd as (Hsub & H1 & H2 & H3).
    destruct (sub_reducible_framed P S best t Hsub Hfr) as [Hwt Hft].
    split; [exact Hwt|]. split; [exact Hft|]. split; [exact H1|]. split; [exact H2 | exact H3].
  - contradiction.
  - exact Logic.I.
  - exact Logic.I.
Qed.

(* ------------------------------------------------------------------ *)
(* 3. minimize-collapse-brace keeps every frame                        *)
(* ------------------------------------------------------------------ *)

Definition IC (P S : bytes) (st : mstate) (best : tcase) : Prop :=
  0 <= m_chunk_size st /\
  match m_phase st with
  | PPost t' => wf t' /\ framed P S t'
  | _ => True
  end.

Lemma ID_IC : forall P S st best, ID st best -> IC P S st best.
Proof. intros P S st best [Hcs Hph]. split; [exact Hcs|]. rewrite Hph. exact I. Qed.

Lemma propose_chunk_frame : forall P S s best,
  0 <= m_chunk_size s -> wf best -> framed P S best ->
  match propose_chunk s best with
  | Propose t k => wf t /\ framed P S t /\
                   IC P S (k Skipped) best /\ IC P S (k (Tested false)) best /\
                   IC P S (k (Tested true)) t
  | RawWrite b st' => in_frame P S b /\ IC P S st' best
  | Done => True
  | Fail _ => True
  end.
Proof.
  intros P S s best Hcs Hwf Hfr.
  pose proof (propose_chunk_deleting s best Hcs Hwf) as Hd.
  destruct (propose_chunk s best) as [t k|b st'| |e].
  - destruct Hd as (Hsub & H1 & H2 & H3).
    destruct (sub_reducible_framed P S best t Hsub Hfr) as [Hwt Hft].
    split; [exact Hwt|]. split; [exact Hft|].
    split; [apply ID_IC; exact H1|]. split; apply ID_IC; assumption.
  - contradiction.
  - exact I.
  - exact I.
Qed.

Lemma decide_frame : forall P S cfg s best,
  0 <= m_chunk_size s -> wf best -> framed P S best ->
  match decide cfg s best with
  | Propose t k => wf t /\ framed P S t /\
                   IC P S (k Skipped) best /\ IC P S (k (Tested false)) best /\
                   IC P S (k (Tested true)) t
  | RawWrite b st' => in_frame P S b /\ IC P S st' best
  | Done => True
  | Fail _ => True
  end.
Proof.
  intros P S cfg s best Hcs Hwf Hfr. unfold decide.
  destruct (decide_state cfg s best) as [s'|] eqn:Hds; [|exact I].
  apply propose_chunk_frame; [|exact Hwf|exact Hfr].
  destruct (decide_state_shape cfg s best s' Hds) as (_ & _ & _ & [Hc|[_ Hc]]); rewrite Hc;
    [exact Hcs | apply halve_nonneg; exact Hcs].
Qed.

Lemma collapse_post_shape : forall sp best raw r,
  collapse_post sp best = Some (raw, r) ->
  exists m, raw = tc_before best ++ m ++ tc_after best /\
    r = (s <- sp m ;;
         Ok {| tc_before := tc_before best ++ sp_before s; tc_parts := sp_parts s;
               tc_red := sp_red s; tc_after := sp_after s ++ tc_after best |}).
Proof.
  intros sp best raw r H. unfold collapse_post in H. cbv zeta in H.
  destruct (bytes_eqb (concat (tc_parts best)) (collapse (concat (tc_parts best))));
    [discriminate H|].
  inversion H. exists (collapse (concat (tc_parts best))). split; reflexivity.
Qed.

Lemma collapse_frame_IC : forall cfg clk sp P S, splitter_ok sp ->
  frame_preserving (collapse_brace cfg clk sp) (IC P S) P S.
Proof.
  intros cfg clk sp P S Hsp st best [Hcs Hph] Hwf Hfr.
  cbn [collapse_brace minimize s_next]. unfold mnext.
  destruct (m_phase st) as [|t'|e|] eqn:Ephase.
  - cbv zeta. fold (tick st).
    destruct (match m_deadline st with Some d => clk (m_reads st) >? d | None => false end);
      [exact I|].
    change (m_chunk_end (tick st)) with (m_chunk_end st).
    change (m_chunk_size (tick st)) with (m_chunk_size st).
    destruct (m_chunk_end st - m_chunk_size st <? 0).
    + destruct (tc_len best =? 0); [exact I|].
      destruct (collapse_post sp best) as [[raw r]|] eqn:Ep.
      * destruct (collapse_post_shape sp best raw r Ep) as (m & Hraw & Hr).
        assert (Hin : in_frame P S raw).
        { destruct Hfr as [[x Hx] [y Hy]]. subst raw. rewrite Hx, Hy.
          exists (x ++ m ++ y). repeat rewrite <- app_assoc. reflexivity. }
        destruct r as [t'|e].
        -- split; [exact Hin|]. split; [exact Hcs|]. msimpl.
           destruct (sp m) as [s|e] eqn:Es; cbn [bind] in Hr; [|discriminate Hr].
           inversion Hr as [Ht']. destruct (Hsp m s Es) as (_ & _ & Hlen).
           split; [exact Hlen|].
           destruct Hfr as [[x Hx] [y Hy]]. split; cbn [tc_before tc_after].
           ++ exists (x ++ sp_before s). rewrite Hx, <- app_assoc. reflexivity.
           ++ exists (sp_after s ++ y). rewrite Hy, <- app_assoc. reflexivity.
        -- split; [exact Hin|]. split; [exact Hcs|]. msimpl. exact I.
      * apply decide_frame; [exact Hcs | exact Hwf | exact Hfr].
    + apply propose_chunk_frame; [exact Hcs | exact Hwf | exact Hfr].
  - destruct Hph as [Hwt Hft]. split; [exact Hwt|]. split; [exact Hft|].
    assert (Hk : forall b, IC P S (set_phase PDecide st) b).
    { intros b. split; [exact Hcs|]. msimpl. exact I. }
    split; [apply Hk|]. split; apply Hk.
  - exact I.
  - apply decide_frame; [exact Hcs | exact Hwf | exact Hfr].
Qed.

Lemma IC_start : forall P S cfg clk tc0, 1 <= c_max cfg -> IC P S (mstart cfg clk tc0) tc0.
Proof.
  intros P S cfg clk tc0 Hmax. split; [|exact I]. cbn [mstart m_chunk_size].
  pose proof (lpo2st_nonneg (tc_len tc0)). lia.
Qed.

Lemma collapse_is_frame_preserving :
  forall cfg clk sp P S, 1 <= c_max cfg -> splitter_ok sp ->
    exists I : mstate -> tcase -> Prop, (forall tc0, I (mstart cfg clk tc0) tc0) /\
              frame_preserving (collapse_brace cfg clk sp) I P S.
Proof.
  intros cfg clk sp P S Hmax Hsp. exists (IC P S). split.
  - intros tc0. apply IC_start. exact Hmax.
  - apply collapse_frame_IC. exact Hsp.
Qed.

(* ------------------------------------------------------------------ *)
(* 4. loaded marker files are framed                                   *)
(* ------------------------------------------------------------------ *)

Lemma loaded_is_framed :
  forall sp d t P r S, load sp d = Ok t -> find_markers d = Marked P r S -> framed P S t.
Proof.
  intros sp d t P r S Hld Hfm. unfold load in Hld. rewrite Hfm in Hld.
  destruct (sp r) as [s|e]; cbn [bind] in Hld; [|discriminate Hld].
  inversion Hld. split; cbn [tc_before tc_after].
  - exists (sp_before s). reflexivity.
  - exists (sp_after s). reflexivity.
Qed.

Lemma scan_begin_before_ne : forall ls acc P r S,
  scan_begin acc ls = Marked P r S -> P <> [].
Proof.
  induction ls as [|l ls IH]; intros acc P r S H.
  - discriminate H.
  - rewrite scan_begin_cons in H. unfold has_begin, has_end in H.
    destruct (contains DDBEGIN l) eqn:Eb.
    + destruct (scan_end [] ls) as [[rg af]|]; [|discriminate H].
      injection H as HP _ _. pose proof (concat_rev_cons l acc) as Hc.
      cbn [rev] in Hc. unfold bytes in *. rewrite <- HP, Hc.
      destruct l as [|c l]; [discriminate Eb|].
      intros Habs. apply app_eq_nil in Habs. destruct Habs as [_ Habs]. discriminate Habs.
    + destruct (contains DDEND l); [discriminate H|]. exact (IH _ _ _ _ H).
Qed.

Lemma loaded_char_is_framed :
  forall d t P r S c, load_char d = Ok t -> find_markers d = Marked P (r ++ [c]) S ->
    framed P (c :: S) t.
Proof.
  intros d t P r S c Hld Hfm. unfold load_char, load in Hld. rewrite Hfm in Hld.
  unfold split_char in Hld. cbn [bind sp_before sp_parts sp_red sp_after] in Hld.
  inversion Hld as [Ht]. clear Hld Ht.
  assert (HP : P <> []).
  { unfold find_markers in Hfm. exact (scan_begin_before_ne _ _ _ _ _ Hfm). }
  unfold char_fixup. cbn [tc_before tc_after tc_parts tc_red].
  rewrite app_nil_r. cbn [app].
  rewrite map_app, rev_app_distr. cbn [map rev app].
  destruct P as [|p P']; [exfalso; apply HP; reflexivity|].
  split; cbn [tc_before tc_after].
  - exists []. rewrite app_nil_r. reflexivity.
  - exists []. reflexivity.
Qed.

(* ------------------------------------------------------------------ *)
(* 5. end to end on a loaded marker file                               *)
(* ------------------------------------------------------------------ *)

Lemma minimize_loaded_keeps_frame :
  forall sp cfg clk verdict fuel d tc0 P r S,
    splitter_ok sp -> load sp d = Ok tc0 -> find_markers d = Marked P r S -> 1 <= c_max cfg ->
    let w := result_world (run (minimize cfg clk no_post) verdict fuel tc0 d) in
    tests_in_frame P S (chron w) /\ in_frame P S (w_file w).
Proof.
  intros sp cfg clk verdict fuel d tc0 P r S Hsp Hld Hfm Hmax.
  destruct (load_generic_ok sp Hsp d tc0 Hld) as (Hc & _ & Hwf).
  pose proof (loaded_is_framed sp d tc0 P r S Hld Hfm) as Hfr.
  destruct (minimize_is_deleting cfg clk tc0 Hmax) as (I & HI0 & Hdel).
  apply (frame_runs_keep_frame mstate (minimize cfg clk no_post) I P S verdict fuel tc0 d
           Hwf Hc Hfr HI0).
  apply deleting_is_frame_preserving. exact Hdel.
Qed.

Lemma pairs_loaded_keeps_frame :
  forall sp kind cfg clk verdict fuel d tc0 P r S,
    splitter_ok sp -> load sp d = Ok tc0 -> find_markers d = Marked P r S -> 1 <= c_max cfg ->
    let w := result_world (run (pairs kind cfg clk) verdict fuel tc0 d) in
    tests_in_frame P S (chron w) /\ in_frame P S (w_file w).
Proof.
  intros sp kind cfg clk verdict fuel d tc0 P r S Hsp Hld Hfm Hmax.
  destruct (load_generic_ok sp Hsp d tc0 Hld) as (Hc & _ & Hwf).
  pose proof (loaded_is_framed sp d tc0 P r S Hld Hfm) as Hfr.
  destruct (pairs_is_deleting kind cfg clk tc0 Hmax) as (I & HI0 & Hdel).
  apply (frame_runs_keep_frame pstate (pairs kind cfg clk) I P S verdict fuel tc0 d
           Hwf Hc Hfr HI0).
  apply deleting_is_frame_preserving. exact Hdel.
Qed.

Lemma collapse_loaded_keeps_frame :
  forall sp cfg clk verdict fuel d tc0 P r S,
    splitter_ok sp -> load sp d = Ok tc0 -> find_markers d = Marked P r S -> 1 <= c_max cfg ->
    let w := result_world (run (collapse_brace cfg clk sp) verdict fuel tc0 d) in
    tests_in_frame P S (chron w) /\ in_frame P S (w_file w).
Proof.
  intros sp cfg clk verdict fuel d tc0 P r S Hsp Hld Hfm Hmax.
  destruct (load_generic_ok sp Hsp d tc0 Hld) as (Hc & _ & Hwf).
  pose proof (loaded_is_framed sp d tc0 P r S Hld Hfm) as Hfr.
  destruct (collapse_is_frame_preserving cfg clk sp P S Hmax Hsp) as (I & HI0 & Hfp).
  apply (frame_runs_keep_frame mstate (collapse_brace cfg clk sp) I P S verdict fuel tc0 d
           Hwf Hc Hfr (HI0 tc0) Hfp).
Qed.

(* ------------------------------------------------------------------ *)
(* 6. collapse-brace in line mode: the re-split does not grow          *)
(* ------------------------------------------------------------------ *)

(* 6.1 the statement `post_ok (collapse_post split_line)` of Props/C05.v is FALSE: post_ok
   quantifies over every wf best.  (a) non-reducible parts do not count in tc_len best but the
   re-split makes every line reducible; (b) even with all flags true a part may hold several
   lines *)
Definition cx_post_a : tcase :=
  {| tc_before := []; tc_parts := [[123; 10]; [125; 10]]%N; tc_red := [false; false];
     tc_after := [] |}.
Definition cx_post_b : tcase :=
  {| tc_before := []; tc_parts := [[123; 10; 125; 10; 10]]%N; tc_red := [true];
     tc_after := [] |}.

Lemma collapse_line_post_ok_counterexample : ~ post_ok (collapse_post split_line).
Proof.
  intros H.
  assert (E : collapse_post split_line cx_post_a =
              Some ([123; 32; 125; 10]%N,
                    Ok {| tc_before := []; tc_parts := [[123; 32; 125; 10]]%N; tc_red := [true];
                          tc_after := [] |})) by (vm_compute; reflexivity).
  destruct (H cx_post_a _ _ eq_refl E) as (t' & Hr & _ & Hlen).
  inversion Hr as [Ht']. subst t'. vm_compute in Hlen. apply Hlen. reflexivity.
Qed.

(* all flags true is not enough *)
Lemma collapse_line_post_ok_counterexample_all_true :
  wf cx_post_b /\ Forall (fun b => b = true) (tc_red cx_post_b) /\
  exists raw t', collapse_post split_line cx_post_b = Some (raw, Ok t') /\
                 tc_len cx_post_b = 1 /\ tc_len t' = 2.
Proof.
  split; [reflexivity|]. split; [repeat constructor|].
  eexists. eexists. split; [vm_compute; reflexivity|]. split; reflexivity.
Qed.

(* 6.2 counting lines *)
Fixpoint cnt (ne : bool) (d : bytes) {struct d} : nat :=
  match d with
  | [] => if ne then 1%nat else 0%nat
  | b :: r =>
      if simple_term b then S (cnt false r)
      else if (b =? 13)%N then
        match r with
        | c :: r' => if (c =? 10)%N then S (cnt false r') else S (cnt false r)
        | [] => 1%nat
        end
      else if (b =? 194)%N then
        match r with
        | c :: r' => if (c =? 133)%N then S (cnt false r') else cnt true r
        | [] => cnt true r
        end
      else if (b =? 226)%N then
        match r with
        | c1 :: r1 =>
            if (c1 =? 128)%N then
              match r1 with
              | c2 :: r2 => if ((c2 =? 168) || (c2 =? 169))%N then S (cnt false r2)
                            else cnt true r
              | [] => cnt true r
              end
            else cnt true r
        | [] => cnt true r
        end
      else cnt true r
  end.

Lemma cnt_cons : forall ne b r,
  cnt ne (b :: r) =
      if simple_term b then S (cnt false r)
      else if (b =? 13)%N then
        match r with
        | c :: r' => if (c =? 10)%N then S (cnt false r') else S (cnt false r)
        | [] => 1%nat
        end
      else if (b =? 194)%N then
        match r with
        | c :: r' => if (c =? 133)%N then S (cnt false r') else cnt true r
        | [] => cnt true r
        end
      else if (b =? 226)%N then
        match r with
        | c1 :: r1 =>
            if (c1 =? 128)%N then
              match r1 with
              | c2 :: r2 => if ((c2 =? 168) || (c2 =? 169))%N then S (cnt false r2)
                            else cnt true r
              | [] => cnt true r
              end
            else cnt true r
        | [] => cnt true r
        end
      else cnt true r.
Proof. reflexivity. Qed.

Definition nonempty (cur : bytes) : bool := match cur with [] => false | _ => true end.

Lemma sl_length_aux : forall n d, (length d <= n)%nat ->
  forall cur, length (sl cur d) = cnt (nonempty cur) d.
Proof.
  induction n as [|n IH]; intros d Hn cur; destruct d as [|b r].
  - destruct cur; reflexivity.
  - cbn [length] in Hn. lia.
  - destruct cur; reflexivity.
  - cbn [length] in Hn. rewrite sl_cons, cnt_cons.
    destruct (simple_term b).
    { cbn [length]. f_equal. apply (IH r ltac:(lia) []). }
    destruct (b =? 13)%N.
    { destruct r as [|c r']; [reflexivity|]. cbn [length] in Hn.
      destruct (c =? 10)%N; cbn [length]; f_equal.
      - apply (IH r' ltac:(lia) []).
      - apply (IH (c :: r') ltac:(cbn [length]; lia) []). }
    destruct (b =? 194)%N.
    { destruct r as [|c r']; [apply (IH [] ltac:(cbn [length]; lia) (b :: cur))|].
      cbn [length] in Hn. destruct (c =? 133)%N.
      - cbn [length]. f_equal. apply (IH r' ltac:(lia) []).
      - apply (IH (c :: r') ltac:(cbn [length]; lia) (b :: cur)). }
    destruct (b =? 226)%N.
    { destruct r as [|c1 r1]; [apply (IH [] ltac:(cbn [length]; lia) (b :: cur))|].
      cbn [length] in Hn. destruct (c1 =? 128)%N.
      - destruct r1 as [|c2 r2];
          [apply (IH [c1] ltac:(cbn [length]; lia) (b :: cur))|].
        cbn [length] in Hn. destruct ((c2 =? 168) || (c2 =? 169))%N.
        + cbn [length]. f_equal. apply (IH r2 ltac:(lia) []).
        + apply (IH (c1 :: c2 :: r2) ltac:(cbn [length]; lia) (b :: cur)).
      - apply (IH (c1 :: r1) ltac:(cbn [length]; lia) (b :: cur)). }
    apply (IH r ltac:(lia) (b :: cur)).
Qed.

Lemma splitlines_length : forall d, length (splitlines d) = cnt false d.
Proof. intros d. unfold splitlines. apply (sl_length_aux (length d) d (le_n _) []). Qed.

(* 6.3 the substitution, without fuel *)
Lemma collapse_sub_fuel : forall f1 f2 d, (length d <= f1)%nat -> (length d <= f2)%nat ->
  collapse_sub f1 d = collapse_sub f2 d.
Proof.
  induction f1 as [|f1 IH]; intros f2 d H1 H2.
  - destruct d as [|c r]; [destruct f2; reflexivity | cbn [length] in H1; lia].
  - destruct d as [|c r]; [destruct f2; reflexivity|].
    destruct f2 as [|f2]; cbn [length] in H1, H2; [lia|].
    cbn [collapse_sub]. destruct (c =? 123)%N.
    + destruct (ws_then_close r) as [k|].
      * f_equal. pose proof (skipn_length (S k) r) as Hs. apply IH; lia.
      * f_equal. apply IH; lia.
    + f_equal. apply IH; lia.
Qed.

Lemma collapse_nil : collapse [] = [].
Proof. reflexivity. Qed.

Lemma collapse_cons : forall c r,
  collapse (c :: r) =
  if (c =? 123)%N then
    match ws_then_close r with
    | Some k => [123; 32; 125]%N ++ collapse (skipn (S k) r)
    | None => c :: collapse r
    end
  else c :: collapse r.
Proof.
  intros c r. unfold collapse. cbn [length collapse_sub].
  destruct (c =? 123)%N; [|reflexivity].
  destruct (ws_then_close r) as [k|]; [|reflexivity].
  f_equal. pose proof (skipn_length (S k) r) as Hs. apply collapse_sub_fuel; lia.
Qed.

Lemma collapse_head : forall c r,
  exists y, collapse (c :: r) = c :: y /\ (c <> 123%N -> y = collapse r).
Proof.
  intros c r. rewrite collapse_cons. destruct (c =? 123)%N eqn:E.
  - apply N.eqb_eq in E. subst c. destruct (ws_then_close r) as [k|].
    + eexists. split; [reflexivity|]. intros Hc. exfalso. apply Hc. reflexivity.
    + exists (collapse r). split; reflexivity.
  - exists (collapse r). split; reflexivity.
Qed.

Lemma run_prefix : forall p (l1 : bytes) a l2,
  length l1 = SplitAttrs.run p (l1 ++ a :: l2) -> Forall (fun b => p b = true) l1.
Proof.
  intros p. induction l1 as [|x l1 IH]; intros a l2 H; [constructor|].
  cbn [app SplitAttrs.run length] in H. destruct (p x) eqn:Ex; [|discriminate H].
  injection H as H. constructor; [exact Ex | exact (IH _ _ H)].
Qed.

Lemma skipn_S_app : forall (l1 : bytes) a l2, skipn (S (length l1)) (l1 ++ a :: l2) = l2.
Proof. induction l1 as [|x l1 IH]; intros a l2; [reflexivity | exact (IH a l2)]. Qed.

Lemma ws_then_close_spec : forall r k, ws_then_close r = Some k ->
  exists w rest, r = w ++ 125%N :: rest /\ Forall (fun b => is_ws b = true) w /\
                 skipn (S k) r = rest.
Proof.
  intros r k H. unfold ws_then_close in H. cbv zeta in H.
  destruct (SplitAttrs.run is_ws r) as [|k0] eqn:Ek; [discriminate H|].
  destruct (nth_error r (S k0)) as [c|] eqn:En; [|discriminate H].
  destruct (c =? 125)%N eqn:Ec; [|discriminate H].
  injection H as H. subst k. apply N.eqb_eq in Ec. subst c.
  destruct (nth_error_split r (S k0) En) as (w & rest & Hr & Hlen).
  exists w, rest. split; [exact Hr|]. split.
  - apply (run_prefix is_ws w 125%N rest). rewrite <- Hr, Ek. exact Hlen.
  - rewrite <- Hlen, Hr. apply skipn_S_app.
Qed.

Lemma is_ws_cases : forall x, is_ws x = true ->
  x = 32%N \/ x = 9%N \/ x = 10%N \/ x = 13%N \/ x = 12%N \/ x = 11%N.
Proof.
  intros x H. unfold is_ws in H. rewrite !orb_true_iff, !N.eqb_eq in H. tauto.
Qed.

(* 6.4 a whitespace run before "}" only adds lines *)
Lemma ws_skip : forall n w, (length w <= n)%nat -> Forall (fun b => is_ws b = true) w ->
  forall ne rest, (cnt true rest <= cnt ne (w ++ 125%N :: rest))%nat.
Proof.
  induction n as [|n IH]; intros w Hn Hw ne rest; destruct w as [|x w'].
  - apply le_n.
  - cbn [length] in Hn. lia.
  - apply le_n.
  - cbn [length] in Hn. inversion Hw as [|x0 w0 Hx Hw']. subst x0 w0. cbn [app].
    destruct (is_ws_cases x Hx) as [E|[E|[E|[E|[E|E]]]]]; subst x.
    + change (cnt ne (32%N :: w' ++ 125%N :: rest)) with (cnt true (w' ++ 125%N :: rest)).
      apply IH; [lia | exact Hw'].
    + change (cnt ne (9%N :: w' ++ 125%N :: rest)) with (cnt true (w' ++ 125%N :: rest)).
      apply IH; [lia | exact Hw'].
    + change (cnt ne (10%N :: w' ++ 125%N :: rest)) with (S (cnt false (w' ++ 125%N :: rest))).
      apply le_S. apply IH; [lia | exact Hw'].
    + destruct w' as [|x' w''].
      * apply le_S. apply le_n.
      * cbn [length] in Hn. inversion Hw' as [|x0 w0 Hx' Hw'']. subst x0 w0.
        rewrite cnt_cons. cbn [app].
        change (simple_term 13) with false. change (13 =? 13)%N with true. cbv iota.
        destruct (x' =? 10)%N.
        -- apply le_S. apply IH; [lia | exact Hw''].
        -- apply le_S. apply (IH (x' :: w'')); [cbn [length]; lia | exact Hw'].
    + change (cnt ne (12%N :: w' ++ 125%N :: rest)) with (S (cnt false (w' ++ 125%N :: rest))).
      apply le_S. apply IH; [lia | exact Hw'].
    + change (cnt ne (11%N :: w' ++ 125%N :: rest)) with (S (cnt false (w' ++ 125%N :: rest))).
      apply le_S. apply IH; [lia | exact Hw'].
Qed.

(* 6.5 collapsing never adds a line *)
Lemma cnt_cons_collapse : forall n c r,
  (forall d, (length d <= n)%nat -> forall ne, (cnt ne (collapse d) <= cnt ne d)%nat) ->
  (length r <= n)%nat ->
  forall ne, (cnt ne (c :: collapse r) <= cnt ne (c :: r))%nat.
Proof.
  intros n c r IH Hlen ne. rewrite !cnt_cons.
  destruct (simple_term c); [apply le_n_S, IH; exact Hlen|].
  destruct (c =? 13)%N.
  { destruct r as [|c1 r1]; [rewrite collapse_nil; apply le_n|].
    destruct (collapse_head c1 r1) as (y & Hy & Hy').
    pose proof (IH (c1 :: r1) Hlen false) as IHr. rewrite Hy in IHr |- *.
    cbn [length] in Hlen.
    destruct (c1 =? 10)%N eqn:E10; [|apply le_n_S; exact IHr].
    apply N.eqb_eq in E10. subst c1. rewrite Hy' by discriminate.
    apply le_n_S, IH. lia. }
  destruct (c =? 194)%N.
  { destruct r as [|c1 r1]; [rewrite collapse_nil; apply le_n|].
    destruct (collapse_head c1 r1) as (y & Hy & Hy').
    pose proof (IH (c1 :: r1) Hlen true) as IHr. rewrite Hy in IHr |- *.
    cbn [length] in Hlen.
    destruct (c1 =? 133)%N eqn:E1; [|exact IHr].
    apply N.eqb_eq in E1. subst c1. rewrite Hy' by discriminate.
    apply le_n_S, IH. lia. }
  destruct (c =? 226)%N.
  { destruct r as [|c1 r1]; [rewrite collapse_nil; apply le_n|].
    destruct (collapse_head c1 r1) as (y & Hy & Hy').
    pose proof (IH (c1 :: r1) Hlen true) as IHr. rewrite Hy in IHr |- *.
    cbn [length] in Hlen.
    destruct (c1 =? 128)%N eqn:E1; [|exact IHr].
    apply N.eqb_eq in E1. subst c1. rewrite Hy' in IHr |- * by discriminate.
    destruct r1 as [|c2 r2]; [rewrite collapse_nil in IHr |- *; exact IHr|].
    destruct (collapse_head c2 r2) as (y2 & Hy2 & Hy2').
    rewrite Hy2 in IHr |- *. cbn [length] in Hlen.
    destruct ((c2 =? 168) || (c2 =? 169))%N eqn:E2; [|exact IHr].
    assert (Hc2 : c2 <> 123%N).
    { intros Hc. subst c2. discriminate E2. }
    rewrite (Hy2' Hc2). apply le_n_S, IH. lia. }
  apply IH. exact Hlen.
Qed.

Lemma cnt_collapse_aux : forall n d, (length d <= n)%nat ->
  forall ne, (cnt ne (collapse d) <= cnt ne d)%nat.
Proof.
  induction n as [|n IH]; intros d Hn ne; destruct d as [|c r].
  - apply le_n.
  - cbn [length] in Hn. lia.
  - apply le_n.
  - cbn [length] in Hn. rewrite collapse_cons.
    destruct (c =? 123)%N eqn:E123; [|apply (cnt_cons_collapse n c r IH); lia].
    destruct (ws_then_close r) as [k|] eqn:Ew; [|apply (cnt_cons_collapse n c r IH); lia].
    apply N.eqb_eq in E123. subst c.
    destruct (ws_then_close_spec r k Ew) as (w & rest & Hr & Hws & Hskip).
    rewrite Hskip. subst r.
    change (cnt ne ([123; 32; 125]%N ++ collapse rest)) with (cnt true (collapse rest)).
    change (cnt ne (123%N :: w ++ 125%N :: rest)) with (cnt true (w ++ 125%N :: rest)).
    apply Nat.le_trans with (cnt true rest).
    + apply IH. rewrite app_length in Hn. cbn [length] in Hn. lia.
    + apply (ws_skip (length w) w (le_n _) Hws).
Qed.

Lemma collapse_lines_le : forall d,
  (length (splitlines (collapse d)) <= length (splitlines d))%nat.
Proof.
  intros d. rewrite !splitlines_length. apply (cnt_collapse_aux (length d) d (le_n _)).
Qed.

(* 6.6 the corrected statement: all atoms reducible and the atoms are the lines of the region
   (what a line-mode load produces) *)
Lemma count_false_all_true : forall l, Forall (fun b => b = true) l -> count_false l = 0.
Proof.
  intros l H. unfold count_false. induction H as [|b l Hb _ IH]; [reflexivity|].
  subst b. cbn [filter negb]. exact IH.
Qed.

Lemma all_true_Forall : forall A (l : list A), Forall (fun b => b = true) (all_true l).
Proof.
  intros A l. unfold all_true. apply Forall_forall. intros b Hb.
  apply in_map_iff in Hb. destruct Hb as (x & Hx & _). symmetry. exact Hx.
Qed.

Lemma collapse_line_post_ok_corrected :
  forall best raw r, wf best ->
    Forall (fun b => b = true) (tc_red best) ->
    tc_parts best = splitlines (concat (tc_parts best)) ->
    collapse_post split_line best = Some (raw, r) ->
    exists t', r = Ok t' /\ wf t' /\ tc_len t' <= tc_len best /\
               Forall (fun b => b = true) (tc_red t') /\
               tc_parts t' = splitlines (concat (tc_parts t')).
Proof.
  intros best raw r Hwf Hred Hparts Hp.
  destruct (collapse_post_shape split_line best raw r Hp) as (m & Hraw & Hr).
  unfold collapse_post in Hp. cbv zeta in Hp.
  destruct (bytes_eqb (concat (tc_parts best)) (collapse (concat (tc_parts best))));
    [discriminate Hp|].
  injection Hp as _ Hr2. clear Hr m Hraw.
  unfold split_line in Hr2. cbn [bind sp_before sp_parts sp_red sp_after] in Hr2.
  eexists. split; [symmetry; exact Hr2|]. cbn [tc_parts tc_red].
  split; [apply all_true_length|]. split; [|split].
  - unfold tc_len. cbn [tc_parts tc_red].
    rewrite (count_false_all_true _ (all_true_Forall _ _)), (count_false_all_true _ Hred).
    rewrite Hparts at 2. unfold zlen.
    pose proof (collapse_lines_le (concat (tc_parts best))) as Hle. unfold bytes in *. lia.
  - apply all_true_Forall.
  - rewrite splitlines_concat. reflexivity.
Qed.

(* 6.7 a hypothesis that survives deletions: every atom is at most one line (the atoms of a
   line-mode testcase stay single lines when other atoms are removed, but their concatenation
   may re-split differently: "a\r" + "\n").  Needs: the line count is subadditive. *)
Lemma cnt_cons_ne : forall ne1 ne2 b r, cnt ne1 (b :: r) = cnt ne2 (b :: r).
Proof. reflexivity. Qed.

Lemma cnt_false_le_true : forall d, (cnt false d <= cnt true d)%nat.
Proof. intros [|b r]; [cbn [cnt]; lia | rewrite (cnt_cons_ne false true); apply le_n]. Qed.

Lemma cnt_true_le_S : forall d, (cnt true d <= S (cnt false d))%nat.
Proof. intros [|b r]; [cbn [cnt]; lia | rewrite (cnt_cons_ne false true); apply le_S, le_n]. Qed.

Lemma cnt_app_aux : forall n a, (length a <= n)%nat ->
  forall ne b, (cnt ne (a ++ b) <= cnt ne a + cnt false b)%nat.
Proof.
  induction n as [|n IH]; intros a Hn ne b; destruct a as [|c r].
  - cbn [app]. destruct ne; [apply cnt_true_le_S | apply le_n].
  - cbn [length] in Hn. lia.
  - cbn [app]. destruct ne; [apply cnt_true_le_S | apply le_n].
  - cbn [length] in Hn. cbn [app]. rewrite (cnt_cons ne c (r ++ b)), (cnt_cons ne c r).
    destruct (simple_term c).
    { pose proof (IH r ltac:(lia) false b). lia. }
    destruct (c =? 13)%N.
    { destruct r as [|c1 r1]; cbn [app].
      - destruct b as [|c' b']; [cbn [cnt]; lia|].
        destruct (c' =? 10)%N eqn:E; [|lia].
        apply N.eqb_eq in E. subst c'.
        change (cnt false (10%N :: b')) with (S (cnt false b')). lia.
      - cbn [length] in Hn. destruct (c1 =? 10)%N.
        + pose proof (IH r1 ltac:(lia) false b). lia.
        + pose proof (IH (c1 :: r1) ltac:(cbn [length]; lia) false b) as H.
          cbn [app] in H. lia. }
    destruct (c =? 194)%N.
    { destruct r as [|c1 r1]; cbn [app].
      - change (cnt true []) with 1%nat.
        destruct b as [|c' b']; [cbn [cnt]; lia|].
        destruct (c' =? 133)%N eqn:E; [|pose proof (cnt_true_le_S (c' :: b')); lia].
        apply N.eqb_eq in E. subst c'.
        change (cnt false (133%N :: b')) with (cnt true b').
        pose proof (cnt_false_le_true b'). lia.
      - cbn [length] in Hn. destruct (c1 =? 133)%N.
        + pose proof (IH r1 ltac:(lia) false b). lia.
        + pose proof (IH (c1 :: r1) ltac:(cbn [length]; lia) true b) as H.
          cbn [app] in H. lia. }
    destruct (c =? 226)%N.
    { destruct r as [|c1 r1]; cbn [app].
      - change (cnt true []) with 1%nat.
        destruct b as [|c1 b1]; [cbn [cnt]; lia|].
        pose proof (cnt_true_le_S (c1 :: b1)) as Hb.
        destruct (c1 =? 128)%N eqn:E1; [|lia].
        destruct b1 as [|c2 b2]; [lia|].
        destruct ((c2 =? 168) || (c2 =? 169))%N eqn:E2; [|lia].
        apply N.eqb_eq in E1. subst c1.
        pose proof (cnt_false_le_true b2) as Hb2.
        apply orb_true_iff in E2. destruct E2 as [E2|E2]; apply N.eqb_eq in E2; subst c2.
        + change (cnt false (128%N :: 168%N :: b2)) with (cnt true b2). lia.
        + change (cnt false (128%N :: 169%N :: b2)) with (cnt true b2). lia.
      - cbn [length] in Hn.
        pose proof (IH (c1 :: r1) ltac:(cbn [length]; lia) true b) as Hr. cbn [app] in Hr.
        destruct (c1 =? 128)%N eqn:E1; [|lia].
        apply N.eqb_eq in E1. subst c1.
        destruct r1 as [|c2 r2]; cbn [app] in Hr |- *.
        + change (cnt true [128%N]) with 1%nat in Hr |- *.
          destruct b as [|c2 b2]; [vm_compute; lia|].
          destruct ((c2 =? 168) || (c2 =? 169))%N eqn:E2; [|lia].
          pose proof (cnt_false_le_true b2) as Hb2.
          apply orb_true_iff in E2. destruct E2 as [E2|E2]; apply N.eqb_eq in E2; subst c2.
          * change (cnt false (168%N :: b2)) with (cnt true b2). lia.
          * change (cnt false (169%N :: b2)) with (cnt true b2). lia.
        + cbn [length] in Hn. destruct ((c2 =? 168) || (c2 =? 169))%N; [|lia].
          pose proof (IH r2 ltac:(lia) false b). lia. }
    pose proof (IH r ltac:(lia) true b). lia.
Qed.

Lemma cnt_app : forall a b ne, (cnt ne (a ++ b) <= cnt ne a + cnt false b)%nat.
Proof. intros a b ne. apply (cnt_app_aux (length a) a (le_n _)). Qed.

Lemma cnt_concat_le : forall ps : list bytes,
  Forall (fun p => (length (splitlines p) <= 1)%nat) ps ->
  (cnt false (concat ps) <= length ps)%nat.
Proof.
  intros ps H. induction H as [|p ps Hp _ IH]; [apply le_n|].
  cbn [concat length]. rewrite splitlines_length in Hp.
  pose proof (cnt_app p (concat ps) false). lia.
Qed.

Lemma collapse_line_post_ok_corrected_lines :
  forall best raw r, wf best ->
    Forall (fun b => b = true) (tc_red best) ->
    Forall (fun p => (length (splitlines p) <= 1)%nat) (tc_parts best) ->
    collapse_post split_line best = Some (raw, r) ->
    exists t', r = Ok t' /\ wf t' /\ tc_len t' <= tc_len best /\
               Forall (fun b => b = true) (tc_red t').
Proof.
  intros best raw r Hwf Hred Hparts Hp.
  unfold collapse_post in Hp. cbv zeta in Hp.
  destruct (bytes_eqb (concat (tc_parts best)) (collapse (concat (tc_parts best))));
    [discriminate Hp|].
  injection Hp as _ Hr2.
  unfold split_line in Hr2. cbn [bind sp_before sp_parts sp_red sp_after] in Hr2.
  eexists. split; [symmetry; exact Hr2|]. cbn [tc_parts tc_red].
  split; [apply all_true_length|]. split.
  - unfold tc_len. cbn [tc_parts tc_red].
    rewrite (count_false_all_true _ (all_true_Forall _ _)), (count_false_all_true _ Hred).
    unfold zlen.
    pose proof (collapse_lines_le (concat (tc_parts best))) as Hle.
    pose proof (cnt_concat_le _ Hparts) as Hc. rewrite <- splitlines_length in Hc.
    unfold bytes in *. lia.
  - apply all_true_Forall.
Qed.

Print Assumptions frame_runs_keep_frame.
Print Assumptions deleting_is_frame_preserving.
Print Assumptions collapse_is_frame_preserving.
Print Assumptions loaded_is_framed.
Print Assumptions loaded_char_is_framed.
Print Assumptions minimize_loaded_keeps_frame.
Print Assumptions pairs_loaded_keeps_frame.
Print Assumptions collapse_loaded_keeps_frame.
Print Assumptions collapse_line_post_ok_counterexample.
Print Assumptions collapse_line_post_ok_counterexample_all_true.
Print Assumptions collapse_line_post_ok_corrected.
Print Assumptions collapse_line_post_ok_corrected_lines.
